/-!
# Model/Html — SSR printer of tachys and an HTML parser subset (C06; reused by C05 C07 C18)

Representation (stated once): a string is `Str = List Char` (a list of Unicode scalar
values; Rust `String`/`&str` is exactly that, and both `html_escape` and the WHATWG
tokenizer only ever inspect ASCII code points, so nothing depends on the UTF-8 bytes).

## Part 1 — escaping (html-escape 0.2.13, src/encode/html_entity/mod.rs)
* `textTable` / `escapeText`  — macro `escape_text` / `encode_text`
                                 (used by tachys/src/view/strings.rs `to_html_with_buf`).
* `attrTable` / `escapeAttr`  — macro `escape_double_quote` / `encode_double_quoted_attribute`
                                 (= `escape_attr`, tachys/src/html/attribute/value.rs).

## Part 2 — views and the sync `to_html()` printer (tachys)
* `Attr`         — `.attr(k, String)` (`plain`), `.attr(k, bool)` (`bool`), `.class(String)` (`cls`),
                   `.class((name, bool))` (`clsToggle`), `.style(String)` (`style`),
                   `.style((name, value))` (`styleKV`), `.inner_html(String)` (`innerHtml`):
                   html/attribute/value.rs, custom.rs, class.rs, style.rs, element/inner_html.rs.
* `Node`         — `text s` (String/&str view), `elem tag attrs kids` (`HtmlElement`).
* `isVoid`, `escapeChildren` — `SELF_CLOSING`, `ESCAPE_CHILDREN` of html/element/elements.rs
                   (custom elements: not void, escaping).
* `attrsHtml` / `innerBuf` — `attributes_to_html` (html/element/mod.rs): plain attributes in order, then
                   ` class="…"` over the trimmed class buffer, then ` style="…"`; `inner_html` buffer.
* `textHtml`     — `<&str as RenderHtml>::to_html_with_buf` (view/strings.rs): `<!>` after a text
                   sibling, `' '` for the empty string, `encode_text` iff `escape`.
* `nodeHtml`/`kidsHtml`/`toHtml` — `HtmlElement::to_html_with_buf`, tuple children (view/tuples.rs),
                   `RenderHtml::to_html` (view/mod.rs) with `Position::FirstChild`.
* `headHtml`     — `ServerMetaContextOutput::inject_meta_context` (meta/src/lib.rs) restricted to the
                   text it inserts into `<head>`: `<title>` + `encode_text(title)` + `</title>`, the
                   `<!--HEAD-->` marker, then the registered `<meta>` tags.  `headHtmlOld`: the code
                   before the repair of F-C06-2 (title pushed raw), kept for the regression witness.

* `titleAsString` — `TitleContext::as_string` (meta/src/title.rs): innermost text through innermost formatter.
* `docHtmlImpl`  — the whole first chunk as `inject_meta_context` builds it, including the string searches
                   `find("<html")` / `find("<body")` that place the `<Html/>` / `<Body/>` attribute strings
                   (`bodyAttrsAfterHead`: code as it is vs. after hooks/fix-c06-2.patch).
* `islandOpen`, `VNode.island`, `VNode.islandChildren` — `Island::open_tag` / `IslandChildren`
                   (tachys/src/html/islands.rs): the only attribute tachys writes by hand on the SSR path
                   (`data-props` through `encode_double_quoted_attribute`; `data-component` is program text).
                   Other hand-written `="`: `StaticAttr` (nightly const generics, macro side: C18), `ToTemplate`
                   (client-side `<template>`), ssr/mod.rs `<template id=…>` / `<script nonce=…>` (streaming: C07).

## Part 3 — `parse`: a subset of the WHATWG tokenizer + "in body" tree builder (scripting enabled)
One character is consumed per `step`; `run` is structurally recursive on the input, so closed
instances reduce by `decide`.  Tokenizer states covered: data, RCDATA (`title`, `textarea`),
RAWTEXT (`style`, `noscript`), script data, tag open, end tag open, tag name, RCDATA/RAWTEXT/script
less-than sign / end tag open / end tag name, before/after attribute name, attribute name,
before attribute value, attribute value (double-quoted, single-quoted, unquoted), after attribute
value (quoted), self-closing start tag, bogus comment, markup declaration open, all comment states,
character reference / named / numeric (decimal, hex) in data, RCDATA and attribute values.

**Subset boundary** (`parse = none`; theorems have the form `parse (toHtml v) = some …`, so leaving
the subset can only make a theorem fail):
* every parse error of the standard except *incorrectly-opened-comment* (`<!>`, `<!x…>`) and
  *invalid-first-character-of-tag-name* / *eof-before-tag-name* (`<` followed by something that cannot
  start a tag, or by the end of input, is a `<` character: tachys prints `char` children raw), e.g.
  U+0000 anywhere, `<?`, duplicate attribute, `"`/`'`/`<` in an attribute name,
  missing whitespace between attributes, `/>` on a non-void element, character reference without
  `;`, numeric reference to 0 / surrogate / > 10FFFF / control / noncharacter, `-->` variants that
  are errors, end tag that does not match the current node, EOF with open elements or inside a tag;
* U+000D (the newline-normalising preprocessing step is not modelled);
  (the other input-stream errors — control-character / noncharacter-in-input-stream — are reported by the
  standard but leave the code points unchanged, so they are not treated as leaving the subset)
* named references other than `amp lt gt quot apos` (incl. every legacy name without `;`) and
  `&` followed by an ASCII alphanumeric that does not complete one of them;
* `<!d…`, `<!D…`, `<![…` (DOCTYPE, CDATA), `<?`;
* inside script data: `<!` (the escaped / double-escaped states are approximated by `none`);
* an appropriate end tag followed by whitespace or `/` inside RCDATA/RAWTEXT/script;
* elements outside the table `kind` (tables, select, template, svg/math, iframe, pre, li, …) and
  start tags the tree builder would not simply insert: a `p`-closing tag while a `p` is open,
  `a` inside `a`, `button` inside `button`, a heading directly inside a heading.
On everything else `parse` follows the standard (a line feed directly after `<textarea>` is dropped by
the tree builder): adjacent character tokens merge into one text node,
comments are kept as nodes, attribute and tag names are lower-cased.
-/
namespace Leptos.Html

abbrev Str := List Char

/-! ## Part 1 — escaping -/

def textTable : List (Char × Str) :=
  [('&', ['&', 'a', 'm', 'p', ';']), ('<', ['&', 'l', 't', ';']), ('>', ['&', 'g', 't', ';'])]

def attrTable : List (Char × Str) :=
  [('&', ['&', 'a', 'm', 'p', ';']), ('<', ['&', 'l', 't', ';']), ('>', ['&', 'g', 't', ';']),
   ('"', ['&', 'q', 'u', 'o', 't', ';'])]

/-- association-list lookup with propositional equality (reduces under `simp` and `decide`) -/
def assoc {α β : Type} [DecidableEq α] (k : α) : List (α × β) → Option β
  | [] => none
  | (a, b) :: r => if k = a then some b else assoc k r

def entityOf (tbl : List (Char × Str)) (c : Char) : Str :=
  match assoc c tbl with
  | some e => e
  | none => [c]

def escapeWith (tbl : List (Char × Str)) : Str → Str
  | [] => []
  | c :: cs => entityOf tbl c ++ escapeWith tbl cs

/-- `html_escape::encode_text` -/
def escapeText (s : Str) : Str := escapeWith textTable s

/-- `escape_attr` = `html_escape::encode_double_quoted_attribute` -/
def escapeAttr (s : Str) : Str := escapeWith attrTable s

/-! ## Part 2 — views and printer -/

inductive Attr where
  | plain (name value : Str)
  | bool (name : Str) (on : Bool)
  | cls (value : Str)
  | clsToggle (name : Str) (on : Bool)
  | style (value : Str)
  | styleKV (name value : Str)
  | innerHtml (raw : Str)
  deriving DecidableEq, Repr

inductive Node where
  | text (s : Str)
  | elem (tag : Str) (attrs : List Attr) (kids : List Node)
  deriving Repr

/-- `Position` as far as the sync path distinguishes it -/
inductive Pos where
  | firstChild | nextChild | afterText
  deriving DecidableEq, Repr

/-- tags with `SELF_CLOSING = true` (elements.rs `html_self_closing_elements!`) -/
def voidTags : List Str :=
  [['a','r','e','a'], ['b','a','s','e'], ['b','r'], ['c','o','l'], ['e','m','b','e','d'], ['h','r'],
   ['i','m','g'], ['i','n','p','u','t'], ['l','i','n','k'], ['m','e','t','a'],
   ['s','o','u','r','c','e'], ['t','r','a','c','k'], ['w','b','r']]

def tTitle : Str := ['t','i','t','l','e']
def tTextarea : Str := ['t','e','x','t','a','r','e','a']
def tStyle : Str := ['s','t','y','l','e']
def tNoscript : Str := ['n','o','s','c','r','i','p','t']
def tScript : Str := ['s','c','r','i','p','t']

/-- tags with `ESCAPE_CHILDREN = false` (elements.rs) -/
def rawTags : List Str := [tNoscript, tScript, tStyle, tTextarea]

def isVoid (t : Str) : Bool := voidTags.contains t
def escapeChildren (t : Str) : Bool := !rawTags.contains t

/-- Unicode `White_Space` (what `str::trim_start/trim_end` strip) -/
def isUniWs (c : Char) : Bool :=
  let n := c.toNat
  (9 ≤ n && n ≤ 13) || n = 32 || n = 0x85 || n = 0xA0 || n = 0x1680 || (0x2000 ≤ n && n ≤ 0x200A) ||
  n = 0x2028 || n = 0x2029 || n = 0x202F || n = 0x205F || n = 0x3000

def trim (s : Str) : Str := ((s.dropWhile isUniWs).reverse.dropWhile isUniWs).reverse

/-- the `buf` part of `Attribute::to_html`: ordinary attributes, in order -/
def plainPart : List Attr → Str
  | [] => []
  | .plain n v :: r => ' ' :: n ++ '=' :: '"' :: escapeAttr v ++ '"' :: plainPart r
  | .bool n true :: r => ' ' :: n ++ plainPart r
  | _ :: r => plainPart r

/-- the `class` buffer: `Class::to_html` pushes `' '` and then the value (nothing for `(name, false)`) -/
def classBuf : List Attr → Str
  | [] => []
  | .cls v :: r => ' ' :: v ++ classBuf r
  | .clsToggle n on :: r => ' ' :: (if on then n else []) ++ classBuf r
  | _ :: r => classBuf r

/-- the `style` buffer: `value;` or `name:value;` -/
def styleBuf : List Attr → Str
  | [] => []
  | .style v :: r => v ++ ';' :: styleBuf r
  | .styleKV n v :: r => n ++ ':' :: v ++ ';' :: styleBuf r
  | _ :: r => styleBuf r

def innerBuf : List Attr → Str
  | [] => []
  | .innerHtml raw :: r => raw ++ innerBuf r
  | _ :: r => innerBuf r

def quoted (name value : Str) : Str := ' ' :: name ++ '=' :: '"' :: escapeAttr value ++ ['"']

def sClass : Str := ['c','l','a','s','s']
def sStyle : Str := ['s','t','y','l','e']

/-- `attributes_to_html` (what it pushes into `buf`) -/
def attrsHtml (attrs : List Attr) : Str :=
  plainPart attrs ++
  (if classBuf attrs = [] then [] else quoted sClass (trim (classBuf attrs))) ++
  (if styleBuf attrs = [] then [] else quoted sStyle (trim (styleBuf attrs)))

/-- `<&str as RenderHtml>::to_html_with_buf` -/
def textHtml (escape : Bool) (pos : Pos) (s : Str) : Str :=
  (if pos = .afterText then ['<', '!', '>'] else []) ++
  (if escape then (if s = [] then [' '] else escapeText s) else s)

/-- have the children of `<textarea>` (RCDATA) been rendered as escaped text?  `false`: the code as it
is (`ESCAPE_CHILDREN = false`: pushed raw, F-C06-1); `true`: after hooks/fix-c06-3.patch
(`HtmlElement::to_html_with_buf` renders them without markers and passes the result through
`encode_text`).  Flip when the fix is applied. -/
def textareaEscaped : Bool := true

/-- is a line feed at the start of the textarea text doubled (the parser drops the first one)?
`true` after hooks/fix-c06-4.patch (which builds on fix-c06-3).  Flip when the fix is applied. -/
def textareaLfGuard : Bool := true

def cLf' : Char := Char.ofNat 10

/-- the text between `<textarea>` and `</textarea>`, given what the children print without escaping -/
def textareaBody (escaped guard : Bool) (inner : Str) : Str :=
  if escaped then
    (if guard && inner.head? = some cLf' then [cLf'] else []) ++ escapeText inner
  else inner

/-- children part of an element: `<textarea>` goes through `textareaBody` -/
def elemBody (tag : Str) (raw : Str) : Str :=
  if tag = tTextarea then textareaBody textareaEscaped textareaLfGuard raw else raw

def posAfter : Node → Pos
  | .text _ => .afterText
  | .elem .. => .nextChild

mutual
/-- `to_html_with_buf` of a text view / an `HtmlElement`.  (Basic embedding, shared with C05/C18: the
children of `<textarea>` are printed as they are — the code before hooks/fix-c06-3.patch; the extended
embedding `VNode` / `vHtml` follows the repair through `elemBody`.) -/
def nodeHtml (escape : Bool) (pos : Pos) : Node → Str
  | .text s => textHtml escape pos s
  | .elem tag attrs kids =>
    '<' :: tag ++ attrsHtml attrs ++ '>' ::
      (if isVoid tag then []
       else (if innerBuf attrs = [] then kidsHtml (escapeChildren tag) .firstChild kids else innerBuf attrs)
            ++ '<' :: '/' :: tag ++ ['>'])
/-- children as a tuple: rendered in sequence, `position` threaded -/
def kidsHtml (escape : Bool) (pos : Pos) : List Node → Str
  | [] => []
  | n :: ns => nodeHtml escape pos n ++ kidsHtml escape (posAfter n) ns
end

/-- `RenderHtml::to_html` of a tuple of views -/
def toHtml (v : List Node) : Str := kidsHtml true .firstChild v

def sHeadMarker : Str := ['<','!','-','-','H','E','A','D','-','-','>']

/-- text inserted into `<head>` by `inject_meta_context`: the title escaped with `encode_text` (since
`fix: escape the document title …`), the marker, the registered tags -/
def headHtml (title : Option Str) (metas : List Node) : Str :=
  (match title with
   | some t => '<' :: tTitle ++ '>' :: escapeText t ++ '<' :: '/' :: tTitle ++ ['>']
   | none => []) ++ sHeadMarker ++ kidsHtml false .nextChild metas

/-- `TitleContext::as_string` (meta/src/title.rs): the text of the innermost `<Title text=…/>`, passed
through the innermost `<Title formatter=…/>`; formatters are modelled as `fun t => pre ++ t ++ post` -/
def titleAsString (texts : List Str) (formatters : List (Str × Str)) : Option Str :=
  match texts.getLast? with
  | none => none
  | some t =>
    match formatters.getLast? with
    | none => some t
    | some (pre, post) => some (pre ++ t ++ post)

def sShellOpen : Str := ['<','!','D','O','C','T','Y','P','E',' ','h','t','m','l','>','<','h','t','m','l']
def sShellHead : Str := ['>','<','h','e','a','d','>']
def sShellBody : Str := ['<','/','h','e','a','d','>','<','b','o','d','y']
def sShellEnd : Str := ['>','<','/','b','o','d','y','>','<','/','h','t','m','l','>']

/-- the first chunk `<!DOCTYPE html><html><head><!--HEAD--></head><body></body></html>` after
`inject_meta_context`: attributes sent by `<Html/>` (meta/src/html.rs: `attributes_to_html`) right after
`<html`, title / marker / registered tags in the head, attributes sent by `<Body/>` after `<body` -/
def docHtml (htmlAttrs : List Attr) (title : Option Str) (metas : List Node) (bodyAttrs : List Attr) : Str :=
  sShellOpen ++ attrsHtml htmlAttrs ++ sShellHead ++ headHtml title metas ++ sShellBody ++
    attrsHtml bodyAttrs ++ sShellEnd

/-- `s.find(pat)` + `insert_str` right after the match; unchanged when `pat` does not occur -/
def insertAfterFirst (pat ins : Str) : Str → Str
  | [] => []
  | c :: cs =>
    if pat.isPrefixOf (c :: cs) then pat ++ ins ++ (c :: cs).drop pat.length
    else c :: insertAfterFirst pat ins cs

def sLtHtml : Str := ['<','h','t','m','l']
def sLtBody : Str := ['<','b','o','d','y']
def sShellPre : Str := ['<','!','D','O','C','T','Y','P','E',' ','h','t','m','l','>','<','h','t','m','l','>','<','h','e','a','d','>']
def sShellPost : Str := ['<','/','h','e','a','d','>','<','b','o','d','y','>','<','/','b','o','d','y','>','<','/','h','t','m','l','>']

/-- does `inject_meta_context` look for `<body` only behind the head it has just written?
`false`: the code as it is (F-C06-5: `modified_chunk.find("<body")` over the whole chunk, so a `<body`
inside text registered into the head — the content of a `<Script/>` or `<Style/>` — takes the
attributes); `true`: after `hooks/fix-c06-2.patch`.  Flip when the fix is applied. -/
def bodyAttrsAfterHead : Bool := true

/-- the first chunk after `inject_meta_context`, exactly as the code builds it: head insertion, then the
`<Html/>` attribute strings after the first `<html`, then the `<Body/>` attribute strings after the
first `<body` (of the whole chunk, or of the part behind the head) -/
def docHtmlImpl (afterHead : Bool) (hs : Str) (title : Option Str) (metas : List Node) (bs : Str) : Str :=
  if afterHead then
    insertAfterFirst sLtHtml hs (sShellPre ++ headHtml title metas) ++ insertAfterFirst sLtBody bs sShellPost
  else
    insertAfterFirst sLtBody bs (insertAfterFirst sLtHtml hs (sShellPre ++ headHtml title metas ++ sShellPost))

def tProbe : Str := ['x','-','a']

/-- an attribute string as the tokenizer sees it after any tag name: `<x-a` ++ attrs ++ `></x-a>` -/
def attrsProbe (attrs : List Attr) : Str := '<' :: tProbe ++ attrsHtml attrs ++ '>' :: '<' :: '/' :: tProbe ++ ['>']

/-- `inject_meta_context` before the repair of F-C06-2: the title was pushed as it is -/
def headHtmlOld (title : Option Str) (metas : List Node) : Str :=
  (match title with
   | some t => '<' :: tTitle ++ '>' :: t ++ '<' :: '/' :: tTitle ++ ['>']
   | none => []) ++ sHeadMarker ++ kidsHtml false .nextChild metas

/-! ## Part 3 — parser -/

inductive Tree where
  | text (s : Str)
  | comment (s : Str)
  | elem (tag : Str) (attrs : List (Str × Str)) (kids : List Tree)
  deriving Repr

mutual
def Tree.decEq : (a b : Tree) → Decidable (a = b)
  | .text s, .text t => if h : s = t then isTrue (by rw [h]) else isFalse (by intro e; cases e; exact h rfl)
  | .comment s, .comment t =>
    if h : s = t then isTrue (by rw [h]) else isFalse (by intro e; cases e; exact h rfl)
  | .elem t1 a1 k1, .elem t2 a2 k2 =>
    if ht : t1 = t2 then
      if ha : a1 = a2 then
        match Tree.decEqList k1 k2 with
        | isTrue hk => isTrue (by rw [ht, ha, hk])
        | isFalse hk => isFalse (by intro e; cases e; exact hk rfl)
      else isFalse (by intro e; cases e; exact ha rfl)
    else isFalse (by intro e; cases e; exact ht rfl)
  | .text _, .comment _ => isFalse (by intro e; cases e)
  | .text _, .elem .. => isFalse (by intro e; cases e)
  | .comment _, .text _ => isFalse (by intro e; cases e)
  | .comment _, .elem .. => isFalse (by intro e; cases e)
  | .elem .., .text _ => isFalse (by intro e; cases e)
  | .elem .., .comment _ => isFalse (by intro e; cases e)
def Tree.decEqList : (a b : List Tree) → Decidable (a = b)
  | [], [] => isTrue rfl
  | [], _ :: _ => isFalse (by intro e; cases e)
  | _ :: _, [] => isFalse (by intro e; cases e)
  | x :: xs, y :: ys =>
    match Tree.decEq x y with
    | isTrue hx =>
      match Tree.decEqList xs ys with
      | isTrue hs => isTrue (by rw [hx, hs])
      | isFalse hs => isFalse (by intro e; cases e; exact hs rfl)
    | isFalse hx => isFalse (by intro e; cases e; exact hx rfl)
end

instance : DecidableEq Tree := Tree.decEq

/-! ### character classes (ASCII, as the tokenizer uses them) -/

def cNul : Char := Char.ofNat 0
def cTab : Char := Char.ofNat 9
def cLf : Char := Char.ofNat 10
def cFf : Char := Char.ofNat 12
def cCr : Char := Char.ofNat 13

/-- ASCII whitespace of the tokenizer; U+000D never reaches a state (see `step`) -/
def isWs (c : Char) : Bool := c = ' ' || c = cTab || c = cLf || c = cFf
def isUpper (c : Char) : Bool := 65 ≤ c.toNat && c.toNat ≤ 90
def isLowerAlpha (c : Char) : Bool := 97 ≤ c.toNat && c.toNat ≤ 122
def isDigit (c : Char) : Bool := 48 ≤ c.toNat && c.toNat ≤ 57
def isAlpha (c : Char) : Bool := isUpper c || isLowerAlpha c
def isAlnum (c : Char) : Bool := isAlpha c || isDigit c
def lower (c : Char) : Char := if isUpper c then Char.ofNat (c.toNat + 32) else c

def decVal (c : Char) : Option Nat := if isDigit c then some (c.toNat - 48) else none
def hexVal (c : Char) : Option Nat :=
  if isDigit c then some (c.toNat - 48)
  else if 65 ≤ c.toNat && c.toNat ≤ 70 then some (c.toNat - 55)
  else if 97 ≤ c.toNat && c.toNat ≤ 102 then some (c.toNat - 87)
  else none

/-! ### element table of the tree builder (from the standard, not from tachys) -/

inductive Kind where
  | void | rcdata | rawtext | script | generic | unsupported
  deriving DecidableEq, Repr

/-- void elements the "in body" mode simply inserts -/
def pVoidTags : List Str :=
  [['a','r','e','a'], ['b','a','s','e'], ['b','r'], ['e','m','b','e','d'], ['h','r'],
   ['i','m','g'], ['i','n','p','u','t'], ['l','i','n','k'], ['m','e','t','a'],
   ['s','o','u','r','c','e'], ['t','r','a','c','k'], ['w','b','r']]

def tP : Str := ['p']
def tA : Str := ['a']
def tButton : Str := ['b','u','t','t','o','n']
def tH1 : Str := ['h','1']
def tH2 : Str := ['h','2']
def tH3 : Str := ['h','3']
def tHr : Str := ['h','r']

/-- ordinary containers: start tag = "insert an HTML element" (after closing an open `p` for the
block-level ones), end tag = pop -/
def genericTags : List Str :=
  [['d','i','v'], ['s','p','a','n'], ['s','e','c','t','i','o','n'], ['a','r','t','i','c','l','e'],
   ['m','a','i','n'], ['h','e','a','d','e','r'], ['f','o','o','t','e','r'], ['a','s','i','d','e'],
   ['n','a','v'], ['b','l','o','c','k','q','u','o','t','e'], ['f','i','g','u','r','e'],
   ['l','a','b','e','l'], ['b'], ['i'], ['e','m'], ['s','t','r','o','n','g'], ['s','m','a','l','l'],
   ['c','o','d','e'], tP, tA, tH1, tH2, tH3, tButton]

/-- start tags that first close an open `p` -/
def pClosers : List Str :=
  [['d','i','v'], ['s','e','c','t','i','o','n'], ['a','r','t','i','c','l','e'], ['m','a','i','n'],
   ['h','e','a','d','e','r'], ['f','o','o','t','e','r'], ['a','s','i','d','e'], ['n','a','v'],
   ['b','l','o','c','k','q','u','o','t','e'], ['f','i','g','u','r','e'], tP, tH1, tH2, tH3, tHr]

def headings : List Str := [tH1, tH2, tH3]

def nameChar (c : Char) : Bool := isLowerAlpha c || isDigit c || c = '-'

/-- a valid custom element name as far as the tokenizer and tree builder care -/
def isCustomTag : Str → Bool
  | [] => false
  | c :: cs => isLowerAlpha c && cs.all nameChar && cs.contains '-'

def kind (t : Str) : Kind :=
  if pVoidTags.contains t then .void
  else if t = tTitle || t = tTextarea then .rcdata
  else if t = tStyle || t = tNoscript then .rawtext
  else if t = tScript then .script
  else if genericTags.contains t || isCustomTag t then .generic
  else .unsupported

/-- would the tree builder do anything but "insert" for this start tag, given the open elements
(innermost first)?  conservative (see header) -/
def nestOK (t : Str) (anc : List Str) : Bool :=
  !(pClosers.contains t && anc.contains tP) &&
  !(t = tA && anc.contains tA) &&
  !(t = tButton && anc.contains tButton) &&
  !(headings.contains t && (match anc with | a :: _ => headings.contains a | [] => false))

/-! ### parser state -/

structure Frame where
  tag : Str
  attrs : List (Str × Str)
  kidsRev : List Tree      -- children so far, last one first
  deriving Repr

structure TagTok where
  name : Str
  attrs : List (Str × Str)
  deriving Repr

inductive CRef where
  | start | named (buf : Str) | numStart | hexStart | hex (n : Nat) | dec (n : Nat)
  deriving Repr

inductive Quote where
  | dq | sq | uq
  deriving DecidableEq, Repr

inductive Tok where
  | text | textSkipLf
  | cref (r : CRef)
  | tagOpen | endTagOpen
  | tagName (t : Str)
  | endTagName (t : Str) | endTagAfterName (t : Str)
  | beforeAttrName (tg : TagTok)
  | attrName (tg : TagTok) (n : Str)
  | afterAttrName (tg : TagTok) (n : Str)
  | beforeAttrValue (tg : TagTok) (n : Str)
  | attrVal (q : Quote) (tg : TagTok) (n v : Str)
  | attrCref (q : Quote) (tg : TagTok) (n v : Str) (r : CRef)
  | afterAttrValQ (tg : TagTok)
  | selfClosing (tg : TagTok)
  | markupDeclOpen | markupDeclDash
  | bogusComment (d : Str)
  | commentStart | commentStartDash
  | comment (d : Str) | commentLt (d : Str) | commentLtBang (d : Str) | commentLtBangDash (d : Str)
  | commentLtBangDashDash (d : Str)
  | commentEndDash (d : Str) | commentEnd (d : Str) | commentEndBang (d : Str)
  | rawLt | rawEndOpen | rawEndName (buf : Str)
  deriving Repr

structure PState where
  tok : Tok
  stack : List Frame       -- open elements, current node first; the last frame is the root
  deriving Repr

inductive Mode where
  | data | rcdata | rawtext | script
  deriving DecidableEq, Repr

def modeOfTag (t : Str) : Mode :=
  match kind t with
  | .rcdata => .rcdata
  | .rawtext => .rawtext
  | .script => .script
  | _ => .data

def curMode : List Frame → Mode
  | [] => .data
  | f :: _ => modeOfTag f.tag

def curTag : List Frame → Str
  | [] => []
  | f :: _ => f.tag

def pushTree (t : Tree) : List Frame → Option (List Frame)
  | [] => none
  | f :: fs => some ({ f with kidsRev := t :: f.kidsRev } :: fs)

/-- insert a character: appended to the last child if that is a text node -/
def pushCharKids (c : Char) : List Tree → List Tree
  | .text s :: r => .text (s ++ [c]) :: r
  | r => .text [c] :: r

def emitChar (c : Char) : List Frame → Option (List Frame)
  | [] => none
  | f :: fs => some ({ f with kidsRev := pushCharKids c f.kidsRev } :: fs)

def emitStr : Str → List Frame → Option (List Frame)
  | [], st => some st
  | c :: cs, st =>
    match emitChar c st with
    | some st' => emitStr cs st'
    | none => none

/-! ### character references -/

def namedRefs : List (Str × Char) :=
  [(['a','m','p'], '&'), (['l','t'], '<'), (['g','t'], '>'), (['q','u','o','t'], '"'),
   (['a','p','o','s'], '\'')]

def isNonchar (n : Nat) : Bool := (0xFDD0 ≤ n && n ≤ 0xFDEF) || n % 0x10000 = 0xFFFE || n % 0x10000 = 0xFFFF

/-- numeric references that resolve without a parse error -/
def validCodepoint (n : Nat) : Bool :=
  (n = 9 || n = 10 || n = 12 || (0x20 ≤ n && n ≤ 0x7E) || 0xA0 ≤ n) && n ≤ 0x10FFFF &&
  !(0xD800 ≤ n && n ≤ 0xDFFF) && !isNonchar n

inductive CRes where
  | more (r : CRef)
  | emit (c : Char)
  | literalAmp          -- `&` was not the start of a reference: emit it and reconsume the character
  | fail

def crefFinish (n : Nat) : CRes := if validCodepoint n then .emit (Char.ofNat n) else .fail

def crefStep : CRef → Char → CRes
  | .start, c =>
    if isAlnum c then .more (.named [c]) else if c = '#' then .more .numStart else .literalAmp
  | .named b, c =>
    if c = ';' then
      match assoc b namedRefs with
      | some ch => .emit ch
      | none => .fail
    else if isAlnum c && b.length < 8 then .more (.named (b ++ [c]))
    else .fail
  | .numStart, c =>
    if c = 'x' || c = 'X' then .more .hexStart
    else match decVal c with
      | some d => .more (.dec d)
      | none => .fail
  | .hexStart, c =>
    match hexVal c with
    | some d => .more (.hex d)
    | none => .fail
  | .hex n, c =>
    if c = ';' then crefFinish n
    else match hexVal c with
      | some d => if n * 16 + d ≤ 0x10FFFF then .more (.hex (n * 16 + d)) else .fail
      | none => .fail
  | .dec n, c =>
    if c = ';' then crefFinish n
    else match decVal c with
      | some d => if n * 10 + d ≤ 0x10FFFF then .more (.dec (n * 10 + d)) else .fail
      | none => .fail

/-! ### tree builder actions -/

def finishAttr (tg : TagTok) (n v : Str) : Option TagTok :=
  if tg.attrs.any (fun a => a.1 = n) then none else some { tg with attrs := tg.attrs ++ [(n, v)] }

/-- a start tag token reaches the tree builder -/
def emitStart (tg : TagTok) (selfClose : Bool) (st : List Frame) : Option PState :=
  if !nestOK tg.name (st.map (·.tag)) then none else
  match kind tg.name with
  | .unsupported => none
  | .void => (pushTree (.elem tg.name tg.attrs []) st).map (fun st' => ⟨.text, st'⟩)
  | _ =>
    if selfClose then none
    else some ⟨if tg.name = tTextarea then .textSkipLf else .text, ⟨tg.name, tg.attrs, []⟩ :: st⟩

/-- an end tag token reaches the tree builder: it must close the current node -/
def emitEnd (name : Str) : List Frame → Option PState
  | f :: g :: rest =>
    if f.tag = name then
      some ⟨.text, { g with kidsRev := .elem f.tag f.attrs f.kidsRev.reverse :: g.kidsRev } :: rest⟩
    else none
  | _ => none

def emitComment (d : Str) (st : List Frame) : Option PState :=
  (pushTree (.comment d) st).map (fun st' => ⟨.text, st'⟩)

/-! ### tokenizer states -/

/-- data / RCDATA / RAWTEXT / script data state, chosen by the current node -/
def stepText (st : List Frame) (c : Char) : Option PState :=
  if c = cNul then none else
  match curMode st with
  | .data =>
    if c = '&' then some ⟨.cref .start, st⟩
    else if c = '<' then some ⟨.tagOpen, st⟩
    else (emitChar c st).map (fun st' => ⟨.text, st'⟩)
  | .rcdata =>
    if c = '&' then some ⟨.cref .start, st⟩
    else if c = '<' then some ⟨.rawLt, st⟩
    else (emitChar c st).map (fun st' => ⟨.text, st'⟩)
  | _ =>
    if c = '<' then some ⟨.rawLt, st⟩
    else (emitChar c st).map (fun st' => ⟨.text, st'⟩)

/-- emit `s` as characters, then reconsume `c` in the text state -/
def flushThenText (s : Str) (st : List Frame) (c : Char) : Option PState :=
  match emitStr s st with
  | some st' => stepText st' c
  | none => none

def startAttrOrEnd (tg : TagTok) (st : List Frame) (c : Char) : Option PState :=
  -- before attribute name state
  if isWs c then some ⟨.beforeAttrName tg, st⟩
  else if c = '/' then some ⟨.selfClosing tg, st⟩
  else if c = '>' then emitStart tg false st
  else if c = '=' || c = cNul || c = '"' || c = '\'' || c = '<' then none
  else some ⟨.attrName tg [lower c], st⟩

/-- attribute value states (all three quoting styles) -/
def stepAttrVal (q : Quote) (tg : TagTok) (n v : Str) (st : List Frame) (c : Char) : Option PState :=
  if c = cNul then none
  else if c = '&' then some ⟨.attrCref q tg n v .start, st⟩
  else match q with
    | .dq =>
      if c = '"' then (finishAttr tg n v).map (fun tg' => ⟨.afterAttrValQ tg', st⟩)
      else some ⟨.attrVal q tg n (v ++ [c]), st⟩
    | .sq =>
      if c = '\'' then (finishAttr tg n v).map (fun tg' => ⟨.afterAttrValQ tg', st⟩)
      else some ⟨.attrVal q tg n (v ++ [c]), st⟩
    | .uq =>
      if isWs c then (finishAttr tg n v).map (fun tg' => ⟨.beforeAttrName tg', st⟩)
      else if c = '>' then (finishAttr tg n v).bind (fun tg' => emitStart tg' false st)
      else if c = '"' || c = '\'' || c = '<' || c = '=' || c = '`' then none
      else some ⟨.attrVal q tg n (v ++ [c]), st⟩

/-- comment state -/
def stepComment (d : Str) (st : List Frame) (c : Char) : Option PState :=
  if c = cNul then none
  else if c = '<' then some ⟨.commentLt (d ++ [c]), st⟩
  else if c = '-' then some ⟨.commentEndDash d, st⟩
  else some ⟨.comment (d ++ [c]), st⟩

/-- comment end dash state -/
def stepCommentEndDash (d : Str) (st : List Frame) (c : Char) : Option PState :=
  if c = '-' then some ⟨.commentEnd d, st⟩ else stepComment (d ++ ['-']) st c

/-- comment end state -/
def stepCommentEnd (d : Str) (st : List Frame) (c : Char) : Option PState :=
  if c = '>' then emitComment d st
  else if c = '!' then some ⟨.commentEndBang d, st⟩
  else if c = '-' then some ⟨.commentEnd (d ++ ['-']), st⟩
  else stepComment (d ++ ['-', '-']) st c

def stepBogus (d : Str) (st : List Frame) (c : Char) : Option PState :=
  if c = '>' then emitComment d st
  else if c = cNul then none
  else some ⟨.bogusComment (d ++ [c]), st⟩

/-- one input character -/
def step (σ : PState) (c : Char) : Option PState :=
  if c = cCr then none else
  let st := σ.stack
  match σ.tok with
  | .text => stepText st c
  | .textSkipLf => if c = cLf then some ⟨.text, st⟩ else stepText st c   -- "ignore that token"
  | .cref r =>
    match crefStep r c with
    | .more r' => some ⟨.cref r', st⟩
    | .emit ch => (emitChar ch st).map (fun st' => ⟨.text, st'⟩)
    | .literalAmp => flushThenText ['&'] st c
    | .fail => none
  | .tagOpen =>
    if c = '!' then some ⟨.markupDeclOpen, st⟩
    else if c = '/' then some ⟨.endTagOpen, st⟩
    else if isAlpha c then some ⟨.tagName [lower c], st⟩
    else if c = '?' then none
    else flushThenText ['<'] st c     -- invalid-first-character-of-tag-name: the `<` is text
  | .endTagOpen => if isAlpha c then some ⟨.endTagName [lower c], st⟩ else none
  | .tagName t =>
    if isWs c then some ⟨.beforeAttrName ⟨t, []⟩, st⟩
    else if c = '/' then some ⟨.selfClosing ⟨t, []⟩, st⟩
    else if c = '>' then emitStart ⟨t, []⟩ false st
    else if c = cNul then none
    else some ⟨.tagName (t ++ [lower c]), st⟩
  | .endTagName t =>
    if isWs c then some ⟨.endTagAfterName t, st⟩
    else if c = '>' then emitEnd t st
    else if c = '/' || c = cNul then none
    else some ⟨.endTagName (t ++ [lower c]), st⟩
  | .endTagAfterName t =>
    if isWs c then some ⟨.endTagAfterName t, st⟩
    else if c = '>' then emitEnd t st
    else none
  | .beforeAttrName tg => startAttrOrEnd tg st c
  | .attrName tg n =>
    if isWs c then some ⟨.afterAttrName tg n, st⟩
    else if c = '/' then (finishAttr tg n []).map (fun tg' => ⟨.selfClosing tg', st⟩)
    else if c = '>' then (finishAttr tg n []).bind (fun tg' => emitStart tg' false st)
    else if c = '=' then some ⟨.beforeAttrValue tg n, st⟩
    else if c = cNul || c = '"' || c = '\'' || c = '<' then none
    else some ⟨.attrName tg (n ++ [lower c]), st⟩
  | .afterAttrName tg n =>
    if isWs c then some ⟨.afterAttrName tg n, st⟩
    else if c = '=' then some ⟨.beforeAttrValue tg n, st⟩
    else (finishAttr tg n []).bind (fun tg' => startAttrOrEnd tg' st c)
  | .beforeAttrValue tg n =>
    if isWs c then some ⟨.beforeAttrValue tg n, st⟩
    else if c = '"' then some ⟨.attrVal .dq tg n [], st⟩
    else if c = '\'' then some ⟨.attrVal .sq tg n [], st⟩
    else if c = '>' then none
    else stepAttrVal .uq tg n [] st c
  | .attrVal q tg n v => stepAttrVal q tg n v st c
  | .attrCref q tg n v r =>
    match crefStep r c with
    | .more r' => some ⟨.attrCref q tg n v r', st⟩
    | .emit ch => some ⟨.attrVal q tg n (v ++ [ch]), st⟩
    | .literalAmp => stepAttrVal q tg n (v ++ ['&']) st c
    | .fail => none
  | .afterAttrValQ tg =>
    if isWs c then some ⟨.beforeAttrName tg, st⟩
    else if c = '/' then some ⟨.selfClosing tg, st⟩
    else if c = '>' then emitStart tg false st
    else none
  | .selfClosing tg => if c = '>' then emitStart tg true st else none
  | .markupDeclOpen =>
    if c = '-' then some ⟨.markupDeclDash, st⟩
    else if c = 'd' || c = 'D' || c = '[' then none
    else stepBogus [] st c
  | .markupDeclDash => if c = '-' then some ⟨.commentStart, st⟩ else stepBogus ['-'] st c
  | .bogusComment d => stepBogus d st c
  | .commentStart =>
    if c = '-' then some ⟨.commentStartDash, st⟩
    else if c = '>' then none
    else stepComment [] st c
  | .commentStartDash =>
    if c = '-' then some ⟨.commentEnd [], st⟩
    else if c = '>' then none
    else stepComment ['-'] st c
  | .comment d => stepComment d st c
  | .commentLt d =>
    if c = '!' then some ⟨.commentLtBang (d ++ [c]), st⟩
    else if c = '<' then some ⟨.commentLt (d ++ [c]), st⟩
    else stepComment d st c
  | .commentLtBang d => if c = '-' then some ⟨.commentLtBangDash d, st⟩ else stepComment d st c
  | .commentLtBangDash d =>
    if c = '-' then some ⟨.commentLtBangDashDash d, st⟩ else stepCommentEndDash d st c
  | .commentLtBangDashDash d => if c = '>' then stepCommentEnd d st c else none
  | .commentEndDash d => stepCommentEndDash d st c
  | .commentEnd d => stepCommentEnd d st c
  | .commentEndBang d =>
    if c = '-' then some ⟨.commentEndDash (d ++ ['-', '-', '!']), st⟩
    else if c = '>' then none
    else stepComment (d ++ ['-', '-', '!']) st c
  | .rawLt =>
    if c = '/' then some ⟨.rawEndOpen, st⟩
    else if c = '!' && curMode st = .script then none
    else flushThenText ['<'] st c
  | .rawEndOpen =>
    if isAlpha c then some ⟨.rawEndName [c], st⟩ else flushThenText ['<', '/'] st c
  | .rawEndName buf =>
    if isAlpha c then some ⟨.rawEndName (buf ++ [c]), st⟩
    else if buf.map lower = curTag st then
      if c = '>' then emitEnd (curTag st) st
      else if isWs c || c = '/' then none
      else flushThenText ('<' :: '/' :: buf) st c
    else flushThenText ('<' :: '/' :: buf) st c

def run : PState → Str → Option PState
  | σ, [] => some σ
  | σ, c :: cs =>
    match step σ c with
    | some σ' => run σ' cs
    | none => none

def rootFrame : Frame := ⟨[], [], []⟩
def initState : PState := ⟨.text, [rootFrame]⟩

/-- end of file: only in the data state with nothing open -/
def finish : PState → Option (List Tree)
  | ⟨.text, [f]⟩ => if f.tag = [] then some f.kidsRev.reverse else none
  | ⟨.tagOpen, [f]⟩ =>       -- eof-before-tag-name: the `<` is text
    if f.tag = [] then some (pushCharKids '<' f.kidsRev).reverse else none
  | ⟨.cref .start, [f]⟩ =>   -- `&` at the very end is text
    if f.tag = [] then some (pushCharKids '&' f.kidsRev).reverse else none
  | _ => none

/-- fragment parse (context: a `body`-like container, scripting enabled) -/
def parse (s : Str) : Option (List Tree) :=
  match run initState s with
  | some σ => finish σ
  | none => none

/-! ## Part 4 — the structure a view denotes -/

/-- ordinary attributes as `(name, value?)` in emission order -/
def plainFlat : List Attr → List (Str × Str)
  | [] => []
  | .plain n v :: r => (n, v) :: plainFlat r
  | .bool n true :: r => (n, []) :: plainFlat r
  | _ :: r => plainFlat r

/-- the attribute list the element is meant to have: ordinary attributes, then the joined class
list, then the joined style declarations -/
def expectedAttrs (attrs : List Attr) : List (Str × Str) :=
  plainFlat attrs ++
  (if classBuf attrs = [] then [] else [(sClass, trim (classBuf attrs))]) ++
  (if styleBuf attrs = [] then [] else [(sStyle, trim (styleBuf attrs))])

def rawText : List Node → Str
  | [] => []
  | .text s :: r => s ++ rawText r
  | _ :: r => rawText r

def textTree (s : Str) : List Tree := if s = [] then [] else [.text s]

mutual
/-- DOM nodes a view stands for.  Escaping elements: a text view is one text node (the empty
string is rendered as `" "`, strings.rs), preceded by the `<!>` marker comment when the previous
sibling is a text view.  Raw-text elements (`ESCAPE_CHILDREN = false`): one text node holding the
concatenated strings.  `inner_html`: by contract markup, i.e. whatever it parses to. -/
def structNode (pos : Pos) : Node → List Tree
  | .text s =>
    (if pos = .afterText then [.comment []] else []) ++ [.text (if s = [] then [' '] else s)]
  | .elem tag attrs kids =>
    [.elem tag (expectedAttrs attrs)
      (if isVoid tag then []
       else if innerBuf attrs = [] then
         (if escapeChildren tag then structKids .firstChild kids else textTree (rawText kids))
       else (match parse (innerBuf attrs) with | some ts => ts | none => []))]
def structKids (pos : Pos) : List Node → List Tree
  | [] => []
  | n :: ns => structNode pos n ++ structKids (posAfter n) ns
end

def structureOf (v : List Node) : List Tree := structKids .firstChild v

/-- what the `<head>` insertion is meant to be -/
def headStructure (title : Option Str) (metas : List Node) : List Tree :=
  (match title with
   | some t => [.elem tTitle [] (textTree t)]
   | none => []) ++ [.comment ['H','E','A','D']] ++ structKids .nextChild metas

/-! ## Part 5 — the decidable input classes used by the partial theorems and the driver -/

/-- no U+0000 and no U+000D -/
def clean (s : Str) : Bool := s.all (fun c => c != cNul && c != cCr)

def isTextNode : Node → Bool
  | .text _ => true
  | _ => false

def attrValClean : Attr → Bool
  | .plain _ v => clean v
  | .cls v => clean v
  | .clsToggle n _ => clean n
  | .style v => clean v
  | .styleKV n v => clean n && clean v
  | _ => true

mutual
/-- class `raw-text-child` (negated) for the basic embedding: no element with `ESCAPE_CHILDREN = false`
has a string child (the extended embedding `VNode` admits the single string of a repaired `<textarea>`) -/
def rawTextFree : Node → Bool
  | .text _ => true
  | .elem tag _ kids => (escapeChildren tag || !kids.any isTextNode) && rawTextFreeKids kids
def rawTextFreeKids : List Node → Bool
  | [] => true
  | n :: ns => rawTextFree n && rawTextFreeKids ns
end

mutual
/-- classes `nul-char` / `cr-char` (negated): no string anywhere in the view contains U+0000 or U+000D -/
def cleanNode : Node → Bool
  | .text s => clean s
  | .elem _ attrs kids => attrs.all attrValClean && cleanKids kids
def cleanKids : List Node → Bool
  | [] => true
  | n :: ns => cleanNode n && cleanKids ns
end

def attrStrings : Attr → List Str
  | .plain _ v => [v]
  | .bool _ _ => []
  | .cls v => [v]
  | .clsToggle n _ => [n]
  | .style v => [v]
  | .styleKV n v => [n, v]
  | .innerHtml r => [r]

mutual
/-- every string-valued position of a view -/
def nodeStrings : Node → List Str
  | .text s => [s]
  | .elem _ attrs kids => attrs.flatMap attrStrings ++ kidsStrings kids
def kidsStrings : List Node → List Str
  | [] => []
  | n :: ns => nodeStrings n ++ kidsStrings ns
end

mutual
def hasInnerHtml : Node → Bool
  | .text _ => false
  | .elem _ attrs kids => innerBuf attrs != [] || hasInnerHtmlKids kids
def hasInnerHtmlKids : List Node → Bool
  | [] => false
  | n :: ns => hasInnerHtml n || hasInnerHtmlKids ns
end

/-- title text that RCDATA leaves alone: no `<`, no `&`, no NUL/CR -/
def titleInert (t : Str) : Bool := t.all (fun c => c != cNul && c != cCr && c != '<' && c != '&')

/-! ## Part 6 — typed children and child containers (view/{strings,primitives,iterators,tuples,either}.rs)

`VNode` extends `Node` by the other `RenderHtml` implementors that can sit in a child position:
* `text s`  — every string type: `&str`, `String`, `Arc<str>`, `Cow<str>`, `Oco<str>` (all delegate to
              `<&str>::to_html_with_buf`), also behind a closure `move || s`;
* `prim s`  — a primitive (`char`, integers, floats, `bool`, `IpAddr`, `NonZero*`, …), `s` its `Display`
              text: view/primitives.rs writes it with `write!(buf, "{}", self)` — **never escaped**;
* `seq ks`  — tuples, `[T; N]`, `StaticVec<T>`, `Fragment`: the items in sequence, position threaded;
* `vec ks`  — `Vec<T>`: the items, then `<!>` and `Position::NextChild` when escaping;
* `unit`    — `()` and `Option::None` (`Either::Right(())`): `<!>` when escaping.
* `island c p ks`, `islandChildren ks` — `Island` / `IslandChildren` (html/islands.rs): tags and
              attributes written by hand around the view, `position` and `escape` passed through.
* `resetPos` — prints nothing and sets `position = NextChild`: what a pending `<Suspense>` does in the
              in-order stream after queueing its children (suspense_component.rs), so that the sibling
              that follows gets no `<!>` whatever the children end with.  Correspondence-only (not
              well-formed for the theorems: it is exactly where the marker discipline is given up).
`Option::Some(v)`, `Either::{Left,Right}(v)`, `AnyView` print exactly `v` (no marker when
`mark_branches = false`), so they have no constructor: the op decoders map them to `v`. -/

inductive VNode where
  | text (s : Str)
  | prim (s : Str)
  | elem (tag : Str) (attrs : List Attr) (kids : List VNode)
  | seq (kids : List VNode)
  | vec (kids : List VNode)
  | unit
  | island (component props : Str) (kids : List VNode)
  | islandChildren (kids : List VNode)
  | resetPos
  deriving Repr

def tIsland : Str := ['l','e','p','t','o','s','-','i','s','l','a','n','d']
def tIslandChildren : Str := ['l','e','p','t','o','s','-','c','h','i','l','d','r','e','n']
def sDataComponent : Str := ['d','a','t','a','-','c','o','m','p','o','n','e','n','t']
def sDataProps : Str := ['d','a','t','a','-','p','r','o','p','s']

/-- `Island::open_tag` (html/islands.rs): written by hand — the component name as it is (program
text), the serialized props through `encode_double_quoted_attribute`, omitted when empty -/
def islandOpen (component props : Str) : Str :=
  '<' :: tIsland ++ ' ' :: sDataComponent ++ '=' :: '"' :: component ++ '"' ::
    (if props = [] then [] else ' ' :: sDataProps ++ '=' :: '"' :: escapeAttr props ++ ['"']) ++ ['>']

def islandAttrs (component props : Str) : List (Str × Str) :=
  (sDataComponent, component) :: (if props = [] then [] else [(sDataProps, props)])

mutual
/-- `position` after rendering the node -/
def vPos (escape : Bool) (pos : Pos) : VNode → Pos
  | .text _ => .afterText
  | .prim _ => .afterText
  | .elem .. => .nextChild
  | .seq ks => vKidsPos escape pos ks
  | .vec ks => if escape then .nextChild else vKidsPos escape pos ks
  | .unit => if escape then .nextChild else pos
  | .island _ _ ks => vKidsPos escape pos ks          -- `position` and `escape` are passed through
  | .islandChildren ks => vKidsPos escape pos ks
  | .resetPos => .nextChild
def vKidsPos (escape : Bool) (pos : Pos) : List VNode → Pos
  | [] => pos
  | n :: ns => vKidsPos escape (vPos escape pos n) ns
end

def markerIf (b : Bool) : Str := if b then ['<', '!', '>'] else []

/-- do primitive children (`char`, numbers, …; view/primitives.rs) honour the `escape` flag?  `false`: the
code as it is (`write!(buf, "{}", self)` whatever the flag: F-C06-7); `true`: after hooks/fix-c06-5.patch
(`encode_text` of the Display text when escaping).  Flip when the fix is applied. -/
def primEscaped : Bool := true

mutual
def vHtml (escape : Bool) (pos : Pos) : VNode → Str
  | .text s => textHtml escape pos s
  | .prim s => markerIf (pos = .afterText) ++ (if escape && primEscaped then escapeText s else s)
  | .elem tag attrs kids =>
    '<' :: tag ++ attrsHtml attrs ++ '>' ::
      (if isVoid tag then []
       else (if innerBuf attrs = [] then elemBody tag (vKidsHtml (escapeChildren tag) .firstChild kids)
             else innerBuf attrs)
            ++ '<' :: '/' :: tag ++ ['>'])
  | .seq ks => vKidsHtml escape pos ks
  | .vec ks => vKidsHtml escape pos ks ++ markerIf escape
  | .unit => markerIf escape
  | .island c p ks => islandOpen c p ++ vKidsHtml escape pos ks ++ '<' :: '/' :: tIsland ++ ['>']
  | .islandChildren ks =>
    '<' :: tIslandChildren ++ '>' :: vKidsHtml escape pos ks ++ '<' :: '/' :: tIslandChildren ++ ['>']
  | .resetPos => []
def vKidsHtml (escape : Bool) (pos : Pos) : List VNode → Str
  | [] => []
  | n :: ns => vHtml escape pos n ++ vKidsHtml escape (vPos escape pos n) ns
end

/-- `RenderHtml::to_html` of a tuple of views -/
def vToHtml (v : List VNode) : Str := vKidsHtml true .firstChild v

mutual
/-- the strings directly in a child list (through containers, not into elements), concatenated -/
def vRawText : VNode → Str
  | .text s => s
  | .prim s => s
  | .elem .. => []
  | .seq ks => vRawTextKids ks
  | .vec ks => vRawTextKids ks
  | .unit => []
  | .island .. => []
  | .islandChildren _ => []
  | .resetPos => []
def vRawTextKids : List VNode → Str
  | [] => []
  | n :: ns => vRawText n ++ vRawTextKids ns
end

mutual
/-- is there a string-valued item directly in this child position (through containers)? -/
def vHasText : VNode → Bool
  | .text _ => true
  | .prim _ => true
  | .elem .. => false
  | .seq ks => vHasTextKids ks
  | .vec ks => vHasTextKids ks
  | .unit => false
  | .island .. => false
  | .islandChildren _ => false
  | .resetPos => false
def vHasTextKids : List VNode → Bool
  | [] => false
  | n :: ns => vHasText n || vHasTextKids ns
end

mutual
/-- DOM nodes a view stands for (escaping context), cf. `structNode`; a `Vec` contributes its trailing
marker comment, `()`/`None` a placeholder comment -/
def vStruct (pos : Pos) : VNode → List Tree
  | .text s =>
    (if pos = .afterText then [.comment []] else []) ++ [.text (if s = [] then [' '] else s)]
  | .prim s => (if pos = .afterText then [.comment []] else []) ++ textTree s
  | .elem tag attrs kids =>
    [.elem tag (expectedAttrs attrs)
      (if isVoid tag then []
       else if innerBuf attrs = [] then
         (if escapeChildren tag then vStructKids .firstChild kids else textTree (vRawTextKids kids))
       else (match parse (innerBuf attrs) with | some ts => ts | none => []))]
  | .seq ks => vStructKids pos ks
  | .vec ks => vStructKids pos ks ++ [.comment []]
  | .unit => [.comment []]
  | .island c p ks => [.elem tIsland (islandAttrs c p) (vStructKids pos ks)]
  | .islandChildren ks => [.elem tIslandChildren [] (vStructKids pos ks)]
  | .resetPos => []
def vStructKids (pos : Pos) : List VNode → List Tree
  | [] => []
  | n :: ns => vStruct pos n ++ vStructKids (vPos true pos n) ns
end

def vStructureOf (v : List VNode) : List Tree := vStructKids .firstChild v

mutual
def Node.toV : Node → VNode
  | .text s => .text s
  | .elem tag attrs kids => .elem tag attrs (Node.toVs kids)
def Node.toVs : List Node → List VNode
  | [] => []
  | n :: ns => Node.toV n :: Node.toVs ns
end

/-- with both textarea repairs in place, `<textarea>` with exactly one string child is as good as an
escaping element (more strings would be joined by a literal `<!>`: class `rcdata-marker`) -/
def vTextareaOneText (tag : Str) : List VNode → Bool
  | [.text _] => tag = tTextarea && textareaEscaped && textareaLfGuard
  | _ => false

mutual
/-- class `raw-text-child` (negated) -/
def vRawTextFree : VNode → Bool
  | .elem tag _ kids =>
    (escapeChildren tag || !vHasTextKids kids || vTextareaOneText tag kids) && vRawTextFreeKids kids
  | .seq ks => vRawTextFreeKids ks
  | .vec ks => vRawTextFreeKids ks
  | .island _ _ ks => vRawTextFreeKids ks
  | .islandChildren ks => vRawTextFreeKids ks
  | _ => true
def vRawTextFreeKids : List VNode → Bool
  | [] => true
  | n :: ns => vRawTextFree n && vRawTextFreeKids ns
end

mutual
def vStrings : VNode → List Str
  | .text s => [s]
  | .prim s => [s]
  | .elem _ attrs kids => attrs.flatMap attrStrings ++ vKidsStrings kids
  | .seq ks => vKidsStrings ks
  | .vec ks => vKidsStrings ks
  | .unit => []
  | .island _ p ks => p :: vKidsStrings ks
  | .islandChildren ks => vKidsStrings ks
  | .resetPos => []
def vKidsStrings : List VNode → List Str
  | [] => []
  | n :: ns => vStrings n ++ vKidsStrings ns
end

mutual
def vHasInnerHtml : VNode → Bool
  | .elem _ attrs kids => innerBuf attrs != [] || vHasInnerHtmlKids kids
  | .seq ks => vHasInnerHtmlKids ks
  | .vec ks => vHasInnerHtmlKids ks
  | .island _ _ ks => vHasInnerHtmlKids ks
  | .islandChildren ks => vHasInnerHtmlKids ks
  | _ => false
def vHasInnerHtmlKids : List VNode → Bool
  | [] => false
  | n :: ns => vHasInnerHtml n || vHasInnerHtmlKids ns
end

/-! ## Part 7 — leptos components that hand their children's HTML through (leptos/src/{show,error_boundary,
for_loop,suspense_component,transition,await_}.rs)

`<Show>`, `<ErrorBoundary>`, `<For>`, `<Suspense>` / `<Transition>`, `<Await>` have `RenderHtml` impls (or are
closures over `Either`) of their own that call `to_html_with_buf` / `to_html_async_with_buf` of the chosen
branch and pass the `escape` flag on.  For escaping they are meant to be **transparent**: the document is
the one of the branch that is shown.  `resolve` states that: `final = true` is the settled document (every
`Suspend` resolved: what an in-order stream delivers and what an out-of-order stream leaves after its
scripts ran), `final = false` the first paint (`to_html()` and the first out-of-order chunk: `<Suspense>`
shows its fallback, `<Await>` nothing).  Which sibling markers (`<!>`) the wrappers add or skip is C05/C07's
matter; C06 compares modulo `normList` (comments dropped, adjacent text merged). -/

inductive WNode where
  | leaf (n : VNode)
  | elem (tag : Str) (attrs : List Attr) (kids : List WNode)
  | seq (kids : List WNode)
  | vec (kids : List WNode)
  | show (cond : Bool) (kids fb : List WNode)
  | boundary (kids fb : List WNode)      -- <ErrorBoundary fallback=…>kids</ErrorBoundary>
  | okStr (s : Str)                      -- a child `Ok(s)`
  | err (msg : Str)                      -- a child `Err(e)`, `e.to_string() = msg`
  | errMsgs                              -- inside a fallback: the messages of the boundary, joined by ", "
  | forEach (fam : Nat) (rows : List Str) -- <For each=rows …>: fam 0 `{s}`, otherwise `<i>{s}</i>`
  | suspense (kids fb : List WNode)      -- <Suspense> and <Transition>
  | suspend (kids : List WNode)          -- Suspend::new(async { kids })
  | await (data : Str)                   -- <Await future=async { data } let:d><b>{d}</b>{d}</Await>
  deriving Repr

mutual
/-- messages thrown to the nearest enclosing boundary (a nested boundary keeps its own) -/
def errsOf : WNode → List Str
  | .err m => [m]
  | .elem _ _ ks => errsOfKids ks
  | .seq ks => errsOfKids ks
  | .vec ks => errsOfKids ks
  | .show c ks fb => if c then errsOfKids ks else errsOfKids fb
  | .suspense ks _ => errsOfKids ks
  | .suspend ks => errsOfKids ks
  | _ => []
def errsOfKids : List WNode → List Str
  | [] => []
  | n :: ns => errsOf n ++ errsOfKids ns
end

def joinMsgs : List Str → Str
  | [] => []
  | [m] => m
  | m :: ms => m ++ [',', ' '] ++ joinMsgs ms

def tLi : Str := ['i']
def tB : Str := ['b']

mutual
def resolve (final : Bool) (msgs : Str) : WNode → List VNode
  | .leaf n => [n]
  | .elem t a ks => [.elem t a (resolveKids final msgs ks)]
  | .seq ks => [.seq (resolveKids final msgs ks)]
  | .vec ks => [.vec (resolveKids final msgs ks)]
  | .show c ks fb => if c then [.seq (resolveKids final msgs ks)] else [.seq (resolveKids final msgs fb)]
  | .boundary ks fb =>
    match errsOfKids ks with
    | [] => [.seq (resolveKids final msgs ks)]
    | es => [.seq (resolveKids final (joinMsgs es) fb)]
  | .okStr s => [.text s]
  | .err _ => [.unit]
  | .errMsgs => [.text msgs]
  | .forEach fam rows =>
    [.vec (rows.map fun s => if fam = 0 then .text s else .elem tLi [] [.text s])]
  | .suspense ks fb => if final then [.seq (resolveKids final msgs ks)] else [.seq (resolveKids final msgs fb)]
  | .suspend ks => [.seq (resolveKids final msgs ks)]
  | .await d => if final then [.elem tB [] [.text d], .text d] else [.unit]
def resolveKids (final : Bool) (msgs : Str) : List WNode → List VNode
  | [] => []
  | n :: ns => resolve final msgs n ++ resolveKids final msgs ns
end

mutual
/-- the settled document as the **in-order stream** prints it: like `resolve true`, but a `<Suspense>` /
`<Await>` (always pending at the first poll here) leaves `position = NextChild` behind its children -/
def resolveInOrder (msgs : Str) : WNode → List VNode
  | .leaf n => [n]
  | .elem t a ks => [.elem t a (resolveInOrderKids msgs ks)]
  | .seq ks => [.seq (resolveInOrderKids msgs ks)]
  | .vec ks => [.vec (resolveInOrderKids msgs ks)]
  | .show c ks fb => if c then [.seq (resolveInOrderKids msgs ks)] else [.seq (resolveInOrderKids msgs fb)]
  | .boundary ks fb =>
    match errsOfKids ks with
    | [] => [.seq (resolveInOrderKids msgs ks)]
    | es => [.seq (resolveInOrderKids (joinMsgs es) fb)]
  | .okStr s => [.text s]
  | .err _ => [.unit]
  | .errMsgs => [.text msgs]
  | .forEach fam rows =>
    [.vec (rows.map fun s => if fam = 0 then .text s else .elem tLi [] [.text s])]
  | .suspense ks _ => [.seq (resolveInOrderKids msgs ks), .resetPos]
  | .suspend ks => [.seq (resolveInOrderKids msgs ks)]
  | .await d => [.elem tB [] [.text d], .text d, .resetPos]
def resolveInOrderKids (msgs : Str) : List WNode → List VNode
  | [] => []
  | n :: ns => resolveInOrder msgs n ++ resolveInOrderKids msgs ns
end

/-- push a text node in front of a normalised list -/
def consText (s : Str) : List Tree → List Tree
  | .text u :: r => .text (s ++ u) :: r
  | r => .text s :: r

/-- put a normalised node in front of a normalised list: comments vanish, text merges -/
def pushNorm : Tree → List Tree → List Tree
  | .comment _, r => r
  | .text s, r => consText s r
  | e, r => e :: r

mutual
/-- the document modulo sibling markers: comments dropped, adjacent text nodes merged -/
def normTree : Tree → Tree
  | .elem t a ks => .elem t a (normList ks)
  | t => t
def normList : List Tree → List Tree
  | [] => []
  | t :: r => pushNorm (normTree t) (normList r)
end

end Leptos.Html
