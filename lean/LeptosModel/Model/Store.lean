/-!
# Model/Store — reactive_stores: trigger paths, FieldKeys, a store-state machine (C16)

Core Lean only; every function is total, computable and structurally recursive.
The model follows the code of `/repo/reactive_stores` **as it is**, defects included.

## Map model function ↦ Rust function

* `Trig`, `T p`, `C p`           — the two `ArcTrigger`s of `StoreFieldTrigger { this, children }`
                                   stored under `StorePath p` in `TriggerMap` (lib.rs).
* `tfpLoop`, `triggersForPath`   — `StoreField::triggers_for_path` (store_field.rs), including the
                                   final `reverse()`; the list is notified front to back
                                   (`impl Notify for Vec<ArcTrigger>`, reactive_graph arc_trigger.rs).
* `rootWriteNotify`              — `Write::try_write` of `Store`/`ArcStore` (lib.rs): the inner
                                   `WriteGuard(children[])` from `ArcStore::writer` is dropped first,
                                   then `Store::notify` = `this[]`, `children[]`.
* `trackLoop`, `subfieldTrack`   — `Subfield::track_field` (subfield.rs).
* `defaultTrack`                 — the default `StoreField::track_field` (store_field.rs), used by
                                   the root store, `AtIndex` (iter.rs) and `AtKeyed` (keyed.rs).
* `keyedFieldTrack`              — `KeyedSubfield::track_field` (keyed.rs): `this` of the *parent only*.
* `notifySet`, `trackSet`        — what a write through / a reader of a plain field path (root store
                                   or a chain of `Subfield`s, which is also what `OptionStoreExt::unwrap`
                                   produces) notifies / tracks.
* `FieldKeys`, `.new`, `.nextKey`, `.update` — `FieldKeys::{new, next_key, update}` (lib.rs), verbatim,
                                   `current_key` left at 0 by `new` included (F-C16-1).  The `FxHashMap`s are
                                   association lists; their iteration order is the list order (the theorems
                                   quantify over every order, see Theorems/C16.lean).  `spare` has its top of
                                   stack (`Vec::pop`) at the head.
* `Acc`, `Chain`                 — accessor chains: `fld` = `Subfield` (struct field; `unwrap()` is `fld 0`),
                                   `idx` = `AtIndex` (iter.rs), `kfld` = `KeyedSubfield`, `key` = `AtKeyed` (keyed.rs).
* `Walk`, `stepAcc`              — the notification lists of `StoreField::writer` per accessor: `tr` = what the
                                   guard notifies when dropped, `un` = what it still notifies after
                                   `untrack()` was called on it (`Subfield::writer` / `KeyedSubfield::writer` /
                                   `AtKeyed::writer` untrack their parent, `AtIndex::writer` does **not**).
* `Val`, `Val.get`, `Val.set`    — the store's value as a tree (struct / Option / Vec / keyed Vec / leaf).
* `patchVal`                     — `PatchField::patch_field` (patch.rs: primitives, `Option`, `Vec`; the
                                   `#[derive(Patch)]` struct impl of reactive_stores_macro): children are
                                   addressed **by index**, also below keyed fields.
* `St`, `runEff`, `notifyTrig`, `stepOp` — the state machine: `SubscriberSet` order (`Vec`, taken on notify:
                                   `ReactiveNode for RwLock<SubscriberSet>`), `Effect` (woken flag, polled by the
                                   controlled executor in spawn order) and `ImmediateEffect` (runs inside `notify`),
                                   `KeyMap::with_field_keys` (lazy `FieldKeys::new(latest_keys())`),
                                   `KeyedSubfieldWriteGuard::drop` (`update_keys` then `notify`).
-/
namespace Leptos.Store

abbrev Path := List Nat

/-- one `ArcTrigger`: `children = false` is `StoreFieldTrigger::this` -/
structure Trig where
  path : Path
  children : Bool
deriving DecidableEq, Repr

def T (p : Path) : Trig := ⟨p, false⟩
def C (p : Path) : Trig := ⟨p, true⟩

/-! ## `triggers_for_path` and `track_field` -/

/-- the `loop` of `triggers_for_path`, on the reversed `full_path` (so `pop` is `tail`) -/
def tfpLoop : List Nat → List Trig
  | [] => [C []]
  | s :: r => C (s :: r).reverse :: tfpLoop r

/-- `StoreField::triggers_for_path(path)`: the list that the write guard notifies front to back -/
def triggersForPath (p : Path) : List Trig :=
  ([T p, C p] ++ tfpLoop p.reverse.tail).reverse

/-- dropping the guard returned by `Store::try_write` -/
def rootWriteNotify : List Trig := [C [], T [], C []]

/-- the `loop` of `Subfield::track_field`, on the reversed path -/
def trackLoop : List Nat → List Trig
  | [] => [T []]
  | s :: r => T (s :: r).reverse :: trackLoop r

/-- `Subfield::track_field` -/
def subfieldTrack (q : Path) : List Trig := trackLoop q.reverse ++ [T q, C q]

/-- default `StoreField::track_field` (root store, `AtIndex`, `AtKeyed`) -/
def defaultTrack (q : Path) : List Trig := [T q, C q]

/-- `KeyedSubfield::track_field`; `parent` is `self.inner.path()` -/
def keyedFieldTrack (parent q : Path) : List Trig := [T parent, T q, C q]

/-- what a write through the plain field at path `p` notifies, in order -/
def notifySet (p : Path) : List Trig :=
  match p with
  | [] => rootWriteNotify
  | _ :: _ => triggersForPath p

/-- what a reader of the plain field at path `q` tracks, in order -/
def trackSet (q : Path) : List Trig :=
  match q with
  | [] => defaultTrack []
  | _ :: _ => subfieldTrack q

/-! ## `FieldKeys` -/

/-- `key ↦ (segment, index)` -/
abbrev KeyEntry := Nat × Nat × Nat

structure FieldKeys where
  /-- `spare_keys`, top of the stack first -/
  spare : List Nat
  current : Nat
  keys : List KeyEntry
deriving DecidableEq, Repr

def kvInsert (m : List KeyEntry) (k s i : Nat) : List KeyEntry :=
  match m with
  | [] => [(k, s, i)]
  | (k', e) :: rest => if k' = k then (k, s, i) :: rest else (k', e) :: kvInsert rest k s i

def newGo : List Nat → Nat → List KeyEntry → List KeyEntry
  | [], _, acc => acc
  | k :: ks, i, acc => newGo ks (i + 1) (kvInsert acc k i i)

/-- `FieldKeys::new(from_keys)`: segment = index, **`current_key` stays 0** -/
def FieldKeys.new (ks : List Nat) : FieldKeys :=
  { spare := [], current := 0, keys := newGo ks 0 [] }

def FieldKeys.get (fk : FieldKeys) (k : Nat) : Option (Nat × Nat) :=
  match fk.keys.find? (·.1 = k) with
  | some (_, s, i) => some (s, i)
  | none => none

def FieldKeys.seg (fk : FieldKeys) (k : Nat) : Option Nat := (fk.get k).map (·.1)

def FieldKeys.live (fk : FieldKeys) : List Nat := fk.keys.map (·.1)
def FieldKeys.segs (fk : FieldKeys) : List Nat := fk.keys.map (·.2.1)

/-- `FieldKeys::next_key` -/
def FieldKeys.nextKey (fk : FieldKeys) : Nat × FieldKeys :=
  match fk.spare with
  | s :: rest => (s, { fk with spare := rest })
  | [] => (fk.current + 1, { fk with current := fk.current + 1 })

/-- `iter.enumerate().map(|(idx, key)| (key, idx)).collect::<FxHashMap>()` (a later duplicate wins) -/
def enumKeys : List Nat → Nat → List (Nat × Nat) → List (Nat × Nat)
  | [], _, acc => acc
  | k :: ks, i, acc =>
    enumKeys ks (i + 1) (if acc.any (·.1 = k) then acc.map (fun e => if e.1 = k then (k, i) else e) else acc ++ [(k, i)])

def lookupIdx (nk : List (Nat × Nat)) (k : Nat) : Option Nat :=
  match nk.find? (·.1 = k) with
  | some (_, i) => some i
  | none => none

/-- the `retain` pass of `update`: kept entries get their new index, removed entries' segments are
pushed on `spare_keys` in iteration order -/
def retainGo : List KeyEntry → List (Nat × Nat) → List Nat → List KeyEntry × List Nat
  | [], _, sp => ([], sp)
  | (k, s, _) :: rest, nk, sp =>
    match lookupIdx nk k with
    | some idx => let r := retainGo rest nk sp; ((k, s, idx) :: r.1, r.2)
    | none => retainGo rest nk (s :: sp)

/-- the "add new keys" loop of `update` -/
def addNew : List (Nat × Nat) → FieldKeys → FieldKeys
  | [], fk => fk
  | (k, idx) :: rest, fk =>
    if fk.keys.any (·.1 = k) then addNew rest fk
    else
      let r := fk.nextKey
      addNew rest { r.2 with keys := r.2.keys ++ [(k, r.1, idx)] }

/-- `update` on the already collected `new_keys` map (any iteration order of it) -/
def FieldKeys.updateEntries (fk : FieldKeys) (nk : List (Nat × Nat)) : FieldKeys :=
  let r := retainGo fk.keys nk fk.spare
  addNew nk { fk with keys := r.1, spare := r.2 }

/-- `FieldKeys::update(iter)` -/
def FieldKeys.update (fk : FieldKeys) (ks : List Nat) : FieldKeys :=
  fk.updateEntries (enumKeys ks 0 [])

end Leptos.Store
