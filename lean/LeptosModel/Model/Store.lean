/-!
# Model/Store — reactive_stores: trigger paths, FieldKeys, a store-state machine (C16)

Core Lean only; every function is total, computable and structurally recursive.
The model follows the code of `/repo/reactive_stores` **as it is**, defects included.

## Map model function ↦ Rust function

* `Trig`, `T p`, `C p`           — the two `ArcTrigger`s of `StoreFieldTrigger { this, children }`
                                   stored under `StorePath p` in `TriggerMap` (lib.rs).
* `tfpLoop`, `triggersForPath`   — `StoreField::triggers_for_path` (store_field.rs), including the
                                   final `reverse()`; the list is notified front to back
                                   (`impl Notify for Vec<ArcTrigger>`, reactive_graph arc_trigger.rs).
* `rootWriteNotify`              — `Write::try_write` of `Store`/`ArcStore` (lib.rs): the inner
                                   `WriteGuard(children[])` from `ArcStore::writer` is dropped first,
                                   then `Store::notify` = `this[]`, `children[]`.
* `trackLoop`, `subfieldTrack`   — `Subfield::track_field` (subfield.rs) and, since fix-c16-3, the default
                                   `StoreField::track_field` (store_field.rs: root store, `AtIndex`, `AtKeyed`) and
                                   `KeyedSubfield::track_field` (keyed.rs): `this` of every ancestor, then this+children.
* `defaultTrackOld`, `keyedFieldTrackOld` — what the default / `KeyedSubfield::track_field` did before fix-c16-3
                                   (nothing above the own path / `this` of the direct parent only).
* `notifySet`, `trackSet`        — what a write through / a reader of a plain field path (root store
                                   or a chain of `Subfield`s, which is also what `OptionStoreExt::unwrap`
                                   produces) notifies / tracks.
* `FieldKeys`, `.new`, `.nextKey`, `.update` — `FieldKeys::{new, next_key, update}` (lib.rs), verbatim; since
                                   fix-c16-1 `new` starts `current_key` at the number of initial keys
                                   (`FieldKeys.newOld`: the old code, `current_key = 0`, F-C16-1).  The `FxHashMap`s are
                                   association lists; their iteration order is the list order (the theorems
                                   quantify over every order, see Theorems/C16.lean).  `spare` has its top of
                                   stack (`Vec::pop`) at the head.
* `Acc`, `Chain`                 — accessor chains: `fld` = `Subfield` (struct field; `unwrap()` is `fld 0`),
                                   `idx` = `AtIndex` (iter.rs), `kfld` = `KeyedSubfield`, `key` = `AtKeyed` (keyed.rs).
* `Walk`, `stepAcc`              — the notification lists of `StoreField::writer` per accessor: `tr` = what the
                                   guard notifies when dropped, `un` = what it still notifies after
                                   `untrack()` was called on it (`Subfield::writer` / `KeyedSubfield::writer` /
                                   `AtKeyed::writer` and, since fix-c16-2, `AtIndex::writer` untrack their parent;
                                   `stepAccOld`, `walkOld`: `AtIndex::writer` before the fix, F-C16-2).
* `Val`, `Val.get`, `Val.set`    — the store's value as a tree (struct / Option / Vec / keyed Vec / leaf).
* `patchVal`                     — `PatchField::patch_field` (patch.rs: primitives, `Option`, `Vec`; the
                                   `#[derive(Patch)]` struct impl of reactive_stores_macro): children are
                                   addressed **by index**, also below keyed fields.
* `St`, `runEff`, `notifyTrig`, `stepOp` — the state machine: `SubscriberSet` order (`Vec`, taken on notify:
                                   `ReactiveNode for RwLock<SubscriberSet>`), `Effect` (woken flag, polled by the
                                   controlled executor in spawn order) and `ImmediateEffect` (runs inside `notify`),
                                   `KeyMap::with_field_keys` (lazy `FieldKeys::new(latest_keys())`),
                                   `KeyedSubfieldWriteGuard::drop` (notify, `update_keys`, notify again).
* store handles                  — `Store` (arena), `ArcStore`, their clones and `Store::from(ArcStore)` are not distinguished:
                                   every handle of one store shares its value (`Arc<RwLock<T>>`), its `TriggerMap` and its
                                   `KeyMap`; `Write::try_write` of both notifies `rootWriteNotify`.  The harness runs every
                                   case through one of them (`init <value> arena|arc|conv`).
* `logicalGet`, `related`, `diffVal` — the *specification* side (no Rust counterpart): the value a reader of a chain
                                   ought to see (keyed items found by key, not by stored index), the prefix relation on
                                   chains, the fields that differ between two values.  Used by the driver's oracle only.
-/
namespace Leptos.Store

abbrev Path := List Nat

/-- one `ArcTrigger`: `children = false` is `StoreFieldTrigger::this` -/
structure Trig where
  path : Path
  children : Bool
deriving DecidableEq, Repr

def T (p : Path) : Trig := ⟨p, false⟩
def C (p : Path) : Trig := ⟨p, true⟩

/-! ## `triggers_for_path` and `track_field` -/

/-- the `loop` of `triggers_for_path`, on the reversed `full_path` (so `pop` is `tail`) -/
def tfpLoop : List Nat → List Trig
  | [] => [C []]
  | s :: r => C (s :: r).reverse :: tfpLoop r

/-- `StoreField::triggers_for_path(path)`: the list that the write guard notifies front to back -/
def triggersForPath (p : Path) : List Trig :=
  ([T p, C p] ++ tfpLoop p.reverse.tail).reverse

/-- dropping the guard returned by `Store::try_write` -/
def rootWriteNotify : List Trig := [C [], T [], C []]

/-- dropping the guard returned by `Write::try_write` of a `Field<T>` / `ArcField<T>` made from the store itself
(`ArcField::from(Store)`): since fix-c16-5 what `Store::try_write` notifies, from one guard -/
def rootHandleNotify : List Trig := [C [], T [], C []]

/-- … before fix-c16-5: `write = value.writer()`, i.e. `ArcStore::writer`: **`children[]` only** -/
def rootHandleNotifyOld : List Trig := [C []]

/-- the `loop` of `Subfield::track_field`, on the reversed path -/
def trackLoop : List Nat → List Trig
  | [] => [T []]
  | s :: r => T (s :: r).reverse :: trackLoop r

/-- `Subfield::track_field` -/
def subfieldTrack (q : Path) : List Trig := trackLoop q.reverse ++ [T q, C q]

/-- the default `StoreField::track_field` (root store, `AtIndex`, `AtKeyed`) **before fix-c16-3** -/
def defaultTrackOld (q : Path) : List Trig := [T q, C q]

/-- what `StoreFieldIterator::iter_unkeyed` tracked **before fix-c16-4**: `this` and `children` of the
collection, by hand, nothing above it -/
def iterUnkeyedTrackOld (q : Path) : List Trig := [T q, C q]

/-- `KeyedSubfield::track_field` **before fix-c16-3**; `parent` is `self.inner.path()` -/
def keyedFieldTrackOld (parent q : Path) : List Trig := [T parent, T q, C q]

/-- what a write through the plain field at path `p` notifies, in order -/
def notifySet (p : Path) : List Trig :=
  match p with
  | [] => rootWriteNotify
  | _ :: _ => triggersForPath p

/-- what a reader of the field at path `q` tracks, in order (every accessor kind, the root store included) -/
def trackSet (q : Path) : List Trig := subfieldTrack q

/-! ## `FieldKeys` -/

/-- `key ↦ (segment, index)` -/
abbrev KeyEntry := Nat × Nat × Nat

structure FieldKeys where
  /-- `spare_keys`, top of the stack first -/
  spare : List Nat
  current : Nat
  keys : List KeyEntry
deriving DecidableEq, Repr

def kvInsert (m : List KeyEntry) (k s i : Nat) : List KeyEntry :=
  match m with
  | [] => [(k, s, i)]
  | (k', e) :: rest => if k' = k then (k, s, i) :: rest else (k', e) :: kvInsert rest k s i

def newGo : List Nat → Nat → List KeyEntry → List KeyEntry
  | [], _, acc => acc
  | k :: ks, i, acc => newGo ks (i + 1) (kvInsert acc k i i)

/-- `FieldKeys::new(from_keys)`: segment = index, `current_key` = number of initial keys (fix-c16-1) -/
def FieldKeys.new (ks : List Nat) : FieldKeys :=
  { spare := [], current := ks.length, keys := newGo ks 0 [] }

/-- `FieldKeys::new` before fix-c16-1: **`current_key` stayed 0** -/
def FieldKeys.newOld (ks : List Nat) : FieldKeys :=
  { spare := [], current := 0, keys := newGo ks 0 [] }

def FieldKeys.get (fk : FieldKeys) (k : Nat) : Option (Nat × Nat) :=
  match fk.keys.find? (·.1 = k) with
  | some (_, s, i) => some (s, i)
  | none => none

def FieldKeys.seg (fk : FieldKeys) (k : Nat) : Option Nat := (fk.get k).map (·.1)

def FieldKeys.live (fk : FieldKeys) : List Nat := fk.keys.map (·.1)
def FieldKeys.segs (fk : FieldKeys) : List Nat := fk.keys.map (·.2.1)

/-- `FieldKeys::next_key` -/
def FieldKeys.nextKey (fk : FieldKeys) : Nat × FieldKeys :=
  match fk.spare with
  | s :: rest => (s, { fk with spare := rest })
  | [] => (fk.current + 1, { fk with current := fk.current + 1 })

/-- `iter.enumerate().map(|(idx, key)| (key, idx)).collect::<FxHashMap>()` (a later duplicate wins) -/
def enumKeys : List Nat → Nat → List (Nat × Nat) → List (Nat × Nat)
  | [], _, acc => acc
  | k :: ks, i, acc =>
    enumKeys ks (i + 1) (if acc.any (·.1 = k) then acc.map (fun e => if e.1 = k then (k, i) else e) else acc ++ [(k, i)])

def lookupIdx (nk : List (Nat × Nat)) (k : Nat) : Option Nat :=
  match nk.find? (·.1 = k) with
  | some (_, i) => some i
  | none => none

/-- the `retain` pass of `update`: kept entries get their new index, removed entries' segments are
pushed on `spare_keys` in iteration order -/
def retainGo : List KeyEntry → List (Nat × Nat) → List Nat → List KeyEntry × List Nat
  | [], _, sp => ([], sp)
  | (k, s, _) :: rest, nk, sp =>
    match lookupIdx nk k with
    | some idx => let r := retainGo rest nk sp; ((k, s, idx) :: r.1, r.2)
    | none => retainGo rest nk (s :: sp)

/-- the "add new keys" loop of `update` -/
def addNew : List (Nat × Nat) → FieldKeys → FieldKeys
  | [], fk => fk
  | (k, idx) :: rest, fk =>
    if fk.keys.any (·.1 = k) then addNew rest fk
    else
      let r := fk.nextKey
      addNew rest { r.2 with keys := r.2.keys ++ [(k, r.1, idx)] }

/-- `update` on the already collected `new_keys` map (any iteration order of it) -/
def FieldKeys.updateEntries (fk : FieldKeys) (nk : List (Nat × Nat)) : FieldKeys :=
  let r := retainGo fk.keys nk fk.spare
  addNew nk { fk with keys := r.1, spare := r.2 }

/-- `FieldKeys::update(iter)` -/
def FieldKeys.update (fk : FieldKeys) (ks : List Nat) : FieldKeys :=
  fk.updateEntries (enumKeys ks 0 [])


/-! ## values -/

inductive Tag | struct | opt | vec | kvec | atom | enumv
deriving DecidableEq, Repr

/-- the store's value: a struct (`node struct fields`), `Option` (`node opt []` / `node opt [x]`),
`Vec` (`node vec items`), keyed `Vec` (`node kvec items`, key = first field of the item), a leaf, or a struct
behind a smart pointer that its parent patches as a whole (`node atom fields`: `Box<Leaf>` with
`#[patch(|this, new| *this = new)]`, read through `DerefedField`, which adds no path segment), or an enum
value (`node enumv (leaf variant :: fields of that variant)`; `derive(Patch)` does not take enums, so its
parent patches it as a whole too) -/
inductive Val
  | leaf (n : Nat)
  | node (tag : Tag) (xs : List Val)
deriving Repr

def Val.child : Val → Nat → Option Val
  | .leaf _, _ => none
  | .node _ xs, i => xs[i]?

def Val.setChild : Val → Nat → Val → Val
  | .leaf n, _, _ => .leaf n
  | .node t xs, i, c => .node t (xs.set i c)

def Val.get (v : Val) : List Nat → Option Val
  | [] => some v
  | i :: r =>
    match v.child i with
    | some c => c.get r
    | none => none

def Val.set (v : Val) : List Nat → Val → Val
  | [], w => w
  | i :: r, w =>
    match v.child i with
    | some c => v.setChild i (c.set r w)
    | none => v

def Val.items : Val → List Val
  | .leaf _ => []
  | .node _ xs => xs

def Val.tag? : Val → Option Tag
  | .leaf _ => none
  | .node t _ => some t

/-- the key function of the family: `|row| row.id`, the first field -/
def Val.keyOf : Val → Nat
  | .node _ (.leaf k :: _) => k
  | _ => 0

def Val.keys (v : Val) : List Nat := v.items.map Val.keyOf

mutual
def Val.beq : Val → Val → Bool
  | .leaf a, .leaf b => a == b
  | .node t xs, .node u ys => t == u && Val.beqList xs ys
  | _, _ => false
def Val.beqList : List Val → List Val → Bool
  | [], [] => true
  | x :: xs, y :: ys => Val.beq x y && Val.beqList xs ys
  | _, _ => false
end

/-- `DerefedField`: the field behind the smart pointer is an ordinary struct for whoever holds it directly -/
def Val.untop : Val → Val
  | .node .atom xs => .node .struct xs
  | v => v

def Val.retop (old : Val) (v : Val) : Val :=
  match old, v with
  | .node .atom _, .node _ xs => .node .atom xs
  | _, v => v

mutual
/-- `PatchField::patch_field(&mut old, new, path, notify)`: new value and the paths passed to `notify`, in order -/
def patchVal : Val → Val → Path → Val × List Path
  | .leaf a, .leaf b, p => if a = b then (.leaf a, []) else (.leaf b, [p])
  | .node .atom xs, .node _ ys, p =>
    -- the derived `if new.field != self.field { closure; notify(path) }`
    if Val.beqList xs ys then (.node .atom xs, []) else (.node .atom ys, [p])
  | .node .enumv xs, .node _ ys, p =>
    if Val.beqList xs ys then (.node .enumv xs, []) else (.node .enumv ys, [p])
  | .node t xs, .node _ ys, p =>
    if xs.isEmpty && ys.isEmpty then (.node t xs, [])
    else if ys.isEmpty then (.node t [], [p])
    else if xs.isEmpty then (.node t ys, [p])
    else
      let r := patchList xs ys p 0
      (.node t r.1, r.2 ++ (if xs.length ≠ ys.length then [p] else []))
  | _, new, p => (new, [p])
def patchList : List Val → List Val → Path → Nat → List Val × List Path
  | x :: xs, y :: ys, p, i =>
    let a := patchVal x y (p ++ [i])
    let b := patchList xs ys p (i + 1)
    (a.1 :: b.1, a.2 ++ b.2)
  | [], ys, _, _ => (ys, [])
  | _ :: _, [], _, _ => ([], [])
end

/-! ## accessor chains -/

inductive Acc
  | fld (i : Nat)
  | idx (i : Nat)
  | kfld (i : Nat)
  | key (k : Nat)
  /-- field `i` of variant `v` of an enum: the `Option<Subfield>` accessor `variant_field()` that
  `derive(Store)` generates for enums -/
  | var (v i : Nat)
  /-- only at the head of a chain: start from the long-lived `Field` / `ArcField` handle number `id`
  (`St.handles`), whose `path()` was fixed when it was created -/
  | h (id : Nat)
deriving DecidableEq, Repr

/-- the path segment `derive(Store)` gives field `i` of an enum variant: its index within the variant
(reactive_stores_macro `variant_to_tokens`, since fix-c16-6) -/
def varSeg (i : Nat) : Nat := i

/-- … before fix-c16-6: **always 0** (`Subfield::new(self, 0.into(), ..)`), so all fields of a variant shared
their triggers -/
def varSegOld (_i : Nat) : Nat := 0

/-- the variant of the enum value at `vpos` -/
def variantAt (v : Val) (vpos : Option Path) : Option Nat :=
  match vpos with
  | some pos => match v.get pos with
    | some (.node .enumv (.leaf n :: _)) => some n
    | _ => none
  | none => none

/-- root first: `store.mid().rows().at_key(10).label()` is `[fld 1, kfld 2, key 10, fld 1]` -/
abbrev Chain := List Acc

/-- what a reader saw -/
inductive Seen
  | val (v : Val)
  | none      -- `reader()` returned `None` (key not in the key table)
  | absent    -- not read: the field does not exist in the current value (`None.unwrap()`, index ≥ len)
  | panic     -- `reader()` panicked (stale index out of bounds)
deriving Repr

/-- how a reader reads its field -/
inductive RKind
  | plain   -- `.get()` / `.read()` / `.with(..)` / `.track()` + `read_untracked()` on the accessor (also through `Field` / `ArcField`)
  | omap    -- `OptionStoreExt::map` / `invert` on the `Option` field on the way (or the enum's `variant_field()`
            -- accessor called inside the reader), then `.get()` on the rest of the chain
  | iterK   -- `for item in keyed_field { item.get() }` (`KeyedSubfield::into_iter`)
  | iterU   -- `for item in field.iter_unkeyed() { item.get() }` (`StoreFieldIterator::iter_unkeyed`, after fix-c16-4)
deriving DecidableEq, Repr

structure Eff where
  chain : Chain
  kind : RKind
  imm : Bool
  woken : Bool
deriving Repr

structure St where
  val : Val
  keys : List (Path × FieldKeys)
  subs : List (Trig × List Nat)
  effs : List Eff
  log : List (Nat × Seen)
  panicked : Bool
  /-- long-lived handles: the accessor chain that was converted (`.into()`) and the `path()` it had then -/
  handles : List (Chain × Path) := []

def St.init (v : Val) : St := { val := v, keys := [], subs := [], effs := [], log := [], panicked := false }

/-! ### key tables (`KeyMap::with_field_keys`) -/

def keysLookup (m : List (Path × FieldKeys)) (p : Path) : Option FieldKeys :=
  match m.find? (·.1 = p) with
  | some e => some e.2
  | none => none

def keysStore (m : List (Path × FieldKeys)) (p : Path) (fk : FieldKeys) : List (Path × FieldKeys) :=
  match m with
  | [] => [(p, fk)]
  | (q, e) :: rest => if q = p then (p, fk) :: rest else (q, e) :: keysStore rest p fk

/-- `latest_keys()` of the keyed field whose value sits at `vpos` -/
def latestKeys (v : Val) (vpos : Option Path) : List Nat :=
  match vpos with
  | some pos => match v.get pos with
    | some x => x.keys
    | none => []
  | none => []

/-- the table for the keyed field at trigger path `tp`, created by `FieldKeys::new(latest_keys())` on first use -/
def withFieldKeys (st : St) (tp : Path) (vpos : Option Path) : St × FieldKeys :=
  match keysLookup st.keys tp with
  | some fk => (st, fk)
  | none =>
    let fk := FieldKeys.new (latestKeys st.val vpos)
    ({ st with keys := keysStore st.keys tp fk }, fk)

/-- `KeyedSubfield::update_keys` -/
def updateKeys (st : St) (tp : Path) (vpos : Option Path) : St :=
  let r := withFieldKeys st tp vpos
  { r.1 with keys := keysStore r.1.keys tp (r.2.update (latestKeys r.1.val vpos)) }

/-! ### walking a chain -/

structure Walk where
  tpath : Path            -- `self.path()`
  parent : Path           -- `self.inner.path()`
  vpos : Option Path      -- where `reader()` looks in the value; `none`: key not in the table
  tr : List Trig          -- dropping `self.writer()` notifies these, in order
  un : List Trig          -- … and these if `untrack()` was called on it first
  absent : Bool           -- a plain field / index step has no value to look at
  oob : Bool              -- a key step's stored index is out of bounds (the real `reader()` panics)
  last : Option Acc
deriving Repr

def Walk.root : Walk :=
  { tpath := [], parent := [], vpos := some [], tr := [C []], un := [], absent := false, oob := false, last := none }

def childExists (v : Val) (vpos : Option Path) (i : Nat) : Bool :=
  match vpos with
  | some pos => match v.get (pos ++ [i]) with
    | some _ => true
    | none => false
  | none => true

/-- one accessor; `old = true`: `AtIndex::writer` as it was before fix-c16-2 (parent writer left tracked,
only `children` of the own path added) -/
def stepAccG (old : Bool) (sw : St × Walk) (a : Acc) : St × Walk :=
  let st := sw.1
  let w := sw.2
  match a with
  | .fld i | .kfld i =>
    let tp := w.tpath ++ [i]
    (st, { w with tpath := tp, parent := w.tpath, vpos := w.vpos.map (· ++ [i]),
                  tr := w.un ++ triggersForPath tp, un := w.un,
                  absent := w.absent || (!w.oob && !childExists st.val w.vpos i), last := some a })
  | .idx i =>
    let tp := w.tpath ++ [i]
    (st, { w with tpath := tp, parent := w.tpath, vpos := w.vpos.map (· ++ [i]),
                  tr := if old then w.tr ++ [C tp] else w.un ++ triggersForPath tp,
                  un := if old then w.tr else w.un,
                  absent := w.absent || (!w.oob && !childExists st.val w.vpos i), last := some a })
  | .var v i =>
    let tp := w.tpath ++ [varSeg i]
    (st, { w with tpath := tp, parent := w.tpath, vpos := w.vpos.map (· ++ [i + 1]),
                  tr := w.un ++ triggersForPath tp, un := w.un,
                  absent := w.absent || (!w.oob && (variantAt st.val w.vpos != some v || !childExists st.val w.vpos (i + 1))),
                  last := some a })
  | .h _ => (st, w)   -- a handle is only meaningful at the head of a chain (`walkH`)
  | .key k =>
    let r := withFieldKeys st w.tpath w.vpos
    match r.2.get k with
    | some (seg, idx) =>
      let tp := w.tpath ++ [seg]
      (r.1, { w with tpath := tp, parent := w.tpath, vpos := w.vpos.map (· ++ [idx]),
                     tr := w.un ++ triggersForPath tp, un := w.un,
                     oob := w.oob || !childExists r.1.val w.vpos idx, last := some a })
    | none =>
      (r.1, { w with parent := w.tpath, vpos := none,
                     tr := w.un ++ triggersForPath w.tpath, un := w.un, last := some a })

def stepAcc : St × Walk → Acc → St × Walk := stepAccG false
def stepAccOld : St × Walk → Acc → St × Walk := stepAccG true

def walk (st : St) (c : Chain) : St × Walk := c.foldl stepAcc (st, Walk.root)
def walkOld (st : St) (c : Chain) : St × Walk := c.foldl stepAccOld (st, Walk.root)

/-- the walk of a chain that may start at a long-lived handle.  Everything the handle does itself goes through
closures that call the original accessor (`read`, `write`, `track_field`, `get_trigger`): dynamic.  Only its
`path()` is the one captured at creation, and that is what accessors built **on** the handle extend. -/
def walkH (st : St) (c : Chain) : St × Walk :=
  match c with
  | .h id :: rest =>
    match st.handles[id]? with
    | some (hc, fz) =>
      let r := walk st hc
      if rest.isEmpty then r else rest.foldl stepAcc (r.1, { r.2 with tpath := fz })
    | none => walk st rest
  | _ => walk st c

/-- `StoreField::path()` of the accessor at the end of the chain (what `Patch::patch` starts from) -/
def pathH (st : St) (c : Chain) (w : Walk) : Path :=
  match c with
  | [.h id] => match st.handles[id]? with | some (_, fz) => fz | none => w.tpath
  | _ => w.tpath

/-- what `track()` of the accessor at the end of the chain tracks, in order: since fix-c16-3 every
accessor kind tracks `this` of all ancestors, then `this` and `children` of its own path -/
def Walk.trackList (w : Walk) : List Trig := subfieldTrack w.tpath

/-- … before fix-c16-3 -/
def Walk.trackListOld (w : Walk) : List Trig :=
  match w.last with
  | none => defaultTrackOld []
  | some (.fld _) => subfieldTrack w.tpath
  | some (.kfld _) => keyedFieldTrackOld w.parent w.tpath
  | some (.idx _) => defaultTrackOld w.tpath
  | some (.key _) => defaultTrackOld w.tpath
  | some (.var _ _) => subfieldTrack w.tpath
  | some (.h _) => subfieldTrack w.tpath

/-- what the reader closure of the harness logs after tracking -/
def Walk.read (w : Walk) (v : Val) : Seen :=
  if w.absent then .absent
  else match w.vpos with
    | none => .none
    | some pos =>
      if w.oob then .panic
      else match v.get pos with
        | some x => .val x
        | none => .panic

/-! ### subscriber sets, effects -/

def subsOf (m : List (Trig × List Nat)) (t : Trig) : List Nat :=
  match m.find? (·.1 = t) with
  | some e => e.2
  | none => []

def subsSet (m : List (Trig × List Nat)) (t : Trig) (l : List Nat) : List (Trig × List Nat) :=
  match m with
  | [] => [(t, l)]
  | (u, e) :: rest => if u = t then (t, l) :: rest else (u, e) :: subsSet rest t l

/-- `SubscriberSet::subscribe`: push unless present -/
def subscribe (m : List (Trig × List Nat)) (e : Nat) (t : Trig) : List (Trig × List Nat) :=
  let l := subsOf m t
  if l.contains e then m else subsSet m t (l ++ [e])

/-- `clear_sources`: remove the effect from every set, order of the others preserved -/
def unsubscribeAll (m : List (Trig × List Nat)) (e : Nat) : List (Trig × List Nat) :=
  m.map fun (t, l) => (t, l.filter (· ≠ e))

def setWoken (effs : List Eff) (e : Nat) (b : Bool) : List Eff :=
  match effs[e]? with
  | some x => effs.set e { x with woken := b }
  | none => effs

/-- `track()` of the accessor at the end of `c`, then its untracked read -/
def trackAndRead (st : St) (e : Nat) (c : Chain) : St × Seen :=
  let r := walkH st c
  let st' := { r.1 with subs := r.2.trackList.foldl (fun m t => subscribe m e t) r.1.subs }
  (st', r.2.read st'.val)

/-- the first prefix of `c` that addresses an `Option` or enum field (its length); the harness knows it from
the types -/
def optSplit (st : St) (c : Chain) : Option Nat :=
  (List.range (c.length + 1)).find? fun n =>
    match (walkH st (c.take n)).2.read st.val with
    | .val (.node .opt _) => true
    | .val (.node .enumv _) => true
    | _ => false

def readItems (e : Nat) (c : Chain) (mk : Nat → Acc) : List Nat → St × Seen → St × Seen
  | [], acc => acc
  | k :: rest, (st, seen) =>
    let r := trackAndRead st e (c ++ [mk k])
    readItems e c mk rest (r.1, match seen, r.2 with
      | .val v, .val _ => .val v
      | .val _, bad => bad
      | bad, _ => bad)

/-- what one run of reader `x` (already unsubscribed) tracks and sees -/
def runKind (st : St) (e : Nat) (x : Eff) : St × Seen :=
  match x.kind with
  | .plain => trackAndRead st e x.chain
  | .omap =>
    match optSplit st x.chain with
    | none => trackAndRead st e x.chain
    | some n =>
      -- `self.try_read()` on the option field (`map`) / `track_field` + `reader()` on the enum field
      -- (`variant_field()`) …
      let r := trackAndRead st e (x.chain.take n)
      match r.2 with
      | .val _ =>
        if (walkH r.1 (x.chain.take (n + 1))).2.absent then (r.1, .absent)   -- … `None` / another variant
        else trackAndRead r.1 e x.chain                                     -- … the rest is read
      | bad => (r.1, bad)
  | .iterK =>
    -- `into_iter`: `update_keys`, `track_field`, then every item is read through its `AtKeyed`
    let r0 := walkH st x.chain
    let st1 := updateKeys r0.1 r0.2.tpath r0.2.vpos
    let r := trackAndRead st1 e x.chain
    readItems e x.chain Acc.key (latestKeys r.1.val (walkH r.1 x.chain).2.vpos) r
  | .iterU =>
    -- `iter_unkeyed`: `track_field()` (since fix-c16-4; before: `iterUnkeyedTrackOld`), reads the length,
    -- then every element is read through its `AtIndex`
    let r := walkH st x.chain
    let st1 := { r.1 with subs := r.2.trackList.foldl (fun m t => subscribe m e t) r.1.subs }
    let seen := r.2.read st1.val
    let len := match seen with | .val v => v.items.length | _ => 0
    readItems e x.chain Acc.idx (List.range len) (st1, seen)

/-- one run of reader `e`: clear sources, track and read according to its kind, log -/
def runEff (st : St) (e : Nat) : St :=
  match st.effs[e]? with
  | none => st
  | some x =>
    let r := runKind { st with subs := unsubscribeAll st.subs e } e x
    { r.1 with log := r.1.log ++ [(e, r.2)],
               panicked := r.1.panicked || (match r.2 with | .panic => true | _ => false) }

/-- `mark_dirty` of one subscriber -/
def markDirty (st : St) (e : Nat) : St :=
  match st.effs[e]? with
  | none => st
  | some x => if x.imm then runEff st e else { st with effs := setWoken st.effs e true }

/-- `ArcTrigger::notify`: the subscriber list is taken, then every subscriber is marked dirty in order -/
def notifyTrig (st : St) (t : Trig) : St :=
  let l := subsOf st.subs t
  l.foldl markDirty { st with subs := subsSet st.subs t [] }

def notifyAll (st : St) (ts : List Trig) : St := ts.foldl notifyTrig st

/-! ### operations -/

inductive Op
  /-- `pre`: the accessor after this many steps is converted to a `Field` / `ArcField` when the reader is
  created (`.into()` evaluates `path()` there, which creates key tables on the way) -/
  | reader (c : Chain) (kind : RKind) (imm : Bool) (pre : Option Nat)
  /-- `era = some k`: the accessor after `k` steps is converted to a `Field` / `ArcField` (`.into()`) and the
  write goes through that handle and the rest of the chain -/
  | set (c : Chain) (v : Val) (era : Option Nat)
  | patch (c : Chain) (v : Val) (era : Option Nat)
  /-- `Field::from(accessor)` / `ArcField::from(accessor)` kept for later use -/
  | hnew (c : Chain)
  | kpush (c : Chain) (v : Val)
  | kremove (c : Chain) (i : Nat)
  | kswap (c : Chain) (i j : Nat)
  | krev (c : Chain)
  | poll (i : Nat)
  | idle
deriving Repr

/-- ids of woken asynchronous effects, in spawn order: the executor's ready list -/
def readyGo : List Eff → Nat → List Nat
  | [], _ => []
  | x :: rest, i => if !x.imm && x.woken then i :: readyGo rest (i + 1) else readyGo rest (i + 1)

def St.ready (st : St) : List Nat := readyGo st.effs 0

/-- result of trying to write through a chain -/
inductive Wrote
  | done | absent | none | panic
deriving DecidableEq, Repr

/-- a write of `f old` through the accessor at the end of `c` (`Write::try_write`, then the guard is dropped) -/
def writeVia (st : St) (c : Chain) (f : Val → Val) : St × Wrote :=
  let r := walkH st c
  let st := r.1
  let w := r.2
  if w.absent then (st, .absent)
  else match w.vpos with
    | none => (st, .none)
    | some pos =>
      match (if w.oob then none else st.val.get pos) with
      | none => ({ st with panicked := true }, .panic)
      | some old =>
        let st := { st with val := st.val.set pos (f old) }
        match w.last with
        | none => (notifyAll st rootWriteNotify, .done)
        | some (.kfld _) =>
          let st := notifyAll st w.tr
          let st := updateKeys st w.tpath w.vpos
          (notifyAll st [T w.tpath, C w.tpath], .done)
        | some _ => (notifyAll st w.tr, .done)

/-- `Patch::patch`: untracked writer, the changed paths are collected, the writer is dropped, then
`triggers_for_path(path).notify()` for every changed path (before fix a211bab the notifications ran while the
write guard was still held: a synchronous reader could not read the store, F-C16-10) -/
def patchVia (st : St) (c : Chain) (new : Val) : St × Wrote :=
  let r := walkH st c
  let st := r.1
  let w := r.2
  if w.absent then (st, .absent)
  else match w.vpos with
    | none => (st, .none)
    | some pos =>
      match (if w.oob then none else st.val.get pos) with
      | none => ({ st with panicked := true }, .panic)
      | some old =>
        let pr := patchVal old.untop new.untop (pathH st c w)
        let st := { st with val := st.val.set pos (old.retop pr.1) }
        -- since fix a211bab: the (untracked) writer is dropped first, then every changed path is notified
        let st := notifyAll st w.un
        (pr.2.foldl (fun s p => notifyAll s (triggersForPath p)) st, .done)

def swapList (xs : List Val) (i j : Nat) : List Val :=
  match xs[i]?, xs[j]? with
  | some a, some b => (xs.set i b).set j a
  | _, _ => xs

def idleGo (st : St) : List Nat → St
  | [] => st
  | e :: rest =>
    match st.effs[e]? with
    | some x =>
      if !x.imm && x.woken then idleGo (runEff { st with effs := setWoken st.effs e false } e) rest
      else idleGo st rest
    | none => idleGo st rest

def stepOp (st : St) (op : Op) : St × Wrote :=
  let st := { st with log := [] }
  match op with
  | .reader c kind imm pre =>
    let e := st.effs.length
    let st := match pre with
      | some n => (walkH st (c.take n)).1
      | none => st
    let st := { st with effs := st.effs ++ [{ chain := c, kind := kind, imm := imm, woken := !imm }] }
    (if imm then runEff st e else st, .done)
  | .set c v era =>
    if era.isSome && c.isEmpty then
      -- `Field::<Root>::from(store).set(v)`: the handle's own `write` closure
      (notifyAll { st with val := v } rootHandleNotify, .done)
    else writeVia st c (fun _ => v)
  | .patch c v _ => patchVia st c v
  | .hnew c =>
    let r := walkH st c
    ({ r.1 with handles := r.1.handles ++ [(c, r.2.tpath)] }, .done)
  | .kpush c v => writeVia st c (fun old => match old with | .node t xs => .node t (xs ++ [v]) | x => x)
  | .kremove c i => writeVia st c (fun old => match old with | .node t xs => .node t (xs.eraseIdx i) | x => x)
  | .kswap c i j => writeVia st c (fun old => match old with | .node t xs => .node t (swapList xs i j) | x => x)
  | .krev c => writeVia st c (fun old => match old with | .node t xs => .node t xs.reverse | x => x)
  | .poll i =>
    let r := st.ready
    match r[i % r.length]? with
    | some e => (runEff { st with effs := setWoken st.effs e false } e, .done)
    | none => (st, .done)
  | .idle => (idleGo st (List.range st.effs.length), .done)


/-! ## the specification side: logical addressing (by key, not by index) -/

/-- the value a reader of `c` ought to see: items of keyed collections are found by their key -/
def logicalGet : Val → Chain → Seen
  | v, [] => .val v
  | v, .fld i :: r | v, .kfld i :: r | v, .idx i :: r =>
    match v.child i with
    | some c => logicalGet c r
    | none => .absent
  | v, .key k :: r =>
    match v.items.find? (fun x => x.keyOf = k) with
    | some c => logicalGet c r
    | none => .none
  | v, .h _ :: r => logicalGet v r   -- chains are expanded (`expandH`) before they get here
  | v, .var n i :: r =>
    match v with
    | .node .enumv (.leaf m :: fs) => if m = n then (match fs[i]? with | some c => logicalGet c r | none => .absent) else .absent
    | _ => .absent

/-- the logical chain: a handle stands for the chain it was made from -/
def expandH (handles : List (Chain × Path)) (c : Chain) : Chain :=
  match c with
  | .h id :: rest => match handles[id]? with | some (hc, _) => hc ++ rest | none => rest
  | _ => c

def Acc.norm : Acc → Acc
  | .kfld i => .fld i
  | a => a

/-- two accessor chains are related when one addresses an ancestor (or the same field) of the other -/
def related (w r : Chain) : Bool :=
  (w.map Acc.norm).isPrefixOf (r.map Acc.norm) || (r.map Acc.norm).isPrefixOf (w.map Acc.norm)

mutual
/-- the fields that differ between two values, as accessor chains (what `patch` ought to notify) -/
def diffVal : Val → Val → Chain → List Chain
  | .leaf a, .leaf b, c => if a = b then [] else [c]
  | .node .atom xs, .node _ ys, c => if Val.beqList xs ys then [] else [c]
  | .node .enumv xs, .node _ ys, c => if Val.beqList xs ys then [] else [c]
  | .node t xs, .node _ ys, c =>
    if xs.isEmpty && ys.isEmpty then []
    else if xs.isEmpty || ys.isEmpty then [c]
    else diffList t xs ys c 0 ++ (if xs.length ≠ ys.length then [c] else [])
  | _, _, c => [c]
def diffList : Tag → List Val → List Val → Chain → Nat → List Chain
  | t, x :: xs, y :: ys, c, i =>
    (match t with
     | .kvec => if x.keyOf = y.keyOf then diffVal x y (c ++ [.key x.keyOf]) else [c]
     | .vec => diffVal x y (c ++ [.idx i])
     | _ => diffVal x y (c ++ [if x.tag? = some .kvec then .kfld i else .fld i])) ++ diffList t xs ys c (i + 1)
  | _, [], _, _, _ => []
  | _, _ :: _, [], _, _ => []
end

end Leptos.Store
