import LeptosModel.Model.Dom
/-!
# Model/View — deep embedding of tachys' statically typed views and their retained states (C03)

Every function follows the Rust impl of the same name for the same view type **as it is**.

| here                                   | Rust (/repo/tachys/src)                                                          |
|----------------------------------------|------------------------------------------------------------------------------------|
| `Ty`, `AttrTy`                         | the Rust *type* of a view: `String`, `()`, `HtmlElement<E, At, Ch>`, `(A, B, …)`, `Option<T>`, `Either<A,B>` / `EitherOf3..`, `Vec<T>`, `AnyView`; of an attribute: `Attr<K, String>`, `Attr<K, Option<String>>`, `Attr<K, bool>`, `Class<String>`, `Class<Option<String>>`, `Class<(&'static str, bool)>`, `Style<String>`, `Style<(String, String)>`, `Style<(String, Option<String>)>` |
| `View`, `AttrVal`                      | a *value* of such a type                                                            |
| `State`, `AttrState`                   | `Render::State` / `Attribute::State`: `StringState`, `Placeholder`, `ElementState`, state tuples, `Either<..>` / `EitherOfNState`, `VecState`, `AnyViewState` |
| `hasTy`, `HasTy`, `Ty.wf`              | "is a value of this type"; `wf` = the type exists in Rust and names every attribute once |
| `build`                                | `Render::build`: view/strings.rs (`String`), view/tuples.rs (`()` = placeholder comment, tuples left to right), html/element/mod.rs (create element, attributes, then children built and mounted with `None` marker; `SELF_CLOSING` elements have no child state), view/iterators.rs (`Option<T>` = `Either<T, ()>`; `Vec`: marker first, then the items), view/either.rs, view/any_view.rs |
| `rebuild`                              | `Render::rebuild`: strings.rs (set text only if changed), tuples pointwise, either.rs (same branch: rebuild; other branch: build new, `insert_before_this` of the old state, unmount old), iterators.rs `Vec` (old empty: `self.build()` — which allocates and drops a second marker — then `mount_before(marker)` each; new empty: unmount all; else zip-longest: rebuild / build+`mount_before(marker)` / unmount), any_view.rs (same `TypeId`: rebuild; else build, `insert_before_this`, unmount) |
| `mount`, `unmount`, `insertBeforeThis` | `Mountable::{mount, unmount, insert_before_this}` for the same state types (`VecState` mounts items then its marker; `insert_before_this` of a tuple / `VecState` tries the parts in order, of a node needs a parent element) |
| `buildAttr`, `rebuildAttr`             | html/attribute/mod.rs `Attr::{build, rebuild}` + attribute/value.rs (`String`: set only if changed; `Option`: `None` removes, `Some` after `None` builds; `bool`: `""` / remove), html/class.rs (`String`, `Option<String>` whose `reset` removes the whole attribute, `(&'static str, bool)`), html/style.rs (`String`; `(K, V)`; `Option<V>`) — as repaired by hooks/fix-c03-{1,3,4}.patch; `rebuildAttrOld` is the code before the repairs |
| `render`                               | the DOM a fresh `build` + `mount` produces, as `Dom.Tree`s (the specification side of C03) |

`keyed` is not in this type: the keyed list is modelled over an abstract child list in
`Model/Keyed.lean` (C11); C03 covers it by correspondence only.

`Rndr::mount_before` panics when the marker has no parent; the model logs `panic: …` in
`Dom.errs` instead (states handled by the theorems are mounted).
-/
namespace Leptos.View
open Leptos.Dom

/-! ## types and values -/

inductive AttrTy where
  | str (name : String)
  | ostr (name : String)
  | bool (name : String)
  | cls | ocls | tcls
  | sty | psty | opsty
  deriving DecidableEq, Repr, Inhabited

inductive AttrVal where
  | str (name v : String)
  | ostr (name : String) (v : Option String)
  | bool (name : String) (b : Bool)
  | cls (v : String)
  | ocls (v : Option String)
  | tcls (name : String) (on : Bool)
  | sty (v : String)
  | psty (name v : String)
  | opsty (name : String) (v : Option String)
  deriving DecidableEq, Repr, Inhabited

inductive AttrState where
  | str (prev : String)
  | ostr (prev : Option String)
  | bool (prev : Bool)
  | cls (prev : String)
  | ocls (prev : Option String)
  | tcls (prevOn : Bool) (prevName : String)
  | sty (prev : String)
  | psty (name v : String)
  | opsty (name : String) (v : Option String)
  deriving DecidableEq, Repr, Inhabited

inductive Ty where
  | text
  | unit
  | elem (tag : String) (attrs : List AttrTy) (child : Ty)
  | tuple (ts : List Ty)
  | opt (t : Ty)
  | either (ts : List Ty)
  | vec (t : Ty)
  | any
  /-- `[T; n]` (values are `View.tuple`: `ArrayState` mounts, rebuilds and falls through exactly
  like a tuple whose members all have type `t`; `n = 0` is a view without any DOM node) -/
  | arr (n : Nat) (t : Ty)
  deriving Repr, Inhabited

inductive View where
  | text (s : String)
  | unit
  | elem (tag : String) (attrs : List AttrVal) (child : View)
  | tuple (vs : List View)
  | onone
  | osome (v : View)
  /-- branch `i` of an `Either` / `EitherOf<n>` -/
  | either (n i : Nat) (v : View)
  | vec (vs : List View)
  /-- `v.into_any()` where `v : ty` (the tag is the `TypeId`) -/
  | any (ty : Ty) (v : View)
  deriving Repr, Inhabited

inductive State where
  | text (id : Id) (s : String)
  | unit (id : Id)
  | elem (id : Id) (attrs : List AttrState) (child : Option State)
  | tuple (sts : List State)
  /-- `Either<..>` / `EitherOfNState` / `OptionState` (`Some` = 0, `None` = 1) -/
  | either (i : Nat) (st : State)
  | vec (sts : List State) (marker : Id)
  | any (ty : Ty) (st : State)
  deriving Repr, Inhabited

/-! ## type equality (`TypeId` comparison) -/

mutual
def Ty.beq : Ty → Ty → Bool
  | .text, .text => true
  | .unit, .unit => true
  | .elem t1 a1 c1, .elem t2 a2 c2 => t1 == t2 && a1 == a2 && Ty.beq c1 c2
  | .tuple l1, .tuple l2 => Ty.beqList l1 l2
  | .opt a, .opt b => Ty.beq a b
  | .either l1, .either l2 => Ty.beqList l1 l2
  | .vec a, .vec b => Ty.beq a b
  | .any, .any => true
  | .arr n a, .arr m b => n == m && Ty.beq a b
  | _, _ => false
def Ty.beqList : List Ty → List Ty → Bool
  | [], [] => true
  | a :: as, b :: bs => Ty.beq a b && Ty.beqList as bs
  | _, _ => false
end

/-- `SELF_CLOSING` elements (html/element/elements.rs `html_self_closing_elements!`) -/
def isVoid (tag : String) : Bool :=
  ["area", "base", "br", "col", "embed", "hr", "img", "input", "link", "meta", "source", "track",
    "wbr"].contains tag

/-- the attribute a typed attribute writes to (`class:` / `style:` items share theirs) -/
def AttrTy.key : AttrTy → String
  | .str n => n
  | .ostr n => n
  | .bool n => n
  | .cls | .ocls | .tcls => "class"
  | .sty | .psty | .opsty => "style"

/-- keys of the `Attr<K, V>` items (these must be distinct within one element; an optional `style`
stands for `Style<Option<_>>`, of which an element can have several, like any `style` item) -/
def namedKeys : List AttrTy → List String
  | [] => []
  | .str n :: r => n :: namedKeys r
  | .ostr n :: r => if n == "style" then namedKeys r else n :: namedKeys r
  | .bool n :: r => n :: namedKeys r
  | _ :: r => namedKeys r

def AttrVal.ty : AttrVal → AttrTy
  | .str n _ => .str n
  | .ostr n _ => .ostr n
  | .bool n _ => .bool n
  | .cls _ => .cls
  | .ocls _ => .ocls
  | .tcls _ _ => .tcls
  | .sty _ => .sty
  | .psty _ _ => .psty
  | .opsty _ _ => .opsty

def nodupS : List String → Bool
  | [] => true
  | a :: as => !as.contains a && nodupS as

mutual
/-- every value of the type renders at least one DOM node (placeholders count): what the OLD
branch of a switch (`Either`, `Option`, `AnyView`) needs so that `insert_before_this` finds a
position; the only node-less views are `[T; 0]` and tuples / arrays made of node-less members -/
def Ty.nodeful : Ty → Bool
  | .text => true
  | .unit => true
  | .elem _ _ _ => true
  | .tuple ts => Ty.nodefulAny ts
  | .opt t => Ty.nodeful t
  | .either ts => Ty.nodefulAll ts
  | .vec _ => true
  | .any => true
  | .arr n t => decide (1 ≤ n) && Ty.nodeful t
def Ty.nodefulAny : List Ty → Bool
  | [] => false
  | t :: ts => Ty.nodeful t || Ty.nodefulAny ts
def Ty.nodefulAll : List Ty → Bool
  | [] => true
  | t :: ts => Ty.nodeful t && Ty.nodefulAll ts
end

mutual
/-- the type is one tachys can express: tuples have an element, `Either` at least two branches,
void elements have no children, and an element names every `Attr<K, _>` key once (several
`class` / `style` items are allowed) -/
def Ty.shapeOk : Ty → Bool
  | .text => true
  | .unit => true
  | .elem tag as c =>
    nodupS (namedKeys as) && Ty.shapeOk c && (!isVoid tag || (match c with | .unit => true | _ => false))
  | .tuple ts => !ts.isEmpty && Ty.shapeOkList ts
  | .opt t => Ty.shapeOk t
  | .either ts => decide (2 ≤ ts.length) && Ty.shapeOkList ts
  | .vec t => Ty.shapeOk t
  | .any => true
  | .arr _ t => Ty.shapeOk t
def Ty.shapeOkList : List Ty → Bool
  | [] => true
  | t :: ts => Ty.shapeOk t && Ty.shapeOkList ts
end

mutual
/-- `shapeOk`, and every branch that a rebuild may have to *replace* (the branches of `Either` /
`EitherOfN`, the content of `Option`) is `nodeful`: replacing goes through
`old.insert_before_this(new)`, which has nothing to hold on to when the old branch has no node
(finding F-C03-6, class `nodeless-old-branch`) -/
def Ty.wf : Ty → Bool
  | .text => true
  | .unit => true
  | .elem tag as c =>
    nodupS (namedKeys as) && Ty.wf c && (!isVoid tag || (match c with | .unit => true | _ => false))
  | .tuple ts => !ts.isEmpty && Ty.wfList ts
  | .opt t => Ty.wf t && Ty.nodeful t
  | .either ts => decide (2 ≤ ts.length) && Ty.wfList ts && Ty.nodefulAll ts
  | .vec t => Ty.wf t
  | .any => true
  | .arr _ t => Ty.wf t
def Ty.wfList : List Ty → Bool
  | [] => true
  | t :: ts => Ty.wf t && Ty.wfList ts
end

mutual
def hasTy : View → Ty → Bool
  | .text _, .text => true
  | .unit, .unit => true
  | .elem tag as c, .elem tag' ats ct => tag == tag' && as.map AttrVal.ty == ats && hasTy c ct
  | .tuple vs, .tuple ts => hasTyList vs ts
  | .tuple vs, .arr n t => vs.length == n && hasTyAll vs t
  | .onone, .opt _ => true
  | .osome v, .opt t => hasTy v t
  | .either n i v, .either ts =>
    n == ts.length && (match ts[i]? with | some t => hasTy v t | none => false)
  | .vec vs, .vec t => hasTyAll vs t
  | .any ty v, .any => Ty.wf ty && Ty.nodeful ty && hasTy v ty
  | _, _ => false
def hasTyList : List View → List Ty → Bool
  | [], [] => true
  | v :: vs, t :: ts => hasTy v t && hasTyList vs ts
  | _, _ => false
def hasTyAll : List View → Ty → Bool
  | [], _ => true
  | v :: vs, t => hasTy v t && hasTyAll vs t
end

mutual
/-- `hasTy` without the `nodeful` requirements (what the correspondence driver accepts: the
node-less old branches are run too, as a known-finding class) -/
def hasShape : View → Ty → Bool
  | .text _, .text => true
  | .unit, .unit => true
  | .elem tag as c, .elem tag' ats ct => tag == tag' && as.map AttrVal.ty == ats && hasShape c ct
  | .tuple vs, .tuple ts => hasShapeList vs ts
  | .tuple vs, .arr n t => vs.length == n && hasShapeAll vs t
  | .onone, .opt _ => true
  | .osome v, .opt t => hasShape v t
  | .either n i v, .either ts =>
    n == ts.length && (match ts[i]? with | some t => hasShape v t | none => false)
  | .vec vs, .vec t => hasShapeAll vs t
  | .any ty v, .any => Ty.shapeOk ty && hasShape v ty
  | _, _ => false
def hasShapeList : List View → List Ty → Bool
  | [], [] => true
  | v :: vs, t :: ts => hasShape v t && hasShapeList vs ts
  | _, _ => false
def hasShapeAll : List View → Ty → Bool
  | [], _ => true
  | v :: vs, t => hasShape v t && hasShapeAll vs t
end

/-- `v` is a value of the (well-formed) view type `ty` -/
def HasTy (v : View) (ty : Ty) : Prop := ty.wf = true ∧ hasTy v ty = true

instance (v : View) (ty : Ty) : Decidable (HasTy v ty) := by unfold HasTy; infer_instance

/-! ## Mountable -/

mutual
/-- the top-level DOM nodes of a state, in document order -/
def State.roots : State → List Id
  | .text id _ => [id]
  | .unit id => [id]
  | .elem id _ _ => [id]
  | .tuple sts => State.rootsList sts
  | .either _ st => st.roots
  | .vec sts m => State.rootsList sts ++ [m]
  | .any _ st => st.roots
def State.rootsList : List State → List Id
  | [] => []
  | s :: ss => s.roots ++ State.rootsList ss
end

mutual
/-- `Mountable::mount(parent, marker)` -/
def mount : State → Dom → Id → Option Id → Dom
  | .text id _, d, p, m => d.insertNode p id m
  | .unit id, d, p, m => d.insertNode p id m
  | .elem id _ _, d, p, m => d.insertNode p id m
  | .tuple sts, d, p, m => mountList sts d p m
  | .either _ st, d, p, m => mount st d p m
  | .vec sts mk, d, p, m => (mountList sts d p m).insertNode p mk m
  | .any _ st, d, p, m => mount st d p m
def mountList : List State → Dom → Id → Option Id → Dom
  | [], d, _, _ => d
  | s :: ss, d, p, m => mountList ss (mount s d p m) p m
end

mutual
/-- `Mountable::unmount` -/
def unmount : State → Dom → Dom
  | .text id _, d => d.remove id
  | .unit id, d => d.remove id
  | .elem id _ _, d => d.remove id
  | .tuple sts, d => unmountList sts d
  | .either _ st, d => unmount st d
  | .vec sts mk, d => (unmountList sts d).remove mk
  | .any _ st, d => unmount st d
def unmountList : List State → Dom → Dom
  | [], d => d
  | s :: ss, d => unmountList ss (unmount s d)
end

/-- `insert_before_this` of a single node: mounts `child` before it if it has a parent element -/
def nodeInsertBefore (id : Id) (child : State) (d : Dom) : Dom × Bool :=
  match d.getParent id with
  | some p => if d.isElement p then (mount child d p (some id), true) else (d, false)
  | none => (d, false)

mutual
/-- `Mountable::insert_before_this(child)` -/
def insertBeforeThis : State → State → Dom → Dom × Bool
  | .text id _, c, d => nodeInsertBefore id c d
  | .unit id, c, d => nodeInsertBefore id c d
  | .elem id _ _, c, d => nodeInsertBefore id c d
  | .tuple sts, c, d => insertBeforeFirst sts c d
  | .either _ st, c, d => insertBeforeThis st c d
  | .vec sts mk, c, d =>
    match insertBeforeFirst sts c d with
    | (d', true) => (d', true)
    | (d', false) => nodeInsertBefore mk c d'
  | .any _ st, c, d => insertBeforeThis st c d
/-- `a.insert_before_this(child) || b.insert_before_this(child) || …` -/
def insertBeforeFirst : List State → State → Dom → Dom × Bool
  | [], _, d => (d, false)
  | s :: ss, c, d =>
    match insertBeforeThis s c d with
    | (d', true) => (d', true)
    | (d', false) => insertBeforeFirst ss c d'
end

/-- `Rndr::mount_before(new_child, before)`: the parent is looked up from the marker -/
def mountBefore (c : State) (marker : Id) (d : Dom) : Dom :=
  match d.getParent marker with
  | some p =>
    if d.isElement p then mount c d p (some marker)
    else d.err "panic: placeholder parent should be Element"
  | none => d.err "panic: could not find parent element"

def mountBeforeEach : List State → Id → Dom → Dom
  | [], _, d => d
  | s :: ss, mk, d => mountBeforeEach ss mk (mountBefore s mk d)

/-! ## attributes -/

/-- `Attribute::build(el)` for one attribute -/
def buildAttr (el : Id) (d : Dom) : AttrVal → Dom × AttrState
  | .str n v => (d.setAttribute el n v, .str v)
  | .ostr n (some v) => (d.setAttribute el n v, .ostr (some v))
  | .ostr _ none => (d, .ostr none)
  | .bool n b => ((if b then d.setAttribute el n "" else d), .bool b)
  | .cls v => (d.setAttribute el "class" v, .cls v)
  | .ocls (some v) => (d.setAttribute el "class" v, .ocls (some v))
  | .ocls none => (d, .ocls none)
  | .tcls name on => ((if on then d.addClass el name else d), .tcls on name)
  | .sty v => (d.setAttribute el "style" v, .sty v)
  | .psty name v => (d.setCssProperty el name v, .psty name v)
  | .opsty name (some v) => (d.setCssProperty el name v, .opsty name (some v))
  | .opsty name none => (d, .opsty name none)

def buildAttrs (el : Id) : List AttrVal → Dom → Dom × List AttrState
  | [], d => (d, [])
  | a :: as, d =>
    let (d, s) := buildAttr el d a
    let (d, ss) := buildAttrs el as d
    (d, s :: ss)

/-- `Attribute::rebuild(state)` for one attribute, **as repaired** by the `fix:` commits of
hooks/fix-c03-{1,3,4}.patch.  `er` = the value went through `into_any()`
(`RenderHtml::into_owned`: `Class<String>` is then `Class<Arc<str>>`); since fix-c03-1 that
`rebuild` compares contents like every other string value, so `er` no longer changes anything
(the parameter is kept for `rebuildAttrOld` and for the callers).
* `(name, bool)` class items (fix-c03-3): a changed name removes the old token (if it was on) and
  adds the new one (if it is on);
* `(name, value)` style items (fix-c03-4): on a name change the stored name is removed **and
  updated**. -/
def rebuildAttr (_er : Bool) (el : Id) (d : Dom) : AttrVal → AttrState → Dom × AttrState
  | .str n v, .str prev => ((if v != prev then d.setAttribute el n v else d), .str v)
  | .ostr _ none, .ostr none => (d, .ostr none)
  | .ostr n none, .ostr (some _) => (d.removeAttribute el n, .ostr none)
  | .ostr n (some v), .ostr none => (d.setAttribute el n v, .ostr (some v))
  | .ostr n (some v), .ostr (some prev) =>
    ((if v != prev then d.setAttribute el n v else d), .ostr (some v))
  | .bool n b, .bool prev =>
    ((if b != prev then (if b then d.setAttribute el n "" else d.removeAttribute el n) else d), .bool b)
  | .cls v, .cls prev => ((if v != prev then d.setAttribute el "class" v else d), .cls v)
  | .ocls none, .ocls none => (d, .ocls none)
  | .ocls none, .ocls (some _) => (d.removeAttribute el "class", .ocls none)
  | .ocls (some v), .ocls none => (d.setAttribute el "class" v, .ocls (some v))
  | .ocls (some v), .ocls (some prev) =>
    ((if v != prev then d.setAttribute el "class" v else d), .ocls (some v))
  | .tcls name on, .tcls prevOn prevName =>
    if name != prevName then
      let d := if prevOn then d.removeClass el prevName else d
      ((if on then d.addClass el name else d), .tcls on name)
    else
      ((if on != prevOn then (if on then d.addClass el name else d.removeClass el name) else d),
        .tcls on name)
  | .sty v, .sty prev => ((if v != prev then d.setAttribute el "style" v else d), .sty v)
  | .psty name v, .psty sname sv =>
    if name != sname then
      ((d.removeCssProperty el sname).setCssProperty el name v, .psty name v)
    else ((if v != sv then d.setCssProperty el name v else d), .psty sname v)
  | .opsty name v, .opsty sname sv =>
    if name != sname then
      let d := d.removeCssProperty el sname
      ((match v with | some x => d.setCssProperty el name x | none => d), .opsty name v)
    else
      let d := match sv, v with
        | none, none => d
        | some _, none => d.removeCssProperty el name
        | none, some x => d.setCssProperty el name x
        | some o, some x => if x != o then d.setCssProperty el name x else d
      (d, .opsty sname v)
  | _, s => (d, s)

def rebuildAttrs (er : Bool) (el : Id) :
    List AttrVal → List AttrState → Dom → Dom × List AttrState
  | a :: as, s :: ss, d =>
    let (d, s') := rebuildAttr er el d a s
    let (d, ss') := rebuildAttrs er el as ss d
    (d, s' :: ss')
  | _, ss, d => (d, ss)

/-- `Attribute::rebuild(state)` **before the repairs** (kept for the regression witnesses
`C03_*_witness_old` in Theorems/C03.lean).  `er` = the value went through `into_any()`
(`RenderHtml::into_owned`): `Class<String>` is then `Class<Arc<str>>`, whose `rebuild` compares
pointers (`Arc::ptr_eq`), i.e. always writes the attribute; every other conversion
(`Attr<K, Arc<str>>`, `Style<Arc<str>>`) still compares contents. -/
def rebuildAttrOld (er : Bool) (el : Id) (d : Dom) : AttrVal → AttrState → Dom × AttrState
  | .str n v, .str prev => ((if v != prev then d.setAttribute el n v else d), .str v)
  | .ostr _ none, .ostr none => (d, .ostr none)
  | .ostr n none, .ostr (some _) => (d.removeAttribute el n, .ostr none)
  | .ostr n (some v), .ostr none => (d.setAttribute el n v, .ostr (some v))
  | .ostr n (some v), .ostr (some prev) =>
    ((if v != prev then d.setAttribute el n v else d), .ostr (some v))
  | .bool n b, .bool prev =>
    ((if b != prev then (if b then d.setAttribute el n "" else d.removeAttribute el n) else d), .bool b)
  | .cls v, .cls prev => ((if er || v != prev then d.setAttribute el "class" v else d), .cls v)
  | .ocls none, .ocls none => (d, .ocls none)
  | .ocls none, .ocls (some _) => (d.removeAttribute el "class", .ocls none)
  | .ocls (some v), .ocls none => (d.setAttribute el "class" v, .ocls (some v))
  | .ocls (some v), .ocls (some prev) =>
    ((if er || v != prev then d.setAttribute el "class" v else d), .ocls (some v))
  | .tcls name on, .tcls prevOn _ =>
    ((if on != prevOn then (if on then d.addClass el name else d.removeClass el name) else d),
      .tcls on name)
  | .sty v, .sty prev => ((if v != prev then d.setAttribute el "style" v else d), .sty v)
  | .psty name v, .psty sname sv =>
    if name != sname then
      -- `reset(state)` removes the stored name; `state.1` is not updated
      ((d.removeCssProperty el sname).setCssProperty el name v, .psty sname v)
    else ((if v != sv then d.setCssProperty el name v else d), .psty sname v)
  | .opsty name v, .opsty sname sv =>
    if name != sname then
      let d := d.removeCssProperty el sname
      ((match v with | some x => d.setCssProperty el name x | none => d), .opsty sname v)
    else
      let d := match sv, v with
        | none, none => d
        | some _, none => d.removeCssProperty el name
        | none, some x => d.setCssProperty el name x
        | some o, some x => if x != o then d.setCssProperty el name x else d
      (d, .opsty sname v)
  | _, s => (d, s)

def rebuildAttrsOld (er : Bool) (el : Id) :
    List AttrVal → List AttrState → Dom → Dom × List AttrState
  | a :: as, s :: ss, d =>
    let (d, s') := rebuildAttrOld er el d a s
    let (d, ss') := rebuildAttrsOld er el as ss d
    (d, s' :: ss')
  | _, ss, d => (d, ss)

/-! ## Render -/

mutual
/-- `Render::build` -/
def build : View → Dom → Dom × State
  | .text s, d =>
    let (d, id) := d.createTextNode s
    (d, .text id s)
  | .unit, d =>
    let (d, id) := d.createPlaceholder
    (d, .unit id)
  | .elem tag as c, d =>
    let (d, el) := d.createElement tag
    let (d, ass) := buildAttrs el as d
    if isVoid tag then (d, .elem el ass none) else
    let (d, cs) := build c d
    (mount cs d el none, .elem el ass (some cs))
  | .tuple vs, d =>
    let (d, sts) := buildList vs d
    (d, .tuple sts)
  | .onone, d =>
    let (d, id) := d.createPlaceholder
    (d, .either 1 (.unit id))
  | .osome v, d =>
    let (d, st) := build v d
    (d, .either 0 st)
  | .either _ i v, d =>
    let (d, st) := build v d
    (d, .either i st)
  | .vec vs, d =>
    let (d, mk) := d.createPlaceholder
    let (d, sts) := buildList vs d
    (d, .vec sts mk)
  | .any ty v, d =>
    let (d, st) := build v d
    (d, .any ty st)
def buildList : List View → Dom → Dom × List State
  | [], d => (d, [])
  | v :: vs, d =>
    let (d, s) := build v d
    let (d, ss) := buildList vs d
    (d, s :: ss)
end

/-- the tail of a branch switch: `old.insert_before_this(&mut new); old.unmount()` -/
def replaceState (old new : State) (d : Dom) : Dom :=
  unmount old (insertBeforeThis old new d).1

mutual
/-- `Render::rebuild(self, state)`; `er` = inside an `AnyView` (see `rebuildAttr`) -/
def rebuild (er : Bool) : View → State → Dom → Dom × State
  | .text s, .text id prev, d =>
    if s != prev then (d.setText id s, .text id s) else (d, .text id prev)
  | .unit, .unit id, d => (d, .unit id)
  | .elem _ as c, .elem el ass cs, d =>
    let (d, ass') := rebuildAttrs er el as ass d
    match cs with
    | some cst =>
      let (d, cst') := rebuild er c cst d
      (d, .elem el ass' (some cst'))
    | none => (d, .elem el ass' none)
  | .tuple vs, .tuple sts, d =>
    let (d, sts') := rebuildList er vs sts d
    (d, .tuple sts')
  | .onone, .either i old, d =>
    if i = 1 then (d, .either 1 old) else
    let (d, id) := d.createPlaceholder
    (replaceState old (.unit id) d, .either 1 (.unit id))
  | .osome v, .either i old, d =>
    if i = 0 then
      let (d, st) := rebuild er v old d
      (d, .either 0 st)
    else
      let (d, st) := build v d
      (replaceState old st d, .either 0 st)
  | .either _ i v, .either j old, d =>
    if i = j then
      let (d, st) := rebuild er v old d
      (d, .either i st)
    else
      let (d, st) := build v d
      (replaceState old st d, .either i st)
  | .vec vs, .vec sts mk, d =>
    if sts.isEmpty then
      -- `self.build().states`: the fresh marker of that build is dropped
      let (d, _) := d.createPlaceholder
      let (d, new) := buildList vs d
      (mountBeforeEach new mk d, .vec new mk)
    else if vs.isEmpty then (unmountList sts d, .vec [] mk)
    else
      let (d, sts') := rebuildZip er vs sts mk d
      (d, .vec sts' mk)
  | .any ty v, .any ty' old, d =>
    if Ty.beq ty ty' then
      let (d, st) := rebuild true v old d
      (d, .any ty' st)
    else
      let (d, st) := build v d
      (replaceState old st d, .any ty st)
  | _, st, d => (d, st)
def rebuildList (er : Bool) : List View → List State → Dom → Dom × List State
  | v :: vs, s :: ss, d =>
    let (d, s') := rebuild er v s d
    let (d, ss') := rebuildList er vs ss d
    (d, s' :: ss')
  | _, ss, d => (d, ss)
/-- the `zip_longest` loop of `Vec::rebuild`; the result is the truncated old states followed by
the added ones -/
def rebuildZip (er : Bool) : List View → List State → Id → Dom → Dom × List State
  | v :: vs, s :: ss, mk, d =>
    let (d, s') := rebuild er v s d
    let (d, ss') := rebuildZip er vs ss mk d
    (d, s' :: ss')
  | v :: vs, [], mk, d =>
    let (d, s) := build v d
    let d := mountBefore s mk d
    let (d, ss') := rebuildZip er vs [] mk d
    (d, s :: ss')
  | [], ss, _, d => (unmountList ss d, [])
end

/-! ## known-finding class predicates (decidable; their negations are the hypotheses of the
partial theorems about class / style items) -/

def AttrVal.isClassItem : AttrVal → Bool
  | .cls _ | .ocls _ | .tcls _ _ => true
  | _ => false

def AttrVal.isStyleItem : AttrVal → Bool
  | .sty _ | .psty _ _ | .opsty _ _ => true
  | .ostr n _ => n == "style"
  | _ => false

/-- writes the whole `class` attribute (`Class<String>`, `Class<Option<String>>`) -/
def AttrVal.isWholeClass : AttrVal → Bool
  | .cls _ | .ocls _ => true
  | _ => false

/-- writes the whole `style` attribute (`Style<String>`; `Style<Option<String>>` is the optional
named attribute `style`, `.ostr "style"`) -/
def AttrVal.isWholeStyle : AttrVal → Bool
  | .sty _ => true
  | .ostr n _ => n == "style"
  | _ => false

/-- the `class` attribute has a whole-value writer and at least one more item: a rebuild of the
whole value (`set_attribute` / `remove_attribute`) wipes what the other items added -/
def classOverwrite (as : List AttrVal) : Bool :=
  as.any AttrVal.isWholeClass && decide (2 ≤ (as.filter AttrVal.isClassItem).length)

def styleOverwrite (as : List AttrVal) : Bool :=
  as.any AttrVal.isWholeStyle && decide (2 ≤ (as.filter AttrVal.isStyleItem).length)

def toggleNames : List AttrVal → List String
  | [] => []
  | .tcls n _ :: r => n :: toggleNames r
  | _ :: r => toggleNames r

def stylePropNames : List AttrVal → List String
  | [] => []
  | .psty n _ :: r => String.ofList (normName (trimL n.toList)) :: stylePropNames r
  | .opsty n _ :: r => String.ofList (normName (trimL n.toList)) :: stylePropNames r
  | _ :: r => stylePropNames r

/-- two items of one element toggle the same class token / set the same style property -/
def dupItem (as : List AttrVal) : Bool :=
  !nodupS (toggleNames as) || !nodupS (stylePropNames as)

def zipAny {α β : Type} (f : α → β → Bool) : List α → List β → Bool
  | a :: as, b :: bs => f a b || zipAny f as bs
  | _, _ => false

/-- names one position uses in the old and in the new value -/
def posNames (n m : String) : List String := if n == m then [n] else [n, m]

def toggleNamePairs : List AttrVal → List AttrVal → List String
  | .tcls n _ :: r, .tcls m _ :: r' => posNames n m ++ toggleNamePairs r r'
  | _ :: r, _ :: r' => toggleNamePairs r r'
  | _, _ => []

def normProp (n : String) : String := String.ofList (normName (trimL n.toList))

def stylePropNamePairs : List AttrVal → List AttrVal → List String
  | .psty n _ :: r, .psty m _ :: r' => posNames (normProp n) (normProp m) ++ stylePropNamePairs r r'
  | .opsty n _ :: r, .opsty m _ :: r' => posNames (normProp n) (normProp m) ++ stylePropNamePairs r r'
  | _ :: r, _ :: r' => stylePropNamePairs r r'
  | _, _ => []

/-- `dupItem` across a rebuild: two *different* items of one element name the same class token /
style property in the old or the new value (a renamed item may collide with a sibling item) -/
def dupItemPair (as bs : List AttrVal) : Bool :=
  !nodupS (toggleNamePairs as bs) || !nodupS (stylePropNamePairs as bs)

/-- a `(name, bool)` class item changed its name between two values -/
def toggleRenamed (as bs : List AttrVal) : Bool :=
  zipAny (fun a b => match a, b with
    | .tcls n _, .tcls m _ => n != m
    | _, _ => false) as bs

/-- a `(name, value)` style item changed its name between two values -/
def styleRenamed (as bs : List AttrVal) : Bool :=
  zipAny (fun a b => match a, b with
    | .psty n _, .psty m _ => n != m
    | .opsty n _, .opsty m _ => n != m
    | _, _ => false) as bs

mutual
/-- some element of the view satisfies `p` on its attribute values -/
def View.anyElem (p : List AttrVal → Bool) : View → Bool
  | .elem _ as c => p as || View.anyElem p c
  | .tuple vs => View.anyElemList p vs
  | .osome v => View.anyElem p v
  | .either _ _ v => View.anyElem p v
  | .vec vs => View.anyElemList p vs
  | .any _ v => View.anyElem p v
  | _ => false
def View.anyElemList (p : List AttrVal → Bool) : List View → Bool
  | [] => false
  | v :: vs => View.anyElem p v || View.anyElemList p vs
end

mutual
/-- some element retained from `a` to `b` (same position, same branch, same erased type)
satisfies `p` on its old and new attribute values -/
def View.anyElemPair (p : List AttrVal → List AttrVal → Bool) : View → View → Bool
  | .elem _ as c, .elem _ bs c' => p as bs || View.anyElemPair p c c'
  | .tuple vs, .tuple ws => View.anyElemPairList p vs ws
  | .osome v, .osome w => View.anyElemPair p v w
  | .either _ i v, .either _ j w => i == j && View.anyElemPair p v w
  | .vec vs, .vec ws => View.anyElemPairList p vs ws
  | .any t v, .any t' w => Ty.beq t t' && View.anyElemPair p v w
  | _, _ => false
def View.anyElemPairList (p : List AttrVal → List AttrVal → Bool) : List View → List View → Bool
  | v :: vs, w :: ws => View.anyElemPair p v w || View.anyElemPairList p vs ws
  | _, _ => false
end

/-! ## specification side: the DOM of a fresh render -/

/-- the canonical attribute list a fresh `build` of these attribute values produces -/
def renderAttrs (as : List AttrVal) : List (String × String) :=
  let d0 : Dom := (({} : Dom).createElement "x").1
  ((buildAttrs 0 as d0).1.attrsOf 0)

mutual
/-- what `build` + `mount` puts into the parent -/
def render : View → List Tree
  | .text s => [.text s]
  | .unit => [.comment ""]
  | .elem tag as c => [.elem tag (renderAttrs as) (if isVoid tag then [] else render c)]
  | .tuple vs => renderList vs
  | .onone => [.comment ""]
  | .osome v => render v
  | .either _ _ v => render v
  | .vec vs => renderList vs ++ [.comment ""]
  | .any _ v => render v
def renderList : List View → List Tree
  | [] => []
  | v :: vs => render v ++ renderList vs
end

mutual
/-- some replaceable branch of the view (the selected branch of an `Either` / `EitherOfN`, the
content of a `Some`, the content of an `AnyView`) renders no DOM node: the class of F-C03-6 -/
def View.nodelessBranch : View → Bool
  | .elem _ _ c => View.nodelessBranch c
  | .tuple vs => View.nodelessBranchList vs
  | .osome v => (render v).isEmpty || View.nodelessBranch v
  | .either _ _ v => (render v).isEmpty || View.nodelessBranch v
  | .vec vs => View.nodelessBranchList vs
  | .any _ v => (render v).isEmpty || View.nodelessBranch v
  | _ => false
def View.nodelessBranchList : List View → Bool
  | [] => false
  | v :: vs => View.nodelessBranch v || View.nodelessBranchList vs
end

/-! ## attribute spreading (`view.add_any_attr(attr)`)

Type erasure and the `into_cloneable()` / `into_cloneable_owned()` conversions of attribute values
(`String` / `&str` / `Cow` -> `Arc<str>`, …) are **transparent** in the model: `AttrVal` has one
string type, so `Class<String>`, `Class<&str>`, `Class<Arc<str>>`, `Class<Oco<str>>` and the values
those conversions produce are one and the same `AttrVal`.  Spreading is defined by what it means:
the attribute is added, as the LAST item, to every top-level element of the view (text and `()`
ignore it; `AnyView` hands it to its content). -/

mutual
def Ty.spread (a : AttrTy) : Ty → Ty
  | .elem tag as c => .elem tag (as ++ [a]) c
  | .tuple ts => .tuple (Ty.spreadList a ts)
  | .opt t => .opt (Ty.spread a t)
  | .either ts => .either (Ty.spreadList a ts)
  | .vec t => .vec (Ty.spread a t)
  | .arr n t => .arr n (Ty.spread a t)
  | t => t
def Ty.spreadList (a : AttrTy) : List Ty → List Ty
  | [] => []
  | t :: ts => Ty.spread a t :: Ty.spreadList a ts
end

mutual
def View.spread (a : AttrVal) : View → View
  | .elem tag as c => .elem tag (as ++ [a]) c
  | .tuple vs => .tuple (View.spreadList a vs)
  | .osome v => .osome (View.spread a v)
  | .either n i v => .either n i (View.spread a v)
  | .vec vs => .vec (View.spreadList a vs)
  | .any t v => .any (Ty.spread a.ty t) (View.spread a v)
  | v => v
def View.spreadList (a : AttrVal) : List View → List View
  | [] => []
  | v :: vs => View.spread a v :: View.spreadList a vs
end

/-- a `class:name=bool` item whose name is not ONE class token (padded, inner white space, empty):
`classList.add` / `remove` reject it (`InvalidCharacterError` / `SyntaxError`); class of F-C03-7 -/
def invalidToggle (as : List AttrVal) : Bool :=
  as.any fun
    | .tcls n _ => (classTokenError n).isSome
    | _ => false

end Leptos.View
