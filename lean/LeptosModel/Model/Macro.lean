import LeptosModel.Model.Html
/-!
# Model/Macro — the `view!` macro's two code paths (C18)

Strings are `Str = List Char` as in Model/Html.  Everything is structurally recursive (nested
recursion through `List Tmpl`), so closed instances reduce by `decide`.

## Part 1 — templates (what rstml hands to leptos_macro/src/view/mod.rs, restricted to the grammar below)
* `TAttr`  — `name="v"` / `name={v}` (`plain dyn`), valueless `name` (`flag`), `name={bool}` (`boolDyn`),
             `class="v"` / `class={v}` (`cls dyn`), `style="v"` / `style={v}` (`style dyn`),
             `class:name={bool}` (`clsToggle`), `class=("name", bool)` (`clsTuple`),
             `style:name="v"` / `style:name={v}` (`styleKV dyn`).  `plain`/`flag`/`boolDyn` names are
             ordinary attribute names (not `class`, `style`, and without a `prefix:`).
* `Tmpl`   — `"…"` literal / unquoted text (`text`; rstml `Node::Text` / `Node::RawText`, both printed
             through the same two sites), `{expr}` with a `String` value (`block`), element (`elem`:
             HTML, void, SVG, custom — the tag decides), fragment `<>…</>` (`frag`), and `comp`: the
             component `<Wrap>…</Wrap>` with `fn Wrap(children: Children) = view!{<section>{children()}</section>}`,
             `<!-- "…" -->` (`comment`: rstml `Node::Comment`; `node_to_tokens` drops it, `is_inert_element` takes it
             for "not inert") and `<!DOCTYPE html>` (`doctype`; only as the first root node: tachys' `Doctype`
             leaves the position untouched, the model treats it like an inert string).
             `unit`: a `{block}` whose value renders as the unit view — `{()}`, `{}`, a statement-only block,
             `{None::<String>}`, `{Vec::<String>::new()}` (tachys prints `<!>` for each when strings are escaped;
             the grammar keeps them out of raw-text elements, where `()` prints nothing and leaves the position alone).
             `compA card attrs kids`: a component WITH attributes spread onto it — `<Wrap attr:name=… class:n=… style:n=…>`
             (`card = false`) or `<Card …>` (`card = true`, `fn Card(children) = view!{<article role="group"
             class="card"><Wrap>{children()}</Wrap></article>}`): `component_to_tokens` turns every `attr:` / `class:` /
             `style:` attribute into `attribute_absolute(…)` and calls `.add_any_attr((…))` in SOURCE order (no
             class-first sort), tachys appends them to the attributes of the component's outermost element.
  Values of dynamic positions are part of the template (the case supplies them).
  Not separate constructors, because the macro does not distinguish them: an element written `<tag …/>` is an
  element without children (rstml; `is_self_closing` is decided by the tag name alone), and a NON-string literal
  value (`hidden=false`, `tabindex=2`, `data-k=1.5`, `title='c'`) is for `is_inert_element` (`Lit::Str` only) and
  `attribute_value` (any literal is passed on as the expression it is) the same as `name={expr}`: the driver decodes
  them as `boolDyn` / `plain true` with the value tachys prints (`to_string()`).

## Part 2 — the macro-time (inert) path
* `svgTags`, `mathTags`, `macroVoid`, `macroNoEscape` — the literal lists of `is_svg_element`,
             `is_math_ml_element`, `is_self_closing` and the `script|style|textarea|noscript` test (two sites) in
             mod.rs.  The model is of /repo AFTER fix-c18-1 (noscript in that list), fix-c18-3 (class literal
             trimmed) and fix-c18-4 (empty literal = one space); the previous printer is kept as `…Old`.
* `attrInert`, `inertNode`, `isInert` — `is_inert_element` (the queue walk is a conjunction over all
             nodes; order is irrelevant).
* `inertAttr`, `inertNodeHtml`, `inertHtml` — `inert_element_to_tokens` with `global_class = None`
             (`InertElementBuilder::NoGlobalClass`: `push`, `push_str`, `push_class`): the `VecDeque` is used
             as a stack (`push_front` of the closing tag, then of the children in reverse), i.e. a
             depth-first print, written here as the recursion it unrolls.  Escaping:
             `html_escape::encode_text` (`escapeText`) for text unless the *parent* is script/style/textarea,
             `encode_double_quoted_attribute` (`escapeAttr`) for literal values; a `class` literal is printed
             by `push_class` in place; other node kinds print nothing (`_ => {}`).

## Part 3 — the builder path and the expansion actually produced
* `sortKey`, `sortAttrs` — the `sort_by` at the top of `element_to_tokens`: a stable 3-way partition
             (`class`/`style` path-named attributes, then everything else, then tuple-valued ones; the
             comparator is not a total order between `class` and `style`, which never share a buffer).
* `builderAttr` — `attribute_to_tokens` / `class_to_tokens` / `style_to_tokens` / `attribute_value`:
             which tachys attribute each form becomes (`Leptos.Html.Attr`).
* `builderView`, `builderKids` — `element_to_tokens` + `element_children_to_tokens` + `fragment_to_tokens`
             + `component_to_tokens` with the inert path switched off: the `HtmlElement` tree as a
             `Leptos.Html.Node` list (C06's `toHtml` prints it).  Children tuples (and their >16 chunking)
             render in sequence, so they are lists here.
* `Exp`, `expand`, `expandKids` — `node_to_tokens`: the expansion with `InertElement::new(html)` wherever
             `!top_level && is_inert_element(node)`; `top_level` is `true` for the roots, for every direct
             child of a fragment and of a component (`fragment_to_tokens` passes `true`), `false` for
             element children (`element_children_to_tokens`).
* `expHtmlAsync`, `expKidsHtmlAsync`, `macroHtmlStream` — the streaming entry points (`to_html_async_with_buf`).
* `expHtml`, `expKidsHtml`, `macroHtml` — `to_html()` of that expansion: `HtmlElement::to_html_with_buf`,
             strings (Model/Html `textHtml`), the `<textarea>` body through Model/Html `elemBody` (7006223 / 01b809d),
             `InertElement::to_html_with_buf` (tachys/src/html/mod.rs:
             pushes the string, position := NextChild).

## Part 4 — what a template denotes, and normalisation of parsed documents
* `tok`, `classTokens`, `stylePieces`, `normClass`, `normStyle`, `normAttrs`, `consText`, `pushNorm`,
  `normNode`/`normList`, `normalize` — normal form of a parsed document: `<!>` markers dropped, adjacent
  text merged, attributes as *ordinary ones in order, then class, then style*, the class value as its
  ASCII-whitespace separated tokens, the style value as its `;`-separated non-empty declarations
  (leading white space dropped); an empty class/style attribute is no attribute.
* `denAttrs`, `denK`/`denKs`, `denote` — the document a template stands for, already in normal form
  (children in order, fragments spliced, adjacent text merged; accumulator-passing so that a fragment's
  last text merges with what follows it).
* `dynAttr`, `dynamize` — the forced-dynamic twin (every literal becomes a `{…}` with the same value).
* `Frame`, `plug`, `plugDen` — one-hole contexts for `C18_static_parts_stable`.

## Part 5 — decidable input classes (hypotheses of the partial theorems; used by the driver)
-/
namespace Leptos.Macro
open Leptos.Html

/-! ## Part 1 — templates -/

inductive TAttr where
  | plain (dyn : Bool) (name value : Str)
  | flag (name : Str)
  | boolDyn (name : Str) (on : Bool)
  | cls (dyn : Bool) (value : Str)
  | style (dyn : Bool) (value : Str)
  | clsToggle (name : Str) (on : Bool)
  | clsTuple (name : Str) (on : Bool)
  | styleKV (dyn : Bool) (name value : Str)
  deriving DecidableEq, Repr

inductive Tmpl where
  | text (s : Str)
  | block (s : Str)
  | elem (tag : Str) (attrs : List TAttr) (kids : List Tmpl)
  | frag (kids : List Tmpl)
  | comp (kids : List Tmpl)
  | comment (s : Str)
  | doctype
  | unit
  | compA (card : Bool) (attrs : List TAttr) (kids : List Tmpl)
  deriving Repr

/-! ## Part 2 — the inert path -/

def svgTags : List Str :=
  [['a','n','i','m','a','t','e'], ['a','n','i','m','a','t','e','M','o','t','i','o','n'],
   ['a','n','i','m','a','t','e','T','r','a','n','s','f','o','r','m'], ['c','i','r','c','l','e'],
   ['c','l','i','p','P','a','t','h'], ['d','e','f','s'], ['d','e','s','c'],
   ['d','i','s','c','a','r','d'], ['e','l','l','i','p','s','e'], ['f','e','B','l','e','n','d'],
   ['f','e','C','o','l','o','r','M','a','t','r','i','x'],
   ['f','e','C','o','m','p','o','n','e','n','t','T','r','a','n','s','f','e','r'],
   ['f','e','C','o','m','p','o','s','i','t','e'],
   ['f','e','C','o','n','v','o','l','v','e','M','a','t','r','i','x'],
   ['f','e','D','i','f','f','u','s','e','L','i','g','h','t','i','n','g'],
   ['f','e','D','i','s','p','l','a','c','e','m','e','n','t','M','a','p'],
   ['f','e','D','i','s','t','a','n','t','L','i','g','h','t'],
   ['f','e','D','r','o','p','S','h','a','d','o','w'], ['f','e','F','l','o','o','d'],
   ['f','e','F','u','n','c','A'], ['f','e','F','u','n','c','B'], ['f','e','F','u','n','c','G'],
   ['f','e','F','u','n','c','R'], ['f','e','G','a','u','s','s','i','a','n','B','l','u','r'],
   ['f','e','I','m','a','g','e'], ['f','e','M','e','r','g','e'],
   ['f','e','M','e','r','g','e','N','o','d','e'],
   ['f','e','M','o','r','p','h','o','l','o','g','y'], ['f','e','O','f','f','s','e','t'],
   ['f','e','P','o','i','n','t','L','i','g','h','t'],
   ['f','e','S','p','e','c','u','l','a','r','L','i','g','h','t','i','n','g'],
   ['f','e','S','p','o','t','L','i','g','h','t'], ['f','e','T','i','l','e'],
   ['f','e','T','u','r','b','u','l','e','n','c','e'], ['f','i','l','t','e','r'],
   ['f','o','r','e','i','g','n','O','b','j','e','c','t'], ['g'], ['h','a','t','c','h'],
   ['h','a','t','c','h','p','a','t','h'], ['i','m','a','g','e'], ['l','i','n','e'],
   ['l','i','n','e','a','r','G','r','a','d','i','e','n','t'], ['m','a','r','k','e','r'],
   ['m','a','s','k'], ['m','e','t','a','d','a','t','a'], ['m','p','a','t','h'],
   ['p','a','t','h'], ['p','a','t','t','e','r','n'], ['p','o','l','y','g','o','n'],
   ['p','o','l','y','l','i','n','e'], ['r','a','d','i','a','l','G','r','a','d','i','e','n','t'],
   ['r','e','c','t'], ['s','e','t'], ['s','t','o','p'], ['s','v','g'],
   ['s','w','i','t','c','h'], ['s','y','m','b','o','l'], ['t','e','x','t'],
   ['t','e','x','t','P','a','t','h'], ['t','s','p','a','n'], ['u','s','e'], ['u','s','e','_'],
   ['v','i','e','w']]

def mathTags : List Str :=
  [['a','n','n','o','t','a','t','i','o','n'], ['m','a','c','t','i','o','n'], ['m','a','t','h'],
   ['m','e','n','c','l','o','s','e'], ['m','e','r','r','o','r'], ['m','f','e','n','c','e','d'],
   ['m','f','r','a','c'], ['m','i'], ['m','m','u','l','t','i','s','c','r','i','p','t','s'],
   ['m','n'], ['m','o'], ['m','o','v','e','r'], ['m','p','a','d','d','e','d'],
   ['m','p','h','a','n','t','o','m'], ['m','p','r','e','s','c','r','i','p','t','s'],
   ['m','r','o','o','t'], ['m','r','o','w'], ['m','s'], ['m','s','p','a','c','e'],
   ['m','s','q','r','t'], ['m','s','t','y','l','e'], ['m','s','u','b'],
   ['m','s','u','b','s','u','p'], ['m','s','u','p'], ['m','t','a','b','l','e'], ['m','t','d'],
   ['m','t','e','x','t'], ['m','t','r'], ['m','u','n','d','e','r'],
   ['m','u','n','d','e','r','o','v','e','r'], ['s','e','m','a','n','t','i','c','s']]

/-- the list in `is_self_closing` -/
def macroVoid : List Str :=
  [['a','r','e','a'], ['b','a','s','e'], ['b','r'], ['c','o','l'], ['e','m','b','e','d'],
   ['h','r'], ['i','m','g'], ['i','n','p','u','t'], ['l','i','n','k'], ['m','e','t','a'],
   ['p','a','r','a','m'], ['s','o','u','r','c','e'], ['t','r','a','c','k'], ['w','b','r']]

/-- `el_name != "script" && el_name != "style" && el_name != "textarea" && el_name != "noscript"`
(after fix-c18-1) -/
def macroNoEscape : List Str := [tScript, tStyle, tTextarea, tNoscript]

/-- before fix-c18-1 -/
def macroNoEscapeOld : List Str := [tScript, tStyle, tTextarea]

def sParam : Str := ['p','a','r','a','m']
def sSection : Str := ['s','e','c','t','i','o','n']
def sWrap : Str := ['W','r','a','p']
def sDoctype : Str := ['<','!','D','O','C','T','Y','P','E',' ','h','t','m','l','>']

def isSvgTag (t : Str) : Bool := svgTags.contains t
def isMathTag (t : Str) : Bool := mathTags.contains t
def macroIsVoid (t : Str) : Bool := macroVoid.contains t
def macroEscapes (t : Str) : Bool := !macroNoEscape.contains t
def macroEscapesOld (t : Str) : Bool := !macroNoEscapeOld.contains t

/-- the per-attribute test of `is_inert_element`: static key, and no value or a string literal
(keys `style:…` never count as static values; `class:name={bool}` has a non-literal value) -/
def attrInert : TAttr → Bool
  | .plain dyn _ _ => !dyn
  | .flag _ => true
  | .boolDyn _ _ => false
  | .cls dyn _ => !dyn
  | .style dyn _ => !dyn
  | .clsToggle _ _ => false
  | .clsTuple _ _ => false
  | .styleKV _ _ _ => false

mutual
/-- the walk of `is_inert_element` below (and including) a node -/
def inertNode : Tmpl → Bool
  | .text _ => true
  | .block _ => false
  | .elem _ attrs kids => attrs.all attrInert && inertKids kids
  | .frag _ => false
  | .comp _ => false
  | .comment _ => false
  | .doctype => false
  | .unit => false
  | .compA _ _ _ => false
def inertKids : List Tmpl → Bool
  | [] => true
  | t :: ts => inertNode t && inertKids ts
end

/-- `is_inert_element` -/
def isInert : Tmpl → Bool
  | .elem tag attrs kids =>
    !(attrs.isEmpty && kids.isEmpty) && !(isSvgTag tag || isMathTag tag) && inertNode (.elem tag attrs kids)
  | _ => false

def sClassEq : Str := [' ','c','l','a','s','s','=','"']

/-- one attribute in `inert_element_to_tokens` (all forms, also those `is_inert_element` rejects) -/
def inertAttr : TAttr → Str
  | .plain false n v => ' ' :: n ++ '=' :: '"' :: escapeAttr v ++ ['"']
  | .plain true n _ => ' ' :: n
  | .flag n => ' ' :: n
  | .boolDyn n _ => ' ' :: n
  | .cls false v => sClassEq ++ escapeAttr (trim v) ++ ['"']
  | .cls true _ => []
  | .style false v => ' ' :: sStyle ++ '=' :: '"' :: escapeAttr v ++ ['"']
  | .style true _ => ' ' :: sStyle
  | .clsToggle n _ => ' ' :: sClass ++ ':' :: n
  | .clsTuple _ _ => []
  | .styleKV false n v => ' ' :: sStyle ++ ':' :: n ++ '=' :: '"' :: escapeAttr v ++ ['"']
  | .styleKV true n _ => ' ' :: sStyle ++ ':' :: n

def inertAttrs : List TAttr → Str
  | [] => []
  | a :: r => inertAttr a ++ inertAttrs r

/-- are all children text literals?  (the `<textarea>` case of the printer, fix-c18-5) -/
def allLits : List Tmpl → Bool
  | [] => true
  | .text _ :: r => allLits r
  | _ => false

def litConcat : List Tmpl → Str
  | .text s :: r => s ++ litConcat r
  | _ => []

mutual
/-- `Item::Node(node, escape)` … `Item::ClosingTag`.  A `<textarea>` whose children are all text is printed like
tachys prints it since 7006223 / 01b809d (`textareaBody`: entity-escaped, leading line feed doubled, no
placeholder for the empty string) — fix-c18-5. -/
def inertNodeHtml (escape : Bool) : Tmpl → Str
  | .text s => (if s = [] ∧ escape = true then [' '] else []) ++ (if escape then escapeText s else s)
  | .block _ => []
  | .elem tag attrs kids =>
    '<' :: tag ++ inertAttrs attrs ++ '>' ::
      (if macroIsVoid tag then []
       else (if tag = tTextarea ∧ allLits kids = true then textareaBody true true (litConcat kids)
             else inertKidsHtml (macroEscapes tag) kids) ++ '<' :: '/' :: tag ++ ['>'])
  | .frag _ => []
  | .comp kids =>
    '<' :: sWrap ++ '>' :: (inertKidsHtml (macroEscapes sWrap) kids ++ '<' :: '/' :: sWrap ++ ['>'])
  | .comment _ => []
  | .doctype => []
  | .unit => []
  | .compA _ _ _ => []
def inertKidsHtml (escape : Bool) : List Tmpl → Str
  | [] => []
  | t :: ts => inertNodeHtml escape t ++ inertKidsHtml escape ts
end

/-- the string handed to `InertElement::new` (the root is an element, so the `escape_text` argument
of `inert_element_to_tokens` is not consulted for it) -/
def inertHtml (t : Tmpl) : Str := inertNodeHtml true t

/-! ### the printer before fix-c18-1, 3, 4 (kept for the regression witnesses) -/

/-- before fix-c18-3: the class literal untrimmed -/
def inertAttrOld : TAttr → Str
  | .cls false v => sClassEq ++ escapeAttr v ++ ['"']
  | a => inertAttr a

def inertAttrsOld : List TAttr → Str
  | [] => []
  | a :: r => inertAttrOld a ++ inertAttrsOld r

mutual
/-- before fix-c18-4 (nothing for an empty literal) and fix-c18-1 (`macroEscapesOld`) -/
def inertNodeHtmlOld (escape : Bool) : Tmpl → Str
  | .text s => if escape then escapeText s else s
  | .block _ => []
  | .elem tag attrs kids =>
    '<' :: tag ++ inertAttrsOld attrs ++ '>' ::
      (if macroIsVoid tag then []
       else inertKidsHtmlOld (macroEscapesOld tag) kids ++ '<' :: '/' :: tag ++ ['>'])
  | .frag _ => []
  | .comp kids =>
    '<' :: sWrap ++ '>' :: (inertKidsHtmlOld (macroEscapesOld sWrap) kids ++ '<' :: '/' :: sWrap ++ ['>'])
  | .comment _ => []
  | .doctype => []
  | .unit => []
  | .compA _ _ _ => []
def inertKidsHtmlOld (escape : Bool) : List Tmpl → Str
  | [] => []
  | t :: ts => inertNodeHtmlOld escape t ++ inertKidsHtmlOld escape ts
end

def inertHtmlOld (t : Tmpl) : Str := inertNodeHtmlOld true t

mutual
/-- the printer before fix-c18-5 (textarea text raw, like the other no-escape elements) -/
def inertNodeHtmlOld5 (escape : Bool) : Tmpl → Str
  | .text s => (if s = [] ∧ escape = true then [' '] else []) ++ (if escape then escapeText s else s)
  | .block _ => []
  | .elem tag attrs kids =>
    '<' :: tag ++ inertAttrs attrs ++ '>' ::
      (if macroIsVoid tag then []
       else inertKidsHtmlOld5 (macroEscapes tag) kids ++ '<' :: '/' :: tag ++ ['>'])
  | .frag _ => []
  | .comp kids =>
    '<' :: sWrap ++ '>' :: (inertKidsHtmlOld5 (macroEscapes sWrap) kids ++ '<' :: '/' :: sWrap ++ ['>'])
  | .comment _ => []
  | .doctype => []
  | .unit => []
  | .compA _ _ _ => []
def inertKidsHtmlOld5 (escape : Bool) : List Tmpl → Str
  | [] => []
  | t :: ts => inertNodeHtmlOld5 escape t ++ inertKidsHtmlOld5 escape ts
end

def inertHtmlOld5 (t : Tmpl) : Str := inertNodeHtmlOld5 true t

/-! ## Part 3 — the builder path -/

def sortKey : TAttr → Nat
  | .cls _ _ => 0
  | .style _ _ => 0
  | .clsTuple _ _ => 2
  | _ => 1

def sortAttrs (attrs : List TAttr) : List TAttr :=
  attrs.filter (fun a => sortKey a = 0) ++ attrs.filter (fun a => sortKey a = 1) ++
    attrs.filter (fun a => sortKey a = 2)

def builderAttr : TAttr → Attr
  | .plain _ n v => .plain n v
  | .flag n => .bool n true
  | .boolDyn n b => .bool n b
  | .cls _ v => .cls v
  | .style _ v => .style v
  | .clsToggle n b => .clsToggle n b
  | .clsTuple n b => .clsToggle n b
  | .styleKV _ n v => .styleKV n v

def builderAttrs (attrs : List TAttr) : List Attr := (sortAttrs attrs).map builderAttr

def sArticle : Str := ['a','r','t','i','c','l','e']
def sRole : Str := ['r','o','l','e']
def sGroup : Str := ['g','r','o','u','p']
def sCard : Str := ['c','a','r','d']

/-- what a component with spread attributes renders: `<Wrap>` a `<section>` carrying them, `<Card>` an `<article
role="group" class="card">` carrying them after its own, around the `<section>` -/
def compNode (card : Bool) (spread : List Attr) (kids : List Node) : Node :=
  if card then .elem sArticle ([.plain sRole sGroup, .cls sCard] ++ spread) [.elem sSection [] kids]
  else .elem sSection spread kids

mutual
/-- the builder path alone (inert path off; `unit` has no `Leptos.Html.Node`: left out) -/
def builderView : Tmpl → List Node
  | .text s => [.text s]
  | .block s => [.text s]
  | .elem tag attrs kids =>
    [.elem tag (builderAttrs attrs) (if macroIsVoid tag then [] else builderKids kids)]
  | .frag kids => builderKids kids
  | .comp kids => [.elem sSection [] (builderKids kids)]
  | .comment _ => []
  | .doctype => []
  | .unit => []
  | .compA card attrs kids => [compNode card (attrs.map builderAttr) (builderKids kids)]
def builderKids : List Tmpl → List Node
  | [] => []
  | t :: ts => builderView t ++ builderKids ts
end

/-- what the generated code builds -/
inductive Exp where
  | text (s : Str)
  | elem (tag : Str) (attrs : List Attr) (kids : List Exp)
  | inert (html : Str)
  | unit
  deriving Repr

def compExp (card : Bool) (spread : List Attr) (kids : List Exp) : Exp :=
  if card then .elem sArticle ([.plain sRole sGroup, .cls sCard] ++ spread) [.elem sSection [] kids]
  else .elem sSection spread kids

mutual
/-- `node_to_tokens` -/
def expand (top : Bool) : Tmpl → List Exp
  | .text s => [.text s]
  | .block s => [.text s]
  | .elem tag attrs kids =>
    if !top && isInert (.elem tag attrs kids) then [.inert (inertHtml (.elem tag attrs kids))]
    else [.elem tag (builderAttrs attrs) (if macroIsVoid tag then [] else expandKids false kids)]
  | .frag kids => expandKids true kids
  | .comp kids => [.elem sSection [] (expandKids true kids)]
  | .comment _ => []
  | .doctype => [.inert sDoctype]
  | .unit => [.unit]
  | .compA card attrs kids => [compExp card (attrs.map builderAttr) (expandKids true kids)]
def expandKids (top : Bool) : List Tmpl → List Exp
  | [] => []
  | t :: ts => expand top t ++ expandKids top ts
end

def expPosAfter : Exp → Pos
  | .text _ => .afterText
  | _ => .nextChild

def sMarker : Str := ['<','!','>']

mutual
def expHtml (escape : Bool) (pos : Pos) : Exp → Str
  | .text s => textHtml escape pos s
  | .inert h => h
  | .unit => if escape then sMarker else []
  | .elem tag attrs kids =>
    '<' :: tag ++ attrsHtml attrs ++ '>' ::
      (if isVoid tag then []
       else elemBody tag (expKidsHtml (escapeChildren tag) .firstChild kids) ++ '<' :: '/' :: tag ++ ['>'])
def expKidsHtml (escape : Bool) (pos : Pos) : List Exp → Str
  | [] => []
  | e :: es => expHtml escape pos e ++ expKidsHtml escape (expPosAfter e) es
end

/-- `view!{ … }.to_html()` for the root nodes `ts` -/
def macroHtml (ts : List Tmpl) : Str := expKidsHtml true .firstChild (expandKids true ts)

mutual
/-- `to_html_async_with_buf::<OUT_OF_ORDER>` (the emitter behind `to_html_stream_in_order` /
`to_html_stream_out_of_order`), as the concatenation of the chunks it hands to `StreamBuilder::push_sync`: an
`HtmlElement` pushes its opening tag (name from `self.tag.tag()`), streams its children with
`E::ESCAPE_CHILDREN`, pushes the closing tag (again `self.tag.tag()`); strings and `InertElement` use the
default implementation (`buf.with_buf(|b| self.to_html_with_buf(b, …))`); tuples stream their members in
order.  The templates of this grammar contain nothing asynchronous, so no chunk is deferred. -/
def expHtmlAsync (ooo escape : Bool) (pos : Pos) : Exp → Str
  | .text s => textHtml escape pos s
  | .inert h => h
  | .unit => if escape then sMarker else []
  | .elem tag attrs kids =>
    ('<' :: tag ++ attrsHtml attrs ++ ['>']) ++
      (if isVoid tag then []
       else elemBody tag (expKidsHtmlAsync ooo (escapeChildren tag) .firstChild kids) ++ ('<' :: '/' :: tag ++ ['>']))
def expKidsHtmlAsync (ooo escape : Bool) (pos : Pos) : List Exp → Str
  | [] => []
  | e :: es => expHtmlAsync ooo escape pos e ++ expKidsHtmlAsync ooo escape (expPosAfter e) es
end

/-- `view!{ … }.to_html_stream_in_order()` (`ooo = false`) / `.to_html_stream_out_of_order()` (`true`), collected -/
def macroHtmlStream (ooo : Bool) (ts : List Tmpl) : Str := expKidsHtmlAsync ooo true .firstChild (expandKids true ts)

mutual
/-- the expansion with the old compile-time printer -/
def expandOld (top : Bool) : Tmpl → List Exp
  | .text s => [.text s]
  | .block s => [.text s]
  | .elem tag attrs kids =>
    if !top && isInert (.elem tag attrs kids) then [.inert (inertHtmlOld (.elem tag attrs kids))]
    else [.elem tag (builderAttrs attrs) (if macroIsVoid tag then [] else expandKidsOld false kids)]
  | .frag kids => expandKidsOld true kids
  | .comp kids => [.elem sSection [] (expandKidsOld true kids)]
  | .comment _ => []
  | .doctype => [.inert sDoctype]
  | .unit => [.unit]
  | .compA card attrs kids => [compExp card (attrs.map builderAttr) (expandKidsOld true kids)]
def expandKidsOld (top : Bool) : List Tmpl → List Exp
  | [] => []
  | t :: ts => expandOld top t ++ expandKidsOld top ts
end

def macroHtmlOld (ts : List Tmpl) : Str := expKidsHtml true .firstChild (expandKidsOld true ts)

/-! ## Part 4 — denotation and normalisation -/

def flush (cur : Str) : List Str := if cur = [] then [] else [cur]

/-- split at the separators, dropping empty pieces -/
def tok (sep : Char → Bool) (cur : Str) : Str → List Str
  | [] => flush cur
  | c :: s => if sep c then flush cur ++ tok sep [] s else tok sep (cur ++ [c]) s

/-- ASCII whitespace as the DOM splits a class attribute on it -/
def isClassSep (c : Char) : Bool := isWs c || c = cCr

def classTokens (v : Str) : List Str := tok isClassSep [] v
def stylePieces (v : Str) : List Str := tok (fun c => c = ';') [] (v.dropWhile isUniWs)

def joinSep (sep : Char) : List Str → Str
  | [] => []
  | [a] => a
  | a :: b :: r => a ++ sep :: joinSep sep (b :: r)

def normClass (v : Str) : Str := joinSep ' ' (classTokens v)
def normStyle (v : Str) : Str := joinSep ';' (stylePieces v)

def optAttr (name value : Str) : List (Str × Str) := if value = [] then [] else [(name, value)]

def classPart : List (Str × Str) → List (Str × Str)
  | [] => []
  | (n, v) :: r => (if n = sClass then optAttr sClass (normClass v) else []) ++ classPart r

def stylePart : List (Str × Str) → List (Str × Str)
  | [] => []
  | (n, v) :: r => (if n = sStyle then optAttr sStyle (normStyle v) else []) ++ stylePart r

def otherPart : List (Str × Str) → List (Str × Str)
  | [] => []
  | (n, v) :: r => (if n = sClass ∨ n = sStyle then [] else [(n, v)]) ++ otherPart r

def normAttrs (as : List (Str × Str)) : List (Str × Str) := otherPart as ++ classPart as ++ stylePart as

/-- put a text in front of normalised siblings -/
def consText (s : Str) : List Tree → List Tree
  | .text s' :: r => .text (s ++ s') :: r
  | r => if s = [] then r else .text s :: r

def pushNorm (t : Tree) (acc : List Tree) : List Tree :=
  match t with
  | .text s => consText s acc
  | .comment c => if c = [] then acc else .comment c :: acc
  | .elem tag as ks => .elem tag as ks :: acc

mutual
def normNode : Tree → Tree
  | .text s => .text s
  | .comment c => .comment c
  | .elem tag as ks => .elem tag (normAttrs as) (normList ks)
def normList : List Tree → List Tree
  | [] => []
  | t :: r => pushNorm (normNode t) (normList r)
end

def normalize (d : Option (List Tree)) : Option (List Tree) := d.map normList

/-- ordinary attributes a template gives an element, in source order -/
def plainDen : List TAttr → List (Str × Str)
  | [] => []
  | .plain _ n v :: r => (n, v) :: plainDen r
  | .flag n :: r => (n, []) :: plainDen r
  | .boolDyn n true :: r => (n, []) :: plainDen r
  | _ :: r => plainDen r

/-- class source: the `class` value, then the names of the `class:` toggles and tuple toggles that are on,
each preceded by a space -/
def classSrc : List TAttr → Str
  | [] => []
  | .cls _ v :: r => ' ' :: v ++ classSrc r
  | .clsToggle n on :: r => ' ' :: (if on then n else []) ++ classSrc r
  | .clsTuple n on :: r => ' ' :: (if on then n else []) ++ classSrc r
  | _ :: r => classSrc r

/-- style source: the `style` value, then `name:value` of every `style:` form, each closed by `;` -/
def styleSrc : List TAttr → Str
  | [] => []
  | .style _ v :: r => v ++ ';' :: styleSrc r
  | .styleKV _ n v :: r => n ++ ':' :: v ++ ';' :: styleSrc r
  | _ :: r => styleSrc r

/-- the class list is what is left of the class source after trimming (leptos trims the class value with
`str::trim` on both paths), the style value its declarations -/
def denAttrs (attrs : List TAttr) : List (Str × Str) :=
  plainDen attrs ++ optAttr sClass (normClass (trim (classSrc (sortAttrs attrs)))) ++
    optAttr sStyle (normStyle (styleSrc (sortAttrs attrs)))

/-- attributes spread onto a component's root element: like `denAttrs`, but in source order (no class-first sort) -/
def spreadDen (attrs : List TAttr) : List (Str × Str) :=
  plainDen attrs ++ optAttr sClass (normClass (trim (classSrc attrs))) ++ optAttr sStyle (normStyle (styleSrc attrs))

/-- a string child: in an element whose children are escaped the empty string stands for one space (leptos
keeps a text node for it on both paths), elsewhere (`script style textarea noscript`) for nothing -/
def textDen (esc : Bool) (s : Str) : Str := if esc && s = [] then [' '] else s

mutual
def denK (esc : Bool) : Tmpl → List Tree → List Tree
  | .text s, acc => consText (textDen esc s) acc
  | .block s, acc => consText (textDen esc s) acc
  | .elem tag attrs kids, acc =>
    .elem tag (denAttrs attrs) (if isVoid tag then [] else denKs (escapeChildren tag) kids []) :: acc
  | .frag kids, acc => denKs esc kids acc
  | .comp kids, acc => .elem sSection [] (denKs true kids []) :: acc
  | .comment _, acc => acc
  | .doctype, acc => acc
  | .unit, acc => acc
  | .compA card attrs kids, acc =>
    (if card then
       .elem sArticle ((sRole, sGroup) :: spreadDen ([.cls false sCard] ++ attrs))
         [.elem sSection [] (denKs true kids [])]
     else .elem sSection (spreadDen attrs) (denKs true kids [])) :: acc
def denKs (esc : Bool) : List Tmpl → List Tree → List Tree
  | [], acc => acc
  | t :: ts, acc => denK esc t (denKs esc ts acc)
end

/-- the document the root nodes `ts` stand for -/
def denote (ts : List Tmpl) : List Tree := denKs true ts []

def dynAttr : TAttr → TAttr
  | .plain _ n v => .plain true n v
  | .flag n => .boolDyn n true
  | .cls _ v => .cls true v
  | .style _ v => .style true v
  | .styleKV _ n v => .styleKV true n v
  | a => a

mutual
/-- forced-dynamic twin -/
def dynamize : Tmpl → Tmpl
  | .text s => .block s
  | .block s => .block s
  | .elem tag attrs kids => .elem tag (attrs.map dynAttr) (dynKids kids)
  | .frag kids => .frag (dynKids kids)
  | .comp kids => .comp (dynKids kids)
  | .comment s => .comment s
  | .doctype => .doctype
  | .unit => .unit
  | .compA card attrs kids => .compA card (attrs.map dynAttr) (dynKids kids)
def dynKids : List Tmpl → List Tmpl
  | [] => []
  | t :: ts => dynamize t :: dynKids ts
end

/-- one level of a one-hole context: an element / fragment / component around the hole -/
inductive Shell where
  | elem (tag : Str) (attrs : List TAttr)
  | frag
  | comp
  deriving Repr

structure Frame where
  shell : Shell
  left : List Tmpl
  right : List Tmpl
  deriving Repr

def Shell.wrap : Shell → List Tmpl → Tmpl
  | .elem tag attrs, ks => .elem tag attrs ks
  | .frag, ks => .frag ks
  | .comp, ks => .comp ks

/-- fill the hole (innermost frame first), giving the list of root nodes -/
def plug : List Frame → List Tmpl → List Tmpl
  | [], x => x
  | f :: fs, x => plug fs [f.shell.wrap (f.left ++ x ++ f.right)]

/-! ## Part 5 — input classes -/

/-- a string that survives `str::trim` and class tokenisation alike: its only white space is what the
DOM also splits on (no U+000B, U+0085, U+00A0, U+1680, U+2000…) -/
def wsOK (s : Str) : Bool := s.all (fun c => !isUniWs c || isClassSep c)

def attrClassStrings : TAttr → List Str
  | .cls _ v => [v]
  | .clsToggle n _ => [n]
  | .clsTuple n _ => [n]
  | _ => []

def isTextLike : Tmpl → Bool
  | .text _ => true
  | .block _ => true
  | _ => false

/-! ### the finding classes, as the driver attaches them to a failing verdict -/

/-- what the expansion does with each part of a template: `belem` an element built by the builder path,
`btext` a string rendered by tachys (with the `escape` flag it is rendered under), `iroot` the root of a
subtree printed at macro time -/
inductive Seen where
  | belem (tag : Str) (attrs : List TAttr) (kids : List Tmpl)
  | btext (escape : Bool) (s : Str)
  | iroot (t : Tmpl)

mutual
def seenNode (top escape : Bool) : Tmpl → List Seen
  | .text s => [.btext escape s]
  | .block s => [.btext escape s]
  | .elem tag attrs kids =>
    if !top && isInert (.elem tag attrs kids) then [.iroot (.elem tag attrs kids)]
    else .belem tag attrs kids :: (if macroIsVoid tag then [] else seenKids false (escapeChildren tag) kids)
  | .frag kids => seenKids true escape kids
  | .comp kids => .belem sSection [] kids :: seenKids true true kids
  | .comment _ => []
  | .doctype => []
  | .unit => []
  | .compA card _ kids =>
    (if card then [.belem sArticle [] [], .belem sSection [] kids] else [.belem sSection [] kids]) ++ seenKids true true kids
def seenKids (top escape : Bool) : List Tmpl → List Seen
  | [] => []
  | t :: ts => seenNode top escape t ++ seenKids top escape ts
end

def hasSpecial (s : Str) : Bool := s.any (fun c => c = '<' || c = '>' || c = '&')

def textSpecial : Tmpl → Bool
  | .text s => hasSpecial s
  | _ => false

mutual
/-- a `noscript` element with a literal child that `encode_text` changes -/
def hasNoscriptText : Tmpl → Bool
  | .elem tag _ kids => (tag = tNoscript && kids.any textSpecial) || hasNoscriptTextKids kids
  | _ => false
def hasNoscriptTextKids : List Tmpl → Bool
  | [] => false
  | t :: ts => hasNoscriptText t || hasNoscriptTextKids ts
end

def adjacentTexts : List Tmpl → Bool
  | a :: b :: r => (isTextLike a && isTextLike b) || adjacentTexts (b :: r)
  | _ => false

/-- class `noscript-inert`: a subtree printed at macro time contains `<noscript>` with text that the macro
escapes although a parser (scripting enabled) reads it as raw text -/
def Seen.noscriptInert : Seen → Bool
  | .iroot t => hasNoscriptText t
  | _ => false

/-- class `rawtext-marker`: a builder-path element whose content is not tokenised as markup
(`script style textarea noscript title`) has two adjacent string children: tachys separates them by `<!>` -/
def Seen.rawMarker : Seen → Bool
  | .belem tag _ kids => (!escapeChildren tag || tag = tTitle) && adjacentTexts kids
  | _ => false

/-- class `class-unicode-ws`: a builder-path element has a class string with Unicode-only white space -/
def Seen.classWs : Seen → Bool
  | .belem _ attrs _ => !(attrs.flatMap attrClassStrings).all wsOK
  | _ => false

/-- class `empty-text`: tachys renders an empty string child of an escaping element as `" "` -/
def Seen.emptyText : Seen → Bool
  | .btext true [] => true
  | _ => false

/-- the class of a failing input before fix-c18-1, 3, 4 -/
def findingClassOld (ts : List Tmpl) : Option Nat :=
  let l := seenKids true true ts
  if l.any Seen.noscriptInert then some 0
  else if l.any Seen.rawMarker then some 1
  else if l.any Seen.classWs then some 2
  else if l.any Seen.emptyText then some 3
  else none

/-- the class of a failing input: only `rawtext-marker` is left -/
def findingClass (ts : List Tmpl) : Option Nat :=
  if (seenKids true true ts).any Seen.rawMarker then some 1 else none

end Leptos.Macro
