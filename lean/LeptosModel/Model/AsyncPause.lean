import LeptosModel.Model.Async
/-!
# Model/AsyncPause — a paused owner (`Owner::pause` / `Owner::resume`) around the async derived of `Model/Async`

`spawn_derived!`: `let update_if_necessary = !owner.paused() && needs_rerun(..)`: while the owner the derived was
created under is paused, the derived's task still consumes its notification but does not look at its sources (a
`Dirty` state stays as it is) and does not call the fetcher; a fetch already in flight is still completed and stored.
The task looks at its sources again when it is NOTIFIED again with the owner running ("until notified again" is the
documented contract of `Owner::resume`).

An extension of `Model/Async`: nothing there is changed.  `PState` = a state of `Model/Async` + the paused flag + the
oracle's bookkeeping `missed`; `stepP` = `step` plus `pause` / `resume`, with the poll of the derived's task replaced
by `pollDPaused` while paused.  Driven after the first run of the loop (`firstRun = false`), as the drivers do.
-/
namespace Leptos.Async

/-- the poll of the derived's task while its owner is paused (after the first run of the loop) -/
def pollDPaused (s : State) : State :=
  let s := { s with dWoken := false }
  match s.pc with
  | .start => pollD s
  | .waiting => { s with reg := true, chan := false }
  | .fetching =>
    if s.tickFired = true ∧ s.curStatus = .ready then
      let s := applyResult s
      { s with reg := true, chan := false }
    else { s with dataReg := s.tickFired }

/-- `poll j` with the owner paused or running; the flag says that the derived's task was polled under pause -/
def pollNthP (paused : Bool) (s : State) (j : Nat) : State × Bool :=
  let r := readyList s
  match r[j % r.length]? with
  | some .d => if paused then (pollDPaused s, true) else (pollNth s j, false)
  | _ => (pollNth s j, false)

structure PState where
  s : State
  paused : Bool := false
  /-- the task consumed a notification under pause and no source write / refetch has been made since with the owner
  running: the derived may stay on an old value "until notified again" -/
  missed : Bool := false
  deriving Repr, DecidableEq, Inhabited

inductive PEvent where
  | ev (e : Event)
  | pause
  | resume
  deriving Repr, DecidableEq, Inhabited

/-- a source write in the seeded variant "`mark_dirty` sets `Dirty` and notifies only from `Clean`" (round-5 seed 1;
plain configurations: signals read directly, no memo): an already `Dirty` derived is not notified again -/
def setSrcNoRenotify (s : State) (i : Nat) (v : Val) : State :=
  if s.dstate = .dirty then { s with src := if i < s.src.length then setAt s.src i v else s.src }
  else setSrc s i v

/-- `noRenotify = false`: the code as it is; `true`: the seeded variant (regression witness only) -/
def stepP (noRenotify : Bool) (p : PState) : PEvent → PState
  | .pause => { p with paused := true }
  | .resume => { p with paused := false }
  | .ev (.poll j) =>
    let r := pollNthP p.paused p.s j
    { p with s := r.1, missed := p.missed || r.2 }
  | .ev (.set i v) =>
    { p with s := if noRenotify then setSrcNoRenotify p.s i v else setSrc p.s i v,
             missed := if i < p.s.src.length then p.paused else p.missed }
  | .ev .refetch => { p with s := refetch p.s, missed := p.paused }
  | .ev e => { p with s := step p.s e }

def runP (noRenotify : Bool) (c : Cfg) (es : List PEvent) : PState := es.foldl (stepP noRenotify) { s := init c }

end Leptos.Async
