/-!
# Model/Owner — reactive owners, the slot-map arena, contexts and effect disposal (C08)

Executable model of `reactive_graph/src/owner.rs`, `owner/arena.rs`, `owner/arena_item.rs`,
`owner/context.rs`, `owner/stored_value.rs`, `owner/storage.rs`, plus exactly as much of
`effect/effect.rs`, `effect/render_effect.rs`, `effect/immediate.rs`, `channel.rs`, `computed/inner.rs`,
`computed/async_derived/mod.rs` (`ScopedFuture`), `lib.rs` (`spawn_local_scoped*`) as decides *when* an
owner is cleaned (`Owner::with_cleanup` on every effect / memo run), when an effect or a scoped task
stops running and how long an `Owner` stays alive.
The code is modelled **as it is** (default features: one process-wide arena, no `sandboxed-arenas`).

## Map model ↔ code

* `Key`, `Slot`, `Arena`, `Arena.insert/get/remove/contains`
    — `slotmap::SlotMap<NodeId, Box<dyn Any>>` behind `Arena::with/with_mut` (owner/arena.rs):
      versioned keys; `insert` takes the head of the free list and bumps the slot's version,
      `remove` vacates the slot and pushes it on the free list; a key resolves only while the
      slot's version equals the key's (trusted: slotmap's documented behaviour below 2^32 reuses).
* `OwnerRec`      — `OwnerInner {parent, nodes, contexts, cleanups, children, paused}`;
                    `alive` = the `Arc<RwLock<OwnerInner>>` still has a strong reference
                    (`Weak::upgrade` succeeds); `CtxEntry.stale` is a ghost flag (see `Frame.visit`).
* `currentOwner`  — `Owner::current()`: the thread-local `OWNER : Option<WeakOwner>`, upgraded.
                    `St.cur` is the stack of `Owner::with` frames (`with` replaces, then restores).
* `newOwnerUnder` — `Owner::new()` (parent = current owner, `paused: false`) and `Owner::child()`
                    (`paused` inherited) — both push the new owner on the parent's `children`.
* `regCleanup`    — `Owner::on_cleanup` (silently does nothing without a current owner).
* `newItem`       — `ArenaItem::new_with_storage`: arena insert, then `Owner::register` on the
                    current owner if there is one (otherwise nobody ever removes the entry).
* `provide/lookup/useCtx/takeCtx/updateCtx` — `provide_context`, `Owner::with_context` (own map, then
                    the chain of `parent.upgrade()`), `use_context` (= `with_context(Clone::clone)`;
                    `expect_context` = `use_context` + panic, `with_context` itself: the same lookup —
                    the harness calls each API, the model has one `useCtx`), `take_context`
                    (removes the entry of the *nearest* provider), `update_context` (changes it in
                    place) (context.rs).
* `Frame`, `stepFrame`, `runFrames` — `impl Cleanup for RwLock<OwnerInner>` and
                    `impl Drop for OwnerInner` as a small-step machine whose stack is the call stack:
    - `visit o`  = `cleanup()`: `mem::take` of `cleanups`, `nodes`, `children` **first**, then
                   children (each `upgrade`d when its turn comes) **before** own cleanups (in
                   registration order) **before** `arena.remove(node)` for every node (in order).
                   `contexts` and `paused` are *not* touched (ghost: the entries are marked stale).
    - `drop o`   = `Drop for OwnerInner`: the same three loops; `o` is already un-upgradable.
    - `run c`    = calling one boxed cleanup closure.  A `nested` cleanup is the harness's closure
                   that itself calls `on_cleanup` and `StoredValue::new` (work registered *during*
                   a cleanup lands on whatever owner is current at that moment).  `c.drops = some ow`:
                   the closure owns a value whose destructor drops `Owner` `ow` — the
                   `ImmediateEffect` that `new_scoped` moves into `on_cleanup(move || effect.dispose())`
                   (`closureFrames`: `drop ow` right after the call, unless `ow` is on the
                   `Owner::with` stack — the thread-local holds a clone — see `immRelease`).
    - `remove k` = `arena.remove(node)` + the destructor of the removed value: an `ArcMemo` owns
                   its `Owner` (`MemoInner.owner`; the arena value `Val.memo m ow` records it) ⇒
                   `drop ow`; an effect's `Arc<RwLock<EffectInner>>` owns the channel `Sender` ⇒
                   `Inner::drop` wakes the task, which will end (channel.rs) — `ready` derives
                   this from the entry being gone.
    - `clearedRec` / `deadRec` = the record right after the `mem::take`s (resp. at the start of `Drop`);
      `dropFrames` = the destructor of the removed value.
* `cleanupOwner`  — `Owner::cleanup`;  `dropOwner` — last `Owner` handle dropped;
  `disposeKey`    — `ArenaItem::dispose` (`arena.remove`, value dropped).
* `potential`     — fuel for `runFrames` (structural recursion); `Theorems/C08` proves it suffices.
* `pauseWalk`     — `Owner::pause/resume` (explicit stack over `children`); `ownerPaused` — `Owner::paused`.
* reactive layer (`SigRec`, `MemoRec`, `EffRec`, `EffKind`, `execWith`/`exec`, `runMemo`, `runScoped`,
  `runEffect`, `pollEff`, `setSig`) — every constructor that re-runs a body under an owner of its own:
    - `Effect::new` / `new_sync` / `new_isomorphic` (`EffKind.plain`; the same loop, `spawn_local` vs
      `spawn`): `effect_base` (`channel()`, `observer.notify()`, `Owner::new()`), task spawned,
      `ArenaItem::new_with_storage(Some(inner))`; loop `while rx.next().await.is_some()`:
      `!owner.paused() && (update_if_necessary() || first_run)` ⇒ `clear_sources` (`prepRun`),
      `owner.with_cleanup(body)` (`runScoped`).  `Receiver::poll_next` yields `None` once the `Sender`
      (owned by the arena entry) is gone ⇒ the task returns and drops its `Owner` (`endTask`);
      `runEffect` is one iteration of the loop body, `pollEff` one poll of the task, `ready` the
      controlled executor's ready list in spawn order (`St.tasks`; woken, or entry gone ⇒ woken by
      `Inner::drop`).
    - `Effect::watch(dep, handler, immediate)` (`EffKind.watch imm hb`): the dependency function is
      the body; the handler is called after `owner.with_cleanup(..)`, under `owner.with(..)`, without
      an observer (`afterRun`/`runHandler`) when `immediate || !first_run`.  (`runHandlerOld`: the
      code before the repair of F-C08-2 called it outside the owner; kept for the regression witness.)
    - `RenderEffect::new` / `new_isomorphic` (`EffKind.render`, `newRender`): `Owner::new()`, first
      run at once under `owner.with` (fresh owner), then the task (`spawn_local` vs `spawn`), whose
      loop re-runs under `owner.with_cleanup`; **not** in the arena — alive while the handle is
      (`EffRec.held`); re-run on `update_if_necessary()` only.
    - every task loop is `while rx.next().await.is_some() { .. }`: a run that notifies its own effect
      (it wrote a signal it reads) goes round again in the same poll (`pollLoop`, `notifiedAgain`),
      and the wake-up leaves the task's flag set (`rewake`).
    - `ImmediateEffect::new` / `new_isomorphic` / `new_mut` / `new_scoped` (`EffKind.imm sc mutf`,
      `newImm`): `EffectInner::new` (`Owner::new()`, state `Dirty`, the three run counters), first
      `update_if_necessary` at once; no task, not in the arena.  `mark_dirty` (`markSub`) sets `Dirty`
      and calls `update_if_necessary` synchronously (`immUpdate`): nothing while the owner is paused;
      otherwise `run_count_start += 1`, `clear_sources` (`immBegin`), `owner.with_cleanup(fun)`
      (`runScoped`) — **also when an earlier run of the same effect is still in progress** (the body
      wrote one of its dependencies: `BOp.write`, `writeSig`) —, then the counters (`immEnd`);
      `add_source` only while the last run to start has not completed (`addSource`).  The effect
      lives as long as its handle (`held`); `new_scoped` moves the handle into an `on_cleanup` closure
      of the current owner (`immScope`: `dropCid` = that cleanup; alive until it has run; with no
      current owner the closure and the effect are dropped at once).  F-C08-3: while a run is in
      progress the notifying loop holds an upgraded `Arc`, so an effect whose last handle goes during
      its own run is still notified (`effLive`'s last disjunct, configuration `legacyImm`, ghost
      `immHit`); its `Owner` goes when the outermost run returns (`immRelease`).
    - scoped tasks (`EffKind.task cancel`, `newTask`, `BOp.spawn`): `ScopedFuture::new` captures
      `Owner::current().unwrap_or_default()` (a strong reference: `captureOwner`) and the observer;
      every poll runs under them (`runSeg`: `owner.with(|| observer.with_observer(..))`).  The
      harness's future is `async { body; yield; body }` (`pc`, `afterSeg`).
      `spawn_local_scoped_with_cancellation` first registers `on_cleanup(move || abort_handle.abort())`
      on the current owner (`dropCid` = that cleanup): `futures::future::Abortable` returns without
      polling the user's future once the flag is set, and looks at it again before returning
      `Pending` (`pollTask`: `effLive` = "the abort cleanup has not run").  The entry is a row of the
      same table as the effects, so "never runs again" is one theorem for all of them.
    - who holds an `Owner` (`ownerHeld`, `releaseOwner`): an owner handle, the task of an effect
      until it returns (`endTask`), an `ImmediateEffect`, the future of a scoped task (`finishTask`);
      the last one to let go drops it.  (Memo owners and the owners of `new_scoped` effects are
      dropped by an arena value / a cleanup closure inside a pass, outside this count: no scoped
      task is spawned from inside them — `execWith`.)
    - `AsyncDerived::new` with a future that is ready at once (`EffKind.async`, `newAsync`):
      `Owner::new()`, `owner.with_cleanup(|| fun())` at once, task spawned (`Executor::spawn`), then
      the arena item (`finishAsync`); the task re-runs `owner.with_cleanup(|| fun())` when marked
      dirty (`needs_rerun`), sources are not cleared.
    - `Memo::new` ⇒ `MemoInner::new` (`Owner::new()`, state `Dirty`), arena item;
      `update_if_necessary` when `Dirty` ⇒ `clear_sources`, `owner.with_cleanup(fun)` (`runMemo`).
      Memos here read signals only, effects read memos untracked only (so `Check` never arises;
      the propagation protocol itself is C01/C02/C09's subject).
    - `Owner::with_cleanup` called directly (`runWc`).
    - `RwSignal::new`/`set`: arena item holding the value; `set` marks every subscriber dirty
      (`mark_dirty` on an effect = `dirty := true; notify`), subscribers are weak.
    - first runs that happen inside a constructor nest synchronously (`exec` carries the depth bound).
* `Core` is the part of the state the property talks about (owners, arena, ambient owner stack,
  log, ghost counters); `St extends Core` adds the reactive tables and the harness's handle tables.
* `Op`, `stepOp` — the harness's op lines (see harness/hx-c08/src/bin/c08.rs for the grammar).
-/
namespace Leptos.Owner

/-! ## the arena -/

structure Key where
  idx : Nat
  gen : Nat
  deriving DecidableEq, Repr, Inhabited

inductive Val where
  | num (n : Int)
  | sig (s : Nat)
  /-- memo `m`; `ow` = the `Owner` held by its `MemoInner` -/
  | memo (m : Nat) (ow : Nat)
  | eff (e : Nat)
  deriving DecidableEq, Repr, Inhabited

structure Slot where
  gen : Nat
  val : Option Val
  deriving DecidableEq, Repr, Inhabited

structure Arena where
  slots : List Slot
  free : List Nat
  deriving DecidableEq, Repr, Inhabited

def Arena.empty : Arena := ⟨[], []⟩

def Arena.get (a : Arena) (k : Key) : Option Val :=
  match a.slots[k.idx]? with
  | some s => if s.gen = k.gen then s.val else none
  | none => none

def Arena.contains (a : Arena) (k : Key) : Bool := (a.get k).isSome

def Arena.insert (a : Arena) (v : Val) : Arena × Key :=
  match a.free with
  | i :: rest =>
    match a.slots[i]? with
    | some s => (⟨a.slots.set i ⟨s.gen + 1, some v⟩, rest⟩, ⟨i, s.gen + 1⟩)
    | none => (⟨a.slots ++ [⟨0, some v⟩], rest⟩, ⟨a.slots.length, 0⟩)
  | [] => (⟨a.slots ++ [⟨0, some v⟩], []⟩, ⟨a.slots.length, 0⟩)

def Arena.remove (a : Arena) (k : Key) : Arena × Option Val :=
  match a.slots[k.idx]? with
  | some s =>
    if s.gen = k.gen then
      match s.val with
      | some v => (⟨a.slots.set k.idx ⟨s.gen, none⟩, k.idx :: a.free⟩, some v)
      | none => (a, none)
    else (a, none)
  | none => (a, none)

def Arena.len (a : Arena) : Nat := (a.slots.filter fun s => s.val.isSome).length

/-! ## owners -/

structure Cleanup where
  cid : Nat
  tag : Nat
  nested : Bool
  /-- the closure owns a value whose destructor drops this `Owner` (an `ImmediateEffect` handed to
  `on_cleanup` by `new_scoped`) -/
  drops : Option Nat
  deriving DecidableEq, Repr, Inhabited

structure CtxEntry where
  ty : Nat
  val : Int
  stale : Bool
  deriving DecidableEq, Repr, Inhabited

structure OwnerRec where
  parent : Option Nat
  children : List Nat
  nodes : List Key
  cleanups : List Cleanup
  contexts : List CtxEntry
  paused : Bool
  alive : Bool
  deriving DecidableEq, Repr, Inhabited

/-- what ran (the per-op suffix of this log is the observable) -/
inductive Ev where
  | c (tag : Nat) (cid : Nat) (ow : Nat) (late : Bool)
  | r (e : Nat)
  | s (e : Nat) (sum : Int)
  | m (m : Nat)
  | g (m : Nat) (v : Option Int)
  | u (ty : Nat) (v : Option Int)
  | t (ty : Nat) (v : Option Int)
  /-- the handler of `Effect::watch` starts -/
  | h (e : Nat)
  deriving DecidableEq, Repr, Inhabited

/-- the part of the state the property is about -/
structure Core where
  owners : List OwnerRec := []
  arena : Arena := Arena.empty
  /-- stack of `Owner::with` frames, innermost first -/
  cur : List Nat := []
  log : List Ev := []
  nextCid : Nat := 0
  /-- ghost: arena entries created while no owner was current -/
  unowned : Nat := 0
  /-- ghost: a context lookup resolved to an entry provided before its owner's last cleanup -/
  staleHit : Bool := false
  /-- the harness's table of stored-value handles (keys are retained forever) -/
  items : List Key := []
  deriving Repr, Inhabited

def Core.setOwner (st : Core) (o : Nat) (r : OwnerRec) : Core :=
  { st with owners := st.owners.set o r }

def Core.modOwner (st : Core) (o : Nat) (f : OwnerRec → OwnerRec) : Core :=
  match st.owners[o]? with
  | some r => st.setOwner o (f r)
  | none => st

def Core.aliveB (st : Core) (o : Nat) : Bool :=
  match st.owners[o]? with
  | some r => r.alive
  | none => false

/-- `Owner::current()` -/
def currentOwner (st : Core) : Option Nat :=
  match st.cur with
  | o :: _ => if st.aliveB o then some o else none
  | [] => none

def freshOwner (parent : Option Nat) (paused : Bool) : OwnerRec :=
  { parent, children := [], nodes := [], cleanups := [], contexts := [], paused, alive := true }

/-- create an owner whose parent is `parent` (`Owner::new` / `Owner::child`); returns its id -/
def newOwnerUnder (st : Core) (parent : Option Nat) (paused : Bool) : Core × Nat :=
  let id := st.owners.length
  let st := { st with owners := st.owners ++ [freshOwner parent paused] }
  match parent with
  | some p => (st.modOwner p fun r => { r with children := r.children ++ [id] }, id)
  | none => (st, id)

/-- `Owner::new()` -/
def newOwner (st : Core) : Core × Nat := newOwnerUnder st (currentOwner st) false

/-- `Owner::child(&self)` -/
def childOwner (st : Core) (o : Nat) : Core × Nat :=
  match st.owners[o]? with
  | some r => newOwnerUnder st (some o) r.paused
  | none => newOwnerUnder st none false

/-- `Owner::on_cleanup` -/
def regCleanup (st : Core) (tag : Nat) (nested : Bool) (drops : Option Nat) : Core :=
  let c : Cleanup := ⟨st.nextCid, tag, nested, drops⟩
  let st := { st with nextCid := st.nextCid + 1 }
  match currentOwner st with
  | some o => st.modOwner o fun r => { r with cleanups := r.cleanups ++ [c] }
  | none => st

/-- `ArenaItem::new_with_storage` -/
def newItem (st : Core) (v : Val) : Core × Key :=
  let (a, k) := st.arena.insert v
  let st := { st with arena := a }
  match currentOwner st with
  | some o => (st.modOwner o fun r => { r with nodes := r.nodes ++ [k] }, k)
  | none => ({ st with unowned := st.unowned + 1 }, k)

/-- `StoredValue::new(v)`, handle retained in the harness's item table -/
def newStored (st : Core) (v : Int) : Core :=
  let (st, k) := newItem st (Val.num v)
  { st with items := st.items ++ [k] }

def logEv (st : Core) (e : Ev) : Core := { st with log := st.log ++ [e] }

/-! ## contexts -/

def ctxFind (cs : List CtxEntry) (ty : Nat) : Option CtxEntry := cs.find? fun e => e.ty == ty

def ctxInsert (cs : List CtxEntry) (e : CtxEntry) : List CtxEntry :=
  if cs.any (fun x => x.ty == e.ty) then cs.map fun x => if x.ty == e.ty then e else x
  else cs ++ [e]

/-- `provide_context` -/
def provide (st : Core) (ty : Nat) (v : Int) : Core :=
  match currentOwner st with
  | some o => st.modOwner o fun r => { r with contexts := ctxInsert r.contexts ⟨ty, v, false⟩ }
  | none => st

/-- `Owner::with_context`: own map first, then `parent.upgrade()` repeatedly -/
def lookup : Nat → Core → Nat → Nat → Option (Nat × CtxEntry)
  | 0, _, _, _ => none
  | fuel + 1, st, o, ty =>
    match st.owners[o]? with
    | none => none
    | some r =>
      if !r.alive then none else
      match ctxFind r.contexts ty with
      | some e => some (o, e)
      | none =>
        match r.parent with
        | some p => lookup fuel st p ty
        | none => none

def lookupCur (st : Core) (ty : Nat) : Option (Nat × CtxEntry) :=
  match currentOwner st with
  | some o => lookup (st.owners.length + 1) st o ty
  | none => none

/-- `use_context` (result is appended to the log) -/
def useCtx (st : Core) (ty : Nat) : Core :=
  match lookupCur st ty with
  | some (_, e) => { st with log := st.log ++ [Ev.u ty (some e.val)], staleHit := st.staleHit || e.stale }
  | none => { st with log := st.log ++ [Ev.u ty none] }

/-- `take_context` -/
def takeCtx (st : Core) (ty : Nat) : Core :=
  match lookupCur st ty with
  | some (o, e) =>
    let st := st.modOwner o fun r => { r with contexts := r.contexts.filter fun x => x.ty != ty }
    { st with log := st.log ++ [Ev.t ty (some e.val)], staleHit := st.staleHit || e.stale }
  | none => { st with log := st.log ++ [Ev.t ty none] }

/-- `update_context(|c| { c.0 += d; c.0 })`: the nearest provider's value is changed in place (the
log shows the new value) -/
def updateCtx (st : Core) (ty : Nat) (d : Int) : Core :=
  match lookupCur st ty with
  | some (o, e) =>
    let st := st.modOwner o fun r => { r with contexts := ctxInsert r.contexts ⟨ty, e.val + d, e.stale⟩ }
    { st with log := st.log ++ [Ev.u ty (some (e.val + d))], staleHit := st.staleHit || e.stale }
  | none => { st with log := st.log ++ [Ev.u ty none] }

/-! ## cleanup / drop as a small-step machine -/

inductive Frame where
  | visit (o : Nat) (late : Bool)
  | drop (o : Nat) (late : Bool)
  | run (c : Cleanup) (ow : Nat) (late : Bool)
  | remove (k : Key) (late : Bool)
  deriving DecidableEq, Repr, Inhabited

def expand (r : OwnerRec) (o : Nat) (late : Bool) : List Frame :=
  r.children.map (Frame.visit · late) ++ (r.cleanups.map (Frame.run · o late)
    ++ r.nodes.map (Frame.remove · late))

def staleAll (cs : List CtxEntry) : List CtxEntry := cs.map fun e => { e with stale := true }

/-- destructor of a value removed from the arena: an `ArcMemo` drops the `Owner` it holds -/
def dropFrames : Option Val → List Frame
  | some (Val.memo _ ow) => [Frame.drop ow true]
  | _ => []

/-- destructor of what a cleanup closure owns, run when the closure has been called and is dropped;
an `Owner` that is current (`cur`: the thread-local holds a clone while `Owner::with` runs) survives,
it is dropped when the `with` that made it current returns -/
def closureFrames (cur : List Nat) (c : Cleanup) : List Frame :=
  match c.drops with
  | some ow => if cur.contains ow then [] else [Frame.drop ow true]
  | none => []

/-- the record after `mem::take` of the three lists in `cleanup` (contexts: ghost flag only) -/
def clearedRec (r : OwnerRec) : OwnerRec :=
  { r with children := [], cleanups := [], nodes := [], contexts := staleAll r.contexts }

/-- the record of an owner whose `Drop` has started -/
def deadRec (r : OwnerRec) : OwnerRec :=
  { r with children := [], cleanups := [], nodes := [], alive := false }

def stepFrame (st : Core) : Frame → Core × List Frame
  | .visit o late =>
    match st.owners[o]? with
    | some r => if r.alive then (st.setOwner o (clearedRec r), expand r o late) else (st, [])
    | none => (st, [])
  | .drop o late =>
    match st.owners[o]? with
    | some r => (st.setOwner o (deadRec r), expand r o late)
    | none => (st, [])
  | .run c ow late =>
    let st1 := logEv st (Ev.c c.tag c.cid ow late)
    (if c.nested then newStored (regCleanup st1 (c.tag + 100) false none) c.tag else st1, closureFrames st.cur c)
  | .remove k _ => ({ st with arena := (st.arena.remove k).1 }, dropFrames (st.arena.remove k).2)

def runFrames : Nat → Core → List Frame → Core × List Frame
  | 0, st, fs => (st, fs)
  | _ + 1, st, [] => (st, [])
  | n + 1, st, f :: fs => runFrames n (stepFrame st f).1 ((stepFrame st f).2 ++ fs)

def cleanupW (c : Cleanup) : Nat := (if c.nested then 4 else 1) + (if c.drops.isSome then 1 else 0)

def frameW : Frame → Nat
  | .visit _ _ => 1
  | .drop _ _ => 1
  | .run c _ _ => cleanupW c
  | .remove _ _ => 2

def ownerW (r : OwnerRec) : Nat :=
  r.children.length + ((r.cleanups.map cleanupW).sum + 2 * r.nodes.length)

def framesW (fs : List Frame) : Nat := (fs.map frameW).sum

def ownersW (os : List OwnerRec) : Nat := (os.map ownerW).sum

def potential (st : Core) (fs : List Frame) : Nat := framesW fs + ownersW st.owners

/-- run a pass to completion -/
def runPass (st : Core) (fs : List Frame) : Core := (runFrames (potential st fs) st fs).1

/-- `Owner::cleanup` -/
def cleanupOwner (st : Core) (o : Nat) : Core := runPass st [Frame.visit o false]

/-- the last strong reference to owner `o` goes away -/
def dropOwner (st : Core) (o : Nat) : Core := runPass st [Frame.drop o false]

/-- `ArenaItem::dispose` -/
def disposeKey (st : Core) (k : Key) : Core := runPass st [Frame.remove k false]

/-- `Owner::pause` / `Owner::resume` -/
def pauseWalk : Nat → Core → List Nat → Bool → Core
  | 0, st, _, _ => st
  | _ + 1, st, [], _ => st
  | n + 1, st, o :: rest, p =>
    match st.owners[o]? with
    | some r =>
      if r.alive then pauseWalk n (st.setOwner o { r with paused := p }) (r.children ++ rest) p
      else pauseWalk n st rest p
    | none => pauseWalk n st rest p

def setPaused (st : Core) (o : Nat) (p : Bool) : Core := pauseWalk (2 * st.owners.length + 2) st [o] p

/-! ## reactive layer -/

inductive Sub where
  | eff (e : Nat)
  | memo (m : Nat)
  deriving DecidableEq, Repr, Inhabited

structure SigRec where
  key : Key
  val : Int
  subs : List Sub
  deriving DecidableEq, Repr, Inhabited

structure MemoRec where
  key : Key
  owner : Nat
  body : Nat
  dirty : Bool
  value : Option Int
  sources : List Nat
  deriving DecidableEq, Repr, Inhabited

/-- the constructors that re-run a body under an owner of their own:
`plain` = `Effect::new` / `new_sync` / `new_isomorphic` (the same task loop, `spawn_local` vs `spawn`);
`watch imm hb` = `Effect::watch(dep, handler, imm)` — the dependency function is the body, `hb` is the
handler's body, which the loop calls after `owner.with_cleanup(..)`, under `owner.with(..)`;
`render` = `RenderEffect::new`: first run synchronous (`owner.with`), not stored in the arena — it
lives as long as its handle;  `async` = `AsyncDerived::new` whose future is ready at once: first
run synchronous (`owner.with_cleanup`), arena item created afterwards, sources never cleared -/
inductive EffKind where
  | plain
  | watch (imm : Bool) (hb : Nat)
  | render
  | async
  /-- `ImmediateEffect::new` / `new_isomorphic` (`sc = false`: the caller keeps the handle),
  `new_scoped` (`sc = true`: the handle moves into an `on_cleanup` closure of the current owner),
  `new_mut` (`mutf = true`: the function sits behind a `Mutex` and panics on recursion).  Not an
  arena value, no task: marking it dirty runs it at once, under `owner.with_cleanup(..)` -/
  | imm (sc : Bool) (mutf : Bool)
  /-- a task spawned through `ScopedFuture` (`spawn_local_scoped`, with `cancel`:
  `spawn_local_scoped_with_cancellation`): it holds the owner and observer that were current when it
  was spawned and is polled under them -/
  | task (cancel : Bool)
  deriving DecidableEq, Repr, Inhabited

def EffKind.isImm : EffKind → Bool
  | .imm _ _ => true
  | _ => false

def EffKind.isMut : EffKind → Bool
  | .imm _ m => m
  | _ => false

def EffKind.isScopedImm : EffKind → Bool
  | .imm s _ => s
  | _ => false

def EffKind.isTask : EffKind → Bool
  | .task _ => true
  | _ => false

structure EffRec where
  /-- the arena entry owning the channel's sender (`none`: `RenderEffect`, or under construction) -/
  key : Option Key
  owner : Nat
  body : Nat
  dirty : Bool
  firstRun : Bool
  notified : Bool
  woken : Bool
  done : Bool
  sources : List Nat
  kind : EffKind
  /-- a strong reference outside the arena: the `RenderEffect` / `ImmediateEffect` handle, the value
  being constructed, the future of a scoped task that cannot be cancelled -/
  held : Bool
  /-- `ImmediateEffect`: `run_count_start`, `run_done_count`, `run_done_max` -/
  runStart : Nat := 0
  runDone : Nat := 0
  runDoneMax : Nat := 0
  /-- the registered cleanup whose closure decides over this entry: the closure that owns the
  `ImmediateEffect` of `new_scoped` (the effect lives until it has run), or the one that owns the
  `AbortHandle` of a cancellable task (the task runs user code until it has run) -/
  dropCid : Option Nat := none
  /-- scoped task: the observer captured by `ScopedFuture::new` -/
  tobs : Option Sub := none
  /-- scoped task: how many segments of the future have run -/
  pc : Nat := 0
  deriving DecidableEq, Repr, Inhabited

/-- body tokens (harness grammar) -/
inductive BOp where
  | read (s : Nat)
  | get (m : Nat)
  | cleanup (tag : Nat)
  | nested (tag : Nat)
  | item (v : Nat)
  | sig (v : Nat)
  | provide (ty : Nat) (v : Nat)
  | use (ty : Nat)
  | take (ty : Nat)
  /-- `update_context` adding `d` -/
  | update (ty : Nat) (d : Nat)
  | effect (b : Nat)
  | memo (b : Nat)
  | newOwner
  | watch (b : Nat) (hb : Nat) (imm : Bool)
  | render (b : Nat)
  | async (b : Nat)
  | imm (b : Nat) (sc : Bool) (mutf : Bool)
  /-- `if s.get_untracked() < v { s.set(v) }` — the write that makes an `ImmediateEffect` recurse -/
  | write (s : Nat) (v : Nat)
  | spawn (b : Nat) (cancel : Bool)
  deriving DecidableEq, Repr, Inhabited

structure St extends Core where
  sigs : List SigRec := []
  memos : List MemoRec := []
  effs : List EffRec := []
  /-- spawned tasks (effect ids) in spawn order -/
  tasks : List Nat := []
  obs : Option Sub := none
  acc : Int := 0
  memoDepth : Nat := 0
  /-- how many functions that must not write a signal are on the call stack (`ImmediateEffect::new_mut`
functions) -/
  mutDepth : Nat := 0
  /-- ghost: a `watch` handler created an arena value / registered a cleanup / looked up a context
  while no `Owner::with` frame was active at all -/
  watchHit : Bool := false
  /-- ghost: an `ImmediateEffect` whose last handle was dropped while one of its runs was in
  progress ran again (F-C08-3) -/
  immHit : Bool := false
  /-- configuration, never changed by any op: an `ImmediateEffect` that is running stays reachable
  for notifications after its last handle has been dropped (the notifying loop holds the upgraded
  `Arc`), as the code at the pinned commit does (F-C08-3); `false` = `dispose` stops it at once -/
  legacyImm : Bool := false
  /-- configuration, never changed by any op: run `Effect::watch` handlers as the code did before
  the repair of F-C08-2 (`runHandlerOld`); only the regression witness sets it -/
  legacyWatch : Bool := false
  /-- the harness's owner handles (`none` = dropped) -/
  hOwners : List (Option Nat) := []
  bodies : List (List BOp) := []
  deriving Repr, Inhabited

/-- apply a core transformer -/
def St.lift (st : St) (f : Core → Core) : St := { st with toCore := f st.toCore }

def sigLive (st : St) (s : Nat) : Bool :=
  match st.sigs[s]? with
  | some r => st.arena.get r.key == some (Val.sig s)
  | none => false

def memoLive (st : St) (m : Nat) : Bool :=
  match st.memos[m]? with
  | some r => st.arena.get r.key == some (Val.memo m r.owner)
  | none => false

def keyLive (st : St) (e : Nat) : Option Key → Bool
  | some k => st.arena.get k == some (Val.eff e)
  | none => false

def Ev.isCid (cid : Nat) : Ev → Bool
  | .c _ x _ _ => x == cid
  | _ => false

/-- registered cleanup `cid` has run -/
def cidRan (st : Core) (cid : Nat) : Bool := st.log.any (Ev.isCid cid)

/-- the closure of cleanup `cid` still exists (it has not run) -/
def dropLive (st : St) : Option Nat → Bool
  | some cid => !cidRan st.toCore cid
  | none => false

/-- a run of this `ImmediateEffect` is in progress -/
def immRunning (r : EffRec) : Bool := r.kind.isImm && decide (0 < r.runStart)

/-- the `Arc<RwLock<EffectInner>>` (resp. `ArcAsyncDerived`) still has a strong reference; for a scoped
task: it will still run user code when polled -/
def effLive (st : St) (e : Nat) : Bool :=
  match st.effs[e]? with
  | some r => r.held || keyLive st e r.key || dropLive st r.dropCid || (st.legacyImm && immRunning r)
  | none => false

def subLive (st : St) : Sub → Bool
  | .eff e => effLive st e
  | .memo m => memoLive st m

/-- `Subscriber::clear_sources`: forget the sources, unsubscribe from each of them -/
def clearSources (st : St) (me : Sub) (sources : List Nat) : St :=
  { st with sigs := st.sigs.mapIdx fun i r =>
      if sources.contains i then { r with subs := r.subs.filter (· != me) } else r }

def addSource (st : St) (me : Sub) (s : Nat) : St :=
  match me with
  | .eff e =>
    match st.effs[e]? with
    | some er =>
      -- `ImmediateEffect`: only while the last run to start has not completed
      let skip := er.kind.isImm && !decide (er.runDoneMax < er.runStart)
      let er' : EffRec :=
        { er with sources := if skip || er.sources.contains s then er.sources else er.sources ++ [s] }
      { st with effs := st.effs.set e er' }
    | none => st
  | .memo m =>
    match st.memos[m]? with
    | some mr =>
      let mr' : MemoRec :=
        { mr with sources := if mr.sources.contains s then mr.sources else mr.sources ++ [s] }
      { st with memos := st.memos.set m mr' }
    | none => st

/-- tracked read (`try_get`) of signal `s` by the current observer -/
def readSig (st : St) (s : Nat) : St :=
  match st.sigs[s]? with
  | some r =>
    if sigLive st s then
      let st := { st with acc := st.acc + r.val }
      match st.obs with
      | some me =>
        if subLive st me then
          let r' : SigRec := { r with subs := if r.subs.contains me then r.subs else r.subs ++ [me] }
          addSource { st with sigs := st.sigs.set s r' } me s
        else st
      | none => st
    else st
  | none => st

/-- `Effect::new(body b)` / `Effect::watch(..)` under the current owner: `effect_base` (owner, one
pending notification), task spawned, arena item -/
def newEffect (st : St) (b : Nat) (kind : EffKind) : St :=
  let e := st.effs.length
  let (c1, o) := newOwner st.toCore
  let (c2, k) := newItem c1 (Val.eff e)
  { st with toCore := c2, tasks := st.tasks ++ [e],
            effs := st.effs ++ [{ key := some k, owner := o, body := b, dirty := true, firstRun := true,
                                  notified := true, woken := true, done := false, sources := [],
                                  kind := kind, held := false }] }

/-- `Memo::new(body b)` under the current owner -/
def newMemo (st : St) (b : Nat) : St :=
  let m := st.memos.length
  let (c1, o) := newOwner st.toCore
  let (c2, k) := newItem c1 (Val.memo m o)
  { st with toCore := c2,
            memos := st.memos ++ [{ key := k, owner := o, body := b, dirty := true, value := none,
                                    sources := [] }] }

def newSignal (st : St) (v : Int) : St :=
  let s := st.sigs.length
  let (c1, k) := newItem st.toCore (Val.sig s)
  { st with toCore := c1, sigs := st.sigs ++ [{ key := k, val := v, subs := [] }] }

def newOwnerHandle (st : St) : St :=
  let (c1, o) := newOwner st.toCore
  { st with toCore := c1, hOwners := st.hOwners ++ [some o] }

def bodyOf (st : St) (b : Nat) : List BOp := (st.bodies[b]?).getD []

def pushCur (st : Core) (o : Nat) : Core := { st with cur := o :: st.cur }
def popCur (st : Core) (n : Nat) : Core := { st with cur := st.cur.drop n }

/-- `owner.with_cleanup(|| subscriber.with_observer(|| body))` for effect `e`; `ex` executes one
token of the body -/
def runScoped (ex : St → BOp → St) (st : St) (e : Nat) (owner : Nat) (body : Nat) : St :=
  let st := st.lift (cleanupOwner · owner)
  let saved := (st.obs, st.acc)
  let st := st.lift fun c => logEv (pushCur c owner) (Ev.r e)
  let st := { st with obs := some (Sub.eff e), acc := 0 }
  let st := (bodyOf st body).foldl ex st
  let st := st.lift (logEv · (Ev.s e st.acc))
  let st := st.lift (popCur · 1)
  { st with obs := saved.1, acc := saved.2 }

/-- the record of a value that runs its body while it is being constructed (an `ImmediateEffect`
starts `Dirty` and never has a task) -/
def eagerEff (o b : Nat) (kind : EffKind) : EffRec :=
  { key := none, owner := o, body := b, dirty := kind.isImm, firstRun := false, notified := false,
    woken := !kind.isImm, done := kind.isImm, sources := [], kind := kind, held := true }

/-- `Owner::new()` for a value that runs its body while it is being constructed; the record is
entered first so that the body's tracked reads find their subscriber -/
def pushEager (st : St) (b : Nat) (kind : EffKind) : St :=
  let (c1, o) := newOwner st.toCore
  { st with toCore := c1, effs := st.effs ++ [eagerEff o b kind] }

/-- the id of the owner `pushEager` creates -/
def eagerOwner (st : St) : Nat := (newOwner st.toCore).2

/-- `Executor::spawn` -/
def addTask (st : St) (e : Nat) : St := { st with tasks := st.tasks ++ [e] }

/-- `RenderEffect::new(body b)` / `new_isomorphic`: owner, first run at once (the owner is fresh, so
`owner.with` and `with_cleanup` coincide), then the task is spawned; no arena item -/
def newRender (ex : St → BOp → St) (st : St) (b : Nat) : St :=
  addTask (runScoped ex (pushEager st b EffKind.render) st.effs.length (eagerOwner st) b) st.effs.length

/-- the `ArcAsyncDerived` goes into the arena: `ArenaItem::new_with_storage` -/
def finishAsync (st : St) (e : Nat) : St :=
  let (c2, k) := newItem st.toCore (Val.eff e)
  match st.effs[e]? with
  | some er => { st with toCore := c2, effs := st.effs.set e { er with key := some k, held := false } }
  | none => { st with toCore := c2 }

def setMutDepth (st : St) (d : Nat) : St := { st with mutDepth := d }

/-- `AsyncDerived::new(|| { body; ready future })`: owner, first run at once under
`owner.with_cleanup`, task spawned, then the arena item.  A notification that reaches the value
while it is being constructed (its function, or something created in it, wrote a signal it reads)
is kept: the task re-runs it at its first poll (F-C10-7, repaired in /repo 112d2c1). -/
def newAsync (ex : St → BOp → St) (st : St) (b : Nat) : St :=
  finishAsync
    (addTask
      (setMutDepth
        (runScoped ex (setMutDepth (pushEager st b EffKind.async) st.mutDepth) st.effs.length
          (eagerOwner st) b)
        st.mutDepth)
      st.effs.length)
    st.effs.length

/-! ### who holds an `Owner`

An `Owner` is reference counted.  The model drops it when the last holder the harness can create lets
go: an owner handle, the task of an effect (until it returns), an `ImmediateEffect` (until its handle
is dropped / its `new_scoped` closure has run), a scoped task (until its future is dropped). -/

def effHolds (st : St) (o : Nat) (er : EffRec) : Bool :=
  er.owner == o &&
    (if er.kind.isImm then er.held || dropLive st er.dropCid || immRunning er else !er.done)

def ownerHeld (st : St) (o : Nat) : Bool :=
  st.hOwners.contains (some o) || st.effs.any (effHolds st o)

/-- a holder of owner `o` lets go -/
def releaseOwner (st : St) (o : Nat) : St :=
  if ownerHeld st o then st else st.lift (dropOwner · o)

/-- `Owner::paused` -/
def ownerPaused (st : Core) (o : Nat) : Bool :=
  match st.owners[o]? with
  | some r => r.paused
  | none => false

/-! ### `ImmediateEffect` -/

/-- a run starts: `run_count_start += 1`, `sources.clear_sources(..)` -/
def immBegin (st : St) (e : Nat) (er : EffRec) : St :=
  let st := clearSources st (Sub.eff e) er.sources
  { st with effs := st.effs.set e { er with runStart := er.runStart + 1, sources := [] } }

/-- run number `rc` has completed -/
def immEnd (st : St) (e : Nat) (rc : Nat) : St :=
  match st.effs[e]? with
  | none => st
  | some er =>
    let er1 : EffRec :=
      if er.runStart == er.runDone + 1 then
        { er with runStart := 0, runDone := 0, runDoneMax := 0, dirty := false }
      else { er with runDone := er.runDone + 1, runDoneMax := max rc er.runDoneMax, dirty := false }
    { st with effs := st.effs.set e er1 }

/-- the outermost run has returned and nothing refers to the effect any more (its last handle was
dropped while it was running): the notifying loop lets go of the `Arc` it had upgraded, the effect and
its `Owner` go -/
def immRelease (st : St) (e : Nat) : St :=
  match st.effs[e]? with
  | some er =>
    if er.runStart == 0 && !(er.held || dropLive st er.dropCid) then releaseOwner st er.owner else st
  | none => st

/-- `update_if_necessary` of an `ImmediateEffect`: nothing while the owner is paused or the state is
`Clean`; otherwise `owner.with_cleanup(|| with_observer(fun))` — also when an earlier run of the same
effect is still in progress further up the call stack -/
def immUpdate (ex : St → BOp → St) (st : St) (e : Nat) : St :=
  match st.effs[e]? with
  | none => st
  | some er =>
    if ownerPaused st.toCore er.owner || !er.dirty then st
    else
      let d := st.mutDepth
      let hit := !(er.held || dropLive st er.dropCid)
      let st := immBegin st e er
      let st := { st with mutDepth := d + (if er.kind.isMut then 1 else 0), immHit := st.immHit || hit }
      let st := runScoped ex st e er.owner er.body
      immRelease (immEnd { st with mutDepth := d } e (er.runStart + 1)) e

def immTag (e : Nat) : Nat := 2000000000 + e
def abortTag (e : Nat) : Nat := 1000000000 + e

/-- `new_scoped`: `on_cleanup(move || effect.dispose())` — with no current owner the closure, and with
it the effect, is dropped at once -/
def immScope (st : St) (e : Nat) : St :=
  match st.effs[e]? with
  | none => st
  | some er =>
    match currentOwner st.toCore with
    | some _ =>
      let cid := st.nextCid
      let st := st.lift (regCleanup · (immTag e) false (some er.owner))
      { st with effs := st.effs.set e { er with held := false, dropCid := some cid } }
    | none => releaseOwner { st with effs := st.effs.set e { er with held := false } } er.owner

/-- `ImmediateEffect::new(body b)` (…`_scoped`, `_mut`, `_isomorphic`): `Owner::new()`, first run at once -/
def newImm (ex : St → BOp → St) (st : St) (b : Nat) (sc mutf : Bool) : St :=
  let st1 := immUpdate ex (pushEager st b (EffKind.imm sc mutf)) st.effs.length
  if sc then immScope st1 st.effs.length else st1

/-- `Subscriber::mark_dirty` -/
def markSub (ex : St → BOp → St) (st : St) : Sub → St
  | .eff e =>
    match st.effs[e]? with
    | some er =>
      if effLive st e then
        if er.kind.isImm then immUpdate ex { st with effs := st.effs.set e { er with dirty := true } } e
        else { st with effs := st.effs.set e { er with dirty := true, notified := true, woken := true } }
      else st
    | none => st
  | .memo m =>
    match st.memos[m]? with
    | some mr => if memoLive st m then { st with memos := st.memos.set m { mr with dirty := true } } else st
    | none => st

/-- `RwSignal::try_set`: the subscribers (a snapshot) are marked in subscription order -/
def setSig (ex : St → BOp → St) (st : St) (s : Nat) (v : Int) : St :=
  match st.sigs[s]? with
  | some r =>
    if sigLive st s then
      let st := { st with sigs := st.sigs.set s { r with val := v } }
      r.subs.foldl (markSub ex) st
    else st
  | none => st

/-- the `z<s>.<v>` token: `if s.get_untracked() < v { s.set(v) }`; not inside a memo, not while a
`new_mut` function is running (it would panic) -/
def writeSig (ex : St → BOp → St) (st : St) (s : Nat) (v : Nat) : St :=
  if st.memoDepth > 0 || st.mutDepth > 0 then st
  else
    match st.sigs[s]? with
    | some r => if sigLive st s && decide (r.val < (v : Int)) then setSig ex st s v else st
    | none => st

/-! ### scoped tasks -/

def taskRec (o b : Nat) (cancel : Bool) (obs : Option Sub) (hook : Option Nat) : EffRec :=
  { key := none, owner := o, body := b, dirty := false, firstRun := false, notified := false,
    woken := true, done := false, sources := [], kind := EffKind.task cancel, held := hook.isNone,
    dropCid := hook, tobs := obs }

/-- the owner `ScopedFuture::new` captures: `Owner::current().unwrap_or_default()` -/
def captureOwner (st : Core) : Core × Nat :=
  match currentOwner st with
  | some o => (st, o)
  | none => newOwnerUnder st none false

/-- `spawn_local_scoped(async { body; yield; body })`; with `cancel`: the `AbortHandle` goes into an
`on_cleanup` closure of the current owner first (with no current owner the closure is dropped and
nothing ever aborts the task) -/
def newTask (st : St) (b : Nat) (cancel : Bool) : St :=
  let hook := if cancel && (currentOwner st.toCore).isSome then some st.nextCid else none
  let c0 := if hook.isSome then regCleanup st.toCore (abortTag st.effs.length) false none else st.toCore
  let (c1, o) := captureOwner c0
  { st with toCore := c1, tasks := st.tasks ++ [st.effs.length],
            effs := st.effs ++ [taskRec o b cancel st.obs hook] }

/-- the observer of the body being run is an `ImmediateEffect` of `new_scoped`, i.e. the current
owner is one that a cleanup closure drops -/
def inScopedImm (st : St) : Bool :=
  match st.obs with
  | some (.eff e) =>
    match st.effs[e]? with
    | some er => er.kind.isScopedImm
    | none => false
  | _ => false

/-- `MemoInner::update_if_necessary` taking the `Dirty` branch -/
def runMemo (ex : St → BOp → St) (st : St) (m : Nat) : St :=
  match st.memos[m]? with
  | none => st
  | some mr =>
    let st := clearSources st (Sub.memo m) mr.sources
    let st := { st with memos := st.memos.set m { mr with sources := [] } }
    -- owner.with_cleanup(|| with_observer(fun))
    let st := st.lift (cleanupOwner · mr.owner)
    let saved := (st.obs, st.acc, st.memoDepth)
    let st := st.lift fun c => logEv (pushCur c mr.owner) (Ev.m m)
    let st := { st with obs := some (Sub.memo m), acc := 0, memoDepth := st.memoDepth + 1 }
    let st := (bodyOf st mr.body).foldl ex st
    let v := st.acc
    let st := st.lift (popCur · 1)
    let st := { st with obs := saved.1, acc := saved.2.1, memoDepth := saved.2.2 }
    match st.memos[m]? with
    | some mr' => { st with memos := st.memos.set m { mr' with dirty := false, value := some v } }
    | none => st

/-- `Memo::try_get_untracked` -/
def getMemo (ex : St → BOp → St) (st : St) (m : Nat) : St :=
  if memoLive st m then
    let st := match st.memos[m]? with
      | some mr => if mr.dirty then runMemo ex st m else st
      | none => st
    let v := (st.memos[m]?).bind (·.value)
    let st := { st with acc := st.acc + v.getD 0 }
    st.lift (logEv · (Ev.g m v))
  else st.lift (logEv · (Ev.g m none))

/-- one body token; `ex` executes the tokens of bodies that run synchronously inside this one
(memo recomputation, first run of a render effect / async derived, every run of an
`ImmediateEffect`).  Scoped tasks are not spawned from inside a memo or a `new_scoped` effect (whose
owners are dropped by arena values / cleanup closures, outside the reference count kept here) -/
def execWith (ex : St → BOp → St) (st : St) : BOp → St
  | .read s => readSig st s
  | .get m => if st.memoDepth > 0 then st else getMemo ex st m
  | .cleanup tag => st.lift (regCleanup · tag false none)
  | .nested tag => st.lift (regCleanup · tag true none)
  | .item v => st.lift (newStored · v)
  | .sig v => newSignal st v
  | .provide ty v => st.lift (provide · ty v)
  | .use ty => st.lift (useCtx · ty)
  | .take ty => st.lift (takeCtx · ty)
  | .update ty d => st.lift (updateCtx · ty d)
  | .effect b => newEffect st b EffKind.plain
  | .memo b => newMemo st b
  | .newOwner => newOwnerHandle st
  | .watch b hb imm => newEffect st b (EffKind.watch imm hb)
  | .render b => newRender ex st b
  | .async b => newAsync ex st b
  | .imm b sc mutf => newImm ex st b sc mutf
  | .write s v => writeSig ex st s v
  | .spawn b cancel => if st.memoDepth > 0 || inScopedImm st then st else newTask st b cancel

/-- token execution with a bound on the depth of synchronously nested bodies.  A body only names
earlier bodies and a memo is recomputed only outside memo runs, so without writes a chain of nested
runs is at most "decreasing bodies, one memo, decreasing bodies"; a write that triggers an
`ImmediateEffect` strictly raises a signal, and the generator keeps the targets few and the values
small.  (If the fuel ran out the model would stop short of the implementation and the case fail.) -/
def exec : Nat → St → BOp → St
  | 0, st, op => execWith (fun s _ => s) st op
  | f + 1, st, op => execWith (exec f) st op

def execBOp (st : St) (op : BOp) : St := exec (16 * (st.bodies.length + 2)) st op

/-- a token of a `watch` handler (reads are untracked).  `watchHit` records that something was
created for the handler while no owner frame was active -/
def execHandlerTok (st : St) : BOp → St
  | .read s => readSig st s
  | .cleanup tag =>
    let hit := st.cur.isEmpty
    { (st.lift (regCleanup · tag false none)) with watchHit := st.watchHit || hit }
  | .item v =>
    let hit := st.cur.isEmpty
    { (st.lift (newStored · v)) with watchHit := st.watchHit || hit }
  | .sig v =>
    let hit := st.cur.isEmpty
    { (newSignal st v) with watchHit := st.watchHit || hit }
  | .use ty =>
    let hit := st.cur.isEmpty
    { (st.lift (useCtx · ty)) with watchHit := st.watchHit || hit }
  | _ => st

/-- before the repair of F-C08-2: the handler was called outside the effect's owner, on whatever
owner was current where the task is polled -/
def runHandlerOld (st : St) (e : Nat) (hb : Nat) : St :=
  let saved := (st.obs, st.acc)
  let st := st.lift (logEv · (Ev.h e))
  let st := { st with obs := none, acc := 0 }
  let st := (bodyOf st hb).foldl execHandlerTok st
  { st with obs := saved.1, acc := saved.2 }

/-- `owner.with(|| handler(..))`: the handler runs under the effect's owner `o` (no observer); what
it creates belongs to the current run and is released by the next `with_cleanup` -/
def runHandlerNew (st : St) (e : Nat) (o : Nat) (hb : Nat) : St :=
  let saved := (st.obs, st.acc)
  let st := st.lift fun c => logEv (pushCur c o) (Ev.h e)
  let st := { st with obs := none, acc := 0 }
  let st := (bodyOf st hb).foldl execHandlerTok st
  let st := st.lift (popCur · 1)
  { st with obs := saved.1, acc := saved.2 }

def runHandler (st : St) (e : Nat) (o : Nat) (hb : Nat) : St :=
  if st.legacyWatch then runHandlerOld st e hb else runHandlerNew st e o hb

/-- the effect's task has seen its channel closed: it returns, letting go of its `Owner` -/
def endTask (st : St) (e : Nat) : St :=
  match st.effs[e]? with
  | some er => releaseOwner { st with effs := st.effs.set e { er with woken := false, done := true } } er.owner
  | none => st

/-- `subscriber.clear_sources(..)` (not for an async derived) and the loop's flags -/
def prepRun (st : St) (e : Nat) (er : EffRec) : St :=
  let isAsync := er.kind == EffKind.async
  let st := if isAsync then st else clearSources st (Sub.eff e) er.sources
  let er1 : EffRec :=
    { er with woken := false, notified := false, dirty := false, firstRun := false,
              sources := if isAsync then er.sources else [] }
  { st with effs := st.effs.set e er1 }

/-- `Effect::watch`: the handler is called after `owner.with_cleanup(dependency_fn)`, under
`owner.with(..)` -/
def afterRun (st : St) (e : Nat) (er : EffRec) : St :=
  match er.kind with
  | .watch imm hb => if imm || !er.firstRun then runHandler st e er.owner hb else st
  | _ => st

/-- one iteration of the task loop's body -/
def runEffect (st : St) (e : Nat) (er : EffRec) : St :=
  afterRun (runScoped execBOp (prepRun st e er) e er.owner er.body) e er

/-- one segment of a scoped task's future: `owner.with(|| observer.with_observer(|| fut.poll(cx)))` -/
def runSeg (ex : St → BOp → St) (st : St) (e : Nat) (er : EffRec) : St :=
  let saved := (st.obs, st.acc)
  let st := st.lift fun c => logEv (pushCur c er.owner) (Ev.r e)
  let st := { st with obs := er.tobs, acc := 0 }
  let st := (bodyOf st er.body).foldl ex st
  let st := st.lift (logEv · (Ev.s e st.acc))
  let st := st.lift (popCur · 1)
  { st with obs := saved.1, acc := saved.2 }

/-- the task's future is dropped (it completed, or `Abortable` returned `Aborted`): the
`ScopedFuture` lets go of its `Owner` -/
def finishTask (st : St) (e : Nat) : St :=
  match st.effs[e]? with
  | some er =>
    releaseOwner { st with effs := st.effs.set e { er with woken := false, done := true, held := false } } er.owner
  | none => st

/-- the segment is over: the future yields once after the first segment (waking itself) and
completes after the second; `Abortable` looks at the abort flag again before it returns `Pending` -/
def afterSeg (st : St) (e : Nat) : St :=
  match st.effs[e]? with
  | some er =>
    if !effLive st e || decide (1 ≤ er.pc) then finishTask st e
    else { st with effs := st.effs.set e { er with pc := er.pc + 1, woken := true } }
  | none => st

/-- one poll of a scoped task: an aborted task returns at once, without polling the user's future -/
def pollTask (st : St) (e : Nat) (er : EffRec) : St :=
  if !effLive st e then finishTask st e
  else afterSeg (runSeg execBOp { st with effs := st.effs.set e { er with woken := false } } e er) e

/-- one iteration of `while rx.next().await.is_some() { .. }` in effect `e`'s task -/
def pollIter (st : St) (e : Nat) : St :=
  match st.effs[e]? with
  | none => st
  | some er =>
    if er.done then st
    else if er.kind.isTask then pollTask st e er
    else if !effLive st e then endTask st e   -- `rx.next()` = None
    else if !er.notified then { st with effs := st.effs.set e { er with woken := false } }
    else if ownerPaused st.toCore er.owner || !(er.dirty || er.firstRun) then
      { st with effs := st.effs.set e { er with woken := false, notified := false } }
    else
      -- after the run the loop polls the channel again: it may have been closed during the run
      if !effLive (runEffect st e er) e then endTask (runEffect st e er) e else runEffect st e er

/-- the run has notified its own effect (it wrote a signal it reads): `rx.next()` is ready at once -/
def notifiedAgain (st : St) (e : Nat) : Bool :=
  match st.effs[e]? with
  | some er => !er.done && er.notified && !er.kind.isTask
  | none => false

/-- the notification that arrived during the poll has also woken the task: its flag stays set -/
def rewake (st : St) (e : Nat) : St :=
  match st.effs[e]? with
  | some er => { st with effs := st.effs.set e { er with woken := true } }
  | none => st

/-- one poll of effect `e`'s task: the loop goes round as long as a notification is waiting -/
def pollLoop : Nat → St → Nat → St
  | 0, st, _ => st
  | n + 1, st, e =>
    if notifiedAgain (pollIter st e) e then rewake (pollLoop n (pollIter st e) e) e else pollIter st e

def pollEff (st : St) (e : Nat) : St := pollLoop 64 st e

def ready (st : St) : List Nat :=
  st.tasks.filter fun e =>
    match st.effs[e]? with
    | some er => !er.done && (er.woken || !effLive st e)
    | none => false

def pollNth (st : St) (i : Nat) : St :=
  let r := ready st
  match r[i % r.length]? with
  | some e => pollEff st e
  | none => st

def runIdle : Nat → St → St
  | 0, st => st
  | n + 1, st => if (ready st).isEmpty then st else runIdle n (pollNth st 0)

/-- `owner.with_cleanup(|| body)` called directly on an owner handle -/
def runWc (st : St) (o : Nat) (b : Nat) : St :=
  let st := st.lift (cleanupOwner · o)
  let saved := (st.obs, st.acc)
  let st := st.lift (pushCur · o)
  let st := { st with obs := none, acc := 0 }
  let st := (bodyOf st b).foldl execBOp st
  let st := st.lift (popCur · 1)
  { st with obs := saved.1, acc := saved.2 }

/-! ## op lines -/

inductive Act where
  | x (b : BOp)
  | cleanup (o : Nat)
  | wc (o : Nat) (b : Nat)
  deriving Repr, Inhabited

inductive HKind where
  | i | s | m | e
  deriving DecidableEq, Repr, Inhabited

inductive Op where
  | body (b : List BOp)
  | act (ins : List Nat) (a : Act)
  | child (o : Nat)
  | drop (o : Nat)
  | dispose (k : HKind) (i : Nat)
  | set (s : Nat) (v : Nat)
  | pause (o : Nat)
  | resume (o : Nat)
  | poll (i : Nat)
  | idle
  | «end»
  deriving Repr, Inhabited

def heldOwner (st : St) (h : Nat) : Option Nat := (st.hOwners[h]?).join

def handleKey (st : St) : HKind → Nat → Option Key
  | .i, k => st.items[k]?
  | .s, k => (st.sigs[k]?).map (·.key)
  | .m, k => (st.memos[k]?).map (·.key)
  | .e, _ => none

/-- `dispose` on an effect handle: `ArenaItem::dispose`, or dropping the `RenderEffect` -/
def disposeEff (st : St) (i : Nat) : Option St :=
  match st.effs[i]? with
  | some er =>
    match er.key with
    | some k => some (st.lift (disposeKey · k))
    | none =>
      -- no handle to a scoped task or to a `new_scoped` effect
      if er.kind.isTask || er.kind.isScopedImm then none
      else if er.kind.isImm then
        some (releaseOwner { st with effs := st.effs.set i { er with held := false } } er.owner)
      else some { st with effs := st.effs.set i { er with held := false } }
  | none => none

def dropHandle (st : St) (h : Nat) : St :=
  match heldOwner st h with
  | some o => releaseOwner { st with hOwners := st.hOwners.set h none } o
  | none => st

def pushAll (st : Core) (os : List Nat) : Core := { st with cur := os.reverse ++ st.cur }

/-- `none` = the line is a `noop` (a referenced handle is missing or dropped) -/
def stepOp (st : St) : Op → Option St
  | .body b => some { st with bodies := st.bodies ++ [b] }
  | .act ins a =>
    match ins.mapM (heldOwner st) with
    | none => none
    | some os =>
      let st1 := st.lift (pushAll · os)
      let r := match a with
        | .x b => some (execBOp st1 b)
        | .cleanup h =>
          match heldOwner st h with
          | some o => some (st1.lift (cleanupOwner · o))
          | none => none
        | .wc h b =>
          match heldOwner st h with
          | some o => some (runWc st1 o b)
          | none => none
      r.map fun st2 => st2.lift (popCur · os.length)
  | .child h =>
    match heldOwner st h with
    | some o =>
      let (c1, c) := childOwner st.toCore o
      some { st with toCore := c1, hOwners := st.hOwners ++ [some c] }
    | none => none
  | .drop h =>
    match heldOwner st h with
    | some _ => some (dropHandle st h)
    | none => none
  | .dispose .e i => disposeEff st i
  | .dispose k i =>
    match handleKey st k i with
    | some key => some (st.lift (disposeKey · key))
    | none => none
  | .set s v => if s < st.sigs.length then some (setSig execBOp st s v) else none
  | .pause h =>
    match heldOwner st h with
    | some o => some (st.lift (setPaused · o true))
    | none => none
  | .resume h =>
    match heldOwner st h with
    | some o => some (st.lift (setPaused · o false))
    | none => none
  | .poll i => some (pollNth st i)
  | .idle => some (runIdle 10000 st)
  | .«end» => some (runIdle 10000 ((List.range st.hOwners.length).foldl dropHandle st))

def runOps (st : St) : List Op → St
  | [] => st
  | op :: rest => runOps ((stepOp st op).getD st) rest

end Leptos.Owner
