/-!
# Model/Url — percent-encoding, form-urlencoded parsing, ParamsMap (C15)

Strings are lists of bytes (`List Nat`, each `< 256`; a Rust `String`/`&str`
additionally satisfies `utf8Valid`).  The functions follow the code:

* `escape`      — `Url::escape` (router/src/location/mod.rs, `ssr`):
                  `utf8_percent_encode(s, NON_ALPHANUMERIC)`.
* `pctDecode`   — `percent_encoding::percent_decode` (the iterator: `%` followed
                  by two hex digits becomes one byte, anything else is copied).
* `unescape`    — `Url::unescape`: `percent_decode_str(s).decode_utf8_lossy()`
                  (since the repair `fix: Url::unescape must not panic…`; before it the
                  code was `.decode_utf8().unwrap()`, kept here as `unescapeOld` with
                  `none` for the panic, for the regression witnesses).
* `utf8Next`/`utf8Valid`/`utf8Lossy` — `core::str::Utf8Chunks` /
                  `String::from_utf8_lossy` (maximal invalid prefix ↦ one U+FFFD).
* `formParse`   — `form_urlencoded::parse` = `url::Url::query_pairs`
                  (split on `&`, skip empty pieces, split at the first `=`,
                  `+` ↦ space, percent-decode, lossy UTF-8).
* `PMap.insert` — `ParamsMap::insert` (router/src/params.rs): unescapes the value
                  (raw path segments come in here), appends to the key's vector or
                  pushes a new key.  `PMap.push` = `ParamsMap::insert_decoded`.
* `toQueryString` — `ParamsMap::to_query_string`.
* `searchParams`  — `RequestUrl::parse_with_base` restricted to the query component:
                  `for (k, v) in query_pairs() { insert_decoded(k, v) }` (since the repair
                  `fix: do not percent-decode server query parameters twice`; the old
                  `query_pairs().collect::<ParamsMap>()` is kept as `searchParamsOld`).
* `pathParam`     — what both routers do with a matched raw path segment:
                  `ParamsMap::insert(name, segment)`.
-/
namespace Leptos.Url

def isAlnum (b : Nat) : Bool :=
  (48 ≤ b && b ≤ 57) || (65 ≤ b && b ≤ 90) || (97 ≤ b && b ≤ 122)

/-- upper-case hex digit, as percent_encoding prints (`%3C`) -/
def hexUp (n : Nat) : Nat := if n < 10 then 48 + n else 55 + n

def hexVal (b : Nat) : Option Nat :=
  if 48 ≤ b ∧ b ≤ 57 then some (b - 48)
  else if 65 ≤ b ∧ b ≤ 70 then some (b - 55)
  else if 97 ≤ b ∧ b ≤ 102 then some (b - 87)
  else none

def escape : List Nat → List Nat
  | [] => []
  | b :: bs =>
    if isAlnum b then b :: escape bs
    else 37 :: hexUp (b / 16) :: hexUp (b % 16) :: escape bs

/-- value of the two hex digits at the head, if both are hex digits -/
def tripleVal : List Nat → Option Nat
  | h :: l :: _ =>
    match hexVal h, hexVal l with
    | some hv, some lv => some (hv * 16 + lv)
    | _, _ => none
  | _ => none

/-- `pctGo skip s`: decode `s` after dropping its first `skip` bytes (structural) -/
def pctGo : Nat → List Nat → List Nat
  | _, [] => []
  | k + 1, _ :: rest => pctGo k rest
  | 0, b :: rest =>
    if b = 37 then
      match tripleVal rest with
      | some v => v :: pctGo 2 rest
      | none => 37 :: pctGo 0 rest
    else b :: pctGo 0 rest

def pctDecode (s : List Nat) : List Nat := pctGo 0 s

/-! ## UTF-8 as `core::str` sees it -/

def isCont (b : Nat) : Bool := 0x80 ≤ b && b ≤ 0xBF

inductive Utf8Step where
  | valid (len : Nat)     -- a well-formed scalar of `len` bytes at the head
  | invalid (len : Nat)   -- a maximal ill-formed subpart of `len ≥ 1` bytes
  deriving Repr, DecidableEq

/-- One step of `Utf8Chunks::next` at a non-empty position. -/
def utf8Next : List Nat → Utf8Step
  | [] => .invalid 0
  | b0 :: rest =>
    if b0 < 0x80 then .valid 1
    else if 0xC2 ≤ b0 ∧ b0 ≤ 0xDF then
      match rest with
      | b1 :: _ => if isCont b1 then .valid 2 else .invalid 1
      | [] => .invalid 1
    else if 0xE0 ≤ b0 ∧ b0 ≤ 0xEF then
      match rest with
      | b1 :: rest1 =>
        let ok1 :=
          (b0 = 0xE0 ∧ 0xA0 ≤ b1 ∧ b1 ≤ 0xBF) ∨
          (0xE1 ≤ b0 ∧ b0 ≤ 0xEC ∧ 0x80 ≤ b1 ∧ b1 ≤ 0xBF) ∨
          (b0 = 0xED ∧ 0x80 ≤ b1 ∧ b1 ≤ 0x9F) ∨
          (0xEE ≤ b0 ∧ b0 ≤ 0xEF ∧ 0x80 ≤ b1 ∧ b1 ≤ 0xBF)
        if ok1 then
          match rest1 with
          | b2 :: _ => if isCont b2 then .valid 3 else .invalid 2
          | [] => .invalid 2
        else .invalid 1
      | [] => .invalid 1
    else if 0xF0 ≤ b0 ∧ b0 ≤ 0xF4 then
      match rest with
      | b1 :: rest1 =>
        let ok1 :=
          (b0 = 0xF0 ∧ 0x90 ≤ b1 ∧ b1 ≤ 0xBF) ∨
          (0xF1 ≤ b0 ∧ b0 ≤ 0xF3 ∧ 0x80 ≤ b1 ∧ b1 ≤ 0xBF) ∨
          (b0 = 0xF4 ∧ 0x80 ≤ b1 ∧ b1 ≤ 0x8F)
        if ok1 then
          match rest1 with
          | b2 :: rest2 =>
            if isCont b2 then
              match rest2 with
              | b3 :: _ => if isCont b3 then .valid 4 else .invalid 3
              | [] => .invalid 3
            else .invalid 2
          | [] => .invalid 2
        else .invalid 1
      | [] => .invalid 1
    else .invalid 1

/-- `validGo skip s`: `s` minus its first `skip` bytes is well-formed UTF-8 (structural) -/
def validGo : Nat → List Nat → Bool
  | _, [] => true
  | k + 1, _ :: rest => validGo k rest
  | 0, b :: rest =>
    match utf8Next (b :: rest) with
    | .valid n => validGo (n - 1) rest
    | .invalid _ => false

def utf8Valid (s : List Nat) : Bool := validGo 0 s

/-- `lossyGo copy skip s`: copy the first `copy` bytes, drop the next `skip`, then decode -/
def lossyGo : Nat → Nat → List Nat → List Nat
  | _, _, [] => []
  | c + 1, k, b :: rest => b :: lossyGo c k rest
  | 0, k + 1, _ :: rest => lossyGo 0 k rest
  | 0, 0, b :: rest =>
    match utf8Next (b :: rest) with
    | .valid n => b :: lossyGo (n - 1) 0 rest
    | .invalid n => 0xEF :: 0xBF :: 0xBD :: lossyGo 0 (n - 1) rest

/-- `String::from_utf8_lossy` -/
def utf8Lossy (s : List Nat) : List Nat := lossyGo 0 0 s

/-- `Url::unescape` (repaired): lossy, total -/
def unescape (s : List Nat) : List Nat := utf8Lossy (pctDecode s)

/-- `Url::unescape` before the repair; `none` = the `unwrap()` panics. -/
def unescapeOld (s : List Nat) : Option (List Nat) :=
  let d := pctDecode s
  if utf8Valid d then some d else none

/-! ## form-urlencoded -/

def splitOn (sep : Nat) : List Nat → List (List Nat)
  | [] => [[]]
  | b :: rest =>
    if b = sep then [] :: splitOn sep rest
    else match splitOn sep rest with
      | [] => [[b]]
      | p :: ps => (b :: p) :: ps

def splitFirst (sep : Nat) : List Nat → List Nat × List Nat
  | [] => ([], [])
  | b :: rest =>
    if b = sep then ([], rest)
    else let (k, v) := splitFirst sep rest; (b :: k, v)

def plusToSpace (bs : List Nat) : List Nat := bs.map fun b => if b = 43 then 32 else b

/-- `form_urlencoded::decode` -/
def formDecode (bs : List Nat) : List Nat := utf8Lossy (pctDecode (plusToSpace bs))

/-- `form_urlencoded::parse` -/
def formParse (q : List Nat) : List (List Nat × List Nat) :=
  ((splitOn 38 q).filter (fun p => !p.isEmpty)).map fun p =>
    let (k, v) := splitFirst 61 p
    (formDecode k, formDecode v)

/-! ## ParamsMap -/

abbrev PMap := List (List Nat × List (List Nat))

/-- the grouping part of `ParamsMap::insert`, without the `unescape` -/
def PMap.push : PMap → List Nat → List Nat → PMap
  | [], k, v => [(k, [v])]
  | (k', vs) :: rest, k, v =>
    if k' = k then (k', vs ++ [v]) :: rest else (k', vs) :: PMap.push rest k v

/-- `ParamsMap::insert` -/
def PMap.insert (m : PMap) (k v : List Nat) : PMap := m.push k (unescape v)

/-- `ParamsMap::insert` before the repairs; `none` = panic in `unescape` -/
def PMap.insertOld (m : PMap) (k v : List Nat) : Option PMap :=
  match unescapeOld v with
  | some v' => some (m.push k v')
  | none => none

def PMap.insertAllOld : PMap → List (List Nat × List Nat) → Option PMap
  | m, [] => some m
  | m, (k, v) :: rest =>
    match m.insertOld k v with
    | some m' => PMap.insertAllOld m' rest
    | none => none

/-- a loop of `insert_decoded` -/
def PMap.pushAll : PMap → List (List Nat × List Nat) → PMap
  | m, [] => m
  | m, (k, v) :: rest => PMap.pushAll (m.push k v) rest

/-- `impl FromIterator<(K, V)> for ParamsMap`: `insert` for every pair in order (a repeated key is grouped with
its first occurrence wherever it repeats; every value is decoded once) -/
def PMap.collect (pairs : List (List Nat × List Nat)) : PMap :=
  pairs.foldl (fun m kv => m.insert kv.1 kv.2) []

def PMap.getAll (m : PMap) (k : List Nat) : Option (List (List Nat)) :=
  match m with
  | [] => none
  | (k', vs) :: rest => if k' = k then some vs else PMap.getAll rest k

/-- `ParamsMap::to_query_string` -/
def toQueryString (m : PMap) : List Nat :=
  if m.isEmpty then [] else
  let body := m.flatMap fun (k, vs) => vs.flatMap fun v => escape k ++ [61] ++ escape v ++ [38]
  63 :: body.dropLast

/-- raw query of a request target: after the first `?`, up to the first `#` -/
def rawQuery (target : List Nat) : List Nat :=
  let noFrag := (splitFirst 35 target).1
  (splitFirst 63 noFrag).2

/-- `RequestUrl::parse(..).search_params` as the (repaired) code computes it -/
def searchParams (q : List Nat) : PMap := PMap.pushAll [] (formParse q)

/-- the same before the repairs: every value decoded a second time, `none` = panic -/
def searchParamsOld (q : List Nat) : Option PMap := PMap.insertAllOld [] (formParse q)

/-- all values stored under key `k` by a list of decoded pairs, in order of appearance -/
def valuesOf (l : List (List Nat × List Nat)) (k : List Nat) : List (List Nat) :=
  l.filterMap fun kv => if kv.1 = k then some kv.2 else none

/-- a matched raw path segment stored by the routers -/
def pathParam (seg : List Nat) : List Nat := unescape seg

/-- `params_including_parents` (router/src/nested_router.rs, after repair 36ea226): the parents' maps and the
route's own map hold values that are already decoded; they are merged with `insert_decoded`, so what
`use_params_map()` returns under `<Routes>` is each matched segment decoded once.  Argument: the raw matched
segments, outermost route first. -/
def nestedParams (segs : List (List Nat)) : List (List Nat) := segs.map pathParam

/-- before the repair the merged map was collected through `ParamsMap::insert`, which decodes again -/
def nestedParamsOld (segs : List (List Nat)) : List (List Nat) := (segs.map pathParam).map unescape

/-- the pairs of a map in the order `to_query_string` emits them -/
def mapPairs (m : PMap) : List (List Nat × List Nat) :=
  m.flatMap fun kvs => kvs.2.map fun v => (kvs.1, v)

def hasPctTriple : List Nat → Bool
  | [] => false
  | b :: rest => (b = 37 && (tripleVal rest).isSome) || hasPctTriple rest

end Leptos.Url
