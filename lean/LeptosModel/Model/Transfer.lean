/-!
# Model/Transfer — server → client data transfer through inline scripts (C12)

Strings are lists of Unicode code points (`Str = List Nat`; a Rust `String` is a
list of scalar values: every element `< 0x110000` and outside `0xD800..0xDFFF`).
The functions follow the code (file + function):

## Rust side (what the server prints)
* `escapeDebugChar`, `debugBody`, `rustDebugStr` — `core::fmt`: `<str as Debug>::fmt`
  = `"` ++ `char::escape_debug_ext` of every char (grapheme-extend escaped,
  single quote not escaped) ++ `"`.  The two Unicode tables of rustc
  (`core::unicode::printable::is_printable`, `unicode_data::grapheme_extend::lookup`)
  are the **abstract parameters** `printable graphemeExtend : Nat → Bool`; every
  theorem holds for every instantiation.  (`<str as Debug>::fmt` has a fast path
  that copies bytes `0x20..0x7E` other than `"` and `\` without asking
  `is_printable`; that is the instance where `printable` is true on that range.)
  `unicodeEsc` = `core::char::EscapeUnicode` (`\u{` minimal lower-case hex `}`).
* `jsFix`, `jsString` — `js_string` (hydration_context/src/ssr.rs, added by the repair
  "fix: serialize hydration data and errors as JavaScript string literals …"): format with
  `{:?}`, then rewrite the *formatted* text: `<` ↦ `\u003c`, the escape `\0` ↦ `\u0000`, every
  other backslash pair copied.  **Every** emission site prints its string through it (`Site`,
  `emitLit`): `syncData` `ResolvedData::write_to_buf`, `asyncData` `AsyncDataStream::poll_next`
  (data arm), `initError` `pending_data` (`__SERIALIZED_ERRORS=[…]`), `asyncError` `poll_next`
  (`__SERIALIZED_ERRORS.push`).
* `replaceLt`, `siteReplacesLt`, `emitLitOld`, `dataStmtOld`, `errPushStmtOld`, `asyncChunkOld` —
  the code **before** the repair (`replace('<', "\\u003c")` applied before `{:?}` at the two data
  sites, nothing at the two error sites); kept for the regression witnesses F-C12-1/2/3.
* `syncEntry`   — `ResolvedData::write_to_buf`: `{id}: {js_string(ser)}`.  `sync_buf` is
  never pushed to by any code in the crate, so this site is unreachable through
  the public API; as written its output (`[0: "x",]`) would be a JS SyntaxError.
* `dataStmt`, `errPushStmt`, `asyncChunk` — `AsyncDataStream::poll_next`.
* `initialChunk`, `incompleteChunk`, `Srv.start`, `Srv.poll` —
  `SsrSharedContext::pending_data` (`once(initial).chain(AsyncDataStream).chain(once(incomplete))`).
* `Srv.writeAsync`/`registerError`/`seal`/`setIncomplete` — the `SharedContext`
  methods of the same names; `Entry.ready` = the future passed to `write_async`
  has its value (the harness completes a `oneshot`).
* `wrapScript`  — integrations/utils/src/lib.rs `build_response`:
  `format!("<script{nonce}>{chunk}</script>")` with no nonce.
* `SrvCtr.nextId` — `SsrSharedContext::next_id` (`id.fetch_add(1)` while
  `is_hydrating`, else `non_hydration_id.fetch_sub(1)` from `usize::MAX`, both
  wrapping, 64-bit `usize`).  `CliCtr.nextId` — `HydrateSharedContext::next_id`
  (hydration_context/src/hydrate.rs): `id.fetch_add(1)` **whatever `is_hydrating` is**.

* `b64Enc`/`b64Dec` with `b64Std` — leptos_server/src/lib.rs `IntoEncodedString for Vec<u8>` /
  `FromEncodedStr for [u8]`: `base64::engine::general_purpose::STANDARD_NO_PAD` (alphabet
  `A–Z a–z 0–9 + /`, no padding written, none accepted, non-zero trailing bits rejected) — the text
  form of every binary codec (`RkyvCodec`, any `Encoded = Vec<u8>`).  `String`/`str` are the identity.
* `Consume`, `Srv.consumePoll` — `SsrSharedContext::consume_buffers` (the second server exit, for
  custom hydration contexts): takes both buffers at its first poll and awaits the futures **one
  after the other in creation order**.

## Browser side (what the client reads), written from the specifications
* `jsEscape`, `jsStrBody`, `jsStrLit`, `jsDecodeStringLiteral` — ECMA-262
  §12.9.4 double-quoted *StringLiteral* in sloppy mode (classic `<script>`):
  `\\ \" \' \n \r \t \b \f \v`, `\0` not followed by an octal digit, Annex B.1.2
  *LegacyOctalEscapeSequence* `\0`–`\377` (so `\08`, `\09` are NUL followed by
  the digit, `\8` `\9` are the digits), `\xHH`, `\uHHHH`, `\u{H…}` (≤ 10FFFF),
  line continuations (`\` LF, CR, CR LF, U+2028, U+2029), identity escapes; raw
  LF/CR are errors, raw U+2028/2029 are allowed (ES2019).  `joinSurr` pairs
  UTF-16 surrogates (what `JsValue::as_string` returns for a well-formed pair).
* `evalChunk` — a tiny evaluator for exactly the statement forms the server
  emits (`__X=[…];`, `__RESOLVED_RESOURCES[n] = "…";`, `__SERIALIZED_ERRORS.push([n, n, "…"]);`);
  anything else is a SyntaxError (`none`: the whole script does not run).
  Numbers are kept exact (JS would round ids ≥ 2^53: not modelled).
* `hasDanger`  — the chunk contains `</script` or `<script` (ASCII case-insensitive)
  or `<!--`; `tokClose`/`inertTok` — the WHATWG tokenizer's script-data states
  (§13.2.5.4, .15–.31, including the escaped / double-escaped states): where does
  `<script>chunk</script>` end the script element.
* `jsonEscChar`, `jsonStrEncode` — serde_json 1.0 `ser.rs` (`ESCAPE` table): what
  `JsonSerdeCodec::encode` prints for a string value.
* `jsonNorm` — JSON text with every string token decoded (`\uXXXX`, pairs) and
  re-escaped minimally: two JSON texts that differ only in how string characters
  are escaped have the same normal form (used for the JSON codec's read-back).
-/
namespace Leptos.Transfer

abbrev Str := List Nat

/-! ## Rust: `<str as Debug>::fmt` -/

/-- lower-case hex digit -/
def hexLo (n : Nat) : Nat := if n < 10 then 48 + n else 87 + n

def dropZeros : List Nat → List Nat
  | [] => []
  | d :: ds => if d = 0 then dropZeros ds else d :: ds

/-- minimal lower-case hex digits of a code point `c < 16^6` (at least one digit) -/
def hexDigits6 (c : Nat) : Str :=
  (dropZeros [c / 1048576 % 16, c / 65536 % 16, c / 4096 % 16, c / 256 % 16, c / 16 % 16]
    ++ [c % 16]).map hexLo

/-- `\u{…}` -/
def unicodeEsc (c : Nat) : Str := 92 :: 117 :: 123 :: (hexDigits6 c ++ [125])

/-- `char::escape_debug_ext(c, {grapheme_extended: true, single_quote: false, double_quote: true})` -/
def escapeDebugChar (printable graphemeExtend : Nat → Bool) (c : Nat) : Str :=
  if c = 0 then [92, 48]
  else if c = 9 then [92, 116]
  else if c = 13 then [92, 114]
  else if c = 10 then [92, 110]
  else if c = 92 then [92, 92]
  else if c = 34 then [92, 34]
  else if graphemeExtend c then unicodeEsc c
  else if printable c then [c]
  else unicodeEsc c

def debugBody (p g : Nat → Bool) : Str → Str
  | [] => []
  | c :: cs => escapeDebugChar p g c ++ debugBody p g cs

/-- `format!("{:?}", s)` -/
def rustDebugStr (p g : Nat → Bool) (s : Str) : Str := 34 :: (debugBody p g s ++ [34])

/-- `<` -/
def kLtEsc : Str := [92, 117, 48, 48, 51, 99]

/-- `s.replace('<', "\\u003c")` -/
def replaceLt : Str → Str
  | [] => []
  | c :: cs => if c = 60 then kLtEsc ++ replaceLt cs else c :: replaceLt cs

/-- the four places of ssr.rs that print a string with `{:?}` -/
inductive Site where
  | syncData | asyncData | initError | asyncError
  deriving Repr, DecidableEq

/-- before the repair: which sites replaced `<` first (data: yes; error messages: no) -/
def siteReplacesLt : Site → Bool
  | .syncData => true
  | .asyncData => true
  | .initError => false
  | .asyncError => false

/-- before the repair: the string literal printed at a site -/
def emitLitOld (p g : Nat → Bool) (site : Site) (s : Str) : Str :=
  rustDebugStr p g (if siteReplacesLt site then replaceLt s else s)

/-- `\u0000` -/
def kNulEsc : Str := [92, 117, 48, 48, 48, 48]

/-- the scanner of `js_string` over the text formatted by `{:?}` -/
def jsFix : Str → Str
  | [] => []
  | c :: tl =>
    if c = 60 then kLtEsc ++ jsFix tl
    else if c = 92 then
      match tl with
      | [] => [92]
      | d :: rest => (if d = 48 then kNulEsc else [92, d]) ++ jsFix rest
    else c :: jsFix tl

/-- `js_string(s)` -/
def jsString (p g : Nat → Bool) (s : Str) : Str := jsFix (rustDebugStr p g s)

/-- the string literal printed at a site (the same helper everywhere) -/
def emitLit (p g : Nat → Bool) (_site : Site) (s : Str) : Str := jsString p g s

/-! ## decimal numbers (`{}` of `usize`) -/

def decFuel : Nat → Nat → Str
  | 0, n => [48 + n % 10]
  | f + 1, n => if n < 10 then [48 + n] else decFuel f (n / 10) ++ [48 + n % 10]

def decDigits (n : Nat) : Str := decFuel n n

/-! ## statement forms of ssr.rs -/

/-- `__RESOLVED_RESOURCES=[` -/
def kResolvedInit : Str := [95, 95, 82, 69, 83, 79, 76, 86, 69, 68, 95, 82, 69, 83, 79, 85, 82, 67, 69, 83, 61, 91]
/-- `__SERIALIZED_ERRORS=[` -/
def kErrorsInit : Str := [95, 95, 83, 69, 82, 73, 65, 76, 73, 90, 69, 68, 95, 69, 82, 82, 79, 82, 83, 61, 91]
/-- `__PENDING_RESOURCES=[` -/
def kPendingInit : Str := [95, 95, 80, 69, 78, 68, 73, 78, 71, 95, 82, 69, 83, 79, 85, 82, 67, 69, 83, 61, 91]
/-- `__RESOURCE_RESOLVERS=[];` -/
def kResolvers : Str := [95, 95, 82, 69, 83, 79, 85, 82, 67, 69, 95, 82, 69, 83, 79, 76, 86, 69, 82, 83, 61, 91, 93, 59]
/-- `__INCOMPLETE_CHUNKS=[` -/
def kIncompleteInit : Str := [95, 95, 73, 78, 67, 79, 77, 80, 76, 69, 84, 69, 95, 67, 72, 85, 78, 75, 83, 61, 91]
/-- `];` -/
def kCloseList : Str := [93, 59]
/-- `__RESOLVED_RESOURCES[` -/
def kResolvedIdx : Str := [95, 95, 82, 69, 83, 79, 76, 86, 69, 68, 95, 82, 69, 83, 79, 85, 82, 67, 69, 83, 91]
/-- `] = ` -/
def kIdxEq : Str := [93, 32, 61, 32]
/-- `__SERIALIZED_ERRORS.push([` -/
def kErrorsPush : Str := [95, 95, 83, 69, 82, 73, 65, 76, 73, 90, 69, 68, 95, 69, 82, 82, 79, 82, 83, 46, 112, 117, 115, 104, 40, 91]
/-- `]);` -/
def kPushEnd : Str := [93, 41, 59]
/-- `<script>` -/
def kScriptOpen : Str := [60, 115, 99, 114, 105, 112, 116, 62]
/-- `</script>` -/
def kScriptClose : Str := [60, 47, 115, 99, 114, 105, 112, 116, 62]

/-- `ResolvedData::write_to_buf`: `{id}: {js_string(ser)}` -/
def syncEntry (p g : Nat → Bool) (id : Nat) (v : Str) : Str :=
  decDigits id ++ [58, 32] ++ emitLit p g .syncData v

/-- `__RESOLVED_RESOURCES[{id}] = {js_string(data)};` -/
def dataStmt (p g : Nat → Bool) (id : Nat) (v : Str) : Str :=
  kResolvedIdx ++ decDigits id ++ kIdxEq ++ emitLit p g .asyncData v ++ [59]

/-- `{b}, {e}, {msg:?}]` (after the opening bracket) -/
def errTupleBody (p g : Nat → Bool) (site : Site) (b e : Nat) (msg : Str) : Str :=
  decDigits b ++ [44, 32] ++ decDigits e ++ [44, 32] ++ emitLit p g site msg ++ [93]

/-- `[{b}, {e}, {msg:?}]` -/
def errTuple (p g : Nat → Bool) (site : Site) (b e : Nat) (msg : Str) : Str :=
  91 :: errTupleBody p g site b e msg

/-- `__SERIALIZED_ERRORS.push([{b}, {e}, {msg:?}]);` -/
def errPushStmt (p g : Nat → Bool) (b e : Nat) (msg : Str) : Str :=
  kErrorsPush ++ errTupleBody p g .asyncError b e msg ++ [41, 59]

abbrev ErrRec := Nat × Nat × Str

def numList : List Nat → Str
  | [] => []
  | n :: ns => decDigits n ++ [44] ++ numList ns

def syncList (p g : Nat → Bool) : List (Nat × Str) → Str
  | [] => []
  | (id, v) :: rest => syncEntry p g id v ++ [44] ++ syncList p g rest

def errList (p g : Nat → Bool) : List ErrRec → Str
  | [] => []
  | (b, e, m) :: rest => errTuple p g .initError b e m ++ [44] ++ errList p g rest

/-- the first chunk built by `pending_data` -/
def initialChunk (p g : Nat → Bool) (sync : List (Nat × Str)) (errs : List ErrRec)
    (pendingIds : List Nat) : Str :=
  kResolvedInit ++ syncList p g sync ++ kCloseList ++
  kErrorsInit ++ errList p g errs ++ kCloseList ++
  kPendingInit ++ numList pendingIds ++ kCloseList ++ kResolvers

/-- the last chunk -/
def incompleteChunk (ids : List Nat) : Str := kIncompleteInit ++ numList ids ++ kCloseList

def dataStmts (p g : Nat → Bool) : List (Nat × Str) → Str
  | [] => []
  | (id, v) :: rest => dataStmt p g id v ++ dataStmts p g rest

def errStmts (p g : Nat → Bool) : List ErrRec → Str
  | [] => []
  | (b, e, m) :: rest => errPushStmt p g b e m ++ errStmts p g rest

/-- one item of `AsyncDataStream` -/
def asyncChunk (p g : Nat → Bool) (ready : List (Nat × Str)) (errs : List ErrRec) : Str :=
  dataStmts p g ready ++ errStmts p g errs

/-! ### the printers before the repair (regression witnesses only) -/

def dataStmtOld (p g : Nat → Bool) (id : Nat) (v : Str) : Str :=
  kResolvedIdx ++ decDigits id ++ kIdxEq ++ emitLitOld p g .asyncData v ++ [59]

def errPushStmtOld (p g : Nat → Bool) (b e : Nat) (msg : Str) : Str :=
  kErrorsPush ++ (decDigits b ++ [44, 32] ++ decDigits e ++ [44, 32] ++ emitLitOld p g .asyncError msg ++ [93])
    ++ [41, 59]

def dataStmtsOld (p g : Nat → Bool) : List (Nat × Str) → Str
  | [] => []
  | (id, v) :: rest => dataStmtOld p g id v ++ dataStmtsOld p g rest

def errStmtsOld (p g : Nat → Bool) : List ErrRec → Str
  | [] => []
  | (b, e, m) :: rest => errPushStmtOld p g b e m ++ errStmtsOld p g rest

def asyncChunkOld (p g : Nat → Bool) (ready : List (Nat × Str)) (errs : List ErrRec) : Str :=
  dataStmtsOld p g ready ++ errStmtsOld p g errs

/-- `build_response`: `<script>{chunk}</script>` -/
def wrapScript (chunk : Str) : Str := kScriptOpen ++ chunk ++ kScriptClose

/-! ## id counters -/

def usizeMod : Nat := 18446744073709551616
def usizeMax : Nat := 18446744073709551615

structure SrvCtr where
  id : Nat
  nonHyd : Nat
  hyd : Bool
  deriving Repr, DecidableEq

/-- `SsrSharedContext::new` -/
def SrvCtr.new : SrvCtr := ⟨0, usizeMax, true⟩
/-- `SsrSharedContext::new_islands` -/
def SrvCtr.newIslands : SrvCtr := ⟨0, usizeMax, false⟩

/-- `SsrSharedContext::next_id` -/
def SrvCtr.nextId (s : SrvCtr) : Nat × SrvCtr :=
  if s.hyd then (s.id, { s with id := (s.id + 1) % usizeMod })
  else (s.nonHyd, { s with nonHyd := (s.nonHyd + usizeMax) % usizeMod })

structure CliCtr where
  id : Nat
  hyd : Bool
  deriving Repr, DecidableEq

/-- `HydrateSharedContext::new` / `new_islands` (the flag differs, the counter does not) -/
def CliCtr.new : CliCtr := ⟨0, true⟩
def CliCtr.newIslands : CliCtr := ⟨0, false⟩

/-- `HydrateSharedContext::next_id`: ignores `is_hydrating` -/
def CliCtr.nextId (c : CliCtr) : Nat × CliCtr := (c.id, { c with id := (c.id + 1) % usizeMod })

/-- a creation program: resources / boundaries call `next_id`; components toggle the flag -/
inductive IdOp where
  | create
  | setHyd (b : Bool)
  deriving Repr, DecidableEq

/-- server: for every `create`, (was the flag on, the id returned) -/
def srvRun : SrvCtr → List IdOp → List (Bool × Nat)
  | _, [] => []
  | s, .create :: ops => (s.hyd, s.nextId.1) :: srvRun s.nextId.2 ops
  | s, .setHyd b :: ops => srvRun { s with hyd := b } ops

/-- client running a program -/
def cliRun : CliCtr → List IdOp → List Nat
  | _, [] => []
  | c, .create :: ops => c.nextId.1 :: cliRun c.nextId.2 ops
  | c, .setHyd b :: ops => cliRun { c with hyd := b } ops

/-- the part of a program the client executes: the creations made while the
flag is on (island bodies; island children and everything outside islands are
server-only — leptos_macro `component.rs` gives the client `IslandChildren::new(())`) -/
def hydratingPart : Bool → List IdOp → List IdOp
  | _, [] => []
  | h, .create :: ops => if h then .create :: hydratingPart h ops else hydratingPart h ops
  | _, .setHyd b :: ops => hydratingPart b ops

/-- ids the server gave to creations made while the flag was on -/
def srvHydIds (s : SrvCtr) (ops : List IdOp) : List Nat :=
  ((srvRun s ops).filter (·.1)).map (·.2)

def srvNonHydIds (s : SrvCtr) (ops : List IdOp) : List Nat :=
  ((srvRun s ops).filter (fun x => !x.1)).map (·.2)

def countCreates : List IdOp → Nat
  | [] => 0
  | .create :: ops => countCreates ops + 1
  | .setHyd _ :: ops => countCreates ops

/-! ## the data stream of `pending_data` -/

/-- a future handed to `write_async`; `key` = index of the `write` that made it -/
structure Entry where
  key : Nat
  id : Nat
  val : Str
  ready : Bool
  deriving Repr, DecidableEq

inductive Phase where
  | idle                    -- `pending_data` not called yet
  | initial (chunk : Str)   -- called; the first chunk is already built
  | streaming               -- inside `AsyncDataStream`
  | done
  deriving Repr, DecidableEq

/-- a running `consume_buffers()` future: the entries it still has to await, the pairs it has -/
structure Consume where
  rest : List Entry
  acc : List (Nat × Str)
  deriving Repr, DecidableEq

structure Srv where
  ctr : SrvCtr
  sync : List (Nat × Str)      -- `sync_buf` (never written by the crate)
  buf : List Entry             -- `async_buf`
  errors : List ErrRec
  sealed : List Nat
  incomplete : List Nat
  phase : Phase
  consuming : Option Consume := none
  deriving Repr

def Srv.new (islands : Bool) : Srv :=
  { ctr := if islands then SrvCtr.newIslands else SrvCtr.new,
    sync := [], buf := [], errors := [], sealed := [], incomplete := [], phase := .idle }

def Srv.nextId (s : Srv) : Nat × Srv := (s.ctr.nextId.1, { s with ctr := s.ctr.nextId.2 })
def Srv.setHyd (s : Srv) (b : Bool) : Srv := { s with ctr := { s.ctr with hyd := b } }
def Srv.writeAsync (s : Srv) (key id : Nat) (v : Str) : Srv :=
  { s with buf := s.buf ++ [⟨key, id, v, false⟩] }
def Srv.registerError (s : Srv) (b e : Nat) (m : Str) : Srv := { s with errors := s.errors ++ [(b, e, m)] }
def Srv.seal (s : Srv) (b : Nat) : Srv := { s with sealed := s.sealed ++ [b] }
def Srv.setIncomplete (s : Srv) (id : Nat) : Srv := { s with incomplete := s.incomplete ++ [id] }

def completeIn (key : Nat) : List Entry → List Entry
  | [] => []
  | e :: es => if e.key = key then { e with ready := true } :: es else e :: completeIn key es

/-- the harness sends the value on the oneshot of write `key` (the future may already have been
moved into a running `consume_buffers`) -/
def Srv.complete (s : Srv) (key : Nat) : Srv :=
  { s with buf := completeIn key s.buf,
           consuming := s.consuming.map fun c => { c with rest := completeIn key c.rest } }

/-- `write_async` with a future that is ready at once (`SharedValue`) -/
def Srv.writeReady (s : Srv) (key id : Nat) (v : Str) : Srv :=
  { s with buf := s.buf ++ [⟨key, id, v, true⟩] }

/-- what every carrier constructor does on the server (`ArcResource::new_with_options`,
`ArcOnceResource::new_with_options`, `SharedValue::new_with_encoding`; leptos_server): draw an id;
`if blocking { defer_stream(ready) }`; `if get_is_hydrating() { write_async(id, …) }`.  Returns the
id, the new state and whether the response stream was deferred (the only effect of `blocking`). -/
def Srv.createCarrier (s : Srv) (blocking shared : Bool) (key : Nat) (v : Str) : Nat × Srv × Bool :=
  let hyd := s.ctr.hyd
  let r := s.nextId
  let s1 := if hyd then (if shared then r.2.writeReady key r.1 v else r.2.writeAsync key r.1 v) else r.2
  (r.1, s1, blocking)

/-- the `for (id, fut) in async_data { fut.await }` loop: awaits the head future only -/
def consumeAdvance : List Entry → List (Nat × Str) × List Entry
  | [] => ([], [])
  | e :: es =>
    if e.ready then
      let r := consumeAdvance es
      ((e.id, e.val) :: r.1, r.2)
    else ([], e :: es)

def Consume.poll (c : Consume) : Consume :=
  let r := consumeAdvance c.rest
  { rest := r.2, acc := c.acc ++ r.1 }

/-- one poll of the `consume_buffers()` future; `some pairs` = it completed with these pairs.
The first poll takes `sync_buf` and `async_buf`. -/
def Srv.consumePoll (s : Srv) : Option (List (Nat × Str)) × Srv :=
  let c0 : Consume := match s.consuming with
    | some c => c
    | none => { rest := s.buf, acc := s.sync }
  let s0 : Srv := match s.consuming with
    | some _ => s
    | none => { s with sync := [], buf := [] }
  let c := c0.poll
  (if c.rest.isEmpty then some c.acc else none, { s0 with consuming := some c })

def readyOf : List Entry → List Entry
  | [] => []
  | e :: es => if e.ready then e :: readyOf es else readyOf es

def pendingOf : List Entry → List Entry
  | [] => []
  | e :: es => if e.ready then pendingOf es else e :: pendingOf es

def unsealed (sealed : List Nat) : List ErrRec → List ErrRec
  | [] => []
  | (b, e, m) :: rest => if sealed.contains b then unsealed sealed rest else (b, e, m) :: unsealed sealed rest

/-- `pending_data()` -/
def Srv.start (p g : Nat → Bool) (s : Srv) : Srv :=
  match s.phase with
  | .idle =>
    { s with sync := [], errors := [],
             phase := .initial (initialChunk p g s.sync s.errors (s.buf.map (·.id))) }
  | _ => s

inductive PollResult where
  | chunk (text : Str)
  | pending
  | finished
  | notStarted
  deriving Repr, DecidableEq

/-- one `poll_next` of the chained stream -/
def Srv.poll (p g : Nat → Bool) (s : Srv) : PollResult × Srv :=
  match s.phase with
  | .idle => (.notStarted, s)
  | .initial c => (.chunk c, { s with phase := .streaming })
  | .streaming =>
    let ready := readyOf s.buf
    let rest := pendingOf s.buf
    let text := asyncChunk p g (ready.map fun e => (e.id, e.val)) (unsealed s.sealed s.errors)
    let s' := { s with buf := rest, errors := [] }
    if rest.isEmpty && text.isEmpty then
      -- `AsyncDataStream` is over; `Chain` polls the last `once` in the same call
      (.chunk (incompleteChunk s.incomplete), { s' with incomplete := [], phase := .done })
    else if text.isEmpty then (.pending, s')
    else (.chunk text, s')
  | .done => (.finished, s)

/-! ## ECMAScript: double-quoted string literal, sloppy mode -/

def isOct (c : Nat) : Bool := 48 ≤ c && c ≤ 55
def isDec (c : Nat) : Bool := 48 ≤ c && c ≤ 57

def hexVal (c : Nat) : Option Nat :=
  if 48 ≤ c ∧ c ≤ 57 then some (c - 48)
  else if 97 ≤ c ∧ c ≤ 102 then some (c - 87)
  else if 65 ≤ c ∧ c ≤ 70 then some (c - 55)
  else none

/-- hex digits up to `}`: (value, number of digits) -/
def hexRun : Str → Nat → Nat → Option (Nat × Nat)
  | [], _, _ => none
  | c :: rest, acc, n =>
    if c = 125 then some (acc, n)
    else match hexVal c with
      | some d => hexRun rest (acc * 16 + d) (n + 1)
      | none => none

def hex4 : Str → Option Nat
  | a :: b :: c :: d :: _ =>
    match hexVal a, hexVal b, hexVal c, hexVal d with
    | some a, some b, some c, some d => some (((a * 16 + b) * 16 + c) * 16 + d)
    | _, _, _, _ => none
  | _ => none

/-- legacy octal escape starting with digit `a` (0–7) followed by `rest`:
(value, number of characters consumed including `a`) -/
def legacyOctal (a : Nat) (rest : Str) : Nat × Nat :=
  match rest with
  | d :: rest' =>
    if isOct d then
      if a ≤ 3 then
        match rest' with
        | e :: _ => if isOct e then ((a * 8 + (d - 48)) * 8 + (e - 48), 3) else (a * 8 + (d - 48), 2)
        | [] => (a * 8 + (d - 48), 2)
      else (a * 8 + (d - 48), 2)
    else (a, 1)
  | [] => (a, 1)

/-- what follows a backslash: (code units produced, characters consumed); `none` = SyntaxError -/
def jsEscape : Str → Option (Str × Nat)
  | [] => none
  | c :: rest =>
    if c = 110 then some ([10], 1)
    else if c = 114 then some ([13], 1)
    else if c = 116 then some ([9], 1)
    else if c = 98 then some ([8], 1)
    else if c = 102 then some ([12], 1)
    else if c = 118 then some ([11], 1)
    else if c = 13 then
      match rest with
      | d :: _ => if d = 10 then some ([], 2) else some ([], 1)
      | [] => some ([], 1)
    else if c = 10 ∨ c = 8232 ∨ c = 8233 then some ([], 1)
    else if c = 120 then
      match rest with
      | h :: l :: _ =>
        match hexVal h, hexVal l with
        | some a, some b => some ([a * 16 + b], 3)
        | _, _ => none
      | _ => none
    else if c = 117 then
      match rest with
      | d :: rest' =>
        if d = 123 then
          match hexRun rest' 0 0 with
          | some (v, n) => if 0 < n ∧ v ≤ 1114111 then some ([v], n + 3) else none
          | none => none
        else match hex4 rest with
          | some v => some ([v], 5)
          | none => none
      | [] => none
    else if isOct c then
      let r := legacyOctal (c - 48) rest
      some ([r.1], r.2)
    else some ([c], 1)

/-- body of a literal after the opening quote, up to the closing quote:
(decoded code units, what follows the closing quote).  First argument: characters
still to skip (already consumed by an escape). -/
def jsStrBody : Nat → Str → Option (Str × Str)
  | _, [] => none
  | k + 1, _ :: rest => jsStrBody k rest
  | 0, c :: rest =>
    if c = 34 then some ([], rest)
    else if c = 10 ∨ c = 13 then none
    else if c = 92 then
      match jsEscape rest with
      | none => none
      | some (out, k) =>
        match jsStrBody k rest with
        | some (s, r) => some (out ++ s, r)
        | none => none
    else
      match jsStrBody 0 rest with
      | some (s, r) => some (c :: s, r)
      | none => none

def isHiSurr (c : Nat) : Bool := 55296 ≤ c && c ≤ 56319
def isLoSurr (c : Nat) : Bool := 56320 ≤ c && c ≤ 57343

/-- UTF-16 pairing; the first argument is a pending high surrogate -/
def joinGo : Option Nat → Str → Str
  | none, [] => []
  | some h, [] => [h]
  | none, c :: rest => if isHiSurr c then joinGo (some c) rest else c :: joinGo none rest
  | some h, c :: rest =>
    if isLoSurr c then (65536 + (h - 55296) * 1024 + (c - 56320)) :: joinGo none rest
    else if isHiSurr c then h :: joinGo (some c) rest
    else h :: c :: joinGo none rest

def joinSurr (s : Str) : Str := joinGo none s

/-- a string literal at the head of the input: (value, rest) -/
def jsStrLit : Str → Option (Str × Str)
  | [] => none
  | c :: body =>
    if c = 34 then
      match jsStrBody 0 body with
      | some (s, r) => some (joinSurr s, r)
      | none => none
    else none

/-- the value of a complete double-quoted literal -/
def jsDecodeStringLiteral (lit : Str) : Option Str :=
  match jsStrLit lit with
  | some (s, []) => some s
  | _ => none

/-! ## evaluator for the statement forms -/

def stripPrefix : Str → Str → Option Str
  | [], s => some s
  | _ :: _, [] => none
  | p :: ps, c :: cs => if p = c then stripPrefix ps cs else none

def readDigits : Nat → Str → Nat × Str
  | acc, [] => (acc, [])
  | acc, c :: rest => if isDec c then readDigits (acc * 10 + (c - 48)) rest else (acc, c :: rest)

def parseNat : Str → Option (Nat × Str)
  | [] => none
  | c :: rest => if isDec c then some (readDigits 0 (c :: rest)) else none

structure JsState where
  resolved : List (Nat × Str)   -- assignments to `__RESOLVED_RESOURCES[i]`, in order
  errors : List ErrRec
  pending : List Nat
  incomplete : List Nat
  deriving Repr, DecidableEq

def JsState.empty : JsState := ⟨[], [], [], []⟩

/-- `hydrate.rs read_data`: `__RESOLVED_RESOURCES[id]` (last assignment wins) -/
def JsState.read (st : JsState) (id : Nat) : Option Str :=
  (st.resolved.reverse.find? (·.1 == id)).map (·.2)

/-- `n, n, "…"]` after the `[` -/
def parseErrTuple (s : Str) : Option (ErrRec × Str) :=
  match parseNat s with
  | none => none
  | some (b, s) =>
  match stripPrefix [44, 32] s with
  | none => none
  | some s =>
  match parseNat s with
  | none => none
  | some (e, s) =>
  match stripPrefix [44, 32] s with
  | none => none
  | some s =>
  match jsStrLit s with
  | none => none
  | some (m, s) =>
  match stripPrefix [93] s with
  | none => none
  | some s => some ((b, e, m), s)

/-- `([n, n, "…"],)* ];` -/
def parseErrList : Nat → Str → Option (List ErrRec × Str)
  | 0, _ => none
  | f + 1, s =>
    match stripPrefix kCloseList s with
    | some r => some ([], r)
    | none =>
      match stripPrefix [91] s with
      | none => none
      | some s =>
      match parseErrTuple s with
      | none => none
      | some (t, s) =>
      match stripPrefix [44] s with
      | none => none
      | some s =>
      match parseErrList f s with
      | none => none
      | some (ts, r) => some (t :: ts, r)

/-- `(n,)* ];` -/
def parseNumList : Nat → Str → Option (List Nat × Str)
  | 0, _ => none
  | f + 1, s =>
    match stripPrefix kCloseList s with
    | some r => some ([], r)
    | none =>
      match parseNat s with
      | none => none
      | some (n, s) =>
      match stripPrefix [44] s with
      | none => none
      | some s =>
      match parseNumList f s with
      | none => none
      | some (ns, r) => some (n :: ns, r)

/-- one statement at the head of the input -/
def evalStmt (s : Str) (st : JsState) : Option (JsState × Str) :=
  match stripPrefix kResolvedIdx s with
  | some r =>
    match parseNat r with
    | none => none
    | some (n, r) =>
    match stripPrefix kIdxEq r with
    | none => none
    | some r =>
    match jsStrLit r with
    | none => none
    | some (v, r) =>
    match stripPrefix [59] r with
    | none => none
    | some r => some ({ st with resolved := st.resolved ++ [(n, v)] }, r)
  | none =>
  match stripPrefix kErrorsPush s with
  | some r =>
    match parseErrTuple r with
    | none => none
    | some (t, r) =>
    match stripPrefix [41, 59] r with
    | none => none
    | some r => some ({ st with errors := st.errors ++ [t] }, r)
  | none =>
  match stripPrefix kResolvedInit s with
  | some r =>
    -- the only element form the server can print here (`id: "…"`) is not an expression
    match stripPrefix kCloseList r with
    | none => none
    | some r => some ({ st with resolved := [] }, r)
  | none =>
  match stripPrefix kErrorsInit s with
  | some r =>
    match parseErrList (r.length + 1) r with
    | none => none
    | some (ts, r) => some ({ st with errors := ts }, r)
  | none =>
  match stripPrefix kPendingInit s with
  | some r =>
    match parseNumList (r.length + 1) r with
    | none => none
    | some (ns, r) => some ({ st with pending := ns }, r)
  | none =>
  match stripPrefix kResolvers s with
  | some r => some (st, r)
  | none =>
  match stripPrefix kIncompleteInit s with
  | some r =>
    match parseNumList (r.length + 1) r with
    | none => none
    | some (ns, r) => some ({ st with incomplete := ns }, r)
  | none => none

def evalStmts : Nat → Str → JsState → Option JsState
  | _, [], st => some st
  | 0, _ :: _, _ => none
  | f + 1, c :: cs, st =>
    match evalStmt (c :: cs) st with
    | none => none
    | some (st', r) => evalStmts f r st'

/-- run one inline script; `none` = SyntaxError, nothing runs -/
def evalChunk (chunk : Str) (st : JsState) : Option JsState :=
  evalStmts (chunk.length + 1) chunk st

/-! ## script data: what can end the element or start markup -/

def lower (c : Nat) : Nat := if 65 ≤ c ∧ c ≤ 90 then c + 32 else c

/-- `pat` is lower-case ASCII -/
def startsWithCI : Str → Str → Bool
  | [], _ => true
  | _ :: _, [] => false
  | p :: ps, c :: cs => lower c == p && startsWithCI ps cs

/-- `/script` -/
def kSlashScript : Str := [47, 115, 99, 114, 105, 112, 116]
/-- `script` -/
def kScript : Str := [115, 99, 114, 105, 112, 116]
/-- `!--` -/
def kBangDashDash : Str := [33, 45, 45]

/-- the text contains `</script`, `<script` (any case) or `<!--` -/
def hasDanger : Str → Bool
  | [] => false
  | c :: rest =>
    (c == 60 && (startsWithCI kSlashScript rest || startsWithCI kScript rest
                  || startsWithCI kBangDashDash rest))
    || hasDanger rest

def isAlpha (c : Nat) : Bool := (65 ≤ c && c ≤ 90) || (97 ≤ c && c ≤ 122)
/-- tab, LF, FF, space (CR is normalised to LF before the tokenizer), `/`, `>` -/
def isTagEnd (c : Nat) : Bool := c == 9 || c == 10 || c == 12 || c == 13 || c == 32 || c == 47 || c == 62

/-- tokenizer states relevant inside a `script` element (WHATWG §13.2.5) -/
inductive Tok where
  | data                      -- script data
  | lt                        -- script data less-than sign
  | endOpen                   -- script data end tag open
  | endName (buf : Str)       -- script data end tag name
  | escStart                  -- script data escape start
  | escStartDash              -- script data escape start dash
  | esc                       -- script data escaped
  | escDash
  | escDashDash
  | escLt                     -- script data escaped less-than sign
  | escEndOpen
  | escEndName (buf : Str)
  | dblStart (buf : Str)      -- script data double escape start
  | dbl                       -- script data double escaped
  | dblDash
  | dblDashDash
  | dblLt
  | dblEnd (buf : Str)        -- script data double escape end
  | closed                    -- an appropriate `</script` end tag was recognised
  deriving Repr, DecidableEq

def stepData (c : Nat) : Tok := if c = 60 then .lt else .data

def stepEsc (c : Nat) : Tok :=
  if c = 45 then .escDash else if c = 60 then .escLt else .esc

def stepDbl (c : Nat) : Tok :=
  if c = 45 then .dblDash else if c = 60 then .dblLt else .dbl

def stepEndName (buf : Str) (c : Nat) : Tok :=
  if isAlpha c then .endName (buf ++ [lower c])
  else if isTagEnd c && buf == kScript then .closed
  else stepData c

def stepEscEndName (buf : Str) (c : Nat) : Tok :=
  if isAlpha c then .escEndName (buf ++ [lower c])
  else if isTagEnd c && buf == kScript then .closed
  else stepEsc c

def stepDblStart (buf : Str) (c : Nat) : Tok :=
  if isAlpha c then .dblStart (buf ++ [lower c])
  else if isTagEnd c then (if buf == kScript then .dbl else .esc)
  else stepEsc c

def stepDblEnd (buf : Str) (c : Nat) : Tok :=
  if isAlpha c then .dblEnd (buf ++ [lower c])
  else if isTagEnd c then (if buf == kScript then .esc else .dbl)
  else stepDbl c

def tokStep : Tok → Nat → Tok
  | .data, c => stepData c
  | .lt, c => if c = 47 then .endOpen else if c = 33 then .escStart else stepData c
  | .endOpen, c => if isAlpha c then stepEndName [] c else stepData c
  | .endName buf, c => stepEndName buf c
  | .escStart, c => if c = 45 then .escStartDash else stepData c
  | .escStartDash, c => if c = 45 then .escDashDash else stepData c
  | .esc, c => stepEsc c
  | .escDash, c => if c = 45 then .escDashDash else if c = 60 then .escLt else .esc
  | .escDashDash, c =>
    if c = 45 then .escDashDash else if c = 60 then .escLt else if c = 62 then .data else .esc
  | .escLt, c =>
    if c = 47 then .escEndOpen else if isAlpha c then stepDblStart [] c else stepEsc c
  | .escEndOpen, c => if isAlpha c then stepEscEndName [] c else stepEsc c
  | .escEndName buf, c => stepEscEndName buf c
  | .dblStart buf, c => stepDblStart buf c
  | .dbl, c => stepDbl c
  | .dblDash, c => if c = 45 then .dblDashDash else if c = 60 then .dblLt else .dbl
  | .dblDashDash, c =>
    if c = 45 then .dblDashDash else if c = 60 then .dblLt else if c = 62 then .data else .dbl
  | .dblLt, c => if c = 47 then .dblEnd [] else stepDbl c
  | .dblEnd buf, c => stepDblEnd buf c
  | .closed, _ => .closed

/-- number of characters consumed when the element's end tag is recognised -/
def tokRun : Tok → Nat → Str → Option Nat
  | _, _, [] => none
  | st, n, c :: rest =>
    match tokStep st c with
    | .closed => some (n + 1)
    | st' => tokRun st' (n + 1) rest

/-- where `<script>` ++ text ends its element, counted from the start of `text` -/
def tokClose (text : Str) : Option Nat := tokRun .data 0 text

/-- the element wrapped around `chunk` ends exactly at the `</script>` that `build_response` appends -/
def inertTok (chunk : Str) : Bool :=
  tokClose (chunk ++ kScriptClose) == some (chunk.length + 9)

/-! ## input classes -/

/-- the first character is an octal digit `0`–`7` -/
def headOct : Str → Bool
  | [] => false
  | d :: _ => isOct d

/-- a NUL immediately followed by an octal digit `0`–`7` (F-C12-1) -/
def nulOct : Str → Bool
  | [] => false
  | c :: rest => (c == 0 && headOct rest) || nulOct rest

def hasLt (s : Str) : Bool := s.contains 60

/-! ## JSON string tokens (read-back oracle of the JSON codec) -/

/-- after a backslash inside a JSON string: (code units, characters consumed) -/
def jsonEscape : Str → Option (Str × Nat)
  | [] => none
  | c :: rest =>
    if c = 34 ∨ c = 92 ∨ c = 47 then some ([c], 1)
    else if c = 98 then some ([8], 1)
    else if c = 102 then some ([12], 1)
    else if c = 110 then some ([10], 1)
    else if c = 114 then some ([13], 1)
    else if c = 116 then some ([9], 1)
    else if c = 117 then
      match hex4 rest with
      | some v => some ([v], 5)
      | none => none
    else none

/-- JSON string body after the opening quote -/
def jsonStrBody : Nat → Str → Option (Str × Str)
  | _, [] => none
  | k + 1, _ :: rest => jsonStrBody k rest
  | 0, c :: rest =>
    if c = 34 then some ([], rest)
    else if c < 32 then none
    else if c = 92 then
      match jsonEscape rest with
      | none => none
      | some (out, k) =>
        match jsonStrBody k rest with
        | some (s, r) => some (out ++ s, r)
        | none => none
    else
      match jsonStrBody 0 rest with
      | some (s, r) => some (c :: s, r)
      | none => none

/-- minimal re-escaping: only `"` and `\` -/
def jsonMinEsc : Str → Str
  | [] => []
  | c :: cs => if c = 34 ∨ c = 92 then 92 :: c :: jsonMinEsc cs else c :: jsonMinEsc cs

/-- JSON text with every string token in normal form; `none` = unterminated / bad escape -/
def jsonNormGo : Nat → Str → Option Str
  | _, [] => some []
  | 0, _ :: _ => none
  | f + 1, c :: rest =>
    if c = 34 then
      match jsonStrBody 0 rest with
      | none => none
      | some (s, r) =>
        match jsonNormGo f r with
        | none => none
        | some t => some (34 :: (jsonMinEsc (joinSurr s) ++ 34 :: t))
    else
      match jsonNormGo f rest with
      | none => none
      | some t => some (c :: t)

def jsonNorm (s : Str) : Option Str := jsonNormGo (s.length + 1) s

/-- value of one JSON string token -/
def jsonStrDecode (s : Str) : Option Str :=
  match s with
  | [] => none
  | c :: body =>
    if c = 34 then
      match jsonStrBody 0 body with
      | some (v, []) => some (joinSurr v)
      | _ => none
    else none

/-- `serde_json` (ser.rs `ESCAPE` table, `format_escaped_str_contents`): one character of a string -/
def jsonEscChar (c : Nat) : Str :=
  if c = 34 then [92, 34]
  else if c = 92 then [92, 92]
  else if c = 8 then [92, 98]
  else if c = 9 then [92, 116]
  else if c = 10 then [92, 110]
  else if c = 12 then [92, 102]
  else if c = 13 then [92, 114]
  else if c < 32 then [92, 117, 48, 48, hexLo (c / 16), hexLo (c % 16)]
  else [c]

def jsonEncBody : Str → Str
  | [] => []
  | c :: cs => jsonEscChar c ++ jsonEncBody cs

/-- `serde_json::to_string(&s)` for a string `s` (= `JsonSerdeCodec::encode`, the codec of `Resource::new`) -/
def jsonStrEncode (s : Str) : Str := 34 :: (jsonEncBody s ++ [34])

/-! ## codecs: the text form of a value (`IntoEncodedString` / `FromEncodedStr`) -/

/-- `base64::alphabet::STANDARD` -/
def b64Std : List Nat :=
  [65, 66, 67, 68, 69, 70, 71, 72, 73, 74, 75, 76, 77, 78, 79, 80, 81, 82, 83, 84, 85, 86, 87, 88, 89, 90,
   97, 98, 99, 100, 101, 102, 103, 104, 105, 106, 107, 108, 109, 110, 111, 112, 113, 114, 115, 116, 117,
   118, 119, 120, 121, 122, 48, 49, 50, 51, 52, 53, 54, 55, 56, 57, 43, 47]

/-- `base64::alphabet::URL_SAFE` (not used by leptos_server; for the regression seeds) -/
def b64UrlSafe : List Nat := b64Std.take 62 ++ [45, 95]

def sextetChar (al : List Nat) (i : Nat) : Nat := al.getD i 0

def sextetOfGo : List Nat → Nat → Nat → Option Nat
  | [], _, _ => none
  | x :: xs, c, i => if x = c then some i else sextetOfGo xs c (i + 1)

def sextetOf (al : List Nat) (c : Nat) : Option Nat := sextetOfGo al c 0

/-- `GeneralPurpose::new(al, NO_PAD).encode(bytes)` -/
def b64Enc (al : List Nat) : List Nat → Str
  | [] => []
  | [a] => [sextetChar al (a / 4), sextetChar al (a % 4 * 16)]
  | [a, b] => [sextetChar al (a / 4), sextetChar al (a % 4 * 16 + b / 16), sextetChar al (b % 16 * 4)]
  | a :: b :: c :: rest =>
    sextetChar al (a / 4) :: sextetChar al (a % 4 * 16 + b / 16) :: sextetChar al (b % 16 * 4 + c / 64)
      :: sextetChar al (c % 64) :: b64Enc al rest

/-- `GeneralPurpose::new(al, NO_PAD).decode(text)`: no padding accepted, a lone trailing symbol
and non-zero trailing bits are errors -/
def b64Dec (al : List Nat) : Str → Option (List Nat)
  | [] => some []
  | [_] => none
  | [p, q] =>
    match sextetOf al p, sextetOf al q with
    | some s0, some s1 => if s1 % 16 = 0 then some [s0 * 4 + s1 / 16] else none
    | _, _ => none
  | [p, q, r] =>
    match sextetOf al p, sextetOf al q, sextetOf al r with
    | some s0, some s1, some s2 =>
      if s2 % 4 = 0 then some [s0 * 4 + s1 / 16, s1 % 16 * 16 + s2 / 4] else none
    | _, _, _ => none
  | p :: q :: r :: t :: rest =>
    match sextetOf al p, sextetOf al q, sextetOf al r, sextetOf al t, b64Dec al rest with
    | some s0, some s1, some s2, some s3, some tl =>
      some ((s0 * 4 + s1 / 16) :: (s1 % 16 * 16 + s2 / 4) :: (s2 % 4 * 64 + s3) :: tl)
    | _, _, _, _, _ => none

/-- `Vec<u8>::into_encoded_string` -/
def encBytes (bs : List Nat) : Str := b64Enc b64Std bs
/-- `<[u8]>::from_encoded_str` -/
def decBytes (s : Str) : Option (List Nat) := b64Dec b64Std s

/-! ## UTF-8 (transport between the drivers) -/

def utf8EncodeChar (c : Nat) : List Nat :=
  if c < 0x80 then [c]
  else if c < 0x800 then [0xC0 + c / 64, 0x80 + c % 64]
  else if c < 0x10000 then [0xE0 + c / 4096, 0x80 + c / 64 % 64, 0x80 + c % 64]
  else [0xF0 + c / 262144, 0x80 + c / 4096 % 64, 0x80 + c / 64 % 64, 0x80 + c % 64]

def utf8Encode : Str → List Nat
  | [] => []
  | c :: cs => utf8EncodeChar c ++ utf8Encode cs

/-- lenient decoder for well-formed input (the harness only sends Rust `String`s);
first argument: continuation bytes still expected, second: accumulator -/
def utf8DecodeGo : Nat → Nat → List Nat → Option Str
  | 0, _, [] => some []
  | _ + 1, _, [] => none
  | 0, _, b :: rest =>
    if b < 0x80 then (utf8DecodeGo 0 0 rest).map (b :: ·)
    else if 0xC0 ≤ b ∧ b < 0xE0 then utf8DecodeGo 1 (b - 0xC0) rest
    else if 0xE0 ≤ b ∧ b < 0xF0 then utf8DecodeGo 2 (b - 0xE0) rest
    else if 0xF0 ≤ b ∧ b < 0xF8 then utf8DecodeGo 3 (b - 0xF0) rest
    else none
  | k + 1, acc, b :: rest =>
    if 0x80 ≤ b ∧ b < 0xC0 then
      let acc' := acc * 64 + (b - 0x80)
      if k = 0 then (utf8DecodeGo 0 0 rest).map (acc' :: ·) else utf8DecodeGo k acc' rest
    else none

def utf8Decode (bs : List Nat) : Option Str := utf8DecodeGo 0 0 bs

end Leptos.Transfer
