import LeptosModel.Model.Wire
/-!
# Model/Async — one `ArcAsyncDerived` over `k` source signals (C10)

The modelled program (what harness/hx-c10 builds from the real crates):

* `k` source signals `ArcRwSignal<u32>`; with `viaMemo` also a memo `sm` of all of them, which is then the
  only thing the fetcher reads (sources of the derived = `{sm}`, as for a `Resource`);
* one `ArcAsyncDerived` / `AsyncDerived` `d` whose fetcher reads every source (tracked), hands a
  `oneshot::Receiver` to the harness and awaits it; the harness resolves the `f`-th started fetch with
  `fetchFn (inputs captured by that fetch)` (`complete f`);
* optionally a subscriber `Effect` reading `d.get()`; optionally also a memo `m = memoFn sources`
  read before or after `d` (`EffKind`);
* the fetcher is a little program (`Fetcher`, `Rd`): reads made when its future is created (`sync`: closure body
  and the async block up to its first `await`) and reads made after the `await` of the harness's receiver
  (`post`), each either unconditional, conditional on the flag (source 0) read earlier in the same run, or
  indexed by it — so an input may be read for the first time in a second or later run.  `run` records what the
  current run has read, `dSub` the sources the derived is subscribed to (it never clears its sources); a source
  write marks the derived only if it is subscribed; the result is `fetchFn` of the values read, in order;
* awaiter tasks (`spawn_local(async { d.await })`) attached at arbitrary points;
* a stand-in `<Suspense/>` boundary: a child owner that provides a `SuspenseContext`; `bread` = the boundary
  reads the value synchronously under that owner (`try_read_untracked`: a task handle of its own + a spawned
  reader task `ready().await; drop(handle)` + the context registered in `inner.suspenses`, which the loop
  turns into task ids held for the duration of the next fetch); `pending` = the boundary's `tasks.len()`;
* instead of a plain derived, the real `leptos_server` wrappers: `Resource`/`ArcResource` (`res`: the memo is
  `(refetch counter, sources)`, read untracked by the fetcher, `refetch()` bumps the counter),
  `OnceResource`/`ArcOnceResource` (`once`: one future, no sources, no refetch, the boundary waits only while
  there is no value), `LocalResource`/`ArcLocalResource` (`isLocal`: `refetch()` is a tracked signal write =
  `mark_dirty`; every fetch first awaits `Executor::tick()`, i.e. a spawned tick task that fires a oneshot:
  `tick0` for fetch 0 — spawned by the constructor before the derived's own task — and `AwKind.tick` entries
  for later fetches; `tickFired`, `dataReg` = how far the task has got inside `fut.await`);
* one single-threaded executor owned by the harness: a poll picks the `j`-th live woken task.

| model                     | code (reactive_graph/src) |
|---------------------------|---------------------------|
| `init`                    | `spawn_derived!` up to `$spawner(..)` (computed/async_derived/arc_async_derived.rs): `loading = !is_ready`, initial future created and polled once with `now_or_never()` (fetch 0 starts in the constructor), `notifier.notify()`, task spawned (woken) |
| `pollD` / `.start`        | first poll of the spawned task: `already_dirty` ⇒ `initial_fut.take()` (fetch 0 is dropped) |
| `dIter`, `dLoop`          | one iteration / the whole of `while rx.next().await.is_some() { if update_if_necessary || first_run { .. } }`; `Receiver::poll_next` (channel.rs) = `waker.register; set.swap(false)` |
| `Run.exec`, `postReads`   | the reactive reads of the user's fetcher: `ScopedFuture` re-installs the derived as the observer on every poll of the future, so reads before and after an `await` are tracked alike (`Track::track`: subscribe) |
| `startFetch`              | `fut = initial_fut.take().unwrap_or_else(|| new ScopedFuture(fun()))` (the fetcher reads the sources here); `loading = true`; `version += 1`; reach `fut.await` |
| `dNeedsRerun`             | `ArcAsyncDerivedInner::needs_rerun` (inner.rs; since "fix: a subscriber's check must not consume an async derived's Dirty state") called by the task only: `Dirty ⇒ Clean, true`; else `any` over the sources (signals: `false`; source memo: `smUpdate`) |
| `dAsSource`               | `ReactiveNode::update_if_necessary` of the derived = the answer to a *subscriber* that has `d` among its sources (effect check phase): `false`, nothing touched |
| `dropInitial`             | `if update_if_necessary { initial_fut.take(); }` (since "fix: async derived must not reuse its initial future when a memo source changed before the first poll") |
| `smMarkDirty`, `smUpdate`, `dMarkCheck`, `inputsNow` | the source memo `sm = Memo(all sources)` of configurations with `viaMemo` (the fetcher reads `sm.get()` instead of the signals): `MemoInner::mark_dirty` (`Dirty`; subscriber `d` gets `mark_check` = notify only), `MemoInner::update_if_necessary` under observer `d` |
| `…V`, `runOld1`, `runOld2`| the same chain with either repair switched off (the code as it was): regression witnesses only |
| `bdropFixed`, `stepF`, `runF true` | the code with the PROPOSED repair hooks/fix-c10-3.patch (not applied; known finding F-C10-3): what the repair achieves is stated about `runF true` |
| `applyResult`             | `fut.await` returned: version check, `set_inner_value` = store + `notify_subs` |
| `notifySubs`              | `ArcAsyncDerived::notify_subs`: `loading = false`; `state ← Notifying`; every subscriber `mark_dirty`; drain `wakers`; `state ← prev` |
| `dMarkDirty`              | `ReactiveNode::mark_dirty` for `RwLock<ArcAsyncDerivedInner>`: unless `Notifying`: `state = Dirty; notifier.notify()` |
| `dNotify` / `eNotify`     | `Sender::notify` (channel.rs): `set = true; waker.wake()` — `AtomicWaker::wake` *takes* the registered waker (`reg`) |
| `setSrc`                  | `Set::set` on a signal = store + `mark_dirty` of the cloned subscriber set (signal/subscriber_traits.rs): `d`, then `m` |
| `manualSet`               | `Set::set` on the derived through its `Write` impl: `WriteGuard` drop ⇒ `Notify::notify` = `notify_subs(.., None)` |
| `refetch`                 | `d.mark_dirty()` (what `Resource::refetch` amounts to at this level) |
| `pollA`                   | `AsyncDerivedFuture::poll` (future_impls.rs): `loading ⇒ wakers.push(waker); Pending`, else `Ready(value.unwrap())` |
| `memoUpdate`, `mMarkDirty`| `MemoInner::update_if_necessary` / `mark_dirty` (computed/inner.rs); the only subscriber of `m` is the effect: skipped as the current observer while the effect runs, marked dirty when `m` changes during the effect's (untracked) check phase |
| `effUpdate`, `effAny`     | `EffectInner::update_if_necessary` (effect/inner.rs, as of /repo commit "fix: effects can miss an update or run twice…"): `dirty` flag, else `untrack(any over the sources in read order)`, then `was_marked = take(dirty)` |
| `eIter`, `eLoop`, `runEffect` | the task of `Effect::new` (effect/effect.rs): `while rx.next().await.is_some() { if update_if_necessary || first_run { clear_sources; run } }` |
| `readyList`, `pollNth`    | `hx_common::sched`: live woken tasks in spawn order (tick of fetch 0, derived, effect, then awaiters / reader tasks / later ticks as spawned); `poll j` = its `j mod len`-th entry |
| `bread`, `handleDrop`     | `ArcAsyncDerived::try_read_untracked` under a `SuspenseContext` (`ArcOnceResource::try_read_untracked` for `once`); the reader task's `drop(handle)` |
| `refetch`                 | `Resource::refetch` (`*refetch.write() += 1`) / `d.mark_dirty()` (= `LocalResource::refetch`, whose counter signal the fetcher tracks) |
| `pollT0`, `tickFires`     | the task spawned by `any_spawner::Executor::tick()`: `tx.send(())` wakes whoever awaits the fetch's future |
| `complete`                | `oneshot::Sender::send`: wakes the waker of the last poll of the receiver (the task's once it has polled the fetch; the no-op waker of `now_or_never()` before) |

Abstractions (stated, not hidden): fetches are serialised by the single task (a new fetch starts only
after the previous one returned or, for fetch 0, was dropped), so only the last started fetch is kept
(`curInputs`, `curStatus`, `nf` = number started). `wakers: Vec<Waker>` is the set of awaiters with
`parked = true` (an awaiter is only re-polled after the drain that removes it, so it has at most one
entry; waking only sets a flag, so the order is irrelevant). `latest_version == this_version` is kept
(`version`, `fetchVersion`) although it can never fail: only the task itself increments `version`.

The source memo has only the states `Dirty`/`Clean` (`smDirty`): its sources are signals, which mark it
`Dirty` directly, so `Check` is unreachable.

Ghost state (never read by the algorithm): `stolen` (only ever set by the pre-repair chain),
`manualLive`, `lastManual`, `notifs`, `panicked`.
Loops carry fuel; running out of fuel yields (the task stays woken).  For the derived's task that never
happens: after one iteration that goes round again the channel flag is clear, so the next one suspends
(`dLoop_eq` in Proofs/Async.lean).  The effect's loop goes round at most three times (a memo that changes
during the check phase re-sets the channel flag once); its invariant is proved for every fuel.

Not modelled: `AsyncTransition` (`ready_tx`: no transition running), `owner.paused()`, the untracked
`Resource` construction (`new_with_manual_dependencies`), several threads (C19).
-/
namespace Leptos.Async

abbrev Val := Nat

inductive DState where | clean | dirty | notifying
  deriving Repr, DecidableEq, Inhabited

inductive Pc where
  | start      -- spawned, never polled (`initial_fut` still held)
  | waiting    -- at `rx.next().await`
  | fetching   -- at `fut.await`
  deriving Repr, DecidableEq, Inhabited

inductive FStatus where
  | pending    -- receiver alive, nothing sent
  | ready      -- the harness has sent the result, the task has not consumed it
  | done       -- consumed by the task
  | dropped    -- the future was dropped (fetch 0 when `already_dirty`)
  deriving Repr, DecidableEq, Inhabited

inductive MState where | clean | check | dirty
  deriving Repr, DecidableEq, Inhabited

/-- the subscriber effect: absent / reads `d` / reads `d` then `m` / reads `m` then `d` -/
inductive EffKind where | none | d | dm | md
  deriving Repr, DecidableEq, Inhabited

inductive Src where | d | m
  deriving Repr, DecidableEq, Inhabited

/-- one reactive read of the fetcher.  Which source is read may depend on what this run has read before:
`ifFlag i` reads source `i` only if source 0, as read earlier in this run, was non-zero
(`if flag.get() != 0 { extra.get() }`); `idx` reads source `1 + flag % (k-1)` (`inputs[idx.get()].get()`). -/
inductive Rd where
  | src (i : Nat)
  | ifFlag (i : Nat)
  | idx
  deriving Repr, DecidableEq, Inhabited

/-- the fetcher: the reads made when its future is created (closure body, and the async block up to its
first `await`: both happen before the task first suspends on it) and the reads made after the `await` of
the harness's receiver, when the result is produced -/
structure Fetcher where
  sync : List Rd := []
  post : List Rd := []
  deriving Repr, DecidableEq, Inhabited

/-- what one run of the fetcher has read so far: the value of source 0 (if read) and every read in order -/
structure Run where
  flag : Option Val := none
  log : List (Nat × Val) := []
  deriving Repr, DecidableEq, Inhabited

def Run.read (src : List Val) (r : Run) (i : Nat) : Run :=
  let v := src[i]?.getD 0
  { flag := if i = 0 then some v else r.flag, log := r.log ++ [(i, v)] }

def Run.exec (src : List Val) (r : Run) : Rd → Run
  | .src i => r.read src i
  | .ifFlag i => if r.flag.getD 0 ≠ 0 then r.read src i else r
  | .idx => r.read src (1 + r.flag.getD 0 % (src.length - 1))

def Run.execAll (src : List Val) (l : List Rd) (r : Run) : Run := l.foldl (Run.exec src) r

/-- the values a run has read, in order: what the fetcher computes its result from -/
def Run.vals (r : Run) : List Val := r.log.map (·.2)

/-- the default fetcher reads every source when its future is created -/
def allSources (k : Nat) : Fetcher := { sync := (List.range k).map .src }

structure Cfg where
  srcs : List Val := [0]
  init : Option Val := none
  eff : EffKind := .none
  /-- the fetcher reads the sources through one memo `sm = Memo(all sources)` instead of directly -/
  viaMemo : Bool := false
  /-- a `leptos_server::Resource`: the memo is `(refetch counter, sources)`, the fetcher reads it untracked,
  `refetch()` bumps the counter (implies `viaMemo`) -/
  res : Bool := false
  /-- a `leptos_server::OnceResource`: one future, no sources, no refetch, no manual write -/
  once : Bool := false
  /-- a `leptos_server::LocalResource`: every fetch first waits one `Executor::tick()` (a task that is
  spawned when the fetch's future is first polled and fires a oneshot); `refetch()` is a signal write -/
  isLocal : Bool := false
  /-- the fetcher's reads (plain derived over signals only); `none` = every source, when the future is created -/
  fx : Option Fetcher := none
  deriving Repr, DecidableEq, Inhabited

/-- what a spawned task other than the derived's and the effect's does -/
inductive AwKind where
  | awaiter   -- `spawn_local(async move { let v = d.await; record(v) })`
  | reader    -- spawned by a synchronous read under a `SuspenseContext`: `ready().await; drop(handle)`
  | saw       -- an awaiter under the boundary (`Suspend`-like: `ScopedFuture` in a reader's owner, aborted
              -- when the reader is disposed): every poll of its `.await` registers the boundary
  | tick      -- `Executor::tick()` of a local resource's fetch: `tx.send(())`
  | awaiterR  -- `spawn_local(async move { d.ready().await; record(d.get_untracked()) })`: `ready()` never touches
              -- the value lock
  | holder    -- `spawn_local(async move { let g = d.by_ref().await; record(*g); release.await; drop(g) })`: a
              -- reader that keeps the guard on the value across a further await
  deriving Repr, DecidableEq, Inhabited

/-- the futures that poll the value lock (`self.value.read_arc()`): `.await` and `by_ref().await` -/
def AwKind.usesLock (k : AwKind) : Bool := k == .awaiter || k == .saw || k == .holder

/-- a task waiting for the derived to be ready -/
structure Aw where
  woken : Bool := true
  parked : Bool := false
  done : Bool := false
  result : Option Val := none
  kind : AwKind := .awaiter
  /-- a tick task: the number (`nf`) of the fetch it belongs to -/
  tag : Nat := 0
  /-- a `saw` whose reader was disposed: its next poll ends it without a value -/
  aborted : Bool := false
  /-- a `holder` that has its guard on the value and waits to be released -/
  holding : Bool := false
  /-- a `holder` whose release has been sent -/
  rel : Bool := false
  /-- polled with loading off while the value lock was not readable: returned `Pending` with its waker
  registered nowhere (the listener of `read_arc()` is dropped at the end of the poll) -/
  lost : Bool := false
  deriving Repr, DecidableEq, Inhabited

structure State where
  eff : EffKind := .none
  src : List Val := []
  -- the derived
  value : Option Val := none
  loading : Bool := true
  dstate : DState := .clean
  version : Nat := 0
  chan : Bool := true
  reg : Bool := false
  dWoken : Bool := true
  pc : Pc := .start
  firstRun : Bool := true
  initialFut : Bool := true
  fetchVersion : Nat := 0
  nf : Nat := 1
  curInputs : List Val := []
  curStatus : FStatus := .pending
  -- the fetcher's program, what the current (or last) run of it has read, the sources the derived is
  -- subscribed to (it never clears its sources: the set only grows)
  fx : Fetcher := {}
  run : Run := {}
  dSub : List Nat := []
  -- source memo `sm` (only used when `viaMemo`): `Dirty` or `Clean`, cached value
  viaMemo : Bool := false
  smDirty : Bool := false
  smVal : List Val := []
  -- `Resource`: the refetch counter signal and the counter cached in the memo's value
  res : Bool := false
  rc : Nat := 0
  smRc : Nat := 0
  once : Bool := false
  -- `LocalResource`: the tick task of fetch 0 (spawned by the constructor, before the derived's own task) is
  -- still to be polled; the tick of the current fetch has fired; the task is registered on the fetcher's
  -- receiver (it has polled the fetch's future past the tick)
  isLocal : Bool := false
  tick0 : Bool := false
  tickFired : Bool := true
  dataReg : Bool := false
  -- the stand-in `<Suspense/>` boundary: `tasks.len()`, contexts registered in `inner.suspenses`,
  -- task ids the loop holds for the fetch in flight
  pending : Nat := 0
  susp : Nat := 0
  idsHeld : Nat := 0
  -- memo `m`
  mstate : MState := .dirty
  mval : Option Val := none
  mRan : Bool := false
  -- subscriber effect
  eDirty : Bool := false
  eChan : Bool := false
  eReg : Bool := false
  eWoken : Bool := false
  eFirst : Bool := true
  eSubD : Bool := false
  eSubM : Bool := false
  eLog : List (Option Val × Option Val) := []
  -- awaiters, in spawn order
  aws : List Aw := []
  -- ghost
  stolen : Bool := false
  manualLive : Bool := false
  lastManual : Option Val := none
  notifs : Nat := 0
  panicked : Bool := false
  /-- the boundary has read since the loop last took the registered contexts -/
  readSince : Bool := false
  /-- the boundary had read before the loop took the contexts for the fetch in flight -/
  coveredCur : Bool := false
  /-- a manual write happened since the fetch in flight started -/
  msetDuring : Bool := false
  /-- no reader under the boundary is alive (none was created since the last `bdrop`) -/
  noReader : Bool := true
  /-- read guards on the value lock (`async_lock::RwLock`) currently held: by `holder` tasks and by the harness
  itself (`syncGuards` of them: `read_untracked()` guards kept alive) -/
  guards : Nat := 0
  syncGuards : Nat := 0
  /-- the derived's task is (or was, until its next poll) suspended in `value.write().await` (`set_inner_value`):
  the fetch has returned, the loading flag is still on; the lock wakes it when the last read guard goes.  While a
  writer waits the lock is not readable (`async_lock` prefers writers): from here until the task has been polled
  again and has stored the value -/
  lockReg : Bool := false
  deriving Repr, DecidableEq, Inhabited

inductive Event where
  | set (i : Nat) (v : Val)
  | refetch
  | manualSet (v : Val)
  | complete (f : Nat)
  | attach
  | poll (j : Nat)
  | get
  | bread     -- a new reader under the boundary reads the value synchronously (`get_untracked()` in its owner)
  | attachS   -- a new reader under the boundary awaits the value (`ScopedFuture` in its owner)
  | bdrop     -- every reader under the boundary is disposed (owner cleanup; awaiting futures dropped)
  | attachR   -- an awaiter of `ready()`
  | attachH   -- a reader that keeps its `by_ref()` guard until `release`
  | hold      -- the harness takes a `read_untracked()` guard and keeps it until `release`
  | release   -- every guard is given back: the harness drops its own, every holder's release is sent
  deriving Repr, DecidableEq, Inhabited

/-- the fetcher: a pure function of the inputs it captured -/
def fetchFn (ins : List Val) : Val := ins.foldl (fun acc x => acc * 10 + x) 1

def memoFn (src : List Val) : Val := src.foldl (fun acc x => acc + x) 0 / 2

def setAt : List Val → Nat → Val → List Val
  | [], _, _ => []
  | _ :: xs, 0, v => v :: xs
  | x :: xs, i + 1, v => x :: setAt xs i v

def modifyAt (f : Aw → Aw) : List Aw → Nat → List Aw
  | [], _ => []
  | a :: as, 0 => f a :: as
  | a :: as, i + 1 => a :: modifyAt f as i

def hasEffect (k : EffKind) : Bool := match k with | .none => false | _ => true
def hasMemo (k : EffKind) : Bool := match k with | .dm => true | .md => true | _ => false

def init (c : Cfg) : State :=
  let fx := c.fx.getD (allSources c.srcs.length)
  let viaMemo := c.viaMemo || c.res
  -- the constructor creates fetch 0's future and polls it once: its `sync` reads happen now
  let run := if viaMemo then {} else Run.execAll c.srcs fx.sync {}
  { eff := c.eff, src := c.srcs, value := c.init, viaMemo := viaMemo,
    curInputs := (if viaMemo then c.srcs else run.vals), fx := fx, run := run, dSub := run.log.map (·.1),
    smVal := c.srcs, res := c.res, once := c.once, isLocal := c.isLocal, tick0 := c.isLocal, tickFired := !c.isLocal,
    eDirty := hasEffect c.eff, eChan := hasEffect c.eff, eWoken := hasEffect c.eff }

/-! ## channels and marks -/

def dNotify (s : State) : State :=
  if s.reg then { s with chan := true, reg := false, dWoken := true } else { s with chan := true }

def dMarkDirty (s : State) : State :=
  if s.dstate = .notifying then s else dNotify { s with dstate := .dirty }

/-- `mark_check` of the derived (a memo source is dirty): notify only, the state stays as it is -/
def dMarkCheck (s : State) : State :=
  if s.dstate = .notifying then s else dNotify s

/-- `MemoInner::mark_dirty` of the source memo: `Dirty`, then its subscriber (the derived) `mark_check` -/
def smMarkDirty (s : State) : State := dMarkCheck { s with smDirty := true }

/-- what the fetcher would read now -/
def inputsNow (s : State) : List Val := if s.viaMemo then s.smVal else s.src

def eNotify (s : State) : State :=
  if s.eReg then { s with eChan := true, eReg := false, eWoken := true } else { s with eChan := true }

def eMarkDirty (s : State) : State := eNotify { s with eDirty := true }

def eMarkCheck (s : State) : State := eNotify s

def mMarkDirty (s : State) : State :=
  let s := { s with mstate := .dirty }
  if s.eSubM then eMarkCheck s else s

def setSrc (s : State) (i : Nat) (v : Val) : State :=
  if i < s.src.length then
    let s := { s with src := setAt s.src i v }
    -- the signal marks its subscribers: the source memo, or the derived if it has read this source
    let s := if s.viaMemo then smMarkDirty s else if i ∈ s.dSub then dMarkDirty s else s
    if s.mRan then mMarkDirty s else s
  else s

/-! ## the derived's task -/

def wakeAw (a : Aw) : Aw := if a.parked then { a with parked := false, woken := true } else a

def notifySubs (s : State) : State :=
  let s := { s with loading := false }
  let prev := s.dstate
  let s := { s with dstate := .notifying }
  let s := if s.eSubD then eMarkDirty s else s
  let s := { s with aws := s.aws.map wakeAw }
  { s with dstate := prev, notifs := s.notifs + 1 }

/-- the fetcher's reads after the `await`, at the current source values (tracked like the others: the derived
subscribes to what it reads) -/
def postReads (s : State) : State :=
  let run := if s.viaMemo then s.run else Run.execAll s.src s.fx.post s.run
  { s with run := run, dSub := s.dSub ++ run.log.map (·.1),
           curInputs := (if s.viaMemo then s.curInputs else run.vals) }

/-- `fut.await` returned `fetchFn curInputs` (pc = fetching, curStatus = ready) -/
def applyResult (s : State) : State :=
  -- `drop(suspense_ids)`
  let s := { s with pending := s.pending - s.idsHeld, idsHeld := 0 }
  let s := { s with curStatus := .done, pc := .waiting, dataReg := false, lockReg := false }
  let s := postReads s
  if s.version = s.fetchVersion then
    notifySubs { s with value := some (fetchFn s.curInputs), manualLive := false }
  else s

/-- `MemoInner::update_if_necessary` of the source memo called with the derived as the observer (by the
derived's task or by the fetcher's `sm.get()`): recompute if `Dirty`; the derived, being the current
observer, is not marked.  The flag says whether the value changed. -/
def smUpdate (s : State) : State × Bool :=
  if s.smDirty then
    ({ s with smVal := s.src, smRc := s.rc, smDirty := false }, decide (s.smVal ≠ s.src ∨ s.smRc ≠ s.rc))
  else (s, false)

/-- `fut = initial_fut.take().unwrap_or_else(new future)` (a new future reads the sources now);
`loading = true`; `version += 1`; reach `fut.await` -/
def startFetch (s : State) : State :=
  let s := if s.initialFut then { s with initialFut := false }
           else
             let s := (smUpdate s).1
             -- a local resource: the new future's first poll (below, at `fut.await`) spawns its tick task
             -- the new future's `sync` reads (tracked: the derived subscribes to what it reads)
             let run := if s.viaMemo then s.run else Run.execAll s.src s.fx.sync {}
             { s with nf := s.nf + 1, curInputs := (if s.viaMemo then inputsNow s else run.vals),
                      curStatus := .pending, run := run, dSub := s.dSub ++ run.log.map (·.1),
                      tickFired := !s.isLocal,
                      aws := if s.isLocal then s.aws ++ [{ kind := .tick, tag := s.nf + 1 }] else s.aws }
  let s := { s with firstRun := false, loading := true, version := s.version + 1, dataReg := false }
  -- `suspense_ids = mem::take(&mut guard.suspenses).map(|sc| sc.task_id())`
  let s := { s with idsHeld := s.susp, pending := s.pending + s.susp, susp := 0,
                    coveredCur := decide (0 < s.susp), readSince := false, msetDuring := false }
  { s with fetchVersion := s.version, pc := .fetching }

/-- `ArcAsyncDerivedInner::needs_rerun`, the task's own question "do I have to run again?":
`Dirty ⇒ Clean, true`; else any source changed (signals: no; the source memo: recompute) -/
def dNeedsRerun (s : State) : State × Bool :=
  if s.dstate = .dirty then ({ s with dstate := .clean }, true) else smUpdate s

/-- `if update_if_necessary { initial_fut.take(); }`: the initial future read stale values -/
def dropInitial (s : State) : State :=
  if s.initialFut then { s with initialFut := false, curStatus := .dropped } else s

/-- `fut.await` has returned, `suspense_ids` are dropped, and `set_inner_value` waits in `value.write().await`
because a read guard is held: the task is suspended with the loading flag still on.  (The reads the fetcher
makes after its await have happened by now; they are accounted for when the value is stored — the drivers use
guards only with fetchers that read nothing after the await.) -/
def blockOnLock (s : State) : State :=
  { s with pending := s.pending - s.idsHeld, idsHeld := 0, coveredCur := false, lockReg := true }

/-- one iteration of `while rx.next().await.is_some() { .. }`, entered with `pc = waiting`;
the flag says whether the loop goes round again within the same poll -/
def dIter (s : State) : State × Bool :=
  let s := { s with reg := true }
  if s.chan = false then (s, false) else
  let r := dNeedsRerun { s with chan := false }
  if r.2 || r.1.firstRun then
    let s := startFetch (if r.2 then dropInitial r.1 else r.1)
    -- `fut.await`: past the tick (if any), then the fetcher's receiver
    if s.tickFired = true ∧ s.curStatus = .ready then
      (if s.guards = 0 then (applyResult s, true) else (blockOnLock s, false))
    else ({ s with dataReg := s.tickFired }, false)
  else (r.1, true)

def dLoop : Nat → State → State
  | 0, s => { s with dWoken := true }
  | n + 1, s => if (dIter s).2 then dLoop n (dIter s).1 else (dIter s).1

def pollD (s : State) : State :=
  let s := { s with dWoken := false }
  match s.pc with
  | .start =>
    let s := if s.dstate = .dirty then { s with initialFut := false, curStatus := .dropped } else s
    dLoop 3 { s with pc := .waiting }
  | .waiting => dLoop 3 s
  | .fetching =>
    if s.tickFired = true ∧ s.curStatus = .ready then
      if s.guards = 0 then dLoop 3 (applyResult s) else blockOnLock s
    else { s with dataReg := s.tickFired }

/-! ## memo and effect -/

/-- `MemoInner::update_if_necessary`.  `inCheck` = called from the effect's check phase, which (since the
fix "effects can miss an update or run twice…") walks the sources under `untrack`: no observer is
installed, so a changed memo marks every subscriber dirty, the effect included.  When called from the
effect's own run the effect is the current observer and is skipped. -/
def memoUpdate (inCheck : Bool) (s : State) : State × Bool :=
  match s.mstate with
  | .clean => (s, false)
  | .check => ({ s with mstate := .clean }, false)
  | .dirty =>
    let new := memoFn s.src
    let changed := decide (s.mval ≠ some new)
    let s := { s with mval := some new, mstate := .clean, mRan := true }
    (if changed && inCheck && s.eSubM then eMarkDirty s else s, changed)

/-- `d.update_if_necessary()` asked by a subscriber that has `d` among its sources (the effect's check
phase): `false`, nothing touched — every change of `d`'s value is announced by `notify_subs` -/
def dAsSource (s : State) : State × Bool := (s, false)

def effSources (k : EffKind) : List Src :=
  match k with
  | .none => []
  | .d => [.d]
  | .dm => [.d, .m]
  | .md => [.m, .d]

def effAny : List Src → State → State × Bool
  | [], s => (s, false)
  | x :: rest, s =>
    let r := match x with | .d => dAsSource s | .m => memoUpdate true s
    if r.2 then (r.1, true) else effAny rest r.1

/-- `EffectInner::update_if_necessary`: the `dirty` flag; else `any` over the sources (untracked), then
`was_marked = take(dirty)` — a mark received while checking belongs to this run -/
def effUpdate (s : State) : State × Bool :=
  if s.eDirty then ({ s with eDirty := false }, true)
  else
    let r := effAny (if s.eFirst then [] else effSources s.eff) s
    ({ r.1 with eDirty := false }, r.2 || r.1.eDirty)

def effRead (s : State) : Src → State
  | .d => { s with eSubD := true }
  | .m => (memoUpdate false { s with eSubM := true }).1

def runEffect (s : State) : State :=
  let s := { s with eFirst := false, eSubD := false, eSubM := false }
  let s := (effSources s.eff).foldl effRead s
  { s with eLog := s.eLog ++ [(s.value, if hasMemo s.eff then s.mval else none)] }

def eIter (s : State) : State × Bool :=
  let s := { s with eReg := true }
  if s.eChan = false then (s, false) else
  let s := { s with eChan := false }
  let r := effUpdate s
  if r.2 || r.1.eFirst then (runEffect r.1, true) else (r.1, true)

def eLoop : Nat → State → State
  | 0, s => { s with eWoken := true }
  | n + 1, s => if (eIter s).2 then eLoop n (eIter s).1 else (eIter s).1

def pollE (s : State) : State := eLoop 4 { s with eWoken := false }

/-! ## awaiters -/

def pollAw (loading busy : Bool) (value : Option Val) (a : Aw) : Aw :=
  if a.kind = .tick ∨ (a.kind = .saw ∧ a.aborted = true) then { a with woken := false, done := true, parked := false }
  else if a.kind = .holder ∧ a.holding = true then
    -- a holder past its `by_ref().await`: `release.await`, then `drop(g)`
    if a.rel then { a with woken := false, holding := false, done := true } else { a with woken := false }
  else if loading then { a with woken := false, parked := true }
  -- `(false, Poll::Pending)`: the lock is not readable (a writer waits) and nobody has this task's waker
  else if a.kind.usesLock && busy then { a with woken := false, lost := true }
  else if a.kind = .holder ∧ a.rel = false then { a with woken := false, holding := true, result := value }
  else { a with woken := false, done := true, result := value }

/-- the task of the derived, suspended in `value.write().await`, is woken when the last read guard goes; the lock
stays unreadable (`lockReg`) until the task has been polled and has stored the value -/
def wakeWriter (s : State) : State :=
  if s.guards = 0 ∧ s.lockReg = true then { s with dWoken := true } else s

/-- polling task `i` makes it take a guard on the value (a holder whose `by_ref()` resolves) -/
def acquires (loading busy : Bool) (a : Option Aw) : Nat :=
  match a with
  | some a => if (pollAw loading busy none a).holding ∧ a.holding = false then 1 else 0
  | none => 0

/-- ... or give it back -/
def releases (a : Option Aw) : Nat :=
  match a with
  | some a => if a.kind = .holder ∧ a.holding = true ∧ a.rel = true then 1 else 0
  | none => 0

/-- polling a tick task that belongs to the fetch in flight fires its oneshot -/
def tickFires (nf : Nat) (a : Option Aw) : Bool :=
  match a with
  | some a => decide (a.kind = .tick) && !a.done && decide (a.tag = nf)
  | none => false

/-- a reader task that resolves drops its handle: one task less in the boundary's list -/
def handleDrop (loading : Bool) (a : Option Aw) : Nat :=
  match a with
  | some a => if a.kind = .reader ∧ a.done = false ∧ loading = false then 1 else 0
  | none => 0

/-- every poll of the `.await` future of a live awaiter under the boundary registers the boundary -/
def sawPolls (a : Option Aw) : Nat :=
  match a with
  | some a => if a.kind = .saw ∧ a.done = false ∧ a.aborted = false then 1 else 0
  | none => 0

def pollA (s : State) (i : Nat) : State :=
  let fires := tickFires s.nf s.aws[i]?
  wakeWriter
  { s with aws := modifyAt (pollAw s.loading s.lockReg s.value) s.aws i,
           guards := s.guards + acquires s.loading s.lockReg s.aws[i]? - releases s.aws[i]?,
           pending := s.pending - handleDrop s.loading s.aws[i]?,
           susp := s.susp + sawPolls s.aws[i]?,
           tickFired := s.tickFired || fires,
           dWoken := s.dWoken || (fires && decide (s.pc = .fetching)),
           panicked := s.panicked || (!s.loading && s.value.isNone && !fires) }

/-- the tick task of fetch 0 (spawned by the constructor): fires fetch 0's oneshot -/
def pollT0 (s : State) : State :=
  if s.nf = 1 then
    { s with tick0 := false, tickFired := true, dWoken := s.dWoken || decide (s.pc = .fetching) }
  else { s with tick0 := false }

/-- `try_read_untracked` under a `SuspenseContext`: a task handle of its own plus a spawned
`ready().await; drop(handle)`, and the context is registered for the next run of the loop
(`OnceResource`: only while there is no value, and nothing takes the registrations) -/
def bread (s : State) : State :=
  if s.once then
    if s.value = none then
      { s with pending := s.pending + 1, aws := s.aws ++ [{ kind := .reader }], noReader := false }
    else { s with noReader := false }
  else
    { s with pending := s.pending + 1, aws := s.aws ++ [{ kind := .reader }], susp := s.susp + 1,
             readSince := true, noReader := false }

/-- what disposing its reader does to a task: an awaiter under the boundary is aborted (its `AbortHandle`
wakes it); the task a synchronous read spawned keeps its handle until `ready()` resolves (the server
rendering of `<Suspense/>` relies on that: `dry_resolve` reads under owners it drops at once) -/
def dropAw (a : Aw) : Aw :=
  if a.kind = .saw ∧ a.done = false then { a with aborted := true, woken := true } else a

/-- every reader under the boundary is disposed (owner cleanup, awaiting futures dropped).  THE CODE AS IT IS
(known finding F-C10-3 = F-C04-5): nothing connects a registration in `suspenses`, or a task id the loop took
for one, to the reader that made it — only the awaiting futures go -/
def bdrop (s : State) : State :=
  { s with aws := s.aws.map dropAw, noReader := true }

/-- the same with the PROPOSED repair hooks/fix-c10-3.patch ("a Suspense boundary must not join a reload on
behalf of a reader that is gone", not applied): a registration is a `SuspenseInterest` that ends with the reader's
owner (`on_cleanup`): registrations not yet taken are dead, task ids held for the fetch in flight are released at once -/
def bdropFixed (s : State) : State :=
  { s with aws := s.aws.map dropAw, pending := s.pending - s.idsHeld, susp := 0, idsHeld := 0,
           coveredCur := false, noReader := true }

/-! ## executor -/

inductive TaskId where | t0 | d | e | a (i : Nat)
  deriving Repr, DecidableEq, Inhabited

def readyAwsFrom : Nat → List Aw → List TaskId
  | _, [] => []
  | i, a :: as => if a.woken && !a.done then .a i :: readyAwsFrom (i + 1) as else readyAwsFrom (i + 1) as

def readyList (s : State) : List TaskId :=
  (if s.tick0 then [.t0] else []) ++ (if s.dWoken then [.d] else []) ++ (if s.eWoken then [.e] else []) ++ readyAwsFrom 0 s.aws

def pollTask (s : State) : TaskId → State
  | .t0 => pollT0 s
  | .d => pollD s
  | .e => pollE s
  | .a i => pollA s i

def pollNth (s : State) (j : Nat) : State :=
  let r := readyList s
  match r[j % r.length]? with
  | some t => pollTask s t
  | none => s

def complete (s : State) (f : Nat) : State :=
  if f + 1 = s.nf ∧ s.curStatus = .pending then
    { s with curStatus := .ready, dWoken := s.dWoken || s.dataReg }
  else s

def manualSet (s : State) (v : Val) : State :=
  notifySubs { s with value := some v, manualLive := true, lastManual := some v, msetDuring := true }

/-- `refetch`: on a `Resource` the counter signal is bumped (the memo is marked, the derived asked to check);
on a plain derived `d.mark_dirty()` -/
def refetch (s : State) : State :=
  if s.res then smMarkDirty { s with rc := s.rc + 1 } else dMarkDirty s

/-- `release`: the harness drops its own guards, every holder's release is sent (a holder that has its guard is
woken; one that is still waiting for the value will give the guard back as soon as it has it) -/
def releaseAw (a : Aw) : Aw :=
  if a.kind = .holder ∧ a.done = false then { a with rel := true, woken := a.woken || a.holding } else a

def release (s : State) : State :=
  wakeWriter { s with aws := s.aws.map releaseAw, guards := s.guards - s.syncGuards, syncGuards := 0 }

/-- Synchronous accesses BLOCK the thread (`blocking_write` / `blocking_read_arc`): a manual write while any read
guard is held, and a synchronous read (`get`, `bread`, `hold`, a subscriber effect's run) while the derived's task
waits for the write lock (`lockReg`), can never return on a single thread — the guard's owner cannot run (finding
F-C10-4).  The drivers never issue such an op; the model has no "thread blocked for good" state, its step for them
describes a thread that could go on. -/
def step (s : State) : Event → State
  | .set i v => setSrc s i v
  | .refetch => refetch s
  | .manualSet v => manualSet s v
  | .complete f => complete s f
  | .attach => { s with aws := s.aws ++ [{}] }
  | .poll j => pollNth s j
  | .get => s
  | .bread => bread s
  | .attachS => { s with aws := s.aws ++ [{ kind := .saw }], noReader := false }
  | .bdrop => bdrop s
  | .attachR => { s with aws := s.aws ++ [{ kind := .awaiterR }] }
  | .attachH => { s with aws := s.aws ++ [{ kind := .holder }] }
  | .hold => { s with guards := s.guards + 1, syncGuards := s.syncGuards + 1 }
  | .release => release s

def run (c : Cfg) (es : List Event) : State := es.foldl step (init c)

/-- class `sync-access-blocks-thread` (known finding F-C10-4): the op is a synchronous access to the value that
can never return on this thread — a synchronous read (`get`, a read under the boundary, a guard taken by
`read_untracked()`: all `blocking_read_arc()`) while the derived's task is queued for the write lock (`lockReg`: from
the moment the finished fetch meets a held guard until the task has been polled again and has stored the value —
also after the guard has gone), or a manual write (`blocking_write()`) while a read guard is held.  The guard's
owner and the derived's task would have to run on the blocked thread.  A subscriber effect that reads the value
blocks its thread the same way when it runs in that window.  The drivers skip such ops. -/
def blocksThread (s : State) : Event → Bool
  | .get | .bread | .hold => s.lockReg
  | .manualSet _ => decide (0 < s.guards)
  | _ => false

/-- `step` with the proposed repair 3 switched on (`f = true`) or off (`f = false`: `step` itself) -/
def stepF (f : Bool) (s : State) : Event → State
  | .bdrop => if f then bdropFixed s else bdrop s
  | e => step s e

/-- `runF false` is `run` (the code as it is); `runF true` is the code with hooks/fix-c10-3.patch applied -/
def runF (f : Bool) (c : Cfg) (es : List Event) : State := es.foldl (stepF f) (init c)

/-- FIFO until no task is woken (the `idle` op of the drivers) -/
def runIdle : Nat → State → State
  | 0, s => s
  | k + 1, s => if (readyList s).isEmpty then s else runIdle k (pollNth s 0)

/-! ## the property's clauses, evaluated on a state (used by the driver and by the theorems) -/

/-- every started fetch has completed (or was dropped) and no task is woken -/
def settled (s : State) : Bool :=
  decide (s.curStatus ≠ .pending) && (readyList s).isEmpty && decide (s.guards = 0)

/-- what the fetcher reads when run from scratch on the current source values -/
def evalNow (s : State) : List Val :=
  if s.viaMemo then s.src else (Run.execAll s.src (s.fx.sync ++ s.fx.post) {}).vals

/-- the value the derived must hold at a settled point -/
def expected (s : State) : Option Val := if s.manualLive then s.lastManual else some (fetchFn (evalNow s))

def lastSeen (s : State) : Option (Option Val) := s.eLog.getLast?.map (·.1)

/-- every awaiter (not: reader or tick tasks) has been resumed with a value -/
def awsResumed (s : State) : Bool :=
  s.aws.all fun a => !(a.kind == .awaiter || a.kind == .saw || a.kind == .awaiterR || a.kind == .holder) ||
    a.aborted || (a.done && a.result.isSome)

/-- tasks spawned by synchronous reads under the boundary that still wait for `ready()`: each holds one of the
boundary's task handles -/
def liveReaders (l : List Aw) : Nat := (l.filter fun a => decide (a.kind = .reader) && !a.done).length

/-- the boundary has read from the load in flight (and no manual write interfered) -/
def suspCovered (s : State) : Bool :=
  decide (s.pc = .fetching) && !s.msetDuring && (s.coveredCur || s.readSince)

/-- class `suspense-stale` (known finding F-C10-3 = F-C04-5): no reader exists under the boundary (none was
created since every reader was disposed) and yet its task list holds more than the handles of synchronous reads
still waiting for the load they were made in — i.e. a task id the loop took for the registration of a reader
that no longer exists -/
def staleSuspense (s : State) : Bool := s.noReader && decide (liveReaders s.aws < s.pending)

def oracle (s : State) : Option String :=
  if s.panicked then some "panic"
  else if (readyList s).isEmpty && suspCovered s && s.pending == 0 then some "suspense-missed"
  else if (readyList s).isEmpty && s.pc != .fetching && s.pending != 0 then some "suspense-stuck"
  else if staleSuspense s then some "suspense-stale"
  else if !settled s then none
  else if s.loading then some "loading-stuck"
  else if s.value ≠ expected s then some (if s.stolen then "dirty-stolen" else "stale")
  else if !awsResumed s then some "awaiter-parked"
  else if hasEffect s.eff && lastSeen s ≠ some s.value then some "subscriber-stale"
  else none

/-! ## the code before the repairs (regression witnesses only; `f1`/`f2` = repair 1/2 applied, both are in the
code; `f3` = the proposed repair 3, which is NOT: the model proper is `runV true true false`)

* repair 1 (F-C10-1): before it, `update_if_necessary` asked by a subscriber was the task's own function:
  it consumed `Dirty` (`stolen`), or walked the derived's sources without the derived as observer (a
  changed source memo then marked the derived dirty) and answered whether one had changed;
* repair 2 (F-C10-2): before it, the initial future was only dropped when `already_dirty`;
* repair 3 (F-C10-3 = F-C04-5, proposed): without it a boundary's registrations and task ids outlive their
  readers (`bdrop`); with it they end with them (`bdropFixed`). -/

def dAsSourceOld (s : State) : State × Bool :=
  if s.dstate = .dirty then ({ s with dstate := .clean, stolen := true }, true)
  else
    let r := smUpdate s
    (if r.2 then dMarkDirty r.1 else r.1, r.2)

def effAnyV (f1 : Bool) : List Src → State → State × Bool
  | [], s => (s, false)
  | x :: rest, s =>
    let r := match x with
      | .d => if f1 then dAsSource s else dAsSourceOld s
      | .m => memoUpdate true s
    if r.2 then (r.1, true) else effAnyV f1 rest r.1

def effUpdateV (f1 : Bool) (s : State) : State × Bool :=
  if s.eDirty then ({ s with eDirty := false }, true)
  else
    let r := effAnyV f1 (if s.eFirst then [] else effSources s.eff) s
    ({ r.1 with eDirty := false }, r.2 || r.1.eDirty)

def eIterV (f1 : Bool) (s : State) : State × Bool :=
  let s := { s with eReg := true }
  if s.eChan = false then (s, false) else
  let s := { s with eChan := false }
  let r := effUpdateV f1 s
  if r.2 || r.1.eFirst then (runEffect r.1, true) else (r.1, true)

def eLoopV (f1 : Bool) : Nat → State → State
  | 0, s => { s with eWoken := true }
  | n + 1, s => if (eIterV f1 s).2 then eLoopV f1 n (eIterV f1 s).1 else (eIterV f1 s).1

def dIterV (f2 : Bool) (s : State) : State × Bool :=
  let s := { s with reg := true }
  if s.chan = false then (s, false) else
  let r := dNeedsRerun { s with chan := false }
  if r.2 || r.1.firstRun then
    let s := startFetch (if r.2 && f2 then dropInitial r.1 else r.1)
    if s.tickFired = true ∧ s.curStatus = .ready then
      (if s.guards = 0 then (applyResult s, true) else (blockOnLock s, false))
    else ({ s with dataReg := s.tickFired }, false)
  else (r.1, true)

def dLoopV (f2 : Bool) : Nat → State → State
  | 0, s => { s with dWoken := true }
  | n + 1, s => if (dIterV f2 s).2 then dLoopV f2 n (dIterV f2 s).1 else (dIterV f2 s).1

def pollDV (f2 : Bool) (s : State) : State :=
  let s := { s with dWoken := false }
  match s.pc with
  | .start =>
    let s := if s.dstate = .dirty then { s with initialFut := false, curStatus := .dropped } else s
    dLoopV f2 3 { s with pc := .waiting }
  | .waiting => dLoopV f2 3 s
  | .fetching =>
    if s.tickFired = true ∧ s.curStatus = .ready then
      if s.guards = 0 then dLoopV f2 3 (applyResult s) else blockOnLock s
    else { s with dataReg := s.tickFired }

def pollNthV (f1 f2 : Bool) (s : State) (j : Nat) : State :=
  let r := readyList s
  match r[j % r.length]? with
  | some .t0 => pollT0 s
  | some .d => pollDV f2 s
  | some .e => eLoopV f1 4 { s with eWoken := false }
  | some (.a i) => pollA s i
  | none => s

def stepV (f1 f2 f3 : Bool) (s : State) : Event → State
  | .poll j => pollNthV f1 f2 s j
  | .bdrop => if f3 then bdropFixed s else bdrop s
  | e => step s e

def runV (f1 f2 f3 : Bool) (c : Cfg) (es : List Event) : State := es.foldl (stepV f1 f2 f3) (init c)

/-- the code before repair 1 (F-C10-1) -/
def runOld1 : Cfg → List Event → State := runV false true false
/-- the code before repair 2 (F-C10-2) -/
def runOld2 : Cfg → List Event → State := runV true false false

end Leptos.Async
