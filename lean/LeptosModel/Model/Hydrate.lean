import LeptosModel.Model.Html
import LeptosModel.Model.View
import LeptosModel.Model.Stream
/-!
# Model/Hydrate — SSR printer, expected DOM and the hydration walk of tachys over `View` (C05)

Core Lean only; every function is total and structurally recursive.  Views, retained states and the
DOM are the ones of `Model/View.lean` / `Model/Dom.lean` (C03); escaping, attribute printing and the
browser-subset HTML parser are the ones of `Model/Html.lean` (C06).  Everything follows the Rust
impl of the same name for the same view type **as it is** (sync `to_html()`, `hydrate::<true>`).

| here                          | Rust (/repo/tachys/src)                                                                  |
|-------------------------------|-------------------------------------------------------------------------------------------|
| `Position`                    | view/mod.rs `Position` (all six variants; `OnlyChild`/`LastChild`/`Current` are never *set* by the modelled views, `Current` is honoured by the element step) |
| `Cur`                         | hydration.rs `Cursor` (the current node) together with the shared `PositionState` cell      |
| `Cur.child/sibling/parent`    | `Cursor::{child, sibling, parent}`: "does nothing if there is no child / sibling / parent"  |
| `textTarget`, `elemTarget`    | the node a string view / an element casts (strings.rs `hydrate`, element/mod.rs `inner_1`) |
| `stepIn`                      | the recurring `if position == FirstChild { cursor.child() } else { cursor.sibling() }`       |
| `nextPlaceholder`             | `Cursor::next_placeholder` (+ `failed_to_cast_marker_node`)                                 |
| `HydrationError`              | `failed_to_cast_text_node / _marker_node / _element` (a panic in Rust, an `Except.error` here) |
| `attrsOf`                     | the attribute kinds of `View.AttrVal` expressed as `Html.Attr` (html/attribute/value.rs: `String`, `Option<String>` = nothing when `None`, `bool`; class.rs / style.rs likewise) |
| `viewExists`                  | `RenderHtml::EXISTS` (`false` only for `()`, view/tuples.rs)                                  |
| `html`, `htmlL`, `after`, `afterL` | `RenderHtml::to_html_with_buf` per view type and the `Position` it leaves: view/strings.rs (`<!>` when `NextChildAfterText`, `' '` for the empty string iff `escape`, then `NextChildAfterText`), view/tuples.rs (`()`: `<!>` and `NextChild` iff `escape`; tuples left to right), html/element/mod.rs (`<tag attrs>`, children with `FirstChild` and `escape = E::ESCAPE_CHILDREN` iff `Ch::EXISTS`, `</tag>` unless `SELF_CLOSING`, then `NextChild`), view/iterators.rs (`Option<T>` = `Either<T, ()>`; `Vec`: items, then `<!>` and `NextChild` iff `escape`), view/either.rs, view/any_view.rs (transparent; `mark_branches = false`) |
| `toHtml`                      | `RenderHtml::to_html` (`Position::FirstChild`, `escape = true`)                               |
| `dom`, `domL`, `domOf`        | the node sequence that HTML denotes, markers included (specification side of `C05_parse_print`) |
| `hydrateAttr`                 | `Attribute::hydrate::<true>`: no DOM access, the state is the value (value.rs, class.rs, style.rs) |
| `hydrate`, `hydrateList`      | `RenderHtml::hydrate::<true>` per view type: strings.rs (step; one more `sibling()` when `NextChildAfterText`; cast to `Text`; the retained `str` is the *view's* string, the node's data is not read; the write for the empty string is `settle`), tuples.rs (`()` = `next_placeholder`, then `NextChild`), element/mod.rs (`inner_1`: `child()` if `FirstChild`, `sibling()` unless `Current`; cast to `Element` — the tag name is **not** compared; attributes; children only if `Ch::EXISTS && E::ESCAPE_CHILDREN`, from `FirstChild`; `inner_2`: `cursor.set(el)`, `NextChild`), iterators.rs (`Vec`: items, `next_placeholder`, `NextChild`), either.rs / any_view.rs (transparent) |
| `settle`, `hydrateDom`, `hydrateDomOld`, `domA` | the `set_text` of the adopted `" "` of an empty string (repair of F-C05-1) and the DOM after hydration; `…Old` = before the repair |
| `FragState`, `fragParent`, `fragParentOld`, `rebuildFrag`, `runFragHydrated`, `runFragCsr` | view/iterators.rs `StaticVec::{hydrate, rebuild}` for an element with children `pre…, StaticVec(items), post…` (F-C05-3 and its repair) |
| `hydrateInert`, `htmlKeyedOld`, `htmlErrOld`, `hydratesOn` | html/mod.rs `InertElement::hydrate`; view/keyed.rs and view/error_boundary.rs `to_html_with_buf` before their repairs (regression witnesses) |
| `Out.created`                 | nodes created by the walk (`native_dom::nodes_created()` before/after): no modelled branch creates one |
| `IdTree`, `loadTree(s)`       | what the correspondence harness does with the parser's output: one native node per parsed node, created in document order and appended to its parent |
| `real`, `realL`, `Realises`   | "`d` contains this forest of parsed nodes below `p`" (hypothesis of `C05_hydrate_succeeds`; established for `loadRoot` by `C05_load_realises`); `realB`, `realisesB`, `loadOK` are the executable forms the driver re-evaluates on every case |
| `adopt`, `adoptL`             | specification of the binding: the state that takes the nodes of `dom v pos` front to back     |
| `bound`                       | the adopted nodes have the expected kinds; a text state's node holds the retained string, `" "` for `""` |
| `nshape`, `Shape`             | a retained state with node ids forgotten (`C05_state_eq_build_state_mod_ids`)                 |
| `toDomTrees`                  | a parsed forest as `Dom.Tree`s (what `serializeKids` of the loaded root shows; driver self-check) |
| `hasEmptyText`, `hasRawKids`  | the decidable input classes of F-C05-1 / F-C05-2                                              |
| `runHydrated`, `runCsr`, `likeCsr` | the two runs the property compares and its oracle                                        |
| `stripL`, `treesBeq`          | the property's observable: comments removed, adjacent text merged, empty text dropped         |

| `suspTy`, `clientOf`, `fidsOf`, `compile`, `compileB`, `Agree`, `AgreeB`, `syncPart`, `planOf`, `runPlan`, `stream` | reactive_graph/suspense.rs `Suspend` and the streamed forms (`to_html_async_with_buf::<OUT_OF_ORDER>` of every modelled view with the `Position` threaded), run on `Model/Stream.lean` (C07): see the section at the end of this file |

Not modelled (stated): `FROM_SERVER = false` (templates), `InertElement`, `Keyed`, `StaticVec`/`Fragment`
(nested *tuples* are modelled; the driver expresses the first three through modelled constructors), islands,
reactive closures (their hydration is the hydration of the value they hold), `inner_html`,
`Suspend` under a `<Suspense>` boundary (C07), a `Suspend` inside a `<textarea>` that is rendered later, the `hot-reload` comment skipping of
`Rndr::first_child/next_sibling` under `debug_assertions` (such comments are never emitted by `to_html`).
-/
namespace Leptos.Hydrate
open Leptos.Dom Leptos.View

abbrev Str := Leptos.Html.Str
abbrev HTree := Leptos.Html.Tree

/-! ## Position and cursor -/

inductive Position where
  | current | firstChild | nextChild | nextChildAfterText | onlyChild | lastChild
  deriving DecidableEq, Repr, Inhabited

structure Cur where
  node : Id
  pos : Position
  deriving DecidableEq, Repr, Inhabited

/-- `Cursor::child` -/
def Cur.child (d : Dom) (c : Cur) : Cur := { c with node := (d.firstChild c.node).getD c.node }
/-- `Cursor::sibling` -/
def Cur.sibling (d : Dom) (c : Cur) : Cur := { c with node := (d.nextSibling c.node).getD c.node }
/-- `Cursor::parent` -/
def Cur.parent (d : Dom) (c : Cur) : Cur := { c with node := (d.getParent c.node).getD c.node }

/-- `if position.get() == Position::FirstChild { cursor.child() } else { cursor.sibling() }` -/
def stepIn (d : Dom) (c : Cur) : Id :=
  if c.pos = .firstChild then (c.child d).node else (c.sibling d).node

inductive HydrationError where
  | text (found : Id)
  | marker (found : Id)
  | element (tag : String) (found : Id)
  deriving DecidableEq, Repr, Inhabited

/-- `Cursor::next_placeholder` (the position it sets is set again by every caller) -/
def nextPlaceholder (d : Dom) (c : Cur) : Except HydrationError Id :=
  let n := stepIn d c
  if d.kindOf n = some .comment then .ok n else .error (.marker n)

/-- the node a string view looks at (strings.rs `hydrate`): one step, and one more `sibling()` when
the position is `NextChildAfterText` ("separating placeholder marker comes before text node") -/
def textTarget (d : Dom) (c : Cur) : Id :=
  let n := stepIn d c
  if c.pos = .nextChildAfterText then (d.nextSibling n).getD n else n

/-- the node an element looks at (html/element/mod.rs `inner_1`) -/
def elemTarget (d : Dom) (c : Cur) : Id :=
  if c.pos = .firstChild then (c.child d).node
  else if c.pos ≠ .current then (c.sibling d).node
  else c.node

/-! ## the SSR printer over `View` -/

def marker : Str := ['<', '!', '>']

def attrOf : AttrVal → List Html.Attr
  | .str n v => [.plain n.toList v.toList]
  | .ostr n (some v) => [.plain n.toList v.toList]
  | .ostr _ none => []
  | .bool n b => [.bool n.toList b]
  | .cls v => [.cls v.toList]
  | .ocls (some v) => [.cls v.toList]
  | .ocls none => []
  | .tcls n on => [.clsToggle n.toList on]
  | .sty v => [.style v.toList]
  | .psty n v => [.styleKV n.toList v.toList]
  | .opsty n (some v) => [.styleKV n.toList v.toList]
  | .opsty _ none => []

def attrsOf : List AttrVal → List Html.Attr
  | [] => []
  | a :: as => attrOf a ++ attrsOf as

/-- `RenderHtml::EXISTS` -/
def viewExists : View → Bool
  | .unit => false
  | _ => true

def isVoidT (tag : String) : Bool := Html.isVoid tag.toList
def escKids (tag : String) : Bool := Html.escapeChildren tag.toList

mutual
/-- the `Position` a view's `to_html_with_buf` leaves behind -/
def after (esc : Bool) : View → Position → Position
  | .text _, _ => .nextChildAfterText
  | .unit, pos => if esc then .nextChild else pos
  | .elem _ _ _, _ => .nextChild
  | .tuple vs, pos => afterL esc vs pos
  | .onone, pos => if esc then .nextChild else pos
  | .osome v, pos => after esc v pos
  | .either _ _ v, pos => after esc v pos
  | .vec vs, pos => if esc then .nextChild else afterL esc vs pos
  | .any _ v, pos => after esc v pos
def afterL (esc : Bool) : List View → Position → Position
  | [], pos => pos
  | v :: vs, pos => afterL esc vs (after esc v pos)
end

def textBody (esc : Bool) (s : Str) : Str :=
  if esc then (if s = [] then [' '] else Html.escapeText s) else s

/-- what `HtmlElement::to_html_with_buf` does with what the children printed: for `<textarea>` (an escapable raw
text element; `ESCAPE_CHILDREN = false`, so the children print no markers and no escapes) the text is passed through
`html_escape::encode_text`, and a leading line feed is doubled (the repairs `fix: escape the text children of
<textarea>` / `fix: keep a leading line feed of a <textarea> value`; C06's `Html.textareaBody` with both repairs on) -/
def kidsBody (tag : String) (raw : Str) : Str :=
  if tag.toList = Html.tTextarea then Html.textareaBody true true raw else raw

mutual
/-- `RenderHtml::to_html_with_buf` (what it appends to `buf`) -/
def html (esc : Bool) : View → Position → Str
  | .text s, pos => (if pos = .nextChildAfterText then marker else []) ++ textBody esc s.toList
  | .unit, _ => if esc then marker else []
  | .elem tag as c, _ =>
    '<' :: tag.toList ++ Html.attrsHtml (attrsOf as) ++ '>' ::
      (if isVoidT tag then []
       else (if viewExists c then kidsBody tag (html (escKids tag) c .firstChild) else []) ++ '<' :: '/' :: tag.toList ++ ['>'])
  | .tuple vs, pos => htmlL esc vs pos
  | .onone, _ => if esc then marker else []
  | .osome v, pos => html esc v pos
  | .either _ _ v, pos => html esc v pos
  | .vec vs, pos => htmlL esc vs pos ++ (if esc then marker else [])
  | .any _ v, pos => html esc v pos
def htmlL (esc : Bool) : List View → Position → Str
  | [], _ => []
  | v :: vs, pos => html esc v pos ++ htmlL esc vs (after esc v pos)
end

/-- `RenderHtml::to_html` -/
def toHtml (v : View) : Str := html true v .firstChild

/-! ## the DOM that string denotes (escaping context) -/

def textNode (s : Str) : HTree := .text (if s = [] then [' '] else s)

mutual
def dom : View → Position → List HTree
  | .text s, pos => (if pos = .nextChildAfterText then [.comment []] else []) ++ [textNode s.toList]
  | .unit, _ => [.comment []]
  | .elem tag as c, _ =>
    [.elem tag.toList (Html.expectedAttrs (attrsOf as))
      (if isVoidT tag then [] else if viewExists c then dom c .firstChild else [])]
  | .tuple vs, pos => domL vs pos
  | .onone, _ => [.comment []]
  | .osome v, pos => dom v pos
  | .either _ _ v, pos => dom v pos
  | .vec vs, pos => domL vs pos ++ [.comment []]
  | .any _ v, pos => dom v pos
def domL : List View → Position → List HTree
  | [], _ => []
  | v :: vs, pos => dom v pos ++ domL vs (after true v pos)
end

def domOf (v : View) : List HTree := dom v .firstChild

/-! ## hydration -/

/-- `Attribute::hydrate::<true>`: the state is the value, the element is not touched -/
def hydrateAttr : AttrVal → AttrState
  | .str _ v => .str v
  | .ostr _ v => .ostr v
  | .bool _ b => .bool b
  | .cls v => .cls v
  | .ocls v => .ocls v
  | .tcls n on => .tcls on n
  | .sty v => .sty v
  | .psty n v => .psty n v
  | .opsty n v => .opsty n v

structure Out where
  state : State
  cur : Cur
  /-- nodes created by the walk -/
  created : Nat
  deriving Repr, Inhabited

structure OutL where
  states : List State
  cur : Cur
  created : Nat
  deriving Repr, Inhabited

mutual
/-- `RenderHtml::hydrate::<true>(cursor, position)` -/
def hydrate (d : Dom) : View → Cur → Except HydrationError Out
  | .text s, c =>
    let n := textTarget d c
    if d.kindOf n = some .text then .ok ⟨.text n s, ⟨n, .nextChildAfterText⟩, 0⟩ else .error (.text n)
  | .unit, c =>
    match nextPlaceholder d c with
    | .ok m => .ok ⟨.unit m, ⟨m, .nextChild⟩, 0⟩
    | .error e => .error e
  | .elem tag as child, c =>
    let n := elemTarget d c
    if d.isElement n then
      let ass := as.map hydrateAttr
      if !viewExists child || !escKids tag then .ok ⟨.elem n ass none, ⟨n, .nextChild⟩, 0⟩
      else
        match hydrate d child ⟨n, .firstChild⟩ with
        | .ok o => .ok ⟨.elem n ass (some o.state), ⟨n, .nextChild⟩, o.created⟩
        | .error e => .error e
    else .error (.element tag n)
  | .tuple vs, c =>
    match hydrateList d vs c with
    | .ok o => .ok ⟨.tuple o.states, o.cur, o.created⟩
    | .error e => .error e
  | .onone, c =>
    match nextPlaceholder d c with
    | .ok m => .ok ⟨.either 1 (.unit m), ⟨m, .nextChild⟩, 0⟩
    | .error e => .error e
  | .osome v, c =>
    match hydrate d v c with
    | .ok o => .ok ⟨.either 0 o.state, o.cur, o.created⟩
    | .error e => .error e
  | .either _ i v, c =>
    match hydrate d v c with
    | .ok o => .ok ⟨.either i o.state, o.cur, o.created⟩
    | .error e => .error e
  | .vec vs, c =>
    match hydrateList d vs c with
    | .ok o =>
      match nextPlaceholder d o.cur with
      | .ok m => .ok ⟨.vec o.states m, ⟨m, .nextChild⟩, o.created⟩
      | .error e => .error e
    | .error e => .error e
  | .any ty v, c =>
    match hydrate d v c with
    | .ok o => .ok ⟨.any ty o.state, o.cur, o.created⟩
    | .error e => .error e
def hydrateList (d : Dom) : List View → Cur → Except HydrationError OutL
  | [], c => .ok ⟨[], c, 0⟩
  | v :: vs, c =>
    match hydrate d v c with
    | .ok o =>
      match hydrateList d vs o.cur with
      | .ok os => .ok ⟨o.state :: os.states, os.cur, o.created + os.created⟩
      | .error e => .error e
    | .error e => .error e
end

/-- `view.hydrate::<true>(&Cursor::new(root), &PositionState::default())` -/
def hydrateFrom (d : Dom) (root : Id) (v : View) : Except HydrationError Out :=
  hydrate d v ⟨root, .firstChild⟩

/-! ## the writes of the walk (repair `fix: hydrating an empty string …`, F-C05-1)

strings.rs `hydrate` (after the repair): `if !FROM_SERVER || self.is_empty() { Rndr::set_text(&node, self) }`
— the adopted placeholder `" "` of an empty string gets the real, empty content.  The write happens
inside the walk; the walk itself only reads node kinds, child lists and parents, none of which
`set_text` changes (`hydrate_congr`, `settle_sameShape` in Proofs/HydrateWalk.lean), so the model
performs the walk (`hydrate`, unchanged: state and cursor) and then the writes (`settle`), in walk
order.  Before the repair there were no writes: `hydrateDomOld`. -/

mutual
/-- the `set_text` calls of `hydrate::<true>`, in walk order -/
def settle : State → Dom → Dom
  | .text i s, d => if s = "" then d.setText i "" else d
  | .unit _, d => d
  | .elem _ _ none, d => d
  | .elem _ _ (some c), d => settle c d
  | .tuple sts, d => settleL sts d
  | .either _ st, d => settle st d
  | .vec sts _, d => settleL sts d
  | .any _ st, d => settle st d
def settleL : List State → Dom → Dom
  | [], d => d
  | s :: ss, d => settleL ss (settle s d)
end

/-- `view.hydrate::<true>(..)` with its effect on the DOM (current code) -/
def hydrateDom (d : Dom) (root : Id) (v : View) : Except HydrationError (Out × Dom) :=
  match hydrateFrom d root v with
  | .ok o => .ok (o, settle o.state d)
  | .error e => .error e

/-- the same before the repair: the DOM is not touched -/
def hydrateDomOld (d : Dom) (root : Id) (v : View) : Except HydrationError (Out × Dom) :=
  match hydrateFrom d root v with
  | .ok o => .ok (o, d)
  | .error e => .error e

mutual
/-- the children of the root after hydration (current code): the parsed nodes, every string view's
text node holding the string itself -/
def domA : View → Position → List Dom.Tree
  | .text s, pos => (if pos = .nextChildAfterText then [.comment ""] else []) ++ [.text s]
  | .unit, _ => [.comment ""]
  | .elem tag as c, _ =>
    [.elem tag ((Html.expectedAttrs (attrsOf as)).map fun a => (String.ofList a.1, String.ofList a.2))
      (if isVoidT tag then [] else if viewExists c then domA c .firstChild else [])]
  | .tuple vs, pos => domAL vs pos
  | .onone, _ => [.comment ""]
  | .osome v, pos => domA v pos
  | .either _ _ v, pos => domA v pos
  | .vec vs, pos => domAL vs pos ++ [.comment ""]
  | .any _ v, pos => domA v pos
def domAL : List View → Position → List Dom.Tree
  | [], _ => []
  | v :: vs, pos => domA v pos ++ domAL vs (after true v pos)
end

/-! ## parsed HTML as DOM nodes -/

inductive IdTree where
  | node (id : Id) (kids : List IdTree)
  deriving Repr, Inhabited

def IdTree.id : IdTree → Id
  | .node i _ => i

def setAttrs (d : Dom) (x : Id) : List (Str × Str) → Dom
  | [] => d
  | (n, v) :: r => setAttrs (d.setAttribute x (String.ofList n) (String.ofList v)) x r

mutual
/-- one native node per parsed node, created in document order and appended to `p` -/
def loadTree : HTree → Id → Dom → Dom × IdTree
  | .text s, p, d =>
    let (d, id) := d.createTextNode (String.ofList s)
    (d.insertNode p id none, .node id [])
  | .comment s, p, d =>
    let (d, id) := d.createComment (String.ofList s)
    (d.insertNode p id none, .node id [])
  | .elem tag attrs kids, p, d =>
    let (d, id) := d.createElement (String.ofList tag)
    let d := setAttrs d id attrs
    let d := d.insertNode p id none
    let (d, ks) := loadTrees kids id d
    (d, .node id ks)
def loadTrees : List HTree → Id → Dom → Dom × List IdTree
  | [], _, d => (d, [])
  | t :: ts, p, d =>
    let (d, i) := loadTree t p d
    let (d, is) := loadTrees ts p d
    (d, i :: is)
end

/-- a fresh document: a root `<div>` (id 0) holding the parsed nodes -/
def loadRoot (ts : List HTree) : Dom × Id × List IdTree :=
  let (d, root) := ({} : Dom).createElement "div"
  let (d, f) := loadTrees ts root d
  (d, root, f)

mutual
/-- `d` holds the parsed node `t` as node `i` (children `ks`) with parent `p` -/
def real (d : Dom) : HTree → IdTree → Id → Prop
  | .text s, .node i ks, p =>
    ks = [] ∧ ∃ r, d.get? i = some r ∧ r.kind = .text ∧ r.data = String.ofList s ∧ r.parent = some p
  | .comment s, .node i ks, p =>
    ks = [] ∧ ∃ r, d.get? i = some r ∧ r.kind = .comment ∧ r.data = String.ofList s ∧ r.parent = some p
  | .elem tag attrs kids, .node i ks, p =>
    ∃ r, d.get? i = some r ∧ r.kind = .elem (String.ofList tag) ∧ r.parent = some p ∧
      r.attrs = attrs.map (fun a => (String.ofList a.1, String.ofList a.2)) ∧
      r.kids = ks.map IdTree.id ∧ (ks.map IdTree.id).Nodup ∧ realL d kids ks i
def realL (d : Dom) : List HTree → List IdTree → Id → Prop
  | [], [], _ => True
  | t :: ts, i :: is, p => real d t i p ∧ realL d ts is p
  | _, _, _ => False
end

/-- `root` is an element of `d` whose children are exactly the forest `f`, which realises `ts` -/
def Realises (d : Dom) (root : Id) (f : List IdTree) (ts : List HTree) : Prop :=
  (∃ r, d.get? root = some r ∧ r.kind.isElem = true ∧ r.kids = f.map IdTree.id) ∧
    (f.map IdTree.id).Nodup ∧ realL d ts f root

mutual
/-- executable form of `real` (sound: `real_of_realB` in Proofs/HydrateWalk.lean) -/
def realB (d : Dom) : HTree → IdTree → Id → Bool
  | .text s, .node i ks, p =>
    ks.isEmpty && (match d.get? i with
      | some r => r.kind == .text && r.data == String.ofList s && r.parent == some p
      | none => false)
  | .comment s, .node i ks, p =>
    ks.isEmpty && (match d.get? i with
      | some r => r.kind == .comment && r.data == String.ofList s && r.parent == some p
      | none => false)
  | .elem tag attrs kids, .node i ks, p =>
    match d.get? i with
    | some r =>
      r.kind == .elem (String.ofList tag) && r.parent == some p &&
        r.attrs == attrs.map (fun a => (String.ofList a.1, String.ofList a.2)) &&
        r.kids == ks.map IdTree.id && decide ((ks.map IdTree.id).Nodup) && realLB d kids ks i
    | none => false
def realLB (d : Dom) : List HTree → List IdTree → Id → Bool
  | [], [], _ => true
  | t :: ts, i :: is, p => realB d t i p && realLB d ts is p
  | _, _, _ => false
end

/-- executable form of `Realises` -/
def realisesB (d : Dom) (root : Id) (f : List IdTree) (ts : List HTree) : Bool :=
  (match d.get? root with
   | some r => r.kind.isElem && r.kids == f.map IdTree.id
   | none => false) && decide ((f.map IdTree.id).Nodup) && realLB d ts f root

/-- loading a parsed forest below a fresh root gives a DOM that holds it -/
def loadOK (ts : List HTree) : Bool :=
  let (d, root, f) := loadRoot ts
  realisesB d root f ts

/-! ## specification of the binding -/

mutual
/-- the state that adopts the nodes of `dom v pos`, front to back; returns the nodes left over -/
def adopt : View → Position → List IdTree → State × List IdTree
  | .text s, pos, f =>
    let f := if pos = .nextChildAfterText then f.drop 1 else f
    match f with
    | .node i _ :: rest => (.text i s, rest)
    | [] => (.text 0 s, [])
  | .unit, _, f =>
    match f with
    | .node i _ :: rest => (.unit i, rest)
    | [] => (.unit 0, [])
  | .elem tag as c, _, f =>
    match f with
    | .node i ks :: rest =>
      if !viewExists c || !escKids tag then (.elem i (as.map hydrateAttr) none, rest)
      else (.elem i (as.map hydrateAttr) (some (adopt c .firstChild ks).1), rest)
    | [] => (.elem 0 (as.map hydrateAttr) none, [])
  | .tuple vs, pos, f =>
    let (sts, rest) := adoptL vs pos f
    (.tuple sts, rest)
  | .onone, _, f =>
    match f with
    | .node i _ :: rest => (.either 1 (.unit i), rest)
    | [] => (.either 1 (.unit 0), [])
  | .osome v, pos, f =>
    let (st, rest) := adopt v pos f
    (.either 0 st, rest)
  | .either _ i v, pos, f =>
    let (st, rest) := adopt v pos f
    (.either i st, rest)
  | .vec vs, pos, f =>
    let (sts, rest) := adoptL vs pos f
    match rest with
    | .node m _ :: rest' => (.vec sts m, rest')
    | [] => (.vec sts 0, [])
  | .any ty v, pos, f =>
    let (st, rest) := adopt v pos f
    (.any ty st, rest)
def adoptL : List View → Position → List IdTree → List State × List IdTree
  | [], _, f => ([], f)
  | v :: vs, pos, f =>
    let (st, rest) := adopt v pos f
    let (sts, rest') := adoptL vs (after true v pos) rest
    (st :: sts, rest')
end

mutual
/-- every node the state names exists in `d` with the kind the state expects, and the node of a
text state carries the retained string — `" "` where the retained string is `""` (strings.rs) -/
def bound (d : Dom) : State → Bool
  | .text i s =>
    d.kindOf i == some .text && (d.get? i).map (·.data) == some (if s = "" then " " else s)
  | .unit i => d.kindOf i == some .comment
  | .elem i _ none => d.isElement i
  | .elem i _ (some c) => d.isElement i && bound d c
  | .tuple sts => boundL d sts
  | .either _ st => bound d st
  | .vec sts m => boundL d sts && d.kindOf m == some .comment
  | .any _ st => bound d st
def boundL (d : Dom) : List State → Bool
  | [] => true
  | s :: ss => bound d s && boundL d ss
end

/-! ## observables -/

mutual
/-- a parsed forest as `Dom.Tree`s (what `serializeKids` of the loaded root shows) -/
def toDomTree : HTree → Dom.Tree
  | .text s => .text (String.ofList s)
  | .comment s => .comment (String.ofList s)
  | .elem tag attrs kids =>
    .elem (String.ofList tag) (attrs.map fun a => (String.ofList a.1, String.ofList a.2)) (toDomTrees kids)
def toDomTrees : List HTree → List Dom.Tree
  | [] => []
  | t :: ts => toDomTree t :: toDomTrees ts
end


def pushText (s : String) : List Dom.Tree → List Dom.Tree
  | .text u :: r => if s = "" then .text u :: r else .text (s ++ u) :: r
  | r => if s = "" then r else .text s :: r

mutual
def stripT : Dom.Tree → List Dom.Tree → List Dom.Tree
  | .comment _, acc => acc
  | .text s, acc => pushText s acc
  | .elem tag as kids, acc => .elem tag as (stripL kids) :: acc
/-- comments removed, adjacent text nodes merged, empty text nodes dropped -/
def stripL : List Dom.Tree → List Dom.Tree
  | [] => []
  | t :: ts => stripT t (stripL ts)
end

mutual
def treeBeq : Dom.Tree → Dom.Tree → Bool
  | .text a, .text b => a == b
  | .comment a, .comment b => a == b
  | .elem t1 a1 k1, .elem t2 a2 k2 => t1 == t2 && a1 == a2 && treesBeq k1 k2
  | _, _ => false
def treesBeq : List Dom.Tree → List Dom.Tree → Bool
  | [], [] => true
  | a :: as, b :: bs => treeBeq a b && treesBeq as bs
  | _, _ => false
end

mutual
def stateBeq : State → State → Bool
  | .text i s, .text j t => i == j && s == t
  | .unit i, .unit j => i == j
  | .elem i as none, .elem j bs none => i == j && as == bs
  | .elem i as (some c), .elem j bs (some e) => i == j && as == bs && stateBeq c e
  | .tuple a, .tuple b => statesBeq a b
  | .either i a, .either j b => i == j && stateBeq a b
  | .vec a m, .vec b n => m == n && statesBeq a b
  | .any t a, .any u b => Ty.beq t u && stateBeq a b
  | _, _ => false
def statesBeq : List State → List State → Bool
  | [], [] => true
  | a :: as, b :: bs => stateBeq a b && statesBeq as bs
  | _, _ => false
end

mutual
/-- every string the view shows as text (the input class of F-C05-1 is `"" ∈ texts v`) -/
def texts : View → List String
  | .text s => [s]
  | .unit => []
  | .elem _ _ c => texts c
  | .tuple vs => textsL vs
  | .onone => []
  | .osome v => texts v
  | .either _ _ v => texts v
  | .vec vs => textsL vs
  | .any _ v => texts v
def textsL : List View → List String
  | [] => []
  | v :: vs => texts v ++ textsL vs
end

def hasEmptyText (v : View) : Bool := (texts v).contains ""

mutual
/-- the input class of F-C05-2: an element that does not escape its children (`script`, `style`,
`textarea`, `noscript`: `ESCAPE_CHILDREN = false`) has children — `hydrate` keeps no state for them -/
def hasRawKids : View → Bool
  | .elem tag _ c => (!escKids tag && viewExists c) || hasRawKids c
  | .tuple vs => hasRawKidsL vs
  | .osome v => hasRawKids v
  | .either _ _ v => hasRawKids v
  | .vec vs => hasRawKidsL vs
  | .any _ v => hasRawKids v
  | _ => false
def hasRawKidsL : List View → Bool
  | [] => false
  | v :: vs => hasRawKids v || hasRawKidsL vs
end

/-! ## retained state up to node identity -/

inductive Shape where
  | text (s : String)
  | unit
  | elem (attrs : List AttrState) (child : Option Shape)
  | tuple (l : List Shape)
  | either (i : Nat) (s : Shape)
  | vec (l : List Shape)
  | any (ty : Ty) (s : Shape)
  deriving Repr, Inhabited

/-- an element without children: `Some(placeholder)` (client-built) and `None` (hydrated) coincide -/
def Shape.elemOf (as : List AttrState) : Shape → Shape
  | .unit => .elem as none
  | sh => .elem as (some sh)

mutual
/-- the retained state with node ids forgotten -/
def nshape : State → Shape
  | .text _ s => .text s
  | .unit _ => .unit
  | .elem _ as none => .elem as none
  | .elem _ as (some c) => Shape.elemOf as (nshape c)
  | .tuple sts => .tuple (nshapeL sts)
  | .either i st => .either i (nshape st)
  | .vec sts _ => .vec (nshapeL sts)
  | .any ty st => .any ty (nshape st)
def nshapeL : List State → List Shape
  | [] => []
  | s :: ss => nshape s :: nshapeL ss
end

/-! ## `StaticVec` (the view behind `Fragment`) among the children of an element

`View` has no constructor for it; the model covers the shape the defect F-C05-3 needs: an element
whose children are `pre… , StaticVec(items), post…`.  For printing and for the walk a `StaticVec` is
its items inlined (iterators.rs `to_html_with_buf`, `hydrate`: the items in order, no marker); what
it adds is the recorded parent element, used by `rebuild`. -/

structure FragState where
  states : List State
  parent : Option Id
  deriving Repr, Inhabited

def elemOpt (d : Dom) (x : Option Id) : Option Id :=
  match x with
  | some i => if d.isElement i then some i else none
  | none => none

/-- `StaticVec::hydrate` after the repair `fix: an empty StaticVec hydrated as the first child …`:
the items, then `parent` = the cursor's node itself while the position is still `FirstChild`
(nothing hydrated under this parent yet), its parent element otherwise -/
def fragParent (d : Dom) (c : Cur) : Option Id :=
  if c.pos = .firstChild then elemOpt d (some c.node) else elemOpt d (d.getParent c.node)

/-- before the repair: always `cursor.current().parent_element()` -/
def fragParentOld (d : Dom) (c : Cur) : Option Id := elemOpt d (d.getParent c.node)

/-- `StaticVec::rebuild`: unmount every item, `build` the new list, mount it at the **end** of the
recorded parent (`expect("parent should always be Some() on a StaticVec rebuild()")`) -/
def rebuildFrag (vs : List View) (st : FragState) (d : Dom) : Dom × FragState :=
  let d := unmountList st.states d
  match st.parent with
  | none => (d.err "panic: parent should always be Some() on a StaticVec rebuild()", st)
  | some p =>
    let (d, sts) := buildList vs d
    (mountList sts d p none, ⟨sts, some p⟩)

structure FragRun where
  outcome : Except HydrationError Unit
  created : Nat
  kids : List Dom.Tree
  errs : List String
  deriving Repr

/-- `<tag>pre… items… post…</tag>` parsed into `ts`, loaded, hydrated, the fragment rebuilt with `itemsB`
(`old` = before the repair of F-C05-3) -/
def runFragHydrated (old : Bool) (ts : List HTree) (tag : String) (pre itemsA itemsB post : List View)
    (preB : List View := pre) (postB : List View := post) : FragRun :=
  let (d, root, _) := loadRoot ts
  let el := elemTarget d ⟨root, .firstChild⟩
  if !d.isElement el then ⟨.error (.element tag el), 0, (serializeKids d root).getD [], d.errs⟩ else
  match hydrateList d pre ⟨el, .firstChild⟩ with
  | .error e => ⟨.error e, 0, (serializeKids d root).getD [], d.errs⟩
  | .ok o1 =>
    match hydrateList d itemsA o1.cur with
    | .error e => ⟨.error e, 0, (serializeKids d root).getD [], d.errs⟩
    | .ok o2 =>
      let parent := if old then fragParentOld d o2.cur else fragParent d o2.cur
      match hydrateList d post o2.cur with
      | .error e => ⟨.error e, 0, (serializeKids d root).getD [], d.errs⟩
      | .ok o3 =>
        let d := settleL o3.states (settleL o2.states (settleL o1.states d))
        -- rebuild: the tuple of children, left to right
        let (d, _) := rebuildList false preB o1.states d
        let (d, _) := rebuildFrag itemsB ⟨o2.states, parent⟩ d
        let (d, _) := rebuildList false postB o3.states d
        ⟨.ok (), o1.created + o2.created + o3.created, (serializeKids d root).getD [], d.errs⟩

/-- the client-built twin -/
def runFragCsr (tag : String) (pre itemsA itemsB post : List View)
    (preB : List View := pre) (postB : List View := post) : List Dom.Tree × List String :=
  let (d, root) := ({} : Dom).createElement "div"
  let (d, el) := d.createElement tag
  let (d, s1) := buildList pre d
  let (d, s2) := buildList itemsA d
  let (d, s3) := buildList post d
  let d := mountList s3 (mountList s2 (mountList s1 d el none) el none) el none
  let d := d.insertNode root el none
  let (d, _) := rebuildList false preB s1 d
  let (d, _) := rebuildFrag itemsB ⟨s2, some el⟩ d
  let (d, _) := rebuildList false postB s3 d
  ((serializeKids d root).getD [], d.errs)

def fragLikeCsr (old : Bool) (ts : List HTree) (tag : String) (pre itemsA itemsB post : List View)
    (preB : List View := pre) (postB : List View := post) : Bool :=
  let h := runFragHydrated old ts tag pre itemsA itemsB post preB postB
  let c := runFragCsr tag pre itemsA itemsB post preB postB
  match h.outcome with
  | .ok _ => h.created == 0 && h.errs.isEmpty && c.2.isEmpty && treesBeq (stripL h.kids) (stripL c.1)
  | .error _ => false

/-! ## the other `RenderHtml` implementors

They share `to_html` / `hydrate` / `rebuild` with a modelled constructor and are expressed through it
(lean/Driver/C05.lean): `keyed(..)` = `Vec` of the item views (view/keyed.rs: items, then `<!>` and
`NextChild` — since the repair `fix: a keyed list must thread the hydration position …`), `Result<T, E>` =
`Option<T>` (view/error_boundary.rs: `Err` = the `<!>` of `()` — since the repair `fix: the marker a
Result::Err renders …`), numbers / `Arc<str>` / `Cow<str>` = `String`, `EitherOf3` = `.either 3`, arrays =
tuples, `OwnedView` = its content, a closure = an `AnyView` that is always replaced on rebuild.
`InertElement` (html/mod.rs) = the static element it was rendered from, except that its `hydrate` does not
walk the children (`hydrateInert`); `C05_inert_walk` shows that this leaves cursor and position the same. -/

/-- `InertElement::hydrate`: the step of an element, the cast (`unwrap`), `NextChild` -/
def hydrateInert (d : Dom) (c : Cur) : Except HydrationError Out :=
  let n := elemTarget d c
  if d.isElement n then .ok ⟨.elem n [] none, ⟨n, .nextChild⟩, 0⟩ else .error (.element "" n)

def htmlKeyedOldL : List View → Position → Str
  | [], _ => []
  | v :: vs, pos => html true v pos ++ htmlKeyedOldL vs .nextChild

/-- `Keyed::to_html_with_buf` **before the repair**: `NextChild` forced after every item, the position not
touched by the trailing `<!>`; returns the HTML and the position it leaves -/
def htmlKeyedOld (items : List View) (pos : Position) : Str × Position :=
  (htmlKeyedOldL items pos ++ marker, if items.isEmpty then pos else .nextChild)

/-- `Result::Err` in `to_html_with_buf` **before the repair**: `<!>`, position untouched -/
def htmlErrOld (pos : Position) : Str × Position := (marker, pos)

/-- `ErrorBoundaryView::to_html_with_buf` (leptos/src/error_boundary.rs) before the repair of F-C05-7: the children
were rendered with a *copy* of the position and the copy was dropped, so what follows the boundary was rendered from
the position *before* it.  The tuple `(before…, <ErrorBoundary>{kids}</ErrorBoundary>, after…)` as that code printed
it (regression witness; the repaired boundary is transparent: `.any`). -/
def htmlEbOld (before : List View) (kids : View) (after : List View) : Str :=
  htmlL true before .firstChild ++ html true kids (afterL true before .firstChild) ++
    htmlL true after (afterL true before .firstChild)

/-- does hydrating `v` against the DOM a browser builds from `s` succeed? -/
def hydratesOn (s : Str) (v : View) : Bool :=
  match Html.parse s with
  | none => false
  | some ts =>
    let (d, root, _) := loadRoot ts
    match hydrateFrom d root v with
    | .ok _ => true
    | .error _ => false

/-! ## the two runs the property compares -/

/-- SSR of `a`, parsed, loaded below a root, hydrated with `a`, rebuilt with `b`:
outcome, nodes created by hydration, children of the root afterwards -/
structure HydRun where
  outcome : Except HydrationError Unit
  created : Nat
  kids : Option (List Dom.Tree)
  deriving Repr

def runHydrated (ts : List HTree) (a b : View) : HydRun :=
  let (d, root, _) := loadRoot ts
  match hydrateDom d root a with
  | .error e => ⟨.error e, 0, serializeKids d root⟩
  | .ok (o, d) =>
    let (d', _) := rebuild false b o.state d
    ⟨.ok (), o.created, serializeKids d' root⟩

/-- the same run before the repair of F-C05-1 -/
def runHydratedOld (ts : List HTree) (a b : View) : HydRun :=
  let (d, root, _) := loadRoot ts
  match hydrateDomOld d root a with
  | .error e => ⟨.error e, 0, serializeKids d root⟩
  | .ok (o, d) =>
    let (d', _) := rebuild false b o.state d
    ⟨.ok (), o.created, serializeKids d' root⟩

/-- `a` built and mounted into a fresh root, rebuilt with `b`: children of the root afterwards -/
def runCsr (a b : View) : Option (List Dom.Tree) :=
  let (d, root) := ({} : Dom).createElement "div"
  let (d, st) := build a d
  let d := mount st d root none
  let (d, _) := rebuild false b st d
  serializeKids d root

def likeCsrOf (h : HydRun) (a b : View) : Bool :=
  match h.outcome, h.kids, runCsr a b with
  | .ok _, some k1, some k2 => h.created == 0 && treesBeq (stripL k1) (stripL k2)
  | _, _, _ => false

/-- the property's oracle on one pair of views -/
def likeCsr (ts : List HTree) (a b : View) : Bool := likeCsrOf (runHydrated ts a b) a b

/-- the oracle on the code before the repair of F-C05-1 -/
def likeCsrOld (ts : List HTree) (a b : View) : Bool := likeCsrOf (runHydratedOld ts a b) a b

/-! ## `Suspend` and the streamed forms (tachys/src/reactive_graph/suspense.rs, C07's `Model/Stream`)

`View` has no constructor for `Suspend`; a `Suspend` whose future is the base future `fid` and whose value is the
view `v` is carried as `.any (suspTy fid) (.osome v)`: for `to_html`, `hydrate::<true>`, `build` and `rebuild` with
the data present (`now_or_never` = `Some`) it *is* `Option::Some(v)` (suspense.rs: `hydrate` = `initial.hydrate`,
`build` = `initial.build`, `rebuild` = `Some(value).rebuild`, `resolve` = `Some(inner.await.resolve().await)`),
which is what every definition above computes for `.any _ (.osome v)`.  On the client every future is ready
(`clientOf`: the tag no longer names a future; two `Suspend`s have one Rust type).

On the server `compile` is `to_html_async_with_buf::<OUT_OF_ORDER>` for the whole grammar with the `Position`
threaded (C07's own `compile` has no positions): it produces a builder program of `Model/Stream` (`Stream.Op`), which
`Stream.startStream` / `Run.poll` run against any completion schedule and `Stream.applyScripts` replays on the client.
* every view but `Suspend`: the synchronous rules (`html`, `after`), cut into `push_sync` pieces where a child may
  suspend (element: open tag, children, close tag; tuple / `Vec` / `Option` / `Either` / `AnyView`: pass through);
* `Suspend`, future ready at render time (`fid ∈ done0`): the value rendered in place;
* pending, in-order: `buf.next_id(); buf.push_async(…)`, the future's sub-builder renders the value from a *copy* of
  the position, and the caller continues with `Position::NextChild` — a guess: right iff the value leaves `NextChild`;
* pending, out-of-order: `buf.next_id(); push_fallback((), &mut copy); push_async_out_of_order(fut, position)` (the value is
  rendered later, with `escape = true`, from another copy), and the caller continues with its position unchanged — a
  guess as well: right iff the value leaves the position it started from.
`Agree` is the decidable condition "every guess is right"; under it the resolved document of the program is the
synchronous HTML (`compile_doc`, Proofs/HydrateStream), otherwise the following string may lose or gain a `<!>`
(class `suspend-position`, F-C05-6).  A `Suspend` inside the value of a pending `Suspend` is rendered when the outer
future resolves: `compileB` (continuation style; `Op.ite` = the `now_or_never` the stream machine evaluates then),
`AgreeB` (its guess must be right whether it turns out ready or pending). -/

def suspTy (fid : Nat) : Ty := .elem "#suspend" [] (.arr fid .unit)

def suspFid : Ty → Option Nat
  | .elem tag [] (.arr n .unit) => if tag = "#suspend" then some n else none
  | _ => none

/-- the tag under which a `<Suspense>` / `<Transition>` boundary (leptos/src/suspense_component.rs `SuspenseBoundary`,
fallback `()`) whose children have no asynchronous part is carried (`side`: which of the two views of a rebuild it
belongs to — a rebuild always replaces a boundary).  For `hydrate` / `build` it is its children (plus the detached
fallback it keeps alive); rendered asynchronously it is always *pending*: its future resolves once its task-set
effect has run, one executor turn after rendering (`Stream.Fut.tick`), so it takes the same two branches as a
pending `Suspend` — `next_id`, `push_async` + `NextChild` in order; `push_fallback` + `push_async_out_of_order`,
position unchanged, out of order. -/
def boundaryTy (side : Nat) : Ty := .elem "#suspense" [] (.arr side .unit)

def isBoundary : Ty → Bool
  | .elem tag [] (.arr _ .unit) => tag = "#suspense"
  | _ => false

def boundaryFut : Stream.Fut := { deps := [], tick := true }

mutual
/-- `<Suspense>` / `<Transition>` boundaries in a view -/
def boundaries : View → Nat
  | .elem _ _ c => boundaries c
  | .tuple vs => boundariesL vs
  | .osome v => boundaries v
  | .either _ _ v => boundaries v
  | .vec vs => boundariesL vs
  | .any ty v => (if isBoundary ty then 1 else 0) + boundaries v
  | _ => 0
def boundariesL : List View → Nat
  | [] => 0
  | v :: vs => boundaries v + boundariesL vs
end

mutual
/-- the client's view: every future is ready, `Suspend<T>` is one type whatever its future -/
def clientOf : View → View
  | .elem tag as c => .elem tag as (clientOf c)
  | .tuple vs => .tuple (clientOfL vs)
  | .osome v => .osome (clientOf v)
  | .either n i v => .either n i (clientOf v)
  | .vec vs => .vec (clientOfL vs)
  | .any ty v => .any (match suspFid ty with | some _ => suspTy 0 | none => ty) (clientOf v)
  | v => v
def clientOfL : List View → List View
  | [] => []
  | v :: vs => clientOf v :: clientOfL vs
end

mutual
/-- the base futures the `Suspend`s of a view wait for, in document order -/
def fidsOf : View → List Nat
  | .elem _ _ c => fidsOf c
  | .tuple vs => fidsOfL vs
  | .osome v => fidsOf v
  | .either _ _ v => fidsOf v
  | .vec vs => fidsOfL vs
  | .any ty v => (match suspFid ty with | some f => [f] | none => []) ++ fidsOf v
  | _ => []
def fidsOfL : List View → List Nat
  | [] => []
  | v :: vs => fidsOf v ++ fidsOfL vs
end

mutual
/-- how deep `Suspend`s are nested in a view (0 = none) -/
def suspDepth : View → Nat
  | .elem _ _ c => suspDepth c
  | .tuple vs => suspDepthL vs
  | .osome v => suspDepth v
  | .either _ _ v => suspDepth v
  | .vec vs => suspDepthL vs
  | .any ty v => (match suspFid ty with | some _ => 1 | none => 0) + suspDepth v
  | _ => 0
def suspDepthL : List View → Nat
  | [] => 0
  | v :: vs => max (suspDepth v) (suspDepthL vs)
end

def suspFut (f : Nat) : Stream.Fut := { deps := [f], tick := false }

def isSyncOp : Stream.Op → Bool
  | .sync _ => true
  | _ => false

/-- what a run of `push_sync`s leaves in `sync_buf` -/
def syncCat : List Stream.Op → Str
  | [] => []
  | .sync s :: r => s ++ syncCat r
  | _ :: r => syncCat r

/-- `HtmlElement::to_html_async_with_buf` after the children: for `<textarea>`, "if the children did not push any
asynchronous chunk, everything they wrote is still at the end of the synchronous buffer" and is replaced by its
escaped form (`kidsBody`); otherwise nothing changes -/
def kidsOps (tag : String) (ops : List Stream.Op) : List Stream.Op :=
  if tag.toList = Html.tTextarea && ops.all isSyncOp then [.sync (Html.textareaBody true true (syncCat ops))] else ops

mutual
/-- `to_html_async_with_buf::<ooo>` of a view that is rendered *later* — the value of a `Suspend` that was pending,
    rendered by its future's sub-builder once the future resolves.  Whether a `Suspend` inside it is ready is only
    known then (`Op.ite` = `now_or_never`, evaluated by the stream machine when the body runs), and the position the
    rest continues with depends on it: continuation style, `k` = what is rendered after this view from the position
    it leaves. -/
def compileB (ooo : Bool) (esc : Bool) : View → Position → (Position → List Stream.Op) → List Stream.Op
  | .elem tag as c, _, k =>
    .sync ('<' :: tag.toList ++ Html.attrsHtml (attrsOf as) ++ ['>']) ::
      ((if isVoidT tag then []
        else (if viewExists c then kidsOps tag (compileB ooo (escKids tag) c .firstChild (fun _ => [])) else []) ++
             [.sync ('<' :: '/' :: tag.toList ++ ['>'])]) ++ k .nextChild)
  | .tuple vs, pos, k => compileBL ooo esc vs pos k
  | .osome v, pos, k => compileB ooo esc v pos k
  | .either _ _ v, pos, k => compileB ooo esc v pos k
  | .vec vs, pos, k =>
    compileBL ooo esc vs pos (fun p => (if esc then [.sync marker] else []) ++ k (if esc then .nextChild else p))
  | .any ty v, pos, k =>
    match suspFid ty with
    | none => compileB ooo esc v pos k
    | some f =>
      [.ite (suspFut f) (compileB ooo esc v pos k)
        (if ooo then
          [.nextId, .fallback marker, .ooo (suspFut f) true (compileB ooo true v pos (fun _ => [])) none] ++ k pos
         else [.nextId, .async (suspFut f) (compileB ooo esc v pos (fun _ => []))] ++ k .nextChild)]
  | .text s, pos, k => .sync (html esc (.text s) pos) :: k .nextChildAfterText
  | .unit, pos, k => .sync (html esc .unit pos) :: k (after esc .unit pos)
  | .onone, pos, k => .sync (html esc .onone pos) :: k (after esc .onone pos)
def compileBL (ooo : Bool) (esc : Bool) : List View → Position → (Position → List Stream.Op) → List Stream.Op
  | [], pos, k => k pos
  | v :: vs, pos, k => compileB ooo esc v pos (fun p => compileBL ooo esc vs p k)
end

mutual
/-- every `Suspend` of a view that is rendered later leaves the position the server would guess, should it be pending
    then (whether it will be is not known before) -/
def AgreeB (ooo : Bool) (esc : Bool) : View → Position → Bool
  | .elem tag _ c, _ =>
    isVoidT tag || !viewExists c ||
      (AgreeB ooo (escKids tag) c .firstChild &&
        (tag.toList != Html.tTextarea || (compileB ooo (escKids tag) c .firstChild (fun _ => [])).all isSyncOp))
  | .tuple vs, pos => AgreeBL ooo esc vs pos
  | .osome v, pos => AgreeB ooo esc v pos
  | .either _ _ v, pos => AgreeB ooo esc v pos
  | .vec vs, pos => AgreeBL ooo esc vs pos
  | .any ty v, pos =>
    match suspFid ty with
    | none => AgreeB ooo esc v pos
    | some _ =>
      if ooo then esc && AgreeB ooo true v pos && decide (after true v pos = pos)
      else AgreeB ooo esc v pos && decide (after esc v pos = .nextChild)
  | _, _ => true
def AgreeBL (ooo : Bool) (esc : Bool) : List View → Position → Bool
  | [], _ => true
  | v :: vs, pos => AgreeB ooo esc v pos && AgreeBL ooo esc vs (after esc v pos)
end

mutual
/-- `RenderHtml::to_html_async_with_buf::<ooo>(buf, position, escape)` at render time: the calls on the `StreamBuilder`
    and the `Position` left behind; `done0` = the futures already completed when the view is rendered (the value of a
    `Suspend` that is pending then is rendered later: `compileB`) -/
def compile (ooo : Bool) (done0 : List Nat) (esc : Bool) : View → Position → List Stream.Op × Position
  | .elem tag as c, _ =>
    (.sync ('<' :: tag.toList ++ Html.attrsHtml (attrsOf as) ++ ['>']) ::
      (if isVoidT tag then []
       else (if viewExists c then kidsOps tag (compile ooo done0 (escKids tag) c .firstChild).1 else []) ++
            [.sync ('<' :: '/' :: tag.toList ++ ['>'])]),
     .nextChild)
  | .tuple vs, pos => compileL ooo done0 esc vs pos
  | .osome v, pos => compile ooo done0 esc v pos
  | .either _ _ v, pos => compile ooo done0 esc v pos
  | .vec vs, pos =>
    let r := compileL ooo done0 esc vs pos
    (r.1 ++ (if esc then [.sync marker] else []), if esc then .nextChild else r.2)
  | .any ty v, pos =>
    match suspFid ty with
    | none =>
      if isBoundary ty then
        (if ooo then
          ([.nextId, .fallback marker, .ooo boundaryFut true (compileB ooo true v pos (fun _ => [])) none], pos)
         else ([.nextId, .async boundaryFut (compileB ooo esc v pos (fun _ => []))], .nextChild))
      else compile ooo done0 esc v pos
    | some f =>
      if done0.contains f then compile ooo done0 esc v pos
      else if ooo then
        ([.nextId, .fallback marker, .ooo (suspFut f) true (compileB ooo true v pos (fun _ => [])) none], pos)
      else
        ([.nextId, .async (suspFut f) (compileB ooo esc v pos (fun _ => []))], .nextChild)
  | .text s, pos => ([.sync (html esc (.text s) pos)], .nextChildAfterText)
  | .unit, pos => ([.sync (html esc .unit pos)], after esc .unit pos)
  | .onone, pos => ([.sync (html esc .onone pos)], after esc .onone pos)
def compileL (ooo : Bool) (done0 : List Nat) (esc : Bool) : List View → Position → List Stream.Op × Position
  | [], pos => ([], pos)
  | v :: vs, pos =>
    let r := compile ooo done0 esc v pos
    let rs := compileL ooo done0 esc vs r.2
    (r.1 ++ rs.1, rs.2)
end

mutual
/-- every guess of a pending `Suspend` about the position it leaves is right -/
def Agree (ooo : Bool) (done0 : List Nat) (esc : Bool) : View → Position → Bool
  | .elem tag _ c, _ =>
    isVoidT tag || !viewExists c ||
      (Agree ooo done0 (escKids tag) c .firstChild &&
        -- a `<textarea>` whose children suspend is streamed unescaped
        (tag.toList != Html.tTextarea || (compile ooo done0 (escKids tag) c .firstChild).1.all isSyncOp))
  | .tuple vs, pos => AgreeL ooo done0 esc vs pos
  | .osome v, pos => Agree ooo done0 esc v pos
  | .either _ _ v, pos => Agree ooo done0 esc v pos
  | .vec vs, pos => AgreeL ooo done0 esc vs pos
  | .any ty v, pos =>
    match suspFid ty with
    | none =>
      if isBoundary ty then
        (if ooo then esc && AgreeB ooo true v pos && decide (after true v pos = pos)
         else AgreeB ooo esc v pos && decide (after esc v pos = .nextChild))
      else Agree ooo done0 esc v pos
    | some f =>
      if done0.contains f then Agree ooo done0 esc v pos
      else if ooo then esc && AgreeB ooo true v pos && decide (after true v pos = pos)
      else AgreeB ooo esc v pos && decide (after esc v pos = .nextChild)
  | _, _ => true
def AgreeL (ooo : Bool) (done0 : List Nat) (esc : Bool) : List View → Position → Bool
  | [], _ => true
  | v :: vs, pos => Agree ooo done0 esc v pos && AgreeL ooo done0 esc vs (after esc v pos)
end

mutual
/-- `Suspend::rebuild` does nothing at once: it spawns a task that runs `Some(value).rebuild(state)` later (and a
    `Suspend` inside that value spawns its own task then).  A rebuild with `b` of a state built from `a` is therefore
    the rebuild with `syncPart 0 a b` (where `b` meets a `Suspend` of `a` in place, `a`'s value stays), then — the
    tasks run in spawn order — with `syncPart 1 a b` (the values of the outermost `Suspend`s, not those of the
    `Suspend`s inside them), … and finally with `b` itself.  (The order is only observable when two states share a
    node: class `suspend-position`.) -/
def syncPart (depth : Nat) : View → View → View
  | .elem _ _ c, .elem t' as' c' => .elem t' as' (syncPart depth c c')
  | .tuple vs, .tuple ws => .tuple (syncPartL depth vs ws)
  | .osome v, .osome w => .osome (syncPart depth v w)
  | .either _ i v, .either m j w => if i = j then .either m j (syncPart depth v w) else .either m j w
  | .vec vs, .vec ws => if vs.isEmpty then .vec ws else .vec (syncPartL depth vs ws)
  | .any ty v, .any ty' w =>
    if Ty.beq ty' ty then
      (if (suspFid ty').isSome then
        (match depth with
         | 0 => .any ty v
         | n + 1 => .any ty' (syncPart n v w))
       else .any ty' (syncPart depth v w))
    else .any ty' w
  | _, b => b
def syncPartL (depth : Nat) : List View → List View → List View
  | v :: vs, w :: ws => syncPart depth v w :: syncPartL depth vs ws
  | _, ws => ws
end

def runFinished (r : Stream.Run) : Bool :=
  match r.out.getLast? with
  | some .done => true
  | some .panic => true
  | some .stuck => true
  | _ => false

/-- one `poll_next` per entry of the plan (after the futures of that entry completed) until the stream has ended -/
def runPlan (r : Stream.Run) : List (List Nat) → Stream.Run
  | [] => r
  | n :: ns => if runFinished r then r else runPlan (r.poll n) ns

/-- the futures of one step per poll, then all the others at once, then polls until the end -/
def planOf (done0 : List Nat) (steps : List (List Nat)) (fids : List Nat) : List (List Nat) :=
  steps ++ [((fids.filter fun f => !done0.contains f && !steps.any (·.contains f)).mergeSort (· ≤ ·)).eraseDups]

structure Streamed where
  /-- the concatenation of the yielded chunks -/
  raw : Str
  /-- what the browser holds once the inline scripts have run -/
  html : Str
  /-- `done`, or how the stream failed -/
  last : Option Stream.Poll

/-- `view.to_html_stream_in_order()` / `to_html_stream_out_of_order()` driven by the harness' plan -/
def stream (ooo : Bool) (done0 : List Nat) (steps : List (List Nat)) (v : View) : Streamed :=
  let prog := (compile ooo done0 true v .firstChild).1
  let r := (runPlan (Stream.startStream ooo done0 prog) (planOf done0 steps (fidsOf v))).drain 64
  let raw := Stream.itemsOf r.out
  ⟨raw, if ooo then Stream.applyScripts raw else raw, r.out.getLast?⟩

end Leptos.Hydrate
