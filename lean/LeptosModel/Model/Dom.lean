/-!
# Model/Dom — executable model of the retained DOM that tachys renders into (C03, C04, C05)

Core Lean only; every function is total and structurally recursive.  The model mirrors the
**native DOM hook** `tachys::renderer::native_dom` (/repo/tachys/src/renderer/native_dom.rs,
selected by `--cfg leptos_verif`), i.e. the `Rndr` interface that every view type goes through
(`tachys/src/renderer/dom.rs` is the `web_sys` twin with the same associated functions).

| here                                | Rust (`native_dom.rs` unless noted)                                        |
|-------------------------------------|------------------------------------------------------------------------------|
| `Dom`, `NodeRec`, `Kind`            | `Arena`, `NodeData`, `NodeKind` (no fragments / namespaces / JS properties)   |
| `Dom.create`, `createElement`, `createTextNode`, `createComment`, `createPlaceholder` | `Arena::new_node`, `Dom::create_element / create_text_node / create_comment / create_placeholder` |
| `Dom.detach`, `Dom.remove`          | `Arena::detach`, `Node::remove` = `Dom::remove` (`Mountable::unmount` of a node) |
| `Dom.insertNode p c anchor?`        | `Dom::insert_node` → `Arena::insert_before` (detaches `c` from its old parent first; `anchor == c` becomes its next sibling; `NotFoundError` when the anchor is not a child of `p`; non-element parent is a `HierarchyRequestError`; both are swallowed and logged, as `report` does) |
| `Dom.setText`                       | `Dom::set_text` → `Node::set_node_value` → `Arena::set_data`                  |
| `Dom.setAttribute / removeAttribute`| `Dom::set_attribute / remove_attribute` → `Arena::set_attr / remove_attr` (an existing attribute keeps its position; a new one is appended) |
| `classTokens`, `Dom.addClass / removeClass` | `ClassList::{tokens, validate, update, add_1, remove_1}` behind `Dom::add_class / remove_class` |
| `styleDecls`, `styleText`, `Dom.setCssProperty / removeCssProperty` | `CssStyleDeclaration::{declarations, normalize_name, update, set_property, remove_property}` |
| `Dom.firstChild / nextSibling / getParent` | `Dom::first_child / next_sibling / get_parent` (release build: no `hot-reload` comment skipping) |
| `NodeRec.muts`                      | `NodeData::mutations` (`mutation_count`)                                      |
| `Dom.errs`                          | the error log behind `take_errors()`                                          |
| `Tree`, `serialize`                 | `serialize` as a tree instead of text (no escaping to model)                  |

Not modelled (stated, never silently defaulted): the `HierarchyRequestError` for inserting an
ancestor of the parent (no view operation does it; the correspondence run checks that
`take_errors()` stays empty); lower-casing and validation of attribute *names* in
`set_attribute` (names are taken verbatim — tachys only passes its `AttributeKey::KEY`
constants); document fragments, `<template>` contents, namespaces, JS properties, listeners.

Node ids are allocated `0, 1, 2, …` (`Dom.next`), exactly as the arena does; the node table is
an association list with the newest node first, so `get?` of a just-created id never depends on
an invariant.
-/
namespace Leptos.Dom

abbrev Id := Nat

inductive Kind where
  | elem (tag : String)
  | text
  | comment
  deriving DecidableEq, Repr, Inhabited

structure NodeRec where
  kind : Kind
  parent : Option Id := none
  kids : List Id := []
  /-- insertion order; re-setting keeps the position -/
  attrs : List (String × String) := []
  data : String := ""
  /-- per-node mutation counter (`mutation_count`) -/
  muts : Nat := 0
  deriving DecidableEq, Repr, Inhabited

structure Dom where
  next : Nat := 0
  nodes : List (Id × NodeRec) := []
  /-- swallowed DOM exceptions (`take_errors()`), oldest first -/
  errs : List String := []
  deriving Repr, Inhabited

/-! ## node table -/

def getL : List (Id × NodeRec) → Id → Option NodeRec
  | [], _ => none
  | (i, r) :: rest, x => if i = x then some r else getL rest x

def modL (f : NodeRec → NodeRec) : List (Id × NodeRec) → Id → List (Id × NodeRec)
  | [], _ => []
  | (i, r) :: rest, x => if i = x then (i, f r) :: rest else (i, r) :: modL f rest x

def Dom.get? (d : Dom) (x : Id) : Option NodeRec := getL d.nodes x

def Dom.modify (d : Dom) (x : Id) (f : NodeRec → NodeRec) : Dom :=
  { d with nodes := modL f d.nodes x }

def Dom.err (d : Dom) (msg : String) : Dom := { d with errs := d.errs ++ [msg] }

/-- `Arena::new_node` -/
def Dom.create (d : Dom) (k : Kind) (data : String) : Dom × Id :=
  ({ d with next := d.next + 1, nodes := (d.next, { kind := k, data := data }) :: d.nodes }, d.next)

def Dom.createElement (d : Dom) (tag : String) : Dom × Id := d.create (.elem tag) ""
def Dom.createTextNode (d : Dom) (s : String) : Dom × Id := d.create .text s
def Dom.createComment (d : Dom) (s : String) : Dom × Id := d.create .comment s
/-- `Rndr::create_placeholder` = an empty comment -/
def Dom.createPlaceholder (d : Dom) : Dom × Id := d.createComment ""

/-! ## reads -/

def Dom.getParent (d : Dom) (x : Id) : Option Id := (d.get? x).bind (·.parent)

def Dom.kidsOf (d : Dom) (x : Id) : List Id :=
  match d.get? x with
  | some r => r.kids
  | none => []

def Dom.kindOf (d : Dom) (x : Id) : Option Kind := (d.get? x).map (·.kind)

def Kind.isElem : Kind → Bool
  | .elem _ => true
  | _ => false

def Dom.isElement (d : Dom) (x : Id) : Bool :=
  match d.get? x with
  | some r => r.kind.isElem
  | none => false

def Dom.attrsOf (d : Dom) (x : Id) : List (String × String) :=
  match d.get? x with
  | some r => r.attrs
  | none => []

def Dom.firstChild (d : Dom) (x : Id) : Option Id := (d.kidsOf x).head?

/-- element of `l` directly after the first occurrence of `x` -/
def nextIn : List Id → Id → Option Id
  | [], _ => none
  | k :: ks, x => if k = x then ks.head? else nextIn ks x

def Dom.nextSibling (d : Dom) (x : Id) : Option Id :=
  match d.getParent x with
  | some p => nextIn (d.kidsOf p) x
  | none => none

/-! ## child lists -/

/-- `Arena::detach`: remove `c` from its parent's child list (if it has a parent) -/
def Dom.detach (d : Dom) (c : Id) : Dom :=
  match d.getParent c with
  | none => d
  | some p =>
    (d.modify p fun r => { r with kids := r.kids.filter (· != c), muts := r.muts + 1 }).modify c
      fun r => { r with parent := none }

/-- `Rndr::remove` / `Node::remove` -/
def Dom.remove (d : Dom) (c : Id) : Dom := d.detach c

/-- insert `c` directly before the first occurrence of `a` (at the end if `a` is absent) -/
def insBefore : List Id → Id → Id → List Id
  | [], c, _ => [c]
  | k :: ks, c, a => if k = a then c :: k :: ks else k :: insBefore ks c a

def insAt (kids : List Id) (c : Id) : Option Id → List Id
  | none => kids ++ [c]
  | some a => insBefore kids c a

/-- `Rndr::insert_node(parent, child, anchor)` = DOM `insertBefore` -/
def Dom.insertNode (d : Dom) (p c : Id) (anchor : Option Id) : Dom :=
  if !d.isElement p then d.err "insertNode: HierarchyRequestError" else
  let bad := match anchor with
    | some a => d.getParent a != some p
    | none => false
  if bad then d.err "insertNode: NotFoundError" else
  -- inserting a node before itself: the reference becomes its next sibling
  let anchor := match anchor with
    | some a => if a = c then nextIn (d.kidsOf p) c else some a
    | none => none
  let d := d.detach c
  (d.modify p fun r => { r with kids := insAt r.kids c anchor, muts := r.muts + 1 }).modify c
    fun r => { r with parent := some p }

/-! ## data and attributes -/

/-- `Rndr::set_text` (text and comment nodes only) -/
def Dom.setText (d : Dom) (x : Id) (s : String) : Dom :=
  match d.kindOf x with
  | some .text | some .comment => d.modify x fun r => { r with data := s, muts := r.muts + 1 }
  | _ => d

def setA : List (String × String) → String → String → List (String × String)
  | [], n, v => [(n, v)]
  | (k, w) :: rest, n, v => if k = n then (k, v) :: rest else (k, w) :: setA rest n v

def getA : List (String × String) → String → Option String
  | [], _ => none
  | (k, w) :: rest, n => if k = n then some w else getA rest n

def delA : List (String × String) → String → List (String × String)
  | [], _ => []
  | (k, w) :: rest, n => if k = n then delA rest n else (k, w) :: delA rest n

/-- `Rndr::set_attribute`: counts as a mutation even when the value is unchanged -/
def Dom.setAttribute (d : Dom) (x : Id) (name value : String) : Dom :=
  if d.isElement x then
    d.modify x fun r => { r with attrs := setA r.attrs name value, muts := r.muts + 1 }
  else d.err "setAttribute: TypeError"

/-- `Rndr::remove_attribute`: removing an absent attribute is not a mutation -/
def Dom.removeAttribute (d : Dom) (x : Id) (name : String) : Dom :=
  if d.isElement x then
    d.modify x fun r =>
      match getA r.attrs name with
      | some _ => { r with attrs := delA r.attrs name, muts := r.muts + 1 }
      | none => r
  else d

def Dom.getAttribute (d : Dom) (x : Id) (name : String) : Option String :=
  getA (d.attrsOf x) name

/-! ## classList -/

/-- `char::is_ascii_whitespace` -/
def isAsciiWs (c : Char) : Bool :=
  c = ' ' || c = '\t' || c = '\n' || c = '\x0c' || c = '\r'

/-- `str::split_ascii_whitespace` (`cur` = the token being read, reversed) -/
def splitWs : List Char → List Char → List (List Char)
  | [], cur => if cur.isEmpty then [] else [cur.reverse]
  | c :: cs, cur =>
    if isAsciiWs c then
      (if cur.isEmpty then splitWs cs [] else cur.reverse :: splitWs cs [])
    else splitWs cs (c :: cur)

def dedup : List String → List String → List String
  | [], acc => acc
  | t :: ts, acc => if acc.contains t then dedup ts acc else dedup ts (acc ++ [t])

/-- `ClassList::tokens`: the ordered set of tokens of a `class` attribute value -/
def classTokens (s : String) : List String :=
  dedup ((splitWs s.toList []).map String.ofList) []

def Dom.classUpdate (d : Dom) (x : Id) (tokens : List String) : Dom :=
  if tokens.isEmpty && (d.getAttribute x "class").isNone then d
  else d.setAttribute x "class" (" ".intercalate tokens)

def classTokenError (tok : String) : Option String :=
  if tok.isEmpty then some "SyntaxError"
  else if tok.toList.any isAsciiWs then some "InvalidCharacterError"
  else none

/-- `Rndr::add_class` -/
def Dom.addClass (d : Dom) (x : Id) (tok : String) : Dom :=
  match classTokenError tok with
  | some e => d.err ("add(): " ++ e)
  | none =>
    let ts := classTokens ((d.getAttribute x "class").getD "")
    d.classUpdate x (if ts.contains tok then ts else ts ++ [tok])

/-- `Rndr::remove_class` -/
def Dom.removeClass (d : Dom) (x : Id) (tok : String) : Dom :=
  match classTokenError tok with
  | some e => d.err ("remove(): " ++ e)
  | none =>
    let ts := classTokens ((d.getAttribute x "class").getD "")
    d.classUpdate x (ts.filter (· != tok))

/-! ## inline style -/

/-- `char::is_whitespace` (Unicode `White_Space`), used by `str::trim` -/
def isWs (c : Char) : Bool :=
  let n := c.toNat
  (9 ≤ n && n ≤ 13) || n = 32 || n = 0x85 || n = 0xA0 || n = 0x1680 || (0x2000 ≤ n && n ≤ 0x200A)
    || n = 0x2028 || n = 0x2029 || n = 0x202F || n = 0x205F || n = 0x3000

def trimL (s : List Char) : List Char := ((s.dropWhile isWs).reverse.dropWhile isWs).reverse

/-- `str::split(sep)` -/
def splitChar (sep : Char) : List Char → List Char → List (List Char)
  | [], cur => [cur.reverse]
  | c :: cs, cur => if c = sep then cur.reverse :: splitChar sep cs [] else splitChar sep cs (c :: cur)

/-- `str::split_once(sep)` -/
def splitOnce (sep : Char) : List Char → List Char → Option (List Char × List Char)
  | [], _ => none
  | c :: cs, cur => if c = sep then some (cur.reverse, cs) else splitOnce sep cs (c :: cur)

/-- `CssStyleDeclaration::normalize_name` (`to_ascii_lowercase` unless `--custom`) -/
def normName (n : List Char) : List Char :=
  match n with
  | '-' :: '-' :: _ => n
  | _ => n.map Char.toLower

def setD : List (String × String) → String → String → List (String × String) := setA

/-- `CssStyleDeclaration::declarations` -/
def styleDecls (text : String) : List (String × String) :=
  (splitChar ';' text.toList []).foldl (fun out decl =>
    match splitOnce ':' decl [] with
    | none => out
    | some (n, v) =>
      let n := normName (trimL n)
      let v := trimL v
      if n.isEmpty || v.isEmpty then out else setD out (String.ofList n) (String.ofList v)) []

/-- `CssStyleDeclaration::update`: `name: value;` joined by one space -/
def styleText (decls : List (String × String)) : String :=
  " ".intercalate (decls.map fun (k, v) => k ++ ": " ++ v ++ ";")

def Dom.styleDeclsOf (d : Dom) (x : Id) : List (String × String) :=
  styleDecls ((d.getAttribute x "style").getD "")

/-- `Rndr::remove_css_property` -/
def Dom.removeCssProperty (d : Dom) (x : Id) (name : String) : Dom :=
  let n := String.ofList (normName (trimL name.toList))
  let decls := d.styleDeclsOf x
  match getA decls n with
  | some _ => d.setAttribute x "style" (styleText (delA decls n))
  | none => d

/-- `Rndr::set_css_property`: an empty (trimmed) value removes the property -/
def Dom.setCssProperty (d : Dom) (x : Id) (name value : String) : Dom :=
  let v := trimL value.toList
  if v.isEmpty then d.removeCssProperty x name else
  let n := normName (trimL name.toList)
  if n.isEmpty then d else
  d.setAttribute x "style" (styleText (setD (d.styleDeclsOf x) (String.ofList n) (String.ofList v)))

/-! ## serialisation -/

inductive Tree where
  | elem (tag : String) (attrs : List (String × String)) (kids : List Tree)
  | text (data : String)
  | comment (data : String)
  deriving Repr, Inhabited

def allSome {α : Type} : List (Option α) → Option (List α)
  | [] => some []
  | none :: _ => none
  | some a :: rest => (allSome rest).map (a :: ·)

/-- `serialize` with a depth budget: `none` if the budget runs out or an id is dangling -/
def serN : Nat → Dom → Id → Option Tree
  | 0, _, _ => none
  | n + 1, d, x =>
    match d.get? x with
    | none => none
    | some r =>
      match r.kind with
      | .text => some (.text r.data)
      | .comment => some (.comment r.data)
      | .elem tag => (allSome (r.kids.map (serN n d))).map (Tree.elem tag r.attrs)

def serListN (n : Nat) (d : Dom) (xs : List Id) : Option (List Tree) := allSome (xs.map (serN n d))

/-- the subtree below node `x` (a tree of depth `> next` cannot exist in a well-formed DOM) -/
def serialize (d : Dom) (x : Id) : Option Tree := serN (d.next + 1) d x

/-- the serialised children of `x` (what `innerHTML` shows) -/
def serializeKids (d : Dom) (x : Id) : Option (List Tree) := serListN (d.next + 1) d (d.kidsOf x)


/-! ## normal form used when two renders are compared (C03 oracle)

Attributes are a map (sorted by name), `class` is a set of tokens, `style` a map of declarations;
an empty `class` / `style` attribute is identified with an absent one. -/

def insSorted (a : String × String) : List (String × String) → List (String × String)
  | [] => [a]
  | b :: bs => if a.1 < b.1 || (a.1 == b.1 && a.2 < b.2) then a :: b :: bs else b :: insSorted a bs

def sortPairs (l : List (String × String)) : List (String × String) := l.foldr insSorted []

def normAttr (kv : String × String) : String × String :=
  if kv.1 == "class" then
    (kv.1, " ".intercalate ((sortPairs ((classTokens kv.2).map fun t => (t, ""))).map (·.1)))
  else if kv.1 == "style" then (kv.1, styleText (sortPairs (styleDecls kv.2)))
  else kv

def normAttrs (attrs : List (String × String)) : List (String × String) :=
  sortPairs ((attrs.map normAttr).filter fun kv =>
    !((kv.1 == "class" || kv.1 == "style") && kv.2.isEmpty))

mutual
def Tree.norm : Tree → Tree
  | .elem tag attrs kids => .elem tag (normAttrs attrs) (Tree.normList kids)
  | t => t
def Tree.normList : List Tree → List Tree
  | [] => []
  | t :: ts => t.norm :: Tree.normList ts
end

mutual
def Tree.beq : Tree → Tree → Bool
  | .elem t1 a1 k1, .elem t2 a2 k2 => t1 == t2 && a1 == a2 && Tree.beqList k1 k2
  | .text a, .text b => a == b
  | .comment a, .comment b => a == b
  | _, _ => false
def Tree.beqList : List Tree → List Tree → Bool
  | [], [] => true
  | a :: as, b :: bs => Tree.beq a b && Tree.beqList as bs
  | _, _ => false
end

end Leptos.Dom
