import LeptosModel.Model.Reactive
import LeptosModel.Model.Keyed
/-!
# Model/RView — mounted reactive views: render effects over the reactive graph (C04)

A reactive view program = signals and memos (`Leptos.Reactive.Prog`) + a view tree whose dynamic
parts are expressions over them.  Every dynamic part is a **render effect** of the reactive model
(`Reactive.initRenderEffect` at build, `Reactive.effUpdate` / `runEffBody` when polled); its run
rebuilds its own DOM region exactly as tachys does.  The retained state is a tree (`RState`) that
carries its DOM nodes (`N` = arena id + mutation counter): the DOM below the mount root is read off
the state tree (`serialize`), so "rebuild = fresh render" is a statement by structural induction.

| here                         | Rust                                                                                   |
|------------------------------|------------------------------------------------------------------------------------------|
| `View.text/unit/elem/seq`    | `String`, `()`, `HtmlElement<E, At, Ch>`, tuples (tachys/src/view/{strings,tuples}.rs, html/element/mod.rs) |
| `View.dynText e`             | `move || v.to_string()`: `impl Render for F: ReactiveFunction` (tachys/src/reactive_graph/mod.rs) → `RenderEffect::new(|prev| rebuild-or-build)`; `String::rebuild` = `set_text` iff the string changed |
| `Attr.dyn / cls / sty`       | `impl AttributeValue for F` (reactive_graph/mod.rs), `impl IntoClass for (&str, F)` (reactive_graph/class.rs), `impl IntoStyleValue for F` (reactive_graph/style.rs): a `RenderEffect` whose state is the last value; the DOM call happens iff the value changed.  The closures of `dyn` and `sty` return an `Option` (`None` at the value 0: `impl AttributeValue for Option<V>`, `impl IntoStyleValue for Option<..>`): `AOut.plain n (.int 0)` / `AOut.sty n (.px 0)` stand for "no such attribute / declaration" (the driver prints them so) |
| `View.either c a b`          | `move || if c { Either::Left(a) } else { Either::Right(b) }`: `Either::rebuild` (tachys/src/view/either.rs): same side → `rebuild` the branch, other side → `build`, `insert_before_this`, `unmount` |
| `View.show c a b`            | leptos `Show` (leptos/src/show.rs): `ArcMemo::new(when)` + `move || match memo.get() { true => Left(children()), false => Right(fallback.run()) }` |
| `View.forKeyed sel lists`    | leptos `For` (leptos/src/for_loop.rs): `move || keyed(each(), key, children)`, rows `<li>{k}</li>`; the list update is `Leptos.Keyed.rebuild` (tachys/src/view/keyed.rs) |
| `View.scope sid d kid`       | a component body that creates reactive state of its own before it returns its view: `let m = Memo::new(..)` / `let l = RwSignal::new(..)`; `kid` reads it through `Expr.loc`.  The value lives in the arena under the CURRENT owner (the render effect whose run constructs the view, the row's owner, the mount owner) and is disposed when that owner is cleaned up (`killAll`) |
| `View.forRows en sel lists row` | leptos `For` (`en = false`) / `ForEnumerate` (`en = true`: every row gets an index signal `ArcRwSignal::new(index)`, the state of the row's outermost `scope`, which `keyed` writes through `set_index` when a surviving row changes its position) whose rows have content of their own: `children=|k| <li>{k}{row}</li>`, every row under its own `Owner` (a child of the owner of the `<For>` component, NOT of the list's render effect: rows that the keyed diff keeps keep their reactive state) |
| `newEff`                     | `RenderEffect::new_with_value_erased` (reactive_graph/src/effect/render_effect.rs): run `fun` under the new observer, THEN spawn the task (so effects built inside `fun` are spawned before it) |
| `build`                      | `Render::build` of each of the above; element: create, attributes in order, children built then mounted (`+1` mutation per top-level child) |
| `rebuild`                    | `Render::rebuild` of a freshly constructed view against the old state: static structure is kept; a reactive attribute becomes a NEW effect over the old attribute state (`RenderEffect::new_with_value(.., state.take_value())`); a reactive child (`F::rebuild`) is built anew, mounted before the old one, the old one unmounted and dropped |
| `dropEff`, `zombies`         | dropping a `RenderEffect` drops its `EffectInner` (the task is woken and ends at its next poll) but the task keeps the value `Arc` alive until then: effects nested in that value stay alive, react, and are dropped only when the outer task is polled |
| `pollTask`                   | one poll of a render effect's task: `while rx.next().await.is_some() { if update_if_necessary { clear_sources; value = fun(value) } }` |
| `setSig`                     | `RwSignal::set` |
| `dispose`                    | dropping the `UnmountHandle` of `leptos::mount::mount_to_renderer`: `unmount()` then the state is dropped |
| `ready`                      | `hx_common::sched::ready()`: woken live tasks in spawn order |
| `render`                     | what a fresh CSR build of the view shows for given node values |

Text contents are kept symbolic (`Txt`): `int v` is `v.to_string()`, `px v` is `format!("{v}px")`, both
injective, so "the string changed" is "the value changed".  The attributes of an element are kept per
source (`AState`), i.e. `class` as the set of its tokens and `style` as a map — the level at which the
correspondence harness compares them (it sorts tokens and declarations); attribute names of one
element are pairwise different (`View.wf`).

| `View.eb kid`, `View.res c x` | leptos `ErrorBoundary` (leptos/src/error_boundary.rs) and `impl Render for Result<T, E>` (tachys/src/view/error_boundary.rs): the hook is thread-local state (`St.hook`) installed while a boundary builds its children and while an effect below it runs (`rerunIn` sets it where it passes a boundary) |

Not modelled (correspondence only, see the harness): `Suspense`, `Transition`.
-/
namespace Leptos.RView
open Leptos.Reactive (Expr Prog NodeDef)

/-! ## programs -/

inductive Txt where
  | lit (s : String)
  | int (v : Int)
  | px (v : Int)
  deriving Repr, BEq, Inhabited, DecidableEq

inductive Attr where
  | stat (name : String) (value : String)
  | dyn (name : String) (e : Expr)
  | cls (name : String) (e : Expr)
  | sty (name : String) (e : Expr)
  deriving Repr, BEq, Inhabited, DecidableEq

/-- state created by a component body -/
inductive LDef where
  | memo (body : Expr)
  | sig (init : Int)
  deriving Repr, BEq, Inhabited, DecidableEq

def LDef.isSig : LDef → Bool
  | .memo _ => false
  | .sig _ => true

/-! Expressions of the view may refer to the state of enclosing `scope`s and to the key of the enclosing
row.  `Reactive.Expr` has no constructor for that; view programs never use untracked reads
(`View.wf`), so they are used as the encoding: `rd false 0` is the row key, `rd false (j+1)` the `j`-th
enclosing `scope` (innermost first).  `Expr.resolve` replaces them when the dynamic part is built. -/
def _root_.Leptos.Reactive.Expr.key : Expr := .rd false 0
def _root_.Leptos.Reactive.Expr.loc (j : Nat) : Expr := .rd false (j + 1)

def _root_.Leptos.Reactive.Expr.resolve (ls : List Nat) (key : Int) : Expr → Expr
  | .lit n => .lit n
  | .rd true id => .rd true id
  | .rd false 0 => .lit key
  | .rd false (j + 1) => .rd true (ls.getD j 0)
  | .add a b => .add (a.resolve ls key) (b.resolve ls key)
  | .mulc k a => .mulc k (a.resolve ls key)
  | .ite c t e => .ite (c.resolve ls key) (t.resolve ls key) (e.resolve ls key)
  | .seq a b => .seq (a.resolve ls key) (b.resolve ls key)
  | .wr id a => .wr id (a.resolve ls key)

inductive View where
  | text (s : String)
  | unit
  | elem (tag : String) (attrs : List Attr) (kid : View)
  | seq (a b : View)
  | dynText (e : Expr)
  | either (c : Expr) (a b : View)
  | show (c : Expr) (a b : View)
  | forKeyed (sel : Expr) (lists : List (List Nat))
  | scope (sid : Nat) (d : LDef) (kid : View)
  | forRows (en : Bool) (sel : Expr) (lists : List (List Nat)) (row : View)
  /-- `<ErrorBoundary fallback="error">kid</ErrorBoundary>` -/
  | eb (kid : View)
  /-- `move || if c != 0 { Err(e) } else { Ok(x.to_string()) }` -/
  | res (c x : Expr)
  deriving Repr, BEq, Inhabited, DecidableEq

/-! ## retained state = DOM -/

/-- a DOM node: arena id and mutation counter -/
structure N where
  id : Nat
  muts : Nat
  deriving Repr, BEq, Inhabited, DecidableEq

/-- state of one attribute source; for the dynamic ones: the effect and the value last written to the DOM -/
inductive AState where
  | stat (name : String) (value : String)
  | dyn (e : Nat) (name : String) (x : Expr) (last : Int)
  | cls (e : Nat) (name : String) (x : Expr) (last : Bool)
  | sty (e : Nat) (name : String) (x : Expr) (last : Int)
  deriving Repr, Inhabited

inductive RState where
  | text (n : N) (s : String)
  | unit (n : N)
  | elem (n : N) (tag : String) (as : List AState) (kid : RState)
  | seq (a b : RState)
  /-- `RenderEffectState<StringState>` -/
  | dynText (e : Nat) (x : Expr) (n : N) (last : Int)
  /-- `RenderEffectState<Either<A::State, B::State>>` -/
  | either (e : Nat) (c : Expr) (a b : View) (left : Bool) (inner : RState)
  /-- `Show`: the same with the memo `m` in front of the condition -/
  | show (e m : Nat) (c : Expr) (a b : View) (left : Bool) (inner : RState)
  /-- `RenderEffectState<KeyedState>`: `texts` maps an item's `<li>` id to its text node id -/
  | forK (e : Nat) (sel : Expr) (lists : List (List Nat)) (ks : Keyed.KState) (texts : List (Nat × Nat))
  /-- a component body with the node `m` it created -/
  | scope (m : Nat) (sid : Nat) (isSig : Bool) (inner : RState)
  /-- `RenderEffectState<KeyedState>` with rows that have states of their own: `items` is the chain of
  the rows (`rowCons` / `rowNil`) in DOM order, each row the state of `<li>{k}{row}</li>` -/
  | rows (e : Nat) (en : Bool) (sel : Expr) (lists : List (List Nat)) (row : View) (ks : Keyed.KState) (items : RState)
  | rowCons (key : Nat) (ix : Option Nat) (row : RState) (rest : RState)
  | rowNil
  /-- `OwnedViewState<RenderEffect<ErrorBoundaryViewState>>`: the effect `e` reads the memo `m`
  (`errors_empty`) over the signal `s` (`errors`, here: how many errors are registered); the children are
  always there, `fb` is the text node of the fallback while it is shown instead of them -/
  | errb (e m s : Nat) (fb : Option N) (kid : RState)
  /-- `RenderEffectState<ResultState<StringState>>`: `last = none` while the value is `Err` (the node is
  then the `()` placeholder); `hook` = the boundary the state throws to (`ResultState::hook`) -/
  | res (e : Nat) (c x : Expr) (n : N) (last : Option Int) (hook : Option Nat)
  /-- a state held by a task outside the tree, with the error hook its effects captured -/
  | hooked (h : Option Nat) (inner : RState)
  /-- what the task of a dropped `Result` effect still holds: a `ResultState` whose error is registered -/
  | errTok (s : Nat)
  deriving Repr, Inhabited

/-- number of top-level DOM nodes of a state (what `mount` inserts and `unmount` removes) -/
def RState.tops : RState → Nat
  | .text _ _ => 1
  | .unit _ => 1
  | .elem _ _ _ _ => 1
  | .seq a b => a.tops + b.tops
  | .dynText _ _ _ _ => 1
  | .either _ _ _ _ _ inner => inner.tops
  | .show _ _ _ _ _ _ inner => inner.tops
  | .forK _ _ _ ks _ => ks.w.kids.length
  | .scope _ _ _ inner => inner.tops
  | .rows _ _ _ _ _ ks _ => ks.w.kids.length
  | .rowCons _ _ _ _ => 0
  | .rowNil => 0
  | .errb _ _ _ fb kid => if fb.isSome then 1 else kid.tops
  | .res _ _ _ _ _ _ => 1
  | .hooked _ inner => inner.tops
  | .errTok _ => 0

structure St where
  /-- signals, memos and (appended as they are created) render effects; ids are positions -/
  prog : Prog := []
  rs : Reactive.State := {}
  /-- next DOM node id -/
  next : Nat := 0
  /-- render-effect tasks in spawn order -/
  tasks : List Nat := []
  /-- dropped effects whose task has not been polled since, with the value the task still holds -/
  zombies : List (Nat × Option RState) := []
  root : Option RState := none
  rootN : N := ⟨0, 0⟩
  mounted : Bool := false
  disposed : Bool := false
  /-- the state of the enclosing `scope`s of the part being built (innermost first) and the key of the
  enclosing row: what the closures of the view capture -/
  locals : List Nat := []
  key : Int := 0
  /-- every component-local signal ever created: `(sid, node)` -/
  locSigs : List (Nat × Nat) := []
  /-- component-local nodes whose owner was cleaned up -/
  dead : List Nat := []
  /-- the installed error hook (`throw_error::ERROR_HOOK`): the `errors` signal of a boundary -/
  hook : Option Nat := none
  deriving Inhabited

/-- an expression of the view as the closure being built sees it -/
def St.res (st : St) (x : Expr) : Expr := x.resolve st.locals st.key

def St.fuel (st : St) : Nat := Reactive.fuelFor st.prog

def St.alloc (st : St) : N × St := (⟨st.next, 0⟩, { st with next := st.next + 1 })

/-- append a node definition to the program and its initial node to the reactive state -/
def St.addDef (st : St) (d : NodeDef) : Nat × St :=
  (st.prog.length,
   { st with prog := st.prog ++ [d],
             rs := { st.rs with nodes := st.rs.nodes ++ [Reactive.initNode d] } })

/-- `RenderEffect::new`: the function runs once, synchronously, under the new observer -/
def newEff (st : St) (body : Expr) : Nat × Int × St :=
  let (e, st) := st.addDef (.eff body)
  let rs := Reactive.initRenderEffect st.prog st.rs e
  (e, (rs.get e).val.getD 0, { st with rs := rs })

/-- `Executor::spawn_local` of the effect's task, after the first run -/
def St.spawn (st : St) (e : Nat) : St := { st with tasks := st.tasks ++ [e] }

/-- the `RenderEffect` handle is dropped: `EffectInner` goes away (its `Sender` wakes the task), the
task keeps `held` alive until it is polled -/
def dropEff (st : St) (e : Nat) (held : Option RState) : St :=
  { st with rs := (Reactive.step st.prog st.rs (.dispose e)).1, zombies := st.zombies ++ [(e, held)] }

def AState.held : AState → List (Nat × Option RState)
  | .stat _ _ => []
  | .dyn e _ _ _ => [(e, none)]
  | .cls e _ _ _ => [(e, none)]
  | .sty e _ _ _ => [(e, none)]

/-- a value that goes to a task keeps the hook its effects captured -/
def wrapH (h : Option Nat) (z : Nat × Option RState) : Nat × Option RState :=
  (z.1, z.2.map (RState.hooked h))

/-- the render effects a state owns directly, each with the value it holds -/
def RState.held : RState → List (Nat × Option RState)
  | .text _ _ => []
  | .unit _ => []
  | .elem _ _ as kid => as.flatMap AState.held ++ kid.held
  | .seq a b => a.held ++ b.held
  | .dynText e _ _ _ => [(e, none)]
  | .either e _ _ _ _ inner => [(e, some inner)]
  | .show e _ _ _ _ _ inner => [(e, some inner)]
  | .forK e _ _ _ _ => [(e, none)]
  | .scope _ _ _ inner => inner.held
  | .rows e _ _ _ _ _ items => [(e, some items)]
  | .rowCons _ _ r rest => r.held ++ rest.held
  | .rowNil => []
  | .errb e _ s _ kid => [(e, some (.hooked (some s) kid))]
  | .res e _ _ _ last hook =>
    [(e, match last, hook with
         | none, some s => some (.errTok s)
         | _, _ => none)]
  | .hooked h inner => inner.held.map (wrapH h)
  | .errTok _ => []

/-- the component-local nodes of a state, nested ones included -/
def RState.locals : RState → List Nat
  | .text _ _ => []
  | .unit _ => []
  | .elem _ _ _ kid => kid.locals
  | .seq a b => a.locals ++ b.locals
  | .dynText _ _ _ _ => []
  | .either _ _ _ _ _ inner => inner.locals
  | .show _ _ _ _ _ _ inner => inner.locals
  | .forK _ _ _ _ _ => []
  | .scope m _ _ inner => m :: inner.locals
  | .rows _ _ _ _ _ _ items => items.locals
  -- the row's index is read through an arena handle created under the row's owner
  | .rowCons _ ix r rest => ix.toList ++ r.locals ++ rest.locals
  | .rowNil => []
  -- `errors` / `errors_empty` are `Arc` values: they are not in the arena
  | .errb _ _ _ _ kid => kid.locals
  | .res _ _ _ _ _ _ => []
  | .hooked _ inner => inner.locals
  | .errTok _ => []

/-- the arena slot of a memo / signal is removed: its sources no longer reach it, it reaches nobody;
subscribers keep a dead `Weak` (`update_if_necessary` of a dead source is `false`) -/
def killNode (rs : Reactive.State) (m : Nat) : Reactive.State :=
  let rs := (rs.get m).sources.foldl
    (fun rs x => rs.upd x fun n => { n with subs := n.subs.filter (· != m) }) rs
  rs.upd m fun n => { n with subs := [], sources := [], st := .clean }

/-- `Owner::cleanup` / `Drop for OwnerInner` reach the owner of these nodes -/
def killAll (st : St) : List Nat → St
  | [] => st
  | l => { st with rs := l.foldl killNode st.rs, dead := st.dead ++ l }

def dropAll (st : St) (l : List (Nat × Option RState)) : St :=
  l.foldl (fun st eh => dropEff st eh.1 eh.2) st

/-- a state is dropped: every render effect it owns directly is dropped -/
def dropState (st : St) (t : RState) : St := dropAll (killAll st t.locals) t.held

/-- `RwSignal::set` -/
def setSig (st : St) (id : Nat) (v : Int) : St :=
  { st with rs := (Reactive.step st.prog st.rs (.set id v)).1 }

/-! ## error boundaries

`ErrorBoundaryErrorHook::throw` / `clear` (leptos/src/error_boundary.rs): `errors.update(insert / remove)`.
Every registered error has an id of its own, so the map is modelled by its size; every `update` notifies,
also one that leaves the size as it was (`Err` rebuilt as `Err`: `Result::rebuild`). -/
def bump (st : St) (s : Nat) (d : Int) : St := setSig st s (((st.rs.get s).val.getD 0) + d)

def bumpTo (st : St) (h : Option Nat) (d : Int) : St :=
  match h with
  | some s => bump st s d
  | none => st

/-- the body of a `Result` leaf as one integer: even = `Err`, `2 v + 1` = `Ok(v)` -/
def resBody (c x : Expr) : Expr := .ite c (.lit 0) (.add (.mulc 2 x) (.lit 1))

def decodeRes (v : Int) : Option Int := if v % 2 == 0 then none else some ((v - 1) / 2)

/-- the zombies from position `n` on were created under the hook `h` -/
def wrapFrom (n : Nat) (h : Option Nat) (zs : List (Nat × Option RState)) : List (Nat × Option RState) :=
  zs.take n ++ (zs.drop n).map (wrapH h)

/-- `Drop for ResultState`: the error is unregistered from the hook it was thrown to -/
def clearTok (st : St) : RState → St
  | .errTok s => bump st s (-1)
  | .hooked _ t => clearTok st t
  | _ => st

/-- the component body of `<ErrorBoundary>`: `errors` (a signal), `errors_empty` (a memo over it); the hook is
installed while the children are built -/
def ebOpen (st : St) : St :=
  let st1 := (st.addDef (.sig 0)).2
  let st2 := (st1.addDef (.memo (.ite (.rd true st.prog.length) (.lit 0) (.lit 1)))).2
  { st2 with hook := some st.prog.length }

/-- … then the boundary's own render effect over the built children `k`; the previous hook comes back -/
def ebClose (saved : Option Nat) (s : Nat) (k : RState) (st : St) : RState × St :=
  let r := newEff st (.rd true (s + 1))
  let fb : Option N := if r.2.1 != 0 then none else some r.2.2.alloc.1
  let st' := if r.2.1 != 0 then r.2.2 else r.2.2.alloc.2
  (.errb r.1 (s + 1) s fb k, { st'.spawn r.1 with hook := saved })

/-- the effects of a region run under the hook `h`; what they drop goes to tasks with that hook -/
def underHook (h : Option Nat) (f : St → RState × St × Nat) (st : St) : RState × St × Nat :=
  let r := f { st with hook := h }
  (r.1, { r.2.1 with hook := st.hook, zombies := wrapFrom st.zombies.length h r.2.1.zombies }, r.2.2)

/-! ## build -/

def forIndex (v : Int) (n : Nat) : Nat := (v % (n : Int)).toNat

def listAt (lists : List (List Nat)) (v : Int) : List Nat :=
  lists.getD (forIndex v lists.length) []

/-- `Attribute::build` of one attribute: new state, DOM calls made on the element -/
def buildAttr (st : St) : Attr → AState × St × Nat
  | .stat n v => (.stat n v, st, 1)
  | .dyn n x =>
    -- the closure returns an `Option`: `None` at 0 (`Option::build` of `None` makes no DOM call)
    let (e, v, st) := newEff st (st.res x)
    (.dyn e n x v, st.spawn e, if v = 0 then 0 else 1)
  | .cls n x =>
    let (e, v, st) := newEff st (st.res x)
    (.cls e n x (v != 0), st.spawn e, if v != 0 then 1 else 0)
  | .sty n x =>
    let (e, v, st) := newEff st (st.res x)
    (.sty e n x v, st.spawn e, if v = 0 then 0 else 1)

def buildAttrs : List Attr → St → List AState × St × Nat
  | [], st => ([], st, 0)
  | a :: as, st =>
    let (s, st, m) := buildAttr st a
    let (ss, st, ms) := buildAttrs as st
    (s :: ss, st, m + ms)

/-- the rows of a `<For>`: `Keyed::build` allocates the `<li>` ids and the marker; the text children
get the ids after them, in row order -/
def buildFor (st : St) (keys : List Nat) : Keyed.KState × List (Nat × Nat) × St :=
  let ks := (Keyed.build 1 keys [] st.next).mount none
  let lis := List.range' st.next keys.length
  let texts := lis.zip (List.range' ks.w.next keys.length)
  (ks, texts, { st with next := ks.w.next + keys.length })

/-- a component body runs `Memo::new` / `RwSignal::new` -/
def newLocal (st : St) (sid : Nat) : LDef → Nat × St
  | .memo b => st.addDef (.memo (st.res b))
  | .sig v =>
    let (m, st) := st.addDef (.sig v)
    (m, { st with locSigs := st.locSigs ++ [(sid, m)] })

/-- key of the row whose `<li>` has id `li` -/
def keyOfLi (ks : Keyed.KState) (li : Nat) : Option Nat :=
  (ks.w.storage.filterMap id).findSome? fun it => if it.nodes.contains li then some it.key else none

/-- the `<li>` of the row keyed `k` -/
def liOf (ks : Keyed.KState) (k : Nat) : Nat :=
  (((ks.w.storage.filterMap id).find? (·.key == k)).bind (·.nodes.head?)).getD 0

/-- state of `<li>{k}{row}</li>`: the element, the text node of the key, the state of the row's own view -/
def mkRow (li : Nat) (k : Nat) (t : N) (inner : RState) : RState :=
  .elem ⟨li, 1 + inner.tops⟩ "li" [] (.seq (.text t (toString k)) inner)

def mkChain : List (Nat × Option Nat × RState) → RState
  | [] => .rowNil
  | (k, ix, r) :: rest => .rowCons k ix r (mkChain rest)

/-- the row keyed `key`: its index signal and its state -/
def RState.findRow : RState → Nat → Option (Option Nat × RState)
  | .rowCons k ix r rest, key => if k = key then some (ix, r) else rest.findRow key
  | _, _ => none

/-- one row is built (`b` = `build` of the row's view): `view_fn(index, item)` then `build`; the row sees
its key and no outer `scope` -/
def rowStep (en : Bool) (ks : Keyed.KState) (b : St → RState × St) (acc : List (Nat × Option Nat × RState) × St)
    (ki : Nat × Nat) : List (Nat × Option Nat × RState) × St :=
  -- `ForEnumerate`: `ArcRwSignal::new(index)`, the row's outermost state
  let s0 := if en then (acc.2.addDef (.sig (ki.2 : Int))).2 else acc.2
  let ix : Option Nat := if en then some acc.2.prog.length else none
  let t := s0.alloc.1
  let r := b { s0.alloc.2 with locals := ix.toList, key := (ki.1 : Int) }
  (acc.1 ++ [(ki.1, ix, mkRow (liOf ks ki.1) ki.1 t r.1)], { r.2 with locals := acc.2.locals, key := acc.2.key })

/-- a row leaves the list: its state is dropped, its owner with it -/
def dropRow (items : RState) (st : St) (k : Nat) : St :=
  match items.findRow k with
  | some r => dropState st r.2
  | none => st

/-- `Render::build` (the result is not yet mounted) -/
def build : View → St → RState × St
  | .text s, st =>
    let (n, st) := st.alloc
    (.text n s, st)
  | .unit, st =>
    let (n, st) := st.alloc
    (.unit n, st)
  | .elem tag attrs kid, st =>
    let (n, st) := st.alloc
    let (as, st, m) := buildAttrs attrs st
    let (k, st) := build kid st
    (.elem ⟨n.id, m + k.tops⟩ tag as k, st)
  | .seq a b, st =>
    let (sa, st) := build a st
    let (sb, st) := build b st
    (.seq sa sb, st)
  | .dynText x, st =>
    let (e, v, st) := newEff st (st.res x)
    let (n, st) := st.alloc
    (.dynText e x n v, st.spawn e)
  | .either c a b, st =>
    let (e, v, st) := newEff st (st.res c)
    let (inner, st) := if v != 0 then build a st else build b st
    (.either e c a b (v != 0) inner, st.spawn e)
  | .show c a b, st =>
    -- `ArcMemo::new(move |_| when())` is a memo over the BOOLEAN
    let (m, st) := st.addDef (.memo (.ite (st.res c) (.lit 1) (.lit 0)))
    let (e, v, st) := newEff st (.rd true m)
    let (inner, st) := if v != 0 then build a st else build b st
    (.show e m c a b (v != 0) inner, st.spawn e)
  | .forKeyed sel lists, st =>
    let (e, v, st) := newEff st (st.res sel)
    let (ks, texts, st) := buildFor st (listAt lists v)
    (.forK e sel lists ks texts, st.spawn e)
  | .scope sid d kid, st =>
    let (m, st) := newLocal st sid d
    let saved := st.locals
    let (inner, st) := build kid { st with locals := m :: st.locals }
    (.scope m sid d.isSig inner, { st with locals := saved })
  | .forRows en sel lists row, st =>
    let (e, v, st) := newEff st (st.res sel)
    let keys := listAt lists v
    let ks := (Keyed.build 1 keys [] st.next).mount none
    let st := { st with next := ks.w.next }
    -- item by item
    let (rs, st) := (keys.zip (List.range keys.length)).foldl (rowStep en ks (build row)) ([], st)
    (.rows e en sel lists row ks (mkChain rs), st.spawn e)
  | .eb kid, st =>
    let r := build kid (ebOpen st)
    ebClose st.hook st.prog.length r.1 r.2
  | .res c x, st =>
    let (e, v, st) := newEff st (st.res (resBody c x))
    let (n, st) := st.alloc
    let st := if (decodeRes v).isNone then bumpTo st st.hook 1 else st
    (.res e c x n (decodeRes v) st.hook, st.spawn e)

/-! ## rebuild: a fresh view of the same shape against the old state -/

/-- `F::rebuild` (tachys/src/reactive_graph/mod.rs): build the new effect, mount its state before the
old one, unmount the old one, drop it.  Returns the number of mutations of the parent's child list. -/
def replace (v : View) (old : RState) (st : St) : RState × St × Nat :=
  let (new, st) := build v st
  (new, dropState st old, new.tops + old.tops)

/-- `Attribute::rebuild`: a reactive attribute becomes a new effect over the old attribute state -/
def rebuildAttr (st : St) : Attr → AState → AState × St × Nat
  | .stat n v, .stat _ v' => (.stat n v, st, if v = v' then 0 else 1)
  | .dyn n x, .dyn e0 _ _ last =>
    let (e, v, st) := newEff st (st.res x)
    let st := dropEff (st.spawn e) e0 none
    (.dyn e n x v, st, if v = last then 0 else 1)
  | .cls n x, .cls e0 _ _ last =>
    let (e, v, st) := newEff st (st.res x)
    let st := dropEff (st.spawn e) e0 none
    (.cls e n x (v != 0), st, if (v != 0) = last then 0 else 1)
  | .sty n x, .sty e0 _ _ last =>
    let (e, v, st) := newEff st (st.res x)
    let st := dropEff (st.spawn e) e0 none
    (.sty e n x v, st, if v = last then 0 else 1)
  -- a different attribute type at the same position cannot happen (the view type is fixed)
  | a, old =>
    let (s, st, m) := buildAttr st a
    (s, dropAll st old.held, m)

def rebuildAttrs : List Attr → List AState → St → List AState × St × Nat
  | a :: as, o :: os, st =>
    let (s, st, m) := rebuildAttr st a o
    let (ss, st, ms) := rebuildAttrs as os st
    (s :: ss, st, m + ms)
  | _, os, st => (os, st, 0)

/-- `Render::rebuild` of a freshly constructed view `v` against the state `old` of the same view type -/
def rebuild : View → RState → St → RState × St × Nat
  | .text s, .text n s', st =>
    if s = s' then (.text n s', st, 0) else (.text ⟨n.id, n.muts + 1⟩ s, st, 0)
  | .unit, .unit n, st => (.unit n, st, 0)
  | .elem tag attrs kid, .elem n _ as k, st =>
    let (as, st, m) := rebuildAttrs attrs as st
    let (k, st, d) := rebuild kid k st
    (.elem ⟨n.id, n.muts + m + d⟩ tag as k, st, 0)
  | .seq a b, .seq sa sb, st =>
    let (sa, st, da) := rebuild a sa st
    let (sb, st, db) := rebuild b sb st
    (.seq sa sb, st, da + db)
  | .scope sid d kid, .scope m0 _ _ inner, st =>
    -- the freshly constructed view has created new state; the old one went with the owner's cleanup
    let (m, st) := newLocal (killAll st [m0]) sid d
    let saved := st.locals
    let (inner, st, dl) := rebuild kid inner { st with locals := m :: st.locals }
    (.scope m sid d.isSig inner, { st with locals := saved }, dl)
  | v, old, st => replace v old st

/-! ## re-running one render effect -/

/-- the `<For>` effect runs again: `Keyed::rebuild`; new rows get text nodes -/
def rerunFor (st : St) (ks : Keyed.KState) (texts : List (Nat × Nat)) (keys : List Nat) :
    Keyed.KState × List (Nat × Nat) × St × Nat :=
  let frm := ks.hashed
  -- the node-id counter is global: the list continues from whichever is larger
  let n0 := max ks.w.next st.next
  let ks' := Keyed.rebuild { ks with w := { ks.w with next := n0 } } keys
  let nb := ks'.w.log.builds.length
  let lis := List.range' n0 nb
  let texts' := texts.filter (fun p => ks'.w.kids.contains p.1) ++ lis.zip (List.range' ks'.w.next nb)
  let delta := ks'.w.log.unmounts.length + nb + 2 * (Keyed.domMovedKeys Keyed.diff frm keys).length
  (ks', texts', { st with next := ks'.w.next + nb }, delta)

/-- `set_index(i)` of the row keyed `k` -/
def setIx (items : RState) (st : St) (ki : Nat × Nat) : St :=
  match items.findRow ki.1 with
  | some (some ix, _) => setSig st ix (ki.2 : Int)
  | _ => st

/-- the `<For>` effect of a list with rows of their own runs again: `Keyed::rebuild` decides which
`<li>`s leave, stay, move and are built; a row that leaves is dropped (its owner with it), a row that
stays keeps its state untouched, new rows are built in the order `apply_diff` adds them -/
def rerunRows (st : St) (en : Bool) (row : View) (ks : Keyed.KState) (items : RState) (keys : List Nat) :
    Keyed.KState × RState × St × Nat :=
  let frm := ks.hashed
  let n0 := max ks.w.next st.next
  let ks' := Keyed.rebuild { ks with w := { ks.w with next := n0 } } keys
  let st := { st with next := ks'.w.next }
  let st := ks'.w.log.unmounts.foldl (dropRow items) st
  -- `set_index(to)` of the surviving rows that changed their position
  let st := if en then ks'.w.log.setIndex.foldl (setIx items) st else st
  let (new, st) := ks'.w.log.builds.foldl (rowStep en ks' (build row)) ([], st)
  let chain := ks'.w.kids.filterMap fun li =>
    if li == ks'.marker then none else
    let k := (keyOfLi ks' li).getD 0
    match (new.find? (·.1 == k)).map (·.2) with
    | some r => some (k, r)
    | none => (items.findRow k).map fun r => (k, r)
  let delta := ks'.w.log.unmounts.length + ks'.w.log.builds.length
    + 2 * (Keyed.domMovedKeys Keyed.diff frm keys).length
  (ks', mkChain chain, st, delta)

def rerunAttr (e : Nat) (v : Int) : AState → AState × Nat
  | .stat n s => (.stat n s, 0)
  | .dyn e' n x last =>
    if e' = e then (.dyn e' n x v, if v = last then 0 else 1) else (.dyn e' n x last, 0)
  | .cls e' n x last =>
    if e' = e then (.cls e' n x (v != 0), if (v != 0) = last then 0 else 1) else (.cls e' n x last, 0)
  | .sty e' n x last =>
    if e' = e then (.sty e' n x v, if v = last then 0 else 1) else (.sty e' n x last, 0)

def rerunAttrs (e : Nat) (v : Int) : List AState → List AState × Nat
  | [] => ([], 0)
  | a :: as =>
    let (a', m) := rerunAttr e v a
    let (as', ms) := rerunAttrs e v as
    (a' :: as', m + ms)

/-- effect `e` has just run again with value `v`: its function rebuilds its region, wherever it is in
the tree.  Returns the mutations of the enclosing parent's child list. -/
def rerunIn (e : Nat) (v : Int) : RState → St → RState × St × Nat
  | .text n s, st => (.text n s, st, 0)
  | .unit n, st => (.unit n, st, 0)
  | .elem n tag as kid, st =>
    let (as, m) := rerunAttrs e v as
    let (kid, st, d) := rerunIn e v kid st
    (.elem ⟨n.id, n.muts + m + d⟩ tag as kid, st, 0)
  | .seq a b, st =>
    let (a, st, da) := rerunIn e v a st
    let (b, st, db) := rerunIn e v b st
    (.seq a b, st, da + db)
  | .dynText e' x n last, st =>
    if e' = e then
      (.dynText e' x (if v = last then n else ⟨n.id, n.muts + 1⟩) v, st, 0)
    else (.dynText e' x n last, st, 0)
  | .either e' c a b left inner, st =>
    if e' = e then
      if (v != 0) = left then
        let (inner, st, d) := rebuild (if left then a else b) inner st
        (.either e' c a b left inner, st, d)
      else
        let (new, st, d) := replace (if v != 0 then a else b) inner st
        (.either e' c a b (v != 0) new, st, d)
    else
      let (inner, st, d) := rerunIn e v inner st
      (.either e' c a b left inner, st, d)
  | .show e' m c a b left inner, st =>
    if e' = e then
      if (v != 0) = left then
        let (inner, st, d) := rebuild (if left then a else b) inner st
        (.show e' m c a b left inner, st, d)
      else
        let (new, st, d) := replace (if v != 0 then a else b) inner st
        (.show e' m c a b (v != 0) new, st, d)
    else
      let (inner, st, d) := rerunIn e v inner st
      (.show e' m c a b left inner, st, d)
  | .forK e' sel lists ks texts, st =>
    if e' = e then
      let (ks, texts, st, d) := rerunFor st ks texts (listAt lists v)
      (.forK e' sel lists ks texts, st, d)
    else (.forK e' sel lists ks texts, st, 0)
  | .scope m sid isSig inner, st =>
    let (inner, st, d) := rerunIn e v inner st
    (.scope m sid isSig inner, st, d)
  | .rows e' en sel lists row ks items, st =>
    if e' = e then
      let (ks, items, st, d) := rerunRows st en row ks items (listAt lists v)
      (.rows e' en sel lists row ks items, st, d)
    else
      -- what happens inside a row stays inside its `<li>`
      let (items, st, _) := rerunIn e v items st
      (.rows e' en sel lists row ks items, st, 0)
  | .rowCons k ix r rest, st =>
    let (r, st, _) := rerunIn e v r st
    let (rest, st, _) := rerunIn e v rest st
    (.rowCons k ix r rest, st, 0)
  | .rowNil, st => (.rowNil, st, 0)
  | .errb e' m s fb kid, st =>
    if e' = e then
      -- `v` = `errors_empty`
      match fb with
      | some n =>
        if v != 0 then (.errb e' m s none kid, st, kid.tops + 1) else (.errb e' m s (some n) kid, st, 0)
      | none =>
        if v != 0 then (.errb e' m s none kid, st, 0)
        else (.errb e' m s (some st.alloc.1) kid, st.alloc.2, 1 + kid.tops)
    else
      -- the effects of the children run under the boundary's hook; while the fallback is shown the
      -- children are not in the document: what they do to their top-level nodes reaches no parent
      let r := underHook (some s) (rerunIn e v kid) st
      (.errb e' m s fb r.1, r.2.1, if fb.isSome then 0 else r.2.2)
  | .res e' c x n last hook, st =>
    if e' = e then
      match last, decodeRes v with
      | none, none => (.res e' c x n none hook, bumpTo st hook 0, 0)
      | some _, none => (.res e' c x st.alloc.1 none hook, bumpTo st.alloc.2 hook 1, 2)
      | none, some w => (.res e' c x st.alloc.1 (some w) hook, bumpTo st.alloc.2 hook (-1), 2)
      | some l, some w => (.res e' c x (if w = l then n else ⟨n.id, n.muts + 1⟩) (some w) hook, st, 0)
    else (.res e' c x n last hook, st, 0)
  | .hooked h inner, st =>
    let r := underHook h (rerunIn e v inner) st
    (.hooked h r.1, r.2.1, r.2.2)
  | .errTok s, st => (.errTok s, st, 0)

/-- the same for the values held by zombies (their DOM is detached: the counts are dropped) -/
def rerunZombies (e : Nat) (v : Int) : List (Nat × Option RState) → St → List (Nat × Option RState) × St
  | [], st => ([], st)
  | (z, none) :: rest, st =>
    let (rest, st) := rerunZombies e v rest st
    ((z, none) :: rest, st)
  | (z, some t) :: rest, st =>
    let (t, st, _) := rerunIn e v t st
    let (rest, st) := rerunZombies e v rest st
    ((z, some t) :: rest, st)

/-- `fun(old_value)` of effect `e` after its expression evaluated to `v` -/
def rerun (st : St) (e : Nat) (v : Int) : St :=
  let st :=
    match st.root with
    | some t =>
      let (t, st, d) := rerunIn e v t { st with root := none }
      { st with root := some t, rootN := ⟨st.rootN.id, st.rootN.muts + d⟩ }
    | none => st
  -- zombies created by this very run are appended behind the old ones and cannot contain `e`
  let old := st.zombies
  let (zs, st) := rerunZombies e v old { st with zombies := [] }
  { st with zombies := zs ++ st.zombies }

/-- the body of the task's `while` loop, repeated while the channel is set -/
def effLoop : Nat → St → Nat → St
  | 0, st, _ => st
  | k + 1, st, e =>
    if !(st.rs.get e).chan then st else
    let rs := st.rs.upd e fun n => { n with chan := false }
    let saved := rs.obs
    let (rs, need) := Reactive.effUpdate st.prog st.fuel { rs with obs := some e } e
    let rs := { rs with obs := saved }
    if need then
      let rs := Reactive.runEffBody st.prog st.fuel rs e
      effLoop k (rerun { st with rs := rs } e ((rs.get e).val.getD 0)) e
    else effLoop k { st with rs := rs } e

/-- the values a finished task lets go of -/
def releaseZombie (st : St) (e : Nat) : St :=
  let mine := st.zombies.filter fun z => z.1 == e
  let st := { st with zombies := st.zombies.filter fun z => !(z.1 == e) }
  mine.foldl (fun st z => match z.2 with | some t => dropState (clearTok st t) t | none => st) st

/-- one poll of effect `e`'s task by the executor (which clears the wake flag first) -/
def pollTask (st : St) (e : Nat) : St :=
  let rs := st.rs.upd e fun n => { n with woken := false }
  if !(rs.get e).alive then
    -- the `Sender` is gone: the stream ends, the task finishes and drops what it held
    releaseZombie { st with rs := rs.upd e fun n => { n with done := true } } e
  else effLoop 64 { st with rs := rs } e

/-- woken live tasks in spawn order -/
def ready (st : St) : List Nat :=
  st.tasks.filter fun e => (st.rs.get e).woken && !(st.rs.get e).done

def pollNth (st : St) (i : Nat) : St :=
  let r := ready st
  if r.isEmpty then st else pollTask st (r.getD (i % r.length) 0)

def runIdle : Nat → St → St
  | 0, st => st
  | k + 1, st => if (ready st).isEmpty then st else runIdle k (pollNth st 0)

/-! ## external operations -/

def addSig (st : St) (v : Int) : St := (st.addDef (.sig v)).2
def addMemo (st : St) (b : Expr) : St := (st.addDef (.memo b)).2

/-- `mount_to_renderer(&root, || view)`: build, then mount into the (empty) root element -/
def mount (st : St) (v : View) : St :=
  let (rootN, st) := st.alloc
  let (t, st) := build v st
  { st with root := some t, rootN := ⟨rootN.id, t.tops⟩, mounted := true }

/-- a write through the handles the harness keeps: every live component-local signal of `scope sid`
(outside the operations of the theorems: views of their class have no component-local state) -/
def setLocal (st : St) (sid : Nat) (v : Int) : St :=
  st.locSigs.foldl (fun st sm =>
    if sm.1 == sid && !st.dead.contains sm.2 then setSig st sm.2 v else st) st

/-- the `UnmountHandle` is dropped -/
def dispose (st : St) : St :=
  match st.root with
  | some t =>
    let st := { st with root := none, rootN := ⟨st.rootN.id, st.rootN.muts + t.tops⟩, disposed := true }
    dropState st t
  | none => { st with disposed := true }

inductive Op where
  | set (id : Nat) (v : Int)
  | poll (i : Nat)
  | idle
  | dispose
  deriving Repr, BEq, Inhabited, DecidableEq

def step (st : St) : Op → St
  | .set id v => setSig st id v
  | .poll i => pollNth st i
  | .idle => runIdle 4096 st
  | .dispose => dispose st

/-- a program: node definitions (signals and memos) and the view -/
structure Program where
  defs : Prog
  view : View
  deriving Repr, Inhabited

def initDefs (defs : Prog) : St :=
  defs.foldl (fun st d => (st.addDef d).2) {}

def start (p : Program) : St := mount (initDefs p.defs) p.view

def run (p : Program) (ops : List Op) : St := ops.foldl step (start p)

/-! ## what the DOM shows -/

inductive AOut where
  | plain (name : String) (value : Txt)
  | cls (name : String) (on : Bool)
  | sty (name : String) (value : Txt)
  deriving Repr, BEq, Inhabited, DecidableEq

/-- the DOM is serialised as a token stream (what `outerHTML` is made of): `open`/`close` bracket
an element's children -/
inductive Tok where
  | text (t : Txt)
  | comment
  | open (tag : String) (attrs : List AOut)
  | close
  deriving Repr, BEq, Inhabited, DecidableEq

def AState.out : AState → AOut
  | .stat n v => .plain n (.lit v)
  | .dyn _ n _ last => .plain n (.int last)
  | .cls _ n _ last => .cls n last
  | .sty _ n _ last => .sty n (.px last)

/-- the rows in DOM order: every child of the region except the marker -/
def forRows (ks : Keyed.KState) : List Nat :=
  (ks.w.kids.filter (· != ks.marker)).map fun li => (keyOfLi ks li).getD 0

def rowTree (k : Nat) : List Tok := [.open "li" [], .text (.int k), .close]

/-- the DOM nodes of a state, without identities -/
def serialize : RState → List Tok
  | .text _ s => [.text (.lit s)]
  | .unit _ => [.comment]
  | .elem _ tag as kid => [.open tag (as.map AState.out)] ++ serialize kid ++ [.close]
  | .seq a b => serialize a ++ serialize b
  | .dynText _ _ _ last => [.text (.int last)]
  | .either _ _ _ _ _ inner => serialize inner
  | .show _ _ _ _ _ _ inner => serialize inner
  | .forK _ _ _ ks _ => (forRows ks).flatMap rowTree ++ [.comment]
  | .scope _ _ _ inner => serialize inner
  | .rows _ _ _ _ _ _ items => serialize items ++ [.comment]
  | .rowCons _ _ r rest => serialize r ++ serialize rest
  | .rowNil => []
  | .errb _ _ _ fb kid => if fb.isSome then [.text (.lit "error")] else serialize kid
  | .res _ _ _ _ last _ =>
    match last with
    | some v => [.text (.int v)]
    | none => [.comment]
  | .hooked _ inner => serialize inner
  | .errTok _ => []

def renderAttr (ρ : Nat → Int) : Attr → AOut
  | .stat n v => .plain n (.lit v)
  | .dyn n x => .plain n (.int (Reactive.evalPure ρ x))
  | .cls n x => .cls n (Reactive.evalPure ρ x != 0)
  | .sty n x => .sty n (.px (Reactive.evalPure ρ x))

/-- an expression of the view for given values of the enclosing `scope`s and the row key -/
def _root_.Leptos.Reactive.Expr.valued (lv : List Int) (key : Int) : Expr → Expr
  | .lit n => .lit n
  | .rd true id => .rd true id
  | .rd false 0 => .lit key
  | .rd false (j + 1) => .lit (lv.getD j 0)
  | .add a b => .add (a.valued lv key) (b.valued lv key)
  | .mulc k a => .mulc k (a.valued lv key)
  | .ite c t e => .ite (c.valued lv key) (t.valued lv key) (e.valued lv key)
  | .seq a b => .seq (a.valued lv key) (b.valued lv key)
  | .wr id a => .wr id (a.valued lv key)

def renderAttrL (ρ : Nat → Int) (lv : List Int) (key : Int) : Attr → AOut
  | .stat n v => .plain n (.lit v)
  | .dyn n x => .plain n (.int (Reactive.evalPure ρ (x.valued lv key)))
  | .cls n x => .cls n (Reactive.evalPure ρ (x.valued lv key) != 0)
  | .sty n x => .sty n (.px (Reactive.evalPure ρ (x.valued lv key)))

/-- a `Result` of the from-scratch render of the view is `Err` and no boundary inside the view catches it -/
def errL (ρ : Nat → Int) (sv : Nat → List Nat → Option Int) : View → List Int → Int → List Nat → Bool
  | .text _, _, _, _ => false
  | .unit, _, _, _ => false
  | .elem _ _ kid, lv, key, path => errL ρ sv kid lv key path
  | .seq a b, lv, key, path => errL ρ sv a lv key path || errL ρ sv b lv key path
  | .dynText _, _, _, _ => false
  | .either c a b, lv, key, path =>
    if Reactive.evalPure ρ (c.valued lv key) != 0 then errL ρ sv a [] 0 path else errL ρ sv b [] 0 path
  | .show c a b, lv, key, path =>
    if Reactive.evalPure ρ (c.valued lv key) != 0 then errL ρ sv a [] 0 path else errL ρ sv b [] 0 path
  | .forKeyed _ _, _, _, _ => false
  | .scope sid d kid, lv, key, path =>
    let v := match d with
      | .memo b => Reactive.evalPure ρ (b.valued lv key)
      | .sig init => (sv sid path).getD init
    errL ρ sv kid (v :: lv) key path
  | .forRows en sel lists row, lv, key, path =>
    ((listAt lists (Reactive.evalPure ρ (sel.valued lv key))).zip
        (List.range (listAt lists (Reactive.evalPure ρ (sel.valued lv key))).length)).any
      (fun (ki : Nat × Nat) =>
        errL ρ sv row (if en then [(ki.2 : Int)] else []) (ki.1 : Int) (path ++ [ki.1]))
  | .eb _, _, _, _ => false
  | .res c _, lv, key, _ => Reactive.evalPure ρ (c.valued lv key) != 0

/-- the from-scratch DOM of a view with component-local state: `lv` = values of the enclosing `scope`s,
`key` = key of the enclosing row, `path` = keys of all enclosing rows; a component-local SIGNAL is part
of the current state: `sv sid path` is its value if the instance exists, a new instance starts at `init` -/
def renderL (ρ : Nat → Int) (sv : Nat → List Nat → Option Int) : View → List Int → Int → List Nat → List Tok
  | .text s, _, _, _ => [.text (.lit s)]
  | .unit, _, _, _ => [.comment]
  | .elem tag attrs kid, lv, key, path =>
    [.open tag (attrs.map (renderAttrL ρ lv key))] ++ renderL ρ sv kid lv key path ++ [.close]
  | .seq a b, lv, key, path => renderL ρ sv a lv key path ++ renderL ρ sv b lv key path
  | .dynText x, lv, key, _ => [.text (.int (Reactive.evalPure ρ (x.valued lv key)))]
  | .either c a b, lv, key, path =>
    if Reactive.evalPure ρ (c.valued lv key) != 0 then renderL ρ sv a [] 0 path else renderL ρ sv b [] 0 path
  | .show c a b, lv, key, path =>
    if Reactive.evalPure ρ (c.valued lv key) != 0 then renderL ρ sv a [] 0 path else renderL ρ sv b [] 0 path
  | .forKeyed sel lists, lv, key, _ =>
    (listAt lists (Reactive.evalPure ρ (sel.valued lv key))).flatMap rowTree ++ [.comment]
  | .scope sid d kid, lv, key, path =>
    let v := match d with
      | .memo b => Reactive.evalPure ρ (b.valued lv key)
      | .sig init => (sv sid path).getD init
    renderL ρ sv kid (v :: lv) key path
  | .forRows en sel lists row, lv, key, path =>
    ((listAt lists (Reactive.evalPure ρ (sel.valued lv key))).zip
        (List.range (listAt lists (Reactive.evalPure ρ (sel.valued lv key))).length)).flatMap
      (fun (ki : Nat × Nat) =>
        [.open "li" [], .text (.lit (toString ki.1))] ++
          renderL ρ sv row (if en then [(ki.2 : Int)] else []) (ki.1 : Int) (path ++ [ki.1]) ++ [.close])
      ++ [.comment]
  | .eb kid, lv, key, path =>
    if errL ρ sv kid lv key path then [.text (.lit "error")] else renderL ρ sv kid lv key path
  | .res c x, lv, key, _ =>
    if Reactive.evalPure ρ (c.valued lv key) != 0 then [.comment]
    else [.text (.int (Reactive.evalPure ρ (x.valued lv key)))]

/-- the component-local signals of a state tree with the keys of the rows around them -/
def RState.sigPaths : RState → List Nat → List (Nat × List Nat × Nat)
  | .text _ _, _ => []
  | .unit _, _ => []
  | .elem _ _ _ kid, p => kid.sigPaths p
  | .seq a b, p => a.sigPaths p ++ b.sigPaths p
  | .dynText _ _ _ _, _ => []
  | .either _ _ _ _ _ inner, p => inner.sigPaths p
  | .show _ _ _ _ _ _ inner, p => inner.sigPaths p
  | .forK _ _ _ _ _, _ => []
  | .scope m sid isSig inner, p => (if isSig then [(sid, p, m)] else []) ++ inner.sigPaths p
  | .rows _ _ _ _ _ _ items, p => items.sigPaths p
  | .rowCons k _ r rest, p => r.sigPaths (p ++ [k]) ++ rest.sigPaths p
  | .rowNil, _ => []
  | .errb _ _ _ _ kid, p => kid.sigPaths p
  | .res _ _ _ _ _ _, _ => []
  | .hooked _ inner, p => inner.sigPaths p
  | .errTok _, _ => []

/-- the from-scratch DOM of a view for node values `ρ` (fresh component-local signals) -/
def render (ρ : Nat → Int) : View → List Tok
  | .text s => [.text (.lit s)]
  | .unit => [.comment]
  | .elem tag attrs kid => [.open tag (attrs.map (renderAttr ρ))] ++ render ρ kid ++ [.close]
  | .seq a b => render ρ a ++ render ρ b
  | .dynText x => [.text (.int (Reactive.evalPure ρ x))]
  | .either c a b => if Reactive.evalPure ρ c != 0 then render ρ a else render ρ b
  | .show c a b => if Reactive.evalPure ρ c != 0 then render ρ a else render ρ b
  | .forKeyed sel lists => (listAt lists (Reactive.evalPure ρ sel)).flatMap rowTree ++ [.comment]
  | .scope sid d kid => renderL ρ (fun _ _ => none) (.scope sid d kid) [] 0 []
  | .forRows en sel lists row => renderL ρ (fun _ _ => none) (.forRows en sel lists row) [] 0 []
  | .eb kid => renderL ρ (fun _ _ => none) (.eb kid) [] 0 []
  | .res c x => renderL ρ (fun _ _ => none) (.res c x) [] 0 []

/-- from-scratch values of all nodes of the current program for the current signal values -/
def St.env (st : St) : Nat → Int := fun i => Reactive.specVal st.prog st.rs i

/-- the mount root's children -/
def St.dom (st : St) : List Tok :=
  match st.root with
  | some t => serialize t
  | none => []

/-! ## well-formedness of programs -/

def Attr.key : Attr → String × String
  | .stat n _ => ("a", n)
  | .dyn n _ => ("a", n)
  | .cls n _ => ("c", n)
  | .sty n _ => ("s", n)

def Attr.exprOk (k : Nat) : Attr → Bool
  | .stat _ _ => true
  | .dyn _ x => x.readsBelow k && x.noWrite && x.noUntracked
  | .cls _ x => x.readsBelow k && x.noWrite && x.noUntracked
  | .sty _ x => x.readsBelow k && x.noWrite && x.noUntracked

def nodupKeys : List (String × String) → Bool
  | [] => true
  | k :: ks => !ks.contains k && nodupKeys ks

def nodupNat : List Nat → Bool
  | [] => true
  | k :: ks => !ks.contains k && nodupNat ks

/-- expressions read nodes `< k` only, tracked, without writes; attribute sources of one element have
pairwise different names; the key lists of a `<For>` are duplicate-free and there is at least one -/
def View.wf (k : Nat) : View → Bool
  | .text _ => true
  | .unit => true
  | .elem _ attrs kid => attrs.all (Attr.exprOk k) && nodupKeys (attrs.map Attr.key) && kid.wf k
  | .seq a b => a.wf k && b.wf k
  | .dynText x => x.readsBelow k && x.noWrite && x.noUntracked
  | .either c a b => c.readsBelow k && c.noWrite && c.noUntracked && a.wf k && b.wf k
  | .show c a b => c.readsBelow k && c.noWrite && c.noUntracked && a.wf k && b.wf k
  | .forKeyed sel lists =>
    sel.readsBelow k && sel.noWrite && sel.noUntracked && !lists.isEmpty && lists.all nodupNat
  -- views with component-local state are outside the class of the theorems (see `View.wfX`)
  | .scope _ _ _ => false
  | .forRows _ _ _ _ => false
  | .eb _ => false
  | .res _ _ => false

/-- an expression of the extended grammar: global reads below `k`, `scope` references below `depth`,
the row key only inside a row, no writes -/
def _root_.Leptos.Reactive.Expr.okL (k depth : Nat) (inRow : Bool) : Expr → Bool
  | .lit _ => true
  | .rd true id => id < k
  | .rd false 0 => inRow
  | .rd false (j + 1) => j < depth
  | .add a b => a.okL k depth inRow && b.okL k depth inRow
  | .mulc _ a => a.okL k depth inRow
  | .ite c t e => c.okL k depth inRow && t.okL k depth inRow && e.okL k depth inRow
  | .seq _ _ => false
  | .wr _ _ => false

def Attr.okL (k depth : Nat) (inRow : Bool) : Attr → Bool
  | .stat _ _ => true
  | .dyn _ x => x.okL k depth inRow
  | .cls _ x => x.okL k depth inRow
  | .sty _ x => x.okL k depth inRow

/-- well-formedness of the extended grammar (the correspondence driver's input check): component-local
state and the row key are read at the level of the component body that created them — not from inside
the branches of an `either` / `Show` or the rows of a `<For>` below it (those see their own) -/
def View.wfX (k : Nat) : View → Nat → Bool → Bool
  | .text _, _, _ => true
  | .unit, _, _ => true
  | .elem _ attrs kid, d, r =>
    attrs.all (Attr.okL k d r) && nodupKeys (attrs.map Attr.key) && kid.wfX k d r
  | .seq a b, d, r => a.wfX k d r && b.wfX k d r
  | .dynText x, d, r => x.okL k d r
  | .either c a b, d, r => c.okL k d r && a.wfX k 0 false && b.wfX k 0 false
  | .show c a b, d, r => c.okL k d r && a.wfX k 0 false && b.wfX k 0 false
  | .forKeyed sel lists, d, r => sel.okL k d r && !lists.isEmpty && lists.all nodupNat
  | .scope _ (.memo b) kid, d, r => b.okL k d r && kid.wfX k (d + 1) r
  | .scope _ (.sig _) kid, d, r => kid.wfX k (d + 1) r
  | .forRows en sel lists row, d, r =>
    sel.okL k d r && !lists.isEmpty && lists.all nodupNat && row.wfX k (if en then 1 else 0) true
  -- the children of a boundary are constructed by the enclosing component body
  | .eb kid, d, r => kid.wfX k d r
  | .res c x, d, r => c.okL k d r && x.okL k d r

def defsOk (defs : Prog) : Bool :=
  Reactive.WF defs && defs.all fun d => match d with
    | .sig _ => true
    | .memo b => b.noUntracked
    | .eff _ => false

def Program.wf (p : Program) : Bool := defsOk p.defs && p.view.wf p.defs.length

end Leptos.RView
