import LeptosModel.Model.Reactive
import LeptosModel.Model.Keyed
/-!
# Model/RView — mounted reactive views: render effects over the reactive graph (C04)

A reactive view program = signals and memos (`Leptos.Reactive.Prog`) + a view tree whose dynamic
parts are expressions over them.  Every dynamic part is a **render effect** of the reactive model
(`Reactive.initRenderEffect` at build, `Reactive.effUpdate` / `runEffBody` when polled); its run
rebuilds its own DOM region exactly as tachys does.  The retained state is a tree (`RState`) that
carries its DOM nodes (`N` = arena id + mutation counter): the DOM below the mount root is read off
the state tree (`serialize`), so "rebuild = fresh render" is a statement by structural induction.

| here                         | Rust                                                                                   |
|------------------------------|------------------------------------------------------------------------------------------|
| `View.text/unit/elem/seq`    | `String`, `()`, `HtmlElement<E, At, Ch>`, tuples (tachys/src/view/{strings,tuples}.rs, html/element/mod.rs) |
| `View.dynText e`             | `move || v.to_string()`: `impl Render for F: ReactiveFunction` (tachys/src/reactive_graph/mod.rs) → `RenderEffect::new(|prev| rebuild-or-build)`; `String::rebuild` = `set_text` iff the string changed |
| `Attr.dyn / cls / sty`       | `impl AttributeValue for F` (reactive_graph/mod.rs), `impl IntoClass for (&str, F)` (reactive_graph/class.rs), `impl IntoStyleValue for F` (reactive_graph/style.rs): a `RenderEffect` whose state is the last value; the DOM call happens iff the value changed |
| `View.either c a b`          | `move || if c { Either::Left(a) } else { Either::Right(b) }`: `Either::rebuild` (tachys/src/view/either.rs): same side → `rebuild` the branch, other side → `build`, `insert_before_this`, `unmount` |
| `View.show c a b`            | leptos `Show` (leptos/src/show.rs): `ArcMemo::new(when)` + `move || match memo.get() { true => Left(children()), false => Right(fallback.run()) }` |
| `View.forKeyed sel lists`    | leptos `For` (leptos/src/for_loop.rs): `move || keyed(each(), key, children)`, rows `<li>{k}</li>`; the list update is `Leptos.Keyed.rebuild` (tachys/src/view/keyed.rs) |
| `newEff`                     | `RenderEffect::new_with_value_erased` (reactive_graph/src/effect/render_effect.rs): run `fun` under the new observer, THEN spawn the task (so effects built inside `fun` are spawned before it) |
| `build`                      | `Render::build` of each of the above; element: create, attributes in order, children built then mounted (`+1` mutation per top-level child) |
| `rebuild`                    | `Render::rebuild` of a freshly constructed view against the old state: static structure is kept; a reactive attribute becomes a NEW effect over the old attribute state (`RenderEffect::new_with_value(.., state.take_value())`); a reactive child (`F::rebuild`) is built anew, mounted before the old one, the old one unmounted and dropped |
| `dropEff`, `zombies`         | dropping a `RenderEffect` drops its `EffectInner` (the task is woken and ends at its next poll) but the task keeps the value `Arc` alive until then: effects nested in that value stay alive, react, and are dropped only when the outer task is polled |
| `pollTask`                   | one poll of a render effect's task: `while rx.next().await.is_some() { if update_if_necessary { clear_sources; value = fun(value) } }` |
| `setSig`                     | `RwSignal::set` |
| `dispose`                    | dropping the `UnmountHandle` of `leptos::mount::mount_to_renderer`: `unmount()` then the state is dropped |
| `ready`                      | `hx_common::sched::ready()`: woken live tasks in spawn order |
| `render`                     | what a fresh CSR build of the view shows for given node values |

Text contents are kept symbolic (`Txt`): `int v` is `v.to_string()`, `px v` is `format!("{v}px")`, both
injective, so "the string changed" is "the value changed".  The attributes of an element are kept per
source (`AState`), i.e. `class` as the set of its tokens and `style` as a map — the level at which the
correspondence harness compares them (it sorts tokens and declarations); attribute names of one
element are pairwise different (`View.wf`).

Not modelled (correspondence only, see the harness): `Suspense`, `Transition`, `ErrorBoundary`.
-/
namespace Leptos.RView
open Leptos.Reactive (Expr Prog NodeDef)

/-! ## programs -/

inductive Txt where
  | lit (s : String)
  | int (v : Int)
  | px (v : Int)
  deriving Repr, BEq, Inhabited, DecidableEq

inductive Attr where
  | stat (name : String) (value : String)
  | dyn (name : String) (e : Expr)
  | cls (name : String) (e : Expr)
  | sty (name : String) (e : Expr)
  deriving Repr, BEq, Inhabited, DecidableEq

inductive View where
  | text (s : String)
  | unit
  | elem (tag : String) (attrs : List Attr) (kid : View)
  | seq (a b : View)
  | dynText (e : Expr)
  | either (c : Expr) (a b : View)
  | show (c : Expr) (a b : View)
  | forKeyed (sel : Expr) (lists : List (List Nat))
  deriving Repr, BEq, Inhabited, DecidableEq

/-! ## retained state = DOM -/

/-- a DOM node: arena id and mutation counter -/
structure N where
  id : Nat
  muts : Nat
  deriving Repr, BEq, Inhabited, DecidableEq

/-- state of one attribute source; for the dynamic ones: the effect and the value last written to the DOM -/
inductive AState where
  | stat (name : String) (value : String)
  | dyn (e : Nat) (name : String) (x : Expr) (last : Int)
  | cls (e : Nat) (name : String) (x : Expr) (last : Bool)
  | sty (e : Nat) (name : String) (x : Expr) (last : Int)
  deriving Repr, Inhabited

inductive RState where
  | text (n : N) (s : String)
  | unit (n : N)
  | elem (n : N) (tag : String) (as : List AState) (kid : RState)
  | seq (a b : RState)
  /-- `RenderEffectState<StringState>` -/
  | dynText (e : Nat) (x : Expr) (n : N) (last : Int)
  /-- `RenderEffectState<Either<A::State, B::State>>` -/
  | either (e : Nat) (c : Expr) (a b : View) (left : Bool) (inner : RState)
  /-- `Show`: the same with the memo `m` in front of the condition -/
  | show (e m : Nat) (c : Expr) (a b : View) (left : Bool) (inner : RState)
  /-- `RenderEffectState<KeyedState>`: `texts` maps an item's `<li>` id to its text node id -/
  | forK (e : Nat) (sel : Expr) (lists : List (List Nat)) (ks : Keyed.KState) (texts : List (Nat × Nat))
  deriving Repr, Inhabited

/-- number of top-level DOM nodes of a state (what `mount` inserts and `unmount` removes) -/
def RState.tops : RState → Nat
  | .text _ _ => 1
  | .unit _ => 1
  | .elem _ _ _ _ => 1
  | .seq a b => a.tops + b.tops
  | .dynText _ _ _ _ => 1
  | .either _ _ _ _ _ inner => inner.tops
  | .show _ _ _ _ _ _ inner => inner.tops
  | .forK _ _ _ ks _ => ks.w.kids.length

structure St where
  /-- signals, memos and (appended as they are created) render effects; ids are positions -/
  prog : Prog := []
  rs : Reactive.State := {}
  /-- next DOM node id -/
  next : Nat := 0
  /-- render-effect tasks in spawn order -/
  tasks : List Nat := []
  /-- dropped effects whose task has not been polled since, with the value the task still holds -/
  zombies : List (Nat × Option RState) := []
  root : Option RState := none
  rootN : N := ⟨0, 0⟩
  mounted : Bool := false
  disposed : Bool := false
  deriving Inhabited

def St.fuel (st : St) : Nat := Reactive.fuelFor st.prog

def St.alloc (st : St) : N × St := (⟨st.next, 0⟩, { st with next := st.next + 1 })

/-- append a node definition to the program and its initial node to the reactive state -/
def St.addDef (st : St) (d : NodeDef) : Nat × St :=
  (st.prog.length,
   { st with prog := st.prog ++ [d],
             rs := { st.rs with nodes := st.rs.nodes ++ [Reactive.initNode d] } })

/-- `RenderEffect::new`: the function runs once, synchronously, under the new observer -/
def newEff (st : St) (body : Expr) : Nat × Int × St :=
  let (e, st) := st.addDef (.eff body)
  let rs := Reactive.initRenderEffect st.prog st.rs e
  (e, (rs.get e).val.getD 0, { st with rs := rs })

/-- `Executor::spawn_local` of the effect's task, after the first run -/
def St.spawn (st : St) (e : Nat) : St := { st with tasks := st.tasks ++ [e] }

/-- the `RenderEffect` handle is dropped: `EffectInner` goes away (its `Sender` wakes the task), the
task keeps `held` alive until it is polled -/
def dropEff (st : St) (e : Nat) (held : Option RState) : St :=
  { st with rs := (Reactive.step st.prog st.rs (.dispose e)).1, zombies := st.zombies ++ [(e, held)] }

def AState.held : AState → List (Nat × Option RState)
  | .stat _ _ => []
  | .dyn e _ _ _ => [(e, none)]
  | .cls e _ _ _ => [(e, none)]
  | .sty e _ _ _ => [(e, none)]

/-- the render effects a state owns directly, each with the value it holds -/
def RState.held : RState → List (Nat × Option RState)
  | .text _ _ => []
  | .unit _ => []
  | .elem _ _ as kid => as.flatMap AState.held ++ kid.held
  | .seq a b => a.held ++ b.held
  | .dynText e _ _ _ => [(e, none)]
  | .either e _ _ _ _ inner => [(e, some inner)]
  | .show e _ _ _ _ _ inner => [(e, some inner)]
  | .forK e _ _ _ _ => [(e, none)]

def dropAll (st : St) (l : List (Nat × Option RState)) : St :=
  l.foldl (fun st eh => dropEff st eh.1 eh.2) st

/-- a state is dropped: every render effect it owns directly is dropped -/
def dropState (st : St) (t : RState) : St := dropAll st t.held

/-! ## build -/

def forIndex (v : Int) (n : Nat) : Nat := (v % (n : Int)).toNat

def listAt (lists : List (List Nat)) (v : Int) : List Nat :=
  lists.getD (forIndex v lists.length) []

/-- `Attribute::build` of one attribute: new state, DOM calls made on the element -/
def buildAttr (st : St) : Attr → AState × St × Nat
  | .stat n v => (.stat n v, st, 1)
  | .dyn n x =>
    let (e, v, st) := newEff st x
    (.dyn e n x v, st.spawn e, 1)
  | .cls n x =>
    let (e, v, st) := newEff st x
    (.cls e n x (v != 0), st.spawn e, if v != 0 then 1 else 0)
  | .sty n x =>
    let (e, v, st) := newEff st x
    (.sty e n x v, st.spawn e, 1)

def buildAttrs : List Attr → St → List AState × St × Nat
  | [], st => ([], st, 0)
  | a :: as, st =>
    let (s, st, m) := buildAttr st a
    let (ss, st, ms) := buildAttrs as st
    (s :: ss, st, m + ms)

/-- the rows of a `<For>`: `Keyed::build` allocates the `<li>` ids and the marker; the text children
get the ids after them, in row order -/
def buildFor (st : St) (keys : List Nat) : Keyed.KState × List (Nat × Nat) × St :=
  let ks := (Keyed.build 1 keys [] st.next).mount none
  let lis := List.range' st.next keys.length
  let texts := lis.zip (List.range' ks.w.next keys.length)
  (ks, texts, { st with next := ks.w.next + keys.length })

/-- `Render::build` (the result is not yet mounted) -/
def build : View → St → RState × St
  | .text s, st =>
    let (n, st) := st.alloc
    (.text n s, st)
  | .unit, st =>
    let (n, st) := st.alloc
    (.unit n, st)
  | .elem tag attrs kid, st =>
    let (n, st) := st.alloc
    let (as, st, m) := buildAttrs attrs st
    let (k, st) := build kid st
    (.elem ⟨n.id, m + k.tops⟩ tag as k, st)
  | .seq a b, st =>
    let (sa, st) := build a st
    let (sb, st) := build b st
    (.seq sa sb, st)
  | .dynText x, st =>
    let (e, v, st) := newEff st x
    let (n, st) := st.alloc
    (.dynText e x n v, st.spawn e)
  | .either c a b, st =>
    let (e, v, st) := newEff st c
    let (inner, st) := if v != 0 then build a st else build b st
    (.either e c a b (v != 0) inner, st.spawn e)
  | .show c a b, st =>
    -- `ArcMemo::new(move |_| when())` is a memo over the BOOLEAN
    let (m, st) := st.addDef (.memo (.ite c (.lit 1) (.lit 0)))
    let (e, v, st) := newEff st (.rd true m)
    let (inner, st) := if v != 0 then build a st else build b st
    (.show e m c a b (v != 0) inner, st.spawn e)
  | .forKeyed sel lists, st =>
    let (e, v, st) := newEff st sel
    let (ks, texts, st) := buildFor st (listAt lists v)
    (.forK e sel lists ks texts, st.spawn e)

/-! ## rebuild: a fresh view of the same shape against the old state -/

/-- `F::rebuild` (tachys/src/reactive_graph/mod.rs): build the new effect, mount its state before the
old one, unmount the old one, drop it.  Returns the number of mutations of the parent's child list. -/
def replace (v : View) (old : RState) (st : St) : RState × St × Nat :=
  let (new, st) := build v st
  (new, dropState st old, new.tops + old.tops)

/-- `Attribute::rebuild`: a reactive attribute becomes a new effect over the old attribute state -/
def rebuildAttr (st : St) : Attr → AState → AState × St × Nat
  | .stat n v, .stat _ v' => (.stat n v, st, if v = v' then 0 else 1)
  | .dyn n x, .dyn e0 _ _ last =>
    let (e, v, st) := newEff st x
    let st := dropEff (st.spawn e) e0 none
    (.dyn e n x v, st, if v = last then 0 else 1)
  | .cls n x, .cls e0 _ _ last =>
    let (e, v, st) := newEff st x
    let st := dropEff (st.spawn e) e0 none
    (.cls e n x (v != 0), st, if (v != 0) = last then 0 else 1)
  | .sty n x, .sty e0 _ _ last =>
    let (e, v, st) := newEff st x
    let st := dropEff (st.spawn e) e0 none
    (.sty e n x v, st, if v = last then 0 else 1)
  -- a different attribute type at the same position cannot happen (the view type is fixed)
  | a, old =>
    let (s, st, m) := buildAttr st a
    (s, dropAll st old.held, m)

def rebuildAttrs : List Attr → List AState → St → List AState × St × Nat
  | a :: as, o :: os, st =>
    let (s, st, m) := rebuildAttr st a o
    let (ss, st, ms) := rebuildAttrs as os st
    (s :: ss, st, m + ms)
  | _, os, st => (os, st, 0)

/-- `Render::rebuild` of a freshly constructed view `v` against the state `old` of the same view type -/
def rebuild : View → RState → St → RState × St × Nat
  | .text s, .text n s', st =>
    if s = s' then (.text n s', st, 0) else (.text ⟨n.id, n.muts + 1⟩ s, st, 0)
  | .unit, .unit n, st => (.unit n, st, 0)
  | .elem tag attrs kid, .elem n _ as k, st =>
    let (as, st, m) := rebuildAttrs attrs as st
    let (k, st, d) := rebuild kid k st
    (.elem ⟨n.id, n.muts + m + d⟩ tag as k, st, 0)
  | .seq a b, .seq sa sb, st =>
    let (sa, st, da) := rebuild a sa st
    let (sb, st, db) := rebuild b sb st
    (.seq sa sb, st, da + db)
  | v, old, st => replace v old st

/-! ## re-running one render effect -/

/-- the `<For>` effect runs again: `Keyed::rebuild`; new rows get text nodes -/
def rerunFor (st : St) (ks : Keyed.KState) (texts : List (Nat × Nat)) (keys : List Nat) :
    Keyed.KState × List (Nat × Nat) × St × Nat :=
  let frm := ks.hashed
  -- the node-id counter is global: the list continues from whichever is larger
  let n0 := max ks.w.next st.next
  let ks' := Keyed.rebuild { ks with w := { ks.w with next := n0 } } keys
  let nb := ks'.w.log.builds.length
  let lis := List.range' n0 nb
  let texts' := texts.filter (fun p => ks'.w.kids.contains p.1) ++ lis.zip (List.range' ks'.w.next nb)
  let delta := ks'.w.log.unmounts.length + nb + 2 * (Keyed.domMovedKeys Keyed.diff frm keys).length
  (ks', texts', { st with next := ks'.w.next + nb }, delta)

def rerunAttr (e : Nat) (v : Int) : AState → AState × Nat
  | .stat n s => (.stat n s, 0)
  | .dyn e' n x last =>
    if e' = e then (.dyn e' n x v, if v = last then 0 else 1) else (.dyn e' n x last, 0)
  | .cls e' n x last =>
    if e' = e then (.cls e' n x (v != 0), if (v != 0) = last then 0 else 1) else (.cls e' n x last, 0)
  | .sty e' n x last =>
    if e' = e then (.sty e' n x v, if v = last then 0 else 1) else (.sty e' n x last, 0)

def rerunAttrs (e : Nat) (v : Int) : List AState → List AState × Nat
  | [] => ([], 0)
  | a :: as =>
    let (a', m) := rerunAttr e v a
    let (as', ms) := rerunAttrs e v as
    (a' :: as', m + ms)

/-- effect `e` has just run again with value `v`: its function rebuilds its region, wherever it is in
the tree.  Returns the mutations of the enclosing parent's child list. -/
def rerunIn (e : Nat) (v : Int) : RState → St → RState × St × Nat
  | .text n s, st => (.text n s, st, 0)
  | .unit n, st => (.unit n, st, 0)
  | .elem n tag as kid, st =>
    let (as, m) := rerunAttrs e v as
    let (kid, st, d) := rerunIn e v kid st
    (.elem ⟨n.id, n.muts + m + d⟩ tag as kid, st, 0)
  | .seq a b, st =>
    let (a, st, da) := rerunIn e v a st
    let (b, st, db) := rerunIn e v b st
    (.seq a b, st, da + db)
  | .dynText e' x n last, st =>
    if e' = e then
      (.dynText e' x (if v = last then n else ⟨n.id, n.muts + 1⟩) v, st, 0)
    else (.dynText e' x n last, st, 0)
  | .either e' c a b left inner, st =>
    if e' = e then
      if (v != 0) = left then
        let (inner, st, d) := rebuild (if left then a else b) inner st
        (.either e' c a b left inner, st, d)
      else
        let (new, st, d) := replace (if v != 0 then a else b) inner st
        (.either e' c a b (v != 0) new, st, d)
    else
      let (inner, st, d) := rerunIn e v inner st
      (.either e' c a b left inner, st, d)
  | .show e' m c a b left inner, st =>
    if e' = e then
      if (v != 0) = left then
        let (inner, st, d) := rebuild (if left then a else b) inner st
        (.show e' m c a b left inner, st, d)
      else
        let (new, st, d) := replace (if v != 0 then a else b) inner st
        (.show e' m c a b (v != 0) new, st, d)
    else
      let (inner, st, d) := rerunIn e v inner st
      (.show e' m c a b left inner, st, d)
  | .forK e' sel lists ks texts, st =>
    if e' = e then
      let (ks, texts, st, d) := rerunFor st ks texts (listAt lists v)
      (.forK e' sel lists ks texts, st, d)
    else (.forK e' sel lists ks texts, st, 0)

/-- the same for the values held by zombies (their DOM is detached: the counts are dropped) -/
def rerunZombies (e : Nat) (v : Int) : List (Nat × Option RState) → St → List (Nat × Option RState) × St
  | [], st => ([], st)
  | (z, none) :: rest, st =>
    let (rest, st) := rerunZombies e v rest st
    ((z, none) :: rest, st)
  | (z, some t) :: rest, st =>
    let (t, st, _) := rerunIn e v t st
    let (rest, st) := rerunZombies e v rest st
    ((z, some t) :: rest, st)

/-- `fun(old_value)` of effect `e` after its expression evaluated to `v` -/
def rerun (st : St) (e : Nat) (v : Int) : St :=
  let st :=
    match st.root with
    | some t =>
      let (t, st, d) := rerunIn e v t { st with root := none }
      { st with root := some t, rootN := ⟨st.rootN.id, st.rootN.muts + d⟩ }
    | none => st
  -- zombies created by this very run are appended behind the old ones and cannot contain `e`
  let old := st.zombies
  let (zs, st) := rerunZombies e v old { st with zombies := [] }
  { st with zombies := zs ++ st.zombies }

/-- the body of the task's `while` loop, repeated while the channel is set -/
def effLoop : Nat → St → Nat → St
  | 0, st, _ => st
  | k + 1, st, e =>
    if !(st.rs.get e).chan then st else
    let rs := st.rs.upd e fun n => { n with chan := false }
    let saved := rs.obs
    let (rs, need) := Reactive.effUpdate st.prog st.fuel { rs with obs := some e } e
    let rs := { rs with obs := saved }
    if need then
      let rs := Reactive.runEffBody st.prog st.fuel rs e
      effLoop k (rerun { st with rs := rs } e ((rs.get e).val.getD 0)) e
    else effLoop k { st with rs := rs } e

/-- the values a finished task lets go of -/
def releaseZombie (st : St) (e : Nat) : St :=
  let mine := st.zombies.filter fun z => z.1 == e
  let st := { st with zombies := st.zombies.filter fun z => !(z.1 == e) }
  mine.foldl (fun st z => match z.2 with | some t => dropState st t | none => st) st

/-- one poll of effect `e`'s task by the executor (which clears the wake flag first) -/
def pollTask (st : St) (e : Nat) : St :=
  let rs := st.rs.upd e fun n => { n with woken := false }
  if !(rs.get e).alive then
    -- the `Sender` is gone: the stream ends, the task finishes and drops what it held
    releaseZombie { st with rs := rs.upd e fun n => { n with done := true } } e
  else effLoop 64 { st with rs := rs } e

/-- woken live tasks in spawn order -/
def ready (st : St) : List Nat :=
  st.tasks.filter fun e => (st.rs.get e).woken && !(st.rs.get e).done

def pollNth (st : St) (i : Nat) : St :=
  let r := ready st
  if r.isEmpty then st else pollTask st (r.getD (i % r.length) 0)

def runIdle : Nat → St → St
  | 0, st => st
  | k + 1, st => if (ready st).isEmpty then st else runIdle k (pollNth st 0)

/-! ## external operations -/

def addSig (st : St) (v : Int) : St := (st.addDef (.sig v)).2
def addMemo (st : St) (b : Expr) : St := (st.addDef (.memo b)).2

/-- `mount_to_renderer(&root, || view)`: build, then mount into the (empty) root element -/
def mount (st : St) (v : View) : St :=
  let (rootN, st) := st.alloc
  let (t, st) := build v st
  { st with root := some t, rootN := ⟨rootN.id, t.tops⟩, mounted := true }

def setSig (st : St) (id : Nat) (v : Int) : St :=
  { st with rs := (Reactive.step st.prog st.rs (.set id v)).1 }

/-- the `UnmountHandle` is dropped -/
def dispose (st : St) : St :=
  match st.root with
  | some t =>
    let st := { st with root := none, rootN := ⟨st.rootN.id, st.rootN.muts + t.tops⟩, disposed := true }
    dropState st t
  | none => { st with disposed := true }

inductive Op where
  | set (id : Nat) (v : Int)
  | poll (i : Nat)
  | idle
  | dispose
  deriving Repr, BEq, Inhabited, DecidableEq

def step (st : St) : Op → St
  | .set id v => setSig st id v
  | .poll i => pollNth st i
  | .idle => runIdle 4096 st
  | .dispose => dispose st

/-- a program: node definitions (signals and memos) and the view -/
structure Program where
  defs : Prog
  view : View
  deriving Repr, Inhabited

def initDefs (defs : Prog) : St :=
  defs.foldl (fun st d => (st.addDef d).2) {}

def start (p : Program) : St := mount (initDefs p.defs) p.view

def run (p : Program) (ops : List Op) : St := ops.foldl step (start p)

/-! ## what the DOM shows -/

inductive AOut where
  | plain (name : String) (value : Txt)
  | cls (name : String) (on : Bool)
  | sty (name : String) (value : Txt)
  deriving Repr, BEq, Inhabited, DecidableEq

/-- the DOM is serialised as a token stream (what `outerHTML` is made of): `open`/`close` bracket
an element's children -/
inductive Tok where
  | text (t : Txt)
  | comment
  | open (tag : String) (attrs : List AOut)
  | close
  deriving Repr, BEq, Inhabited, DecidableEq

def AState.out : AState → AOut
  | .stat n v => .plain n (.lit v)
  | .dyn _ n _ last => .plain n (.int last)
  | .cls _ n _ last => .cls n last
  | .sty _ n _ last => .sty n (.px last)

/-- key of the row whose `<li>` has id `li` -/
def keyOfLi (ks : Keyed.KState) (li : Nat) : Option Nat :=
  (ks.w.storage.filterMap id).findSome? fun it => if it.nodes.contains li then some it.key else none

/-- the rows in DOM order: every child of the region except the marker -/
def forRows (ks : Keyed.KState) : List Nat :=
  (ks.w.kids.filter (· != ks.marker)).map fun li => (keyOfLi ks li).getD 0

def rowTree (k : Nat) : List Tok := [.open "li" [], .text (.int k), .close]

/-- the DOM nodes of a state, without identities -/
def serialize : RState → List Tok
  | .text _ s => [.text (.lit s)]
  | .unit _ => [.comment]
  | .elem _ tag as kid => [.open tag (as.map AState.out)] ++ serialize kid ++ [.close]
  | .seq a b => serialize a ++ serialize b
  | .dynText _ _ _ last => [.text (.int last)]
  | .either _ _ _ _ _ inner => serialize inner
  | .show _ _ _ _ _ _ inner => serialize inner
  | .forK _ _ _ ks _ => (forRows ks).flatMap rowTree ++ [.comment]

def renderAttr (ρ : Nat → Int) : Attr → AOut
  | .stat n v => .plain n (.lit v)
  | .dyn n x => .plain n (.int (Reactive.evalPure ρ x))
  | .cls n x => .cls n (Reactive.evalPure ρ x != 0)
  | .sty n x => .sty n (.px (Reactive.evalPure ρ x))

/-- the from-scratch DOM of a view for node values `ρ` -/
def render (ρ : Nat → Int) : View → List Tok
  | .text s => [.text (.lit s)]
  | .unit => [.comment]
  | .elem tag attrs kid => [.open tag (attrs.map (renderAttr ρ))] ++ render ρ kid ++ [.close]
  | .seq a b => render ρ a ++ render ρ b
  | .dynText x => [.text (.int (Reactive.evalPure ρ x))]
  | .either c a b => if Reactive.evalPure ρ c != 0 then render ρ a else render ρ b
  | .show c a b => if Reactive.evalPure ρ c != 0 then render ρ a else render ρ b
  | .forKeyed sel lists => (listAt lists (Reactive.evalPure ρ sel)).flatMap rowTree ++ [.comment]

/-- from-scratch values of all nodes of the current program for the current signal values -/
def St.env (st : St) : Nat → Int := fun i => Reactive.specVal st.prog st.rs i

/-- the mount root's children -/
def St.dom (st : St) : List Tok :=
  match st.root with
  | some t => serialize t
  | none => []

/-! ## well-formedness of programs -/

def Attr.key : Attr → String × String
  | .stat n _ => ("a", n)
  | .dyn n _ => ("a", n)
  | .cls n _ => ("c", n)
  | .sty n _ => ("s", n)

def Attr.exprOk (k : Nat) : Attr → Bool
  | .stat _ _ => true
  | .dyn _ x => x.readsBelow k && x.noWrite && x.noUntracked
  | .cls _ x => x.readsBelow k && x.noWrite && x.noUntracked
  | .sty _ x => x.readsBelow k && x.noWrite && x.noUntracked

def nodupKeys : List (String × String) → Bool
  | [] => true
  | k :: ks => !ks.contains k && nodupKeys ks

def nodupNat : List Nat → Bool
  | [] => true
  | k :: ks => !ks.contains k && nodupNat ks

/-- expressions read nodes `< k` only, tracked, without writes; attribute sources of one element have
pairwise different names; the key lists of a `<For>` are duplicate-free and there is at least one -/
def View.wf (k : Nat) : View → Bool
  | .text _ => true
  | .unit => true
  | .elem _ attrs kid => attrs.all (Attr.exprOk k) && nodupKeys (attrs.map Attr.key) && kid.wf k
  | .seq a b => a.wf k && b.wf k
  | .dynText x => x.readsBelow k && x.noWrite && x.noUntracked
  | .either c a b => c.readsBelow k && c.noWrite && c.noUntracked && a.wf k && b.wf k
  | .show c a b => c.readsBelow k && c.noWrite && c.noUntracked && a.wf k && b.wf k
  | .forKeyed sel lists =>
    sel.readsBelow k && sel.noWrite && sel.noUntracked && !lists.isEmpty && lists.all nodupNat

def defsOk (defs : Prog) : Bool :=
  Reactive.WF defs && defs.all fun d => match d with
    | .sig _ => true
    | .memo b => b.noUntracked
    | .eff _ => false

def Program.wf (p : Program) : Bool := defsOk p.defs && p.view.wf p.defs.length

end Leptos.RView
