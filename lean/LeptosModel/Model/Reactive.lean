import LeptosModel.Model.Wire
/-!
# Model/Reactive — signals, memos and effects of `reactive_graph` (C01 C02 C09, reused by C04)

Programs are data (`Prog = List NodeDef`, node ids are list positions); every
function below mirrors one function of the Rust code:

| model                | code |
|----------------------|------|
| `subscribe`          | `SubscriberSet::subscribe` (graph/sets.rs): push unless present |
| `track`              | `Track::track` (traits.rs): `subscriber.add_source(..)` (a plain push, duplicates kept) then `source.add_subscriber(..)` |
| `clearSources`       | `SourceSet::clear_sources` + `SubscriberSet::unsubscribe` (order-preserving remove of the first occurrence) |
| `markCheck`          | `MemoInner::mark_check` (computed/inner.rs) / `EffectInner::mark_check` = `observer.notify()` (effect/inner.rs) |
| `markDirty`          | `MemoInner::mark_dirty` (state ← Dirty, subscribers ← Check) / `EffectInner::mark_dirty` (`dirty = true; notify`) |
| `sigNotify`          | `impl ReactiveNode for T: AsSubscriberSet` `mark_dirty` (signal/subscriber_traits.rs): clone the subscriber set, `mark_dirty` each |
| `notify`             | `Sender::notify` (channel.rs): `set = true; waker.wake()` |
| `anySrc`             | the `any` loops of `needs_update` (memo: re-reads its own state after each source) and `EffectInner::update_if_necessary` (no re-read) |
| `upd`                | `MemoInner::update_if_necessary`: `needs_update`; `value.take()`; `clear_sources`; run under `with_observer`; store; `state = Clean`; if changed mark every subscriber Dirty **except the current observer** |
| `readNode`           | `Read::try_read` = `track()` then `try_read_untracked()` (= `update_if_necessary()` + read the value) |
| `Expr.rd false`      | `untrack(..)` = `Observer::take()` for the duration of the read |
| `effUpdate`          | `EffectInner::update_if_necessary` (`dirty` flag; else `any` over a snapshot of the sources under `untrack`, then `take(dirty)`) |
| `pollEff`            | one poll of the task spawned by `Effect::new` (effect/effect.rs): `while rx.next().await.is_some() { if with_observer(update_if_necessary) || first_run { clear_sources; run under with_observer } }`; `Receiver::poll_next` = `register; set.swap(false)` |
| `setSignal`          | `Set::set` on a signal = store + `mark_dirty` (always notifies, equal value or not) |

Recursion (`upd` ↔ body evaluation) is by fuel; `fuelFor p` = number of nodes + 1
is enough for well-formed programs (a body reads only smaller ids).

Ghost state (never read by the algorithm): `seen` (tracked reads of the last
run: id, value, version), `ver` (signals: number of writes; memos/effects: number of
runs whose result differed from the previous one), `runs`, `running`, the event `log`.
-/
namespace Leptos.Reactive

inductive Expr where
  | lit (n : Int)
  | rd (tracked : Bool) (id : Nat)
  | add (a b : Expr)
  | mulc (k : Int) (a : Expr)
  | ite (c t e : Expr)          -- c ≠ 0 selects t
  | seq (a b : Expr)
  | wr (id : Nat) (a : Expr)    -- write a signal (effects only)
  deriving Repr, BEq, Inhabited, DecidableEq

inductive NodeDef where
  | sig (init : Int)
  | memo (body : Expr)
  | eff (body : Expr)
  deriving Repr, BEq, Inhabited, DecidableEq

abbrev Prog := List NodeDef

inductive St where | clean | check | dirty
  deriving Repr, BEq, Inhabited, DecidableEq

inductive Kind where | sig | memo | eff
  deriving Repr, BEq, Inhabited, DecidableEq

structure Node where
  kind : Kind := .sig
  val : Option Int := none
  st : St := .dirty
  sources : List Nat := []
  subs : List Nat := []
  dirty : Bool := false      -- EffectInner.dirty
  chan : Bool := false       -- channel `set`
  woken : Bool := false      -- the task's wake flag (ready list membership)
  first : Bool := true       -- `first_run`
  paused : Bool := false     -- the effect's owner is paused (`Owner::pause`)
  alive : Bool := true       -- `false` once the effect's owner was disposed (the `Arc<RwLock<EffectInner>>` is gone)
  done : Bool := false       -- the task has finished (its stream ended)
  -- ghost
  running : Bool := false
  seen : List (Nat × Int × Nat) := []
  ver : Nat := 0
  runs : Nat := 0
  deriving Repr, BEq, Inhabited, DecidableEq

inductive Ev where
  | ran (id : Nat) | changed (id : Nat) | set (id : Nat) | woke (id : Nat)
  | unjust (id : Nat)                 -- a run none of whose previous tracked inputs has a new version
  | rdv (self id : Nat) (v : Int)     -- a tracked read made by `self`
  deriving Repr, BEq, Inhabited, DecidableEq

structure State where
  nodes : List Node := []
  obs : Option Nat := none
  log : List Ev := []
  deriving Repr, BEq, Inhabited, DecidableEq

def State.get (s : State) (i : Nat) : Node := s.nodes[i]?.getD {}
def State.upd (s : State) (i : Nat) (f : Node → Node) : State :=
  { s with nodes := s.nodes.modify i f }
def State.emit (s : State) (e : Ev) : State := { s with log := s.log ++ [e] }

def bodyOf (p : Prog) (id : Nat) : Expr :=
  match p[id]? with
  | some (.memo b) => b
  | some (.eff b) => b
  | _ => .lit 0

def initNode : NodeDef → Node
  | .sig v => { kind := .sig, val := some v, st := .clean }
  | .memo _ => { kind := .memo, st := .dirty }
  | .eff _ => { kind := .eff, dirty := true, chan := true, woken := true, first := true }

def initState (p : Prog) : State := { nodes := p.map initNode }

def fuelFor (p : Prog) : Nat := p.length + 1

def subscribe (l : List Nat) (x : Nat) : List Nat := if l.contains x then l else l ++ [x]

/-- `Sender::notify`: `set = true; waker.wake()`.  A disposed effect is only reachable through a dead
`Weak`, so nothing happens.  The ghost event `woke` records a wake-up of a task that was not already woken. -/
def notify (s : State) (id : Nat) : State :=
  if !(s.get id).alive then s else
  let fresh := !(s.get id).woken
  let s := s.upd id fun n => { n with chan := true, woken := true }
  if fresh then s.emit (.woke id) else s

/-- ghost: is a new run of `id` justified (first run, or a tracked input of the previous run has a new version)? -/
def justified (s : State) (id : Nat) : Bool :=
  (s.get id).runs == 0 || (s.get id).seen.any fun (x, _, vx) => (s.get x).ver != vx

def noteRun (s : State) (id : Nat) : State :=
  let s := if justified s id then s else s.emit (.unjust id)
  (s.upd id fun n => { n with seen := [], runs := n.runs + 1, running := true }).emit (.ran id)

def markCheck : Nat → State → Nat → State
  | 0, s, _ => s
  | f + 1, s, id =>
    match (s.get id).kind with
    | .sig => s
    | .eff => notify s id
    | .memo =>
      let s := if (s.get id).st != .dirty then s.upd id fun n => { n with st := .check } else s
      (s.get id).subs.foldl (fun s x => markCheck f s x) s

def markDirty (f : Nat) (s : State) (id : Nat) : State :=
  match (s.get id).kind with
  | .sig => s
  | .eff => if !(s.get id).alive then s else notify (s.upd id fun n => { n with dirty := true }) id
  | .memo =>
    let s := s.upd id fun n => { n with st := .dirty }
    (s.get id).subs.foldl (fun s x => markCheck f s x) s

/-- a signal's `mark_dirty`: every subscriber (snapshot) is marked Dirty -/
def sigNotify (f : Nat) (s : State) (id : Nat) : State :=
  (s.get id).subs.foldl (fun s x => markDirty f s x) s

def setSignal (f : Nat) (s : State) (id : Nat) (v : Int) : State :=
  let s := (s.upd id fun n => { n with val := some v, ver := n.ver + 1 }).emit (.set id)
  sigNotify f s id

def track (s : State) (src : Nat) : State :=
  match s.obs with
  | some o =>
    let s := s.upd o fun n => { n with sources := n.sources ++ [src] }
    s.upd src fun n => { n with subs := subscribe n.subs o }
  | none => s

def clearSources (s : State) (id : Nat) : State :=
  let s := (s.get id).sources.foldl (fun s src => s.upd src fun n => { n with subs := n.subs.erase id }) s
  s.upd id fun n => { n with sources := [] }

/-- the `any` loop over a snapshot of sources; `recheck` = re-read own state (memos) -/
def anySrc (u : State → Nat → State × Bool) (recheck : Bool) (self : Nat) :
    List Nat → State → State × Bool
  | [], s => (s, false)
  | x :: rest, s =>
    let (s, ch) := u s x
    if ch || (recheck && (s.get self).st == .dirty) then (s, true)
    else anySrc u recheck self rest s

/-- body evaluation, parameterised by the reader and the writer -/
def evalE (rdN : State → Nat → State × Int) (wrN : State → Nat → Int → State) (self : Nat) :
    Expr → State → State × Int
  | .lit n, s => (s, n)
  | .rd tracked id, s =>
    if tracked then
      let (s, v) := rdN s id
      let vr := (s.get id).ver
      ((s.upd self fun n => { n with seen := n.seen ++ [(id, v, vr)] }).emit (.rdv self id v), v)
    else
      let saved := s.obs
      let (s, v) := rdN { s with obs := none } id
      ({ s with obs := saved }, v)
  | .add a b, s =>
    let (s, x) := evalE rdN wrN self a s
    let (s, y) := evalE rdN wrN self b s
    (s, x + y)
  | .mulc k a, s =>
    let (s, x) := evalE rdN wrN self a s
    (s, k * x)
  | .ite c t e, s =>
    let (s, x) := evalE rdN wrN self c s
    if x != 0 then evalE rdN wrN self t s else evalE rdN wrN self e s
  | .seq a b, s =>
    let (s, _) := evalE rdN wrN self a s
    evalE rdN wrN self b s
  | .wr id a, s =>
    let (s, x) := evalE rdN wrN self a s
    (wrN s id x, x)

/-- `Read::try_read` for a signal or a memo -/
def readNode (u : State → Nat → State × Bool) (s : State) (id : Nat) : State × Int :=
  let s := track s id
  match (s.get id).kind with
  | .sig => (s, (s.get id).val.getD 0)
  | .memo => let (s, _) := u s id; (s, (s.get id).val.getD 0)
  | .eff => (s, 0)

/-- `update_if_necessary` of node `id` (signals: `false`) -/
def upd (p : Prog) : Nat → State → Nat → State × Bool
  | 0, s, _ => (s, false)
  | f + 1, s, id =>
    let n := s.get id
    if n.kind != .memo then (s, false) else
    let (s, need) :=
      match n.st with
      | .clean => (s, false)
      | .dirty => (s, true)
      | .check => anySrc (upd p f) true id n.sources s
    if need then
      let old := (s.get id).val
      let s := s.upd id fun n => { n with val := none }
      let s := clearSources s id
      let s := noteRun s id
      let saved := s.obs
      let s := { s with obs := some id }
      -- memo bodies do not write (well-formedness); a stray `wr` is ignored
      let (s, v) := evalE (readNode (upd p f)) (fun s _ _ => s) id (bodyOf p id) s
      let s := { s with obs := saved }
      let changed := old != some v
      let s := s.upd id fun n =>
        { n with val := some v, st := .clean, running := false, ver := (if changed then n.ver + 1 else n.ver) }
      if changed then
        let s := s.emit (.changed id)
        -- the mark phase has its own fuel (`fuelFor p` bounds every subscriber chain): it must not
        -- depend on the depth `f` of the pull, the real `mark_dirty` / `mark_check` is not depth-limited
        let s := (s.get id).subs.foldl
          (fun s x => if s.obs == some x then s else markDirty (fuelFor p) s x) s
        (s, true)
      else (s, false)
    else
      (s.upd id fun n => { n with st := .clean }, false)

/-- `EffectInner::update_if_necessary` (after the repair `fix: effects can miss an update or run twice …`):
the sources are walked under `untrack` (no observer), then the `dirty` flag is folded into the answer and
cleared.  The code before the repair is `effUpdateOld` in `Model/ReactiveOld.lean`. -/
def effUpdate (p : Prog) (f : Nat) (s : State) (id : Nat) : State × Bool :=
  if (s.get id).dirty then (s.upd id fun n => { n with dirty := false }, true)
  else
    let saved := s.obs
    let (s, any) := anySrc (upd p f) false id (s.get id).sources { s with obs := none }
    let s := { s with obs := saved }
    let was := (s.get id).dirty
    (s.upd id fun n => { n with dirty := false }, any || was)

/-- the body of the effect task's `while` loop, repeated while the channel is set -/
def effLoop (p : Prog) (f : Nat) : Nat → State → Nat → State
  | 0, s, _ => s
  | k + 1, s, e =>
    if !(s.get e).chan then s else
    let s := s.upd e fun n => { n with chan := false }
    -- `!owner.paused() && …`: a paused effect consumes the notification and does nothing
    if (s.get e).paused then effLoop p f k s e else
    let saved := s.obs
    let (s, need) := effUpdate p f { s with obs := some e } e
    let s := { s with obs := saved }
    if need || (s.get e).first then
      let s := s.upd e fun n => { n with first := false }
      let s := clearSources s e
      let old := (s.get e).val
      let s := noteRun s e
      let s := { s with obs := some e }
      let (s, v) := evalE (readNode (upd p f)) (setSignal f) e (bodyOf p e) s
      let s := { s with obs := saved }
      let s := s.upd e fun n =>
        { n with val := some v, running := false, ver := (if old != some v then n.ver + 1 else n.ver) }
      effLoop p f k s e
    else effLoop p f k s e

/-- one run of an effect body (the inside of the `if` of the task loop) -/
def runEffBody (p : Prog) (f : Nat) (s : State) (e : Nat) : State :=
  let saved := s.obs
  let s := clearSources s e
  let old := (s.get e).val
  let s := noteRun s e
  let s := { s with obs := some e }
  let (s, v) := evalE (readNode (upd p f)) (setSignal f) e (bodyOf p e) s
  let s := { s with obs := saved }
  s.upd e fun n =>
    { n with val := some v, running := false, ver := (if old != some v then n.ver + 1 else n.ver) }

/-- `RenderEffect::new`: `dirty: false`, no initial notification, the body runs synchronously at
creation; afterwards the same task loop as `Effect::new` with `first_run = false`. -/
def initRenderEffect (p : Prog) (s : State) (e : Nat) : State :=
  let s := s.upd e fun n => { n with dirty := false, chan := false, woken := true, first := false }
  runEffBody p (fuelFor p) s e

/-- one poll of effect `e`'s task by the executor (the executor clears the wake flag first) -/
def pollEff (p : Prog) (s : State) (e : Nat) : State :=
  let s := s.upd e fun n => { n with woken := false }
  -- the `Sender` is gone: `Receiver::poll_next` yields `None`, the task ends
  if !(s.get e).alive then s.upd e fun n => { n with done := true } else
  effLoop p (fuelFor p) 64 s e

/-- live woken tasks in spawn order -/
def ready (s : State) : List Nat :=
  (List.range s.nodes.length).filter fun i => (s.get i).kind == .eff && (s.get i).woken && !(s.get i).done

inductive Op where
  | set (id : Nat) (v : Int)
  | read (id : Nat)
  | poll (i : Nat)       -- poll the `i mod len`-th ready task
  | idle                 -- FIFO until no task is woken (bounded)
  | pause (e : Nat)      -- `Owner::pause` on the owner the effect was created under
  | resume (e : Nat)
  | dispose (e : Nat)    -- clean up the owner the effect was created under
  deriving Repr, BEq, Inhabited, DecidableEq

def pollNth (p : Prog) (s : State) (i : Nat) : State :=
  let r := ready s
  if r.isEmpty then s else pollEff p s (r.getD (i % r.length) 0)

def runIdle (p : Prog) : Nat → State → State
  | 0, s => s
  | k + 1, s => if (ready s).isEmpty then s else runIdle p k (pollNth p s 0)

def step (p : Prog) (s : State) : Op → State × Option Int
  | .set id v =>
    -- only signals can be written (the API offers no `set` on memos/effects): anything else is a no-op
    match p[id]? with
    | some (.sig _) => (setSignal (fuelFor p) s id v, none)
    | _ => (s, none)
  | .read id =>
    let (s, v) := readNode (upd p (fuelFor p)) s id
    (s, some v)
  | .poll i => (pollNth p s i, none)
  | .idle => (runIdle p 256 s, none)
  | .pause e => (if (s.get e).kind == .eff then s.upd e fun n => { n with paused := true } else s, none)
  | .resume e => (if (s.get e).kind == .eff then s.upd e fun n => { n with paused := false } else s, none)
  | .dispose e =>
    -- dropping the `Sender` wakes the task one last time (`impl Drop for Inner`)
    (if (s.get e).kind == .eff && (s.get e).alive then
       let fresh := !(s.get e).woken
       let s := s.upd e fun n => { n with alive := false, woken := true }
       if fresh then s.emit (.woke e) else s
     else s, none)

def run (p : Prog) (ops : List Op) : State := ops.foldl (fun s o => (step p s o).1) (initState p)

/-! ## Specification: from-scratch evaluation -/

/-- pure evaluation of a body against an environment of node values; writes are ignored -/
def evalPure (ρ : Nat → Int) : Expr → Int
  | .lit n => n
  | .rd _ id => ρ id
  | .add a b => evalPure ρ a + evalPure ρ b
  | .mulc k a => k * evalPure ρ a
  | .ite c t e => if evalPure ρ c != 0 then evalPure ρ t else evalPure ρ e
  | .seq _ b => evalPure ρ b
  | .wr _ a => evalPure ρ a

/-- from-scratch value of node `id` given the signal values `env` (fuel ≥ id + 1 suffices) -/
def scratch (p : Prog) (env : Nat → Int) : Nat → Nat → Int
  | 0, _ => 0
  | f + 1, id =>
    match p[id]? with
    | some (.sig _) => env id
    | some (.memo b) => evalPure (fun j => scratch p env f j) b
    | some (.eff b) => evalPure (fun j => scratch p env f j) b
    | none => 0

def envOf (s : State) : Nat → Int := fun i => (s.get i).val.getD 0

def specVal (p : Prog) (s : State) (id : Nat) : Int := scratch p (envOf s) (fuelFor p) id

/-! ## Well-formedness -/

def Expr.readsBelow (k : Nat) : Expr → Bool
  | .lit _ => true
  | .rd _ id => id < k
  | .add a b => a.readsBelow k && b.readsBelow k
  | .mulc _ a => a.readsBelow k
  | .ite c t e => c.readsBelow k && t.readsBelow k && e.readsBelow k
  | .seq a b => a.readsBelow k && b.readsBelow k
  | .wr _ a => a.readsBelow k

def Expr.noWrite : Expr → Bool
  | .lit _ => true
  | .rd _ _ => true
  | .add a b => a.noWrite && b.noWrite
  | .mulc _ a => a.noWrite
  | .ite c t e => c.noWrite && t.noWrite && e.noWrite
  | .seq a b => a.noWrite && b.noWrite
  | .wr _ _ => false

def Expr.noUntracked : Expr → Bool
  | .lit _ => true
  | .rd t _ => t
  | .add a b => a.noUntracked && b.noUntracked
  | .mulc _ a => a.noUntracked
  | .ite c t e => c.noUntracked && t.noUntracked && e.noUntracked
  | .seq a b => a.noUntracked && b.noUntracked
  | .wr _ a => a.noUntracked

/-- reads (tracked or not) target signals and memos only -/
def Expr.readsData (p : Prog) : Expr → Bool
  | .lit _ => true
  | .rd _ id => match p[id]? with | some (.sig _) => true | some (.memo _) => true | _ => false
  | .add a b => a.readsData p && b.readsData p
  | .mulc _ a => a.readsData p
  | .ite c t e => c.readsData p && t.readsData p && e.readsData p
  | .seq a b => a.readsData p && b.readsData p
  | .wr id a => (match p[id]? with | some (.sig _) => true | _ => false) && a.readsData p

def wfNode (p : Prog) (i : Nat) : NodeDef → Bool
  | .sig _ => true
  | .memo b => b.readsBelow i && b.noWrite && b.readsData p
  | .eff b => b.readsBelow i && b.readsData p

/-- a DAG by index: every body reads only smaller ids; memos do not write -/
def WF (p : Prog) : Bool :=
  (List.range p.length).all fun i => match p[i]? with | some d => wfNode p i d | none => true

end Leptos.Reactive
