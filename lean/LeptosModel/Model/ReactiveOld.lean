import LeptosModel.Model.Reactive
/-!
# Model/ReactiveOld — the effect scheduling code BEFORE the repair
`fix: effects can miss an update or run twice when a source recomputes during their check phase`
(/repo 4084efd).  Only `EffectInner::update_if_necessary` differed: it walked the sources with the
effect installed as the observer and never cleared a `dirty` flag set during that walk.
Kept so that the two defects stay kernel-checked regression witnesses (Theorems/C02, C09).
-/
namespace Leptos.Reactive

def effUpdateOld (p : Prog) (f : Nat) (s : State) (id : Nat) : State × Bool :=
  if (s.get id).dirty then (s.upd id fun n => { n with dirty := false }, true)
  else anySrc (upd p f) false id (s.get id).sources s

def effLoopOld (p : Prog) (f : Nat) : Nat → State → Nat → State
  | 0, s, _ => s
  | k + 1, s, e =>
    if !(s.get e).chan then s else
    let s := s.upd e fun n => { n with chan := false }
    if (s.get e).paused then effLoopOld p f k s e else
    let saved := s.obs
    let (s, need) := effUpdateOld p f { s with obs := some e } e
    let s := { s with obs := saved }
    if need || (s.get e).first then
      let s := s.upd e fun n => { n with first := false }
      effLoopOld p f k (runEffBody p f s e) e
    else effLoopOld p f k s e

def pollEffOld (p : Prog) (s : State) (e : Nat) : State :=
  let s := s.upd e fun n => { n with woken := false }
  if !(s.get e).alive then s.upd e fun n => { n with done := true } else
  effLoopOld p (fuelFor p) 64 s e

def pollNthOld (p : Prog) (s : State) (i : Nat) : State :=
  let r := ready s
  if r.isEmpty then s else pollEffOld p s (r.getD (i % r.length) 0)

def runIdleOld (p : Prog) : Nat → State → State
  | 0, s => s
  | k + 1, s => if (ready s).isEmpty then s else runIdleOld p k (pollNthOld p s 0)

def stepOld (p : Prog) (s : State) : Op → State × Option Int
  | .poll i => (pollNthOld p s i, none)
  | .idle => (runIdleOld p 256 s, none)
  | o => step p s o

def runOld (p : Prog) (ops : List Op) : State := ops.foldl (fun s o => (stepOld p s o).1) (initState p)

end Leptos.Reactive
