/-!
# Keyed — executable model of tachys' keyed list (`<For>` / `keyed()`), core Lean only

Mirrors /repo/tachys/src/view/keyed.rs **as it is**: `diff` / `group_adjacent_moves` are the functions
after the repair of finding F-C11-1 (/verif/hooks/fix-c11-1.patch: a moved item may skip its DOM move
only if it does not overtake another item that keeps its place; grouping keeps the `move_in_dom` flag).
The functions before the repair are kept as `diffOld` / `groupAdjacentMovesOld` / `rebuildOld`; the
theorems about them (refutation witness, exact failure class) stay as regression theorems.

A list state records whether it has a parent (`KState.parent`, Rust `parent: Option<Element>`): `build`
leaves it `None`, `mount` sets it, `unmount` keeps it, `rebuild` runs the DOM half of `apply_diff` only if
it is set (`applyDiff`), otherwise only the stored items are updated (`applyDiffDetached`). After `unmount`
the DOM half still runs, but every `insertBefore` refers to a node that is no longer a child of the parent:
a `NotFoundError`, swallowed by tachys, without any effect (`insertBefore`). Items are blocks of ≥ 1 nodes of any kind (elements, text
nodes, placeholders of `()` / `None` members, the nodes of a fragment or of a nested keyed list with
its marker): `mount` / `unmount` / `insert_before_this` of such views act on the flat block.

| here                         | Rust (tachys/src/view/keyed.rs unless noted)                               |
|------------------------------|-----------------------------------------------------------------------------|
| `diff`, `diffStep`, `nextUnmoved` | `fn diff` (the `for index in 0..max_len` loop body is `diffStep`; `next_unmoved` is the cached value of `nextUnmoved`) |
| `groupAdjacentMoves`         | `fn group_adjacent_moves` (`prev` / `new_moved` loop = `groupLoop`)          |
| `unpackMoves`, `unpackLoop`  | `fn unpack_moves` (loop counter `i`, the three peekable iterators)           |
| `applyDiff` and its phases   | `fn apply_diff` (clear / removals / move out / resize / move in / additions / drain) |
| `nextMounted`                | `VecExt::get_next_closest_mounted_sibling`                                   |
| `insertBefore`, `removeNode` | `Rndr::insert_node` (= DOM `insertBefore`, detaches first), `Rndr::remove`   |
| `mountItem`, `unmountItem`, `insertBeforeThisOrMarker` | `Mountable` for elements / tuples (html/element/mod.rs, view/tuples.rs, view/mod.rs) |
| `build`, `rebuild`, `hydrate` | `Render for Keyed` `build` / `rebuild`, `RenderHtml for Keyed` `hydrate`     |
| `KState.mount/unmount/insertBeforeThis` | `Mountable for KeyedState`                                        |

`IndexSet` lookups: `get_index i` is `l[i]?`, `contains k` is `l.contains k`, `get_full k` is
`l.idxOf? k` (sequences are duplicate-free: `IndexSet` would drop a repeated key).
The `i32` arithmetic of `move_in_dom` is done in `Int` (no overflow below 2^31 items).

The DOM is the child list of the one parent element: `pre ++ (nodes of the mounted items) ++
marker :: post`.  An item owns a block of node ids (`li` = one node, a 2-tuple = two nodes, …);
`view_fn` allocates fresh ids from a counter.  Rust panics (`unwrap` on `None`, index out of
range) set `Log.panic`; the theorems show that it stays `false`.
-/
namespace Leptos.Keyed

abbrev Key := Nat
abbrev NodeId := Nat

/-! ## diff -/

inductive AddMode where
  | normal | append
  deriving DecidableEq, Repr, Inhabited

structure DiffOpAdd where
  at_ : Nat
  mode : AddMode
  deriving DecidableEq, Repr, Inhabited

structure DiffOpMove where
  from_ : Nat
  len : Nat
  to_ : Nat
  moveInDom : Bool
  deriving DecidableEq, Repr, Inhabited

structure Diff where
  removed : List Nat := []
  moved : List DiffOpMove := []
  itemsToMove : Nat := 0
  added : List DiffOpAdd := []
  clear : Bool := false
  deriving DecidableEq, Repr, Inhabited

/-- `prev` / `new_moved` loop of `group_adjacent_moves` -/
def groupLoop : List DiffOpMove → Option DiffOpMove → List DiffOpMove → List DiffOpMove
  | [], none, out => out
  | [], some p, out => out ++ [p]
  | m :: ms, none, out => groupLoop ms (some m) out
  | m :: ms, some p, out =>
    if m.from_ == p.from_ + p.len && m.to_ == p.to_ + p.len && m.moveInDom == p.moveInDom then
      groupLoop ms (some { p with len := p.len + 1 }) out
    else
      groupLoop ms (some m) (out ++ [p])

def groupAdjacentMoves (moved : List DiffOpMove) : List DiffOpMove :=
  groupLoop moved none []

def sumLens (ms : List DiffOpMove) : Nat := (ms.map (·.len)).sum

/-- the three vectors `diff` pushes to, and `last_kept` -/
structure DiffAcc where
  removed : List Nat := []
  moved : List DiffOpMove := []
  added : List DiffOpAdd := []
  /-- index in `to` of the last item so far that keeps its place in the DOM -/
  lastKept : Option Nat := none
  deriving Repr

/-- both lists hold the same item at index `j` -/
def unmovedAt (frm to : List Key) (j : Nat) : Bool :=
  match frm[j]?, to[j]? with
  | some a, some b => a == b
  | _, _ => false

/-- the value of `next_unmoved` after the `while` loop run at `index`: the smallest index above
`index` (and below `min_len`) at which both lists hold the same item. `fuel` = indices left to scan. -/
def nextUnmovedFrom (frm to : List Key) : Nat → Nat → Option Nat
  | 0, _ => none
  | fuel + 1, j => if unmovedAt frm to j then some j else nextUnmovedFrom frm to fuel (j + 1)

def nextUnmoved (frm to : List Key) (index : Nat) : Option Nat :=
  nextUnmovedFrom frm to (min frm.length to.length - (index + 1)) (index + 1)

/-- body of `for index in 0..max_len` -/
def diffStep (frm to : List Key) (acc : DiffAcc) (index : Nat) : DiffAcc :=
  let fromItem := frm[index]?
  let toItem := to[index]?
  if fromItem == toItem then { acc with lastKept := some index }
  else
    let removed :=
      match fromItem with
      | some f => if !to.contains f then acc.removed ++ [index] else acc.removed
      | none => acc.removed
    let added :=
      match toItem with
      | some t => if !frm.contains t then acc.added ++ [{ at_ := index, mode := .normal }] else acc.added
      | none => acc.added
    match fromItem with
    | some f =>
      match to.idxOf? f with
      | some tix =>
        let movesForwardBy : Int := (tix : Int) - (index : Int)
        let moveInDom0 := movesForwardBy != (added.length : Int) - (removed.length : Int)
        -- `if !move_in_dom { … overtakes … }`
        let overtakes :=
          (match acc.lastKept with | some last => decide (tix < last) | none => false) ||
          (match nextUnmoved frm to index with | some j => decide (j < tix) | none => false)
        let moveInDom := moveInDom0 || overtakes
        { removed := removed, added := added,
          moved := acc.moved ++ [{ from_ := index, len := 1, to_ := tix, moveInDom := moveInDom }],
          lastKept := if moveInDom then acc.lastKept else some tix }
      | none => { acc with removed := removed, added := added }
    | none => { acc with removed := removed, added := added }

def diff (frm to : List Key) : Diff :=
  if frm.isEmpty && to.isEmpty then {}
  else if to.isEmpty then { clear := true }
  else if frm.isEmpty then
    { added := (List.range to.length).map fun i => { at_ := i, mode := .append } }
  else
    let acc := (List.range (max frm.length to.length)).foldl (diffStep frm to) {}
    let moved := groupAdjacentMoves acc.moved
    { removed := acc.removed, itemsToMove := sumLens moved, moved := moved, added := acc.added,
      clear := false }

/-- BEFORE the repair: `prev` / `new_moved` loop of `group_adjacent_moves` -/
def groupLoopOld : List DiffOpMove → Option DiffOpMove → List DiffOpMove → List DiffOpMove
  | [], none, out => out
  | [], some p, out => out ++ [p]
  | m :: ms, none, out => groupLoopOld ms (some m) out
  | m :: ms, some p, out =>
    if m.from_ == p.from_ + p.len && m.to_ == p.to_ + p.len then
      groupLoopOld ms (some { p with len := p.len + 1 }) out
    else
      groupLoopOld ms (some m) (out ++ [p])

def groupAdjacentMovesOld (moved : List DiffOpMove) : List DiffOpMove :=
  groupLoopOld moved none []

/-- the three vectors `diff` pushes to -/
structure DiffAccOld where
  removed : List Nat := []
  moved : List DiffOpMove := []
  added : List DiffOpAdd := []
  deriving Repr

/-- BEFORE the repair: body of `for index in 0..max_len` -/
def diffStepOld (frm to : List Key) (acc : DiffAccOld) (index : Nat) : DiffAccOld :=
  let fromItem := frm[index]?
  let toItem := to[index]?
  if fromItem != toItem then
    let removed :=
      match fromItem with
      | some f => if !to.contains f then acc.removed ++ [index] else acc.removed
      | none => acc.removed
    let added :=
      match toItem with
      | some t => if !frm.contains t then acc.added ++ [{ at_ := index, mode := .normal }] else acc.added
      | none => acc.added
    let moved :=
      match fromItem with
      | some f =>
        match to.idxOf? f with
        | some tix =>
          let movesForwardBy : Int := (tix : Int) - (index : Int)
          let moveInDom := movesForwardBy != (added.length : Int) - (removed.length : Int)
          acc.moved ++ [{ from_ := index, len := 1, to_ := tix, moveInDom := moveInDom }]
        | none => acc.moved
      | none => acc.moved
    { removed := removed, moved := moved, added := added }
  else acc

def diffOld (frm to : List Key) : Diff :=
  if frm.isEmpty && to.isEmpty then {}
  else if to.isEmpty then { clear := true }
  else if frm.isEmpty then
    { added := (List.range to.length).map fun i => { at_ := i, mode := .append } }
  else
    let acc := (List.range (max frm.length to.length)).foldl (diffStepOld frm to) {}
    let moved := groupAdjacentMovesOld acc.moved
    { removed := acc.removed, itemsToMove := sumLens moved, moved := moved, added := acc.added,
      clear := false }

/-! ## unpack_moves -/

/-- `single_move.len = 1; moves.push(single_move); move_.len -= 1; move_.from += 1; move_.to += 1;
if move_.len == 0 { moves_next = moves_iter.next() }` — returns the pushed move and the new
`moves_next :: rest of moves_iter` -/
def takeSingle (m : DiffOpMove) (ms : List DiffOpMove) : DiffOpMove × List DiffOpMove :=
  ({ m with len := 1 },
   if m.len - 1 == 0 then ms
   else { m with len := m.len - 1, from_ := m.from_ + 1, to_ := m.to_ + 1 } :: ms)

/-- the `for i in 0..n` loop of `unpack_moves`: `fuel` iterations are left, `i` is the counter,
the three lists are `removes_next :: removes_iter` etc. -/
def unpackLoop : Nat → Nat → List Nat → List DiffOpAdd → List DiffOpMove → List DiffOpMove × List DiffOpAdd
  | 0, _, _, _, _ => ([], [])
  | fuel + 1, i, rem, ads, mvs =>
    let body : Unit → List DiffOpMove × List DiffOpAdd := fun _ =>
      match ads, mvs with
      | a :: as, m :: ms =>
        if a.at_ == i then
          let r := unpackLoop fuel (i + 1) rem as (m :: ms)
          (r.1, a :: r.2)
        else
          let s := takeSingle m ms
          let r := unpackLoop fuel (i + 1) rem (a :: as) s.2
          (s.1 :: r.1, r.2)
      | a :: as, [] =>
        let r := unpackLoop fuel (i + 1) rem as []
        (r.1, a :: r.2)
      | [], m :: ms =>
        let s := takeSingle m ms
        let r := unpackLoop fuel (i + 1) rem [] s.2
        (s.1 :: r.1, r.2)
      | [], [] => ([], [])
    match rem with
    | r :: rs => if i == r then unpackLoop fuel (i + 1) rs ads mvs else body ()
    | [] => body ()

def unpackMoves (d : Diff) : List DiffOpMove × List DiffOpAdd :=
  unpackLoop (d.itemsToMove + d.added.length + d.removed.length) 0 d.removed d.added d.moved

/-! ## DOM: the parent's child list -/

/-- insert `n` in front of the first occurrence of `r` (`insertBefore` checks that `r` occurs) -/
def insBefore (r n : NodeId) : List NodeId → List NodeId
  | [] => [n]
  | x :: xs => if x == r then n :: x :: xs else x :: insBefore r n xs

/-- `parent.insertBefore(n, ref)`: `n` is detached from its old position first. A reference that is
not a child of the parent is a `NotFoundError` (raised before anything is changed; tachys swallows
it, `or_debug!`): nothing happens. -/
def insertBefore (kids : List NodeId) (n : NodeId) (ref : Option NodeId) : List NodeId :=
  match ref with
  | none => kids.erase n ++ [n]
  | some r => if kids.contains r then insBefore r n (kids.erase n) else kids

def removeNode (kids : List NodeId) (n : NodeId) : List NodeId := kids.erase n

/-- one rendered item: the `V::State` of one `view_fn` result (its DOM nodes are its identity) -/
structure Item where
  key : Key
  nodes : List NodeId
  deriving DecidableEq, Repr, Inhabited

/-- `Mountable::mount(parent, marker)` of an element / tuple of elements: every node in order -/
def mountItem (kids : List NodeId) (it : Item) (ref : Option NodeId) : List NodeId :=
  it.nodes.foldl (fun ks n => insertBefore ks n ref) kids

/-- `Mountable::unmount` -/
def unmountItem (kids : List NodeId) (it : Item) : List NodeId :=
  it.nodes.foldl removeNode kids

/-- `sib.insert_before_this_or_marker(parent, child, marker)`: before the sibling's first node;
a sibling without nodes (`()`) answers `false` and the child goes before the marker -/
def insertBeforeThisOrMarker (kids : List NodeId) (sib child : Item) (marker : NodeId) : List NodeId :=
  match sib.nodes.head? with
  | some h => mountItem kids child (some h)
  | none => mountItem kids child (some marker)

/-- `children.get_next_closest_mounted_sibling(start)` (already flattened to the item) -/
def nextMounted (storage : List (Option Item)) (start : Nat) : Option Item :=
  (storage.drop start).findSome? id

/-! ## apply_diff -/

structure Log where
  /-- `view_fn(index, item)` calls: `(key, index)` -/
  builds : List (Key × Nat) := []
  /-- `unmount` calls on item states -/
  unmounts : List Key := []
  /-- `set_index(i)` calls: `(key, i)` -/
  setIndex : List (Key × Nat) := []
  /-- a Rust panic would have happened (`unwrap` on `None`, index out of bounds) -/
  panic : Bool := false
  deriving DecidableEq, Repr, Inhabited

/-- everything `apply_diff` reads and writes -/
structure World where
  /-- the parent's children -/
  kids : List NodeId
  /-- `rendered_items` -/
  storage : List (Option Item)
  /-- next fresh node id (`view.build()` creates nodes) -/
  next : Nat
  log : Log := {}
  deriving DecidableEq, Repr, Inhabited

/-- `(view_fn)(index, k)` followed by `view.build()`: a block of `bs` fresh nodes -/
def buildItem (bs : Nat) (w : World) (index : Nat) (k : Key) : Item × World :=
  ({ key := k, nodes := List.range' w.next bs },
   { w with next := w.next + bs, log := { w.log with builds := w.log.builds ++ [(k, index)] } })

def World.panicked (w : World) : World := { w with log := { w.log with panic := true } }

def World.unmount (w : World) (it : Item) : World :=
  { w with kids := unmountItem w.kids it, log := { w.log with unmounts := w.log.unmounts ++ [it.key] } }

def World.setIndex (w : World) (it : Item) (i : Nat) : World :=
  { w with log := { w.log with setIndex := w.log.setIndex ++ [(it.key, i)] } }

/-- `children[at] = v` (panics when out of range) -/
def World.store (w : World) (at_ : Nat) (v : Option Item) : World :=
  if at_ < w.storage.length then { w with storage := w.storage.set at_ v } else w.panicked

/-- `if diff.clear { for child in children.drain(0..).flatten() { child.unmount() } }` -/
def clearPhase (w : World) : World :=
  let w := (w.storage.filterMap id).foldl World.unmount w
  { w with storage := [] }

/-- `let (_, mut item) = children[at].take().unwrap(); item.unmount()` -/
def removeStep (w : World) (at_ : Nat) : World :=
  match w.storage[at_]? with
  | some (some it) => ({ w with storage := w.storage.set at_ none }).unmount it
  | _ => w.panicked

/-- `move_cmds.iter().map(|m| children[m.from].take()).collect()` -/
def moveOutStep (acc : World × List (Option Item)) (m : DiffOpMove) : World × List (Option Item) :=
  let w := acc.1
  match w.storage[m.from_]? with
  | some v => ({ w with storage := w.storage.set m.from_ none }, acc.2 ++ [v])
  | none => (w.panicked, acc.2 ++ [none])

/-- first move-in loop (`!move_in_dom`): storage only, `set_index(to)` if the child is there -/
def moveInStorageStep (w : World) (mc : DiffOpMove × Option Item) : World :=
  if mc.1.moveInDom then w else
  match mc.2 with
  | some it => (w.store mc.1.to_ (some it)).setIndex it mc.1.to_
  | none => w.store mc.1.to_ none

/-- insert before the next mounted sibling at or after `at`, else `mount(parent, marker)` -/
def placeItem (w : World) (marker : NodeId) (at_ : Nat) (it : Item) : World :=
  -- `self[start_at..]` panics when `start_at > len`
  if w.storage.length < at_ then w.panicked else
  match nextMounted w.storage at_ with
  | some sib => { w with kids := insertBeforeThisOrMarker w.kids sib it marker }
  | none => { w with kids := mountItem w.kids it (some marker) }

/-- second move-in loop (`move_in_dom`) -/
def moveInDomStep (marker : NodeId) (w : World) (mc : DiffOpMove × Option Item) : World :=
  if !mc.1.moveInDom then w else
  match mc.2 with
  | some it => ((placeItem w marker mc.1.to_ it).setIndex it mc.1.to_).store mc.1.to_ (some it)
  | none => w.panicked

/-- additions loop; `items[at]` is the new key at that index -/
def addStep (bs : Nat) (marker : NodeId) (to : List Key) (w : World) (a : DiffOpAdd) : World :=
  match to[a.at_]? with
  | none => w.panicked
  | some k =>
    let (it, w) := buildItem bs w a.at_ k
    let w :=
      match a.mode with
      | .normal => placeItem w marker a.at_ it
      | .append => { w with kids := mountItem w.kids it (some marker) }
    w.store a.at_ (some it)

/-- `apply_diff(parent = Some(..), marker, diff, children, view_fn, items)` -/
def applyDiff (bs : Nat) (marker : NodeId) (d : Diff) (to : List Key) (w : World) : World :=
  let w := if d.clear then clearPhase w else w
  if d.clear && d.added.isEmpty then w else
  let w := d.removed.foldl removeStep w
  let (moveCmds, addCmds) := unpackMoves d
  let (w, movedChildren) := moveCmds.foldl moveOutStep (w, [])
  let w := { w with storage := w.storage ++ List.replicate d.added.length none }
  let mcs := moveCmds.zip movedChildren
  let w := mcs.foldl moveInStorageStep w
  let w := mcs.foldl (moveInDomStep marker) w
  let w := addCmds.foldl (addStep bs marker to) w
  { w with storage := w.storage.filter Option.isSome }

/-! ## KeyedState -/

structure KState where
  marker : NodeId
  /-- `hashed_items` -/
  hashed : List Key
  /-- block size of `view_fn`'s views -/
  bs : Nat
  w : World
  /-- `parent.is_some()`: set by `mount` (and `hydrate`), read by `rebuild` -/
  parent : Bool := true
  deriving Repr, Inhabited

/-- the `for (index, item) in items.enumerate()` loop of `build` -/
def buildLoop (bs : Nat) : List Key → Nat → World → World
  | [], _, w => w
  | k :: ks, index, w =>
    let (it, w) := buildItem bs w index k
    buildLoop bs ks (index + 1) { w with storage := w.storage ++ [some it] }

/-- `Keyed::build`: items are built (not mounted), then the marker placeholder is created.
`kids`/`next` of the incoming world are the parent's children so far and the id counter. -/
def build (bs : Nat) (keys : List Key) (kids : List NodeId) (next : Nat) : KState :=
  let w := buildLoop bs keys 0 { kids := kids, storage := [], next := next }
  { marker := w.next, hashed := keys, bs := bs, w := { w with next := w.next + 1 }, parent := false }

/-- `KeyedState::mount(parent, marker)` -/
def KState.mount (s : KState) (ref : Option NodeId) : KState :=
  let kids := (s.w.storage.filterMap id).foldl (fun ks it => mountItem ks it ref) s.w.kids
  { s with w := { s.w with kids := insertBefore kids s.marker ref }, parent := true }

/-- `Keyed::hydrate`: the rows and the marker are adopted from the server-rendered children of the parent
(the cursor walk finds them in place) and the parent is recorded: the same state as `build` followed by
`mount` at that place. (`pre` = the children before the list; siblings after it are appended by the caller.) -/
def hydrate (bs : Nat) (keys : List Key) (pre : List NodeId) (next : Nat) : KState :=
  (build bs keys pre next).mount none

/-- `KeyedState::unmount`: the items and the marker leave the DOM; `parent` is kept (so a `rebuild` before
the next `mount` still runs the DOM half of `apply_diff`: every insertion then refers to a node that is not
a child of the parent and fails without effect, see `insertBefore`) -/
def KState.unmount (s : KState) : KState :=
  let w := (s.w.storage.filterMap id).foldl World.unmount s.w
  { s with w := { w with kids := removeNode w.kids s.marker } }

/-- `KeyedState::insert_before_this(child)` with a one-node child: a node that has no parent (the list
is not in the DOM) answers `false` -/
def KState.insertBeforeThis (s : KState) (child : NodeId) : KState × Bool :=
  match s.w.storage.head? with
  | some (some it) =>
    match it.nodes.head? with
    | some h =>
      if s.w.kids.contains h then
        ({ s with w := { s.w with kids := insertBefore s.w.kids child (some h) } }, true)
      else (s, false)
    | none => (s, false)
  | some none => (s, false)
  | none =>
    if s.w.kids.contains s.marker then
      ({ s with w := { s.w with kids := insertBefore s.w.kids child (some s.marker) } }, true)
    else (s, false)

/-- second move-in loop when `parent` is `None`: `set_index(to); children[to] = Some(..)` only -/
def moveInDomStepD (w : World) (mc : DiffOpMove × Option Item) : World :=
  if !mc.1.moveInDom then w else
  match mc.2 with
  | some it => (w.setIndex it mc.1.to_).store mc.1.to_ (some it)
  | none => w.panicked

/-- additions loop when `parent` is `None`: build and store, no mount -/
def addStepD (bs : Nat) (to : List Key) (w : World) (a : DiffOpAdd) : World :=
  match to[a.at_]? with
  | none => w.panicked
  | some k =>
    let (it, w) := buildItem bs w a.at_ k
    w.store a.at_ (some it)

/-- `apply_diff(parent = None, …)`: everything except the `if let Some(parent) = parent { … }` blocks
(`unmount` is still called on removed items; it is a no-op on nodes that are in no parent) -/
def applyDiffDetached (bs : Nat) (d : Diff) (to : List Key) (w : World) : World :=
  let w := if d.clear then clearPhase w else w
  if d.clear && d.added.isEmpty then w else
  let w := d.removed.foldl removeStep w
  let (moveCmds, addCmds) := unpackMoves d
  let (w, movedChildren) := moveCmds.foldl moveOutStep (w, [])
  let w := { w with storage := w.storage ++ List.replicate d.added.length none }
  let mcs := moveCmds.zip movedChildren
  let w := mcs.foldl moveInStorageStep w
  let w := mcs.foldl moveInDomStepD w
  let w := addCmds.foldl (addStepD bs to) w
  { w with storage := w.storage.filter Option.isSome }

/-- `Keyed::rebuild(state)` with the diff function as a parameter; the log is per call.
`apply_diff(parent.as_ref(), …)`: with a parent the DOM is updated, without one only the storage -/
def rebuildWith (D : List Key → List Key → Diff) (s : KState) (to : List Key) : KState :=
  let w :=
    if s.parent then applyDiff s.bs s.marker (D s.hashed to) to { s.w with log := {} }
    else applyDiffDetached s.bs (D s.hashed to) to { s.w with log := {} }
  { s with hashed := to, w := w }

/-- `Keyed::rebuild(state)` -/
def rebuild (s : KState) (to : List Key) : KState := rebuildWith diff s to

/-- `Keyed::rebuild(state)` before the repair of F-C11-1 -/
def rebuildOld (s : KState) (to : List Key) : KState := rebuildWith diffOld s to

/-! ## the decidable class of transitions on which the final DOM order is right -/

/-- keys of the items that `apply_diff` re-inserts in the DOM (single moves with `move_in_dom`),
for the diff function `D` -/
def domMovedKeys (D : List Key → List Key → Diff) (frm to : List Key) : List Key :=
  ((unpackMoves (D frm to)).1.filter (·.moveInDom)).filterMap fun m => frm[m.from_]?

/-- retained and not re-inserted: in place, or moved in storage only -/
def settled (D : List Key → List Key → Diff) (frm to : List Key) (k : Key) : Bool :=
  frm.contains k && to.contains k && !(domMovedKeys D frm to).contains k

/-- on the items that are neither removed nor DOM-moved, old order = new order
(old index ↦ new index is strictly monotone) -/
def settledMonotone (D : List Key → List Key → Diff) (frm to : List Key) : Bool :=
  frm.filter (settled D frm to) == to.filter (settled D frm to)

/-! ## row-local state: the owner of an item

The reactive state a row body creates for itself (signals, stored values, memos, effects) lives in the
row's reactive owner. leptos `<For>` / `<ForEnumerate>` (leptos/src/for_loop.rs) create that owner in
`view_fn` (`parent.with(Owner::new)`), run the row body under it (`owner.with(|| children(..))`) and hand it
to the item state (`OwnedView::new_with_owner`): it lives exactly as long as the item state does. `rebuild`
calls `view_fn` for new keys only and drops only the states of removed items, so the owner table follows
the stored items. -/

/-- one cell per item state: the value of the row-local state of that item -/
abbrev Owners := List (Item × Nat)

def Owners.get (o : Owners) (it : Item) : Option Nat := (o.find? fun p => p.1 == it).map (·.2)

/-- a write to the row-local state of `it` -/
def Owners.set (o : Owners) (it : Item) (v : Nat) : Owners := o.map fun p => if p.1 == it then (it, v) else p

/-- the owners after a `rebuild` that ended in the state `s'`: an item that is still stored keeps its owner
(untouched), the owners of dropped item states are disposed, the row body of a built item has run once under
a new owner (`fresh key` = the state it creates) -/
def ownersAfter (fresh : Key → Nat) (o : Owners) (s' : KState) : Owners :=
  (s'.w.storage.filterMap id).map fun it => (it, (o.get it).getD (fresh it.key))

/-- the nodes of the mounted items, in storage order -/
def blocksOf (storage : List (Option Item)) : List NodeId :=
  (storage.filterMap id).flatMap (·.nodes)

end Leptos.Keyed
