import LeptosModel.Gen.ErrorKinds
import LeptosModel.Gen.ServerFnPath
import LeptosModel.Model.Wire
import LeptosModel.Model.Url
/-!
# Model/ServerFn — server-function error wire format, URL-embedded errors, request/response pipeline (C13)

Text is `Str = List Char` (a Rust `String`), wire data is `Bytes = List Nat` (every element `< 256`).
Each function mirrors the Rust code named next to it (all paths relative to /repo/server_fn/src):

* `encodeErr`        — `<ServerFnErrorEncoding as Encodes<ServerFnError<E>>>::encode` (error.rs): `"<Prefix>|<msg>"`,
                        prefix looked up in the *extracted* table `Gen.ErrorKinds.encodeArms`.
* `splitOnce`        — `str::split_once(char)`.
* `decodeErr`        — `<ServerFnErrorEncoding as Decodes<…>>::decode` after the UTF-8 check: `split_once('|')`, first
                        matching arm of `Gen.ErrorKinds.decodeArms`, the three `Err(format!(…))` fallbacks verbatim.
* `Custom`           — what the model needs of the custom error type `E` of `ServerFnError<E>`:
                        `canon s = E::from_str(s).ok().map(|e| e.to_string())`.  `noCustomError` is `NoCustomError`.
* `debugStr`         — `<str as Debug>::fmt` (`{data:?}`); exact for ASCII, for other scalars the printable /
                        grapheme-extend tables of `core::unicode` are approximated by `nonAsciiEscaped` (see there).
* `utf8Encode`, `fromUtf8`, `utf8ErrMsg` — `String::into_bytes`, `String::from_utf8`, `<FromUtf8Error as Display>::fmt`.
* `ser` / `de`       — `FromServerFnError::{ser, de}` for `ServerFnError<E>` (error.rs): `de` maps every decode
                        failure to `Deserialization(msg)` (`ServerFnErrorErr::Deserialization(..).into_app_error()`).
* `fromSfe`          — `<ServerFnError<E> as FromServerFnError>::from_server_fn_error`.
* `b64Encode` / `b64Decode` — `base64::engine::general_purpose::URL_SAFE.{encode, decode}` (base64 0.22: padding written,
                        canonical padding required, trailing bits rejected; error precedence as in
                        `decode_helper`/`complete_quads_len`/`decode_suffix`), `b64ErrMsg` = `<DecodeError as Display>`.
* `formEnc`, `appendPair` — `form_urlencoded::byte_serialize`, `Serializer::append_pair` (as reached through
                        `Url::query_pairs_mut`); parsing is `Leptos.Url.formParse` (= `Url::query_pairs`).
* `toUrl`, `decodeErrUrl`, `stripErrorInfo`, `queryGetLast` — `ServerFnUrlError::{to_url, decode_err, strip_error_info}`
                        (error.rs) and `ParamsMap::get_str` (router/src/params.rs: last value of the first matching key;
                        over the flat pair list this is the last pair with that key).
* `InEnc`, `inputEncodings` — one row per input encoding of codec/{url,post,patch,put,stream}.rs: `Encoding::METHOD`,
                        the `ClientReq::try_new_*` constructor `into_req` calls (method + where the data goes) and the
                        `Req` accessor `from_req` reads (`as_query` / `try_into_string` / `try_into_bytes`).
* `intoReq`, `serverInput`, `runServer`, `errorResponse`, `runClient`, `dispatch` — `IntoReq::into_req`,
                        `FromReq::from_req`, `Http::run_server` + `ServerFn::run_on_server`, `Res::error_response`
                        (response/generic.rs: status 500, body = `e.ser()`), `Http::run_client` (lib.rs: status
                        `400..=599` ⇒ `Err(E::de(body))`), and the loop-back transport of the harness (lookup by
                        `Encoding::METHOD`, otherwise a 400 plain-text answer).
* `rechunk`, `textStep`, `textDecodeItems` — `Request<Bytes>::try_into_stream` (request/generic.rs: `ready_chunks(16)`
                        over the body bytes) and `decode_text_chunks` of codec/stream.rs (`FromReq`/`FromRes` of
                        `StreamingText`): an incomplete UTF-8 tail is carried over to the next chunk.
* `textOutWire`, `bytesOutWire`, `relayChunk`, `textDecodeWire`, `textOutRemote`, `bytesOutRemote` — a streamed
                        *response*: `IntoRes<StreamingText> for TextStream` (`Ok(s)` ↦ chunk, `Err(e)` ↦ `Err(e.ser())`,
                        every item relayed, nothing dropped after an error), `IntoRes<Streaming> for ByteStream`,
                        `TryRes::try_from_stream` (response/generic.rs: an error chunk becomes
                        `ServerFnErrorWrapper(E::de(bytes))`, which a transport prints with `Display` = `ser()`),
                        `FromRes<StreamingText>` (`decode_text_chunks`: an `Err` chunk ↦ `E::de(bytes)`, the pending
                        tail is kept) and `FromRes<Streaming>` (chunks handed over as they are).
* `serverFnPath`      — `ServerFnCall::server_fn_url` (server_fn_macro/src/lib.rs): `ServerFn::PATH`, assembled from the
                        *extracted* component lists of `Gen.ServerFnPath` (with / without `endpoint`, default prefix).
* `runServerFull`, `formLocation`, `runOnServerForm` — `ServerFn::run_on_server` with feature `form-redirects` for a
                        request that accepts `text/html` (a plain `<form>`): an `Err` is appended to the `Referer`
                        with `to_url` (left alone when that fails), an `Ok` strips stale error info from it;
                        `Res::redirect` sets status 302 and `Location` (`"/"` without `Referer`).
* `Middleware`, `applyLayers`, `mwBlock`, `remoteCallMw` — `middleware::{Layer, Service, BoxedService}` as the
                        integrations compose them (`service = layer.layer(service)` in the order of `middlewares()`);
                        a layer may answer itself through the `ser` hook (`error_response(path, ser(MiddlewareError))`).
* `wsExchange`, `Writer`  — `Websocket::{run_client, run_server}` (lib.rs): an input item is encoded (`Err(e)` ↦ `Err(e.ser())`),
                        sent with `SinkExt::send` (= `feed` then `flush`), decoded on the server (`Ok(bytes)` ↦ decode or
                        `Deserialization`, `Err(bytes)` ↦ `de`), answered, and the answer travels back the same way.
* `inputEncodingsOld`, `textStreamItemsOld` — the code before the repairs `fix: PatchUrl and PutUrl read their
                        arguments from the request body` (F-C13-1) and `fix: StreamingText completes a character
                        split across transport chunks` (F-C13-2); kept for the regression witnesses.

Codecs are abstract (`Codec α`): the pipeline theorems assume only `dec (enc a) = ok a`.
-/
namespace Leptos.ServerFn
open Leptos.Gen.ErrorKinds

abbrev Bytes := List Nat
abbrev Str := List Char

/-- `Except` has no `DecidableEq` in core; needed by the `decide` witnesses -/
instance decEqExcept {ε α : Type} [DecidableEq ε] [DecidableEq α] : DecidableEq (Except ε α) :=
  fun a b =>
    match a, b with
    | .ok x, .ok y => if h : x = y then isTrue (by rw [h]) else isFalse (fun e => h (by cases e; rfl))
    | .error x, .error y => if h : x = y then isTrue (by rw [h]) else isFalse (fun e => h (by cases e; rfl))
    | .ok _, .error _ => isFalse (fun e => by cases e)
    | .error _, .ok _ => isFalse (fun e => by cases e)

/-! ## error values and the `Kind|msg` format -/

/-- a `ServerFnError<E>` value: Rust variant name and its payload (for the custom variant: the `Display`
text of the wrapped `E`) -/
structure SErr where
  kind : Str
  msg : Str
  deriving DecidableEq, Repr

/-- the custom error type `E` as far as the wire format can see it -/
structure Custom where
  canon : Str → Option Str

/-- `NoCustomError`: `from_str` always succeeds, `Display` prints a constant -/
def noCustomError : Custom := ⟨fun _ => some "Unit Type Displayed".toList⟩

def assoc {β : Type} (k : Str) : List (Str × β) → Option β
  | [] => none
  | (k', v) :: rest => if k' = k then some v else assoc k rest

def encodeErr (e : SErr) : Str :=
  match assoc e.kind encodeArms with
  | some p => p ++ separator :: e.msg
  | none => e.msg   -- not reachable from Rust: the `match` in `encode` is exhaustive over the enum

def splitOnce (sep : Char) : Str → Option (Str × Str)
  | [] => none
  | c :: cs =>
    if c = sep then some ([], cs)
    else match splitOnce sep cs with
      | some (a, b) => some (c :: a, b)
      | none => none

/-! ### `{:?}` of a `str` -/

/-- lower-case hex without leading zeros (code points have at most six digits) -/
def hexLower (n : Nat) : Str :=
  let ds := [n / 1048576 % 16, n / 65536 % 16, n / 4096 % 16, n / 256 % 16, n / 16 % 16]
  ((ds.dropWhile (· == 0)) ++ [n % 16]).map Wire.hexDigit

def escapeUnicode (n : Nat) : Str := '\\' :: 'u' :: '{' :: (hexLower n ++ ['}'])

/-- Approximation of `!is_printable(c) || is_grapheme_extended(c)` for scalars `≥ 0x80` (the tables of
`core::unicode::printable` are not reproduced): C1 controls and NBSP..SHY, combining diacriticals, the
general-punctuation format characters, private use, specials, and everything from plane 14 up.  The
generators put only scalars on which this agrees with rustc into `{:?}` positions (checked by the corpus). -/
def nonAsciiEscaped (n : Nat) : Bool :=
  (0x80 ≤ n && n ≤ 0xA0) || n == 0xAD || (0x300 ≤ n && n ≤ 0x36F) ||
  (0x200B ≤ n && n ≤ 0x200F) || (0x2028 ≤ n && n ≤ 0x202E) || (0x2060 ≤ n && n ≤ 0x206F) ||
  (0xE000 ≤ n && n ≤ 0xF8FF) || n == 0xFEFF || (0xFFF0 ≤ n && n ≤ 0xFFFB) || n == 0xFFFE || n == 0xFFFF ||
  0xE0000 ≤ n

def debugChar (c : Char) : Str :=
  let n := c.toNat
  if n = 0 then ['\\', '0']
  else if n = 9 then ['\\', 't']
  else if n = 10 then ['\\', 'n']
  else if n = 13 then ['\\', 'r']
  else if n = 34 then ['\\', '"']
  else if n = 92 then ['\\', '\\']
  else if n < 32 ∨ n = 127 then escapeUnicode n
  else if n < 127 then [c]
  else if nonAsciiEscaped n then escapeUnicode n
  else [c]

def debugStr (s : Str) : Str := '"' :: (s.flatMap debugChar ++ ['"'])

/-- `Decodes::decode` on text that already passed the UTF-8 check -/
def decodeErr (cu : Custom) (s : Str) : Except Str SErr :=
  match splitOnce separator s with
  | none => .error ("Invalid format: missing delimiter in ".toList ++ debugStr s)
  | some (ty, data) =>
    match assoc ty decodeArms with
    | some (variant, false) => .ok ⟨variant, data⟩
    | some (variant, true) =>
      match cu.canon data with
      | some d => .ok ⟨variant, d⟩
      | none => .error ("Failed to parse CustErr from ".toList ++ debugStr data)
    | none => .error ("Unknown error type: ".toList ++ ty)

/-! ### UTF-8 -/

def utf8Encode (s : Str) : Bytes := s.flatMap fun c => Wire.utf8EncodeChar c.toNat

def isLead (b : Nat) : Bool := 0xC2 ≤ b && b ≤ 0xF4

/-- `Utf8Error { valid_up_to, error_len }` of the first ill-formed sequence, `none` if well formed.
`utf8ErrGo skip idx s`: `idx` is the index of the head of `s`, the first `skip` bytes are continuation
bytes already accepted. -/
def utf8ErrGo : Nat → Nat → Bytes → Option (Nat × Option Nat)
  | _, _, [] => none
  | k + 1, i, _ :: rest => utf8ErrGo k (i + 1) rest
  | 0, i, b :: rest =>
    match Url.utf8Next (b :: rest) with
    | .valid n => utf8ErrGo (n - 1) (i + 1) rest
    | .invalid n => some (i, if isLead b && n == rest.length + 1 then none else some n)

def natStr (n : Nat) : Str := (Nat.repr n).toList

def utf8ErrMsg : Nat × Option Nat → Str
  | (i, some n) => "invalid utf-8 sequence of ".toList ++ natStr n ++ " bytes from index ".toList ++ natStr i
  | (i, none) => "incomplete utf-8 byte sequence from index ".toList ++ natStr i

def cont (rest : Bytes) (i : Nat) : Nat := rest.getD i 0 % 64

/-- scalars of a well-formed byte string; `utf8DecodeGo skip s` -/
def utf8DecodeGo : Nat → Bytes → Str
  | _, [] => []
  | k + 1, _ :: rest => utf8DecodeGo k rest
  | 0, b :: rest =>
    if b < 0x80 then Char.ofNat b :: utf8DecodeGo 0 rest
    else if b < 0xE0 then Char.ofNat (b % 32 * 64 + cont rest 0) :: utf8DecodeGo 1 rest
    else if b < 0xF0 then Char.ofNat (b % 16 * 4096 + cont rest 0 * 64 + cont rest 1) :: utf8DecodeGo 2 rest
    else Char.ofNat (b % 8 * 262144 + cont rest 0 * 4096 + cont rest 1 * 64 + cont rest 2) :: utf8DecodeGo 3 rest

/-- `String::from_utf8`; the error is the `Display` text of `FromUtf8Error` -/
def fromUtf8 (b : Bytes) : Except Str Str :=
  match utf8ErrGo 0 0 b with
  | none => .ok (utf8DecodeGo 0 b)
  | some e => .error (utf8ErrMsg e)

/-! ### `ser` / `de` -/

def deserializationKind : Str := "Deserialization".toList
def serializationKind : Str := "Serialization".toList

/-- `from_server_fn_error`: same-named variant, `UnsupportedRequestMethod` becomes `Request` -/
def fromSfe (kind msg : Str) : SErr :=
  ⟨if kind = "UnsupportedRequestMethod".toList then "Request".toList else kind, msg⟩

def ser (e : SErr) : Bytes := utf8Encode (encodeErr e)

def de (cu : Custom) (b : Bytes) : SErr :=
  match fromUtf8 b with
  | .error m => fromSfe deserializationKind ("UTF-8 conversion error: ".toList ++ m)
  | .ok s =>
    match decodeErr cu s with
    | .ok e => e
    | .error m => fromSfe deserializationKind m

/-! ## base64, URL-safe alphabet, padded -/

def b64Sym (n : Nat) : Nat :=
  if n < 26 then 65 + n else if n < 52 then 71 + n else if n < 62 then n - 4
  else if n = 62 then 45 else 95

def b64Val (b : Nat) : Option Nat :=
  if 65 ≤ b ∧ b ≤ 90 then some (b - 65)
  else if 97 ≤ b ∧ b ≤ 122 then some (b - 71)
  else if 48 ≤ b ∧ b ≤ 57 then some (b + 4)
  else if b = 45 then some 62
  else if b = 95 then some 63
  else none

def b64Encode : Bytes → Bytes
  | [] => []
  | [a] => [b64Sym (a / 4), b64Sym (a % 4 * 16), 61, 61]
  | [a, b] => [b64Sym (a / 4), b64Sym (a % 4 * 16 + b / 16), b64Sym (b % 16 * 4), 61]
  | a :: b :: c :: rest =>
    b64Sym (a / 4) :: b64Sym (a % 4 * 16 + b / 16) :: b64Sym (b % 16 * 4 + c / 64) :: b64Sym (c % 64) ::
      b64Encode rest

inductive B64Err where
  | invalidByte (idx byte : Nat)
  | invalidLength (len : Nat)
  | invalidLastSymbol (idx byte : Nat)
  | invalidPadding
  deriving DecidableEq, Repr

def b64ErrMsg : B64Err → Str
  | .invalidByte i b => "Invalid symbol ".toList ++ natStr b ++ ", offset ".toList ++ natStr i ++ ['.']
  | .invalidLength n => "Invalid input length: ".toList ++ natStr n
  | .invalidLastSymbol i b => "Invalid last symbol ".toList ++ natStr b ++ ", offset ".toList ++ natStr i ++ ['.']
  | .invalidPadding => "Invalid padding".toList

/-- state of the loop in `decode_suffix` -/
structure SufSt where
  morsels : List Nat := []
  pad : Nat := 0
  firstPad : Nat := 0
  last : Nat := 0

def sufLoop (inputIndex : Nat) : Nat → Bytes → SufSt → Except B64Err SufSt
  | _, [], st => .ok st
  | i, b :: rest, st =>
    if b = 61 then
      if i < 2 then .error (.invalidByte (inputIndex + i) b)
      else sufLoop inputIndex (i + 1) rest
        { st with pad := st.pad + 1, firstPad := if st.pad = 0 then i else st.firstPad }
    else if st.pad > 0 then .error (.invalidByte (inputIndex + st.firstPad) 61)
    else match b64Val b with
      | none => .error (.invalidByte (inputIndex + i) b)
      | some m => sufLoop inputIndex (i + 1) rest { st with morsels := st.morsels ++ [m], last := b }

/-- `decode_suffix` (padding mode `RequireCanonical`, trailing bits not allowed); `nonEmpty` = the whole
input is not empty -/
def b64Suffix (nonEmpty : Bool) (inputIndex : Nat) (suffix : Bytes) : Except B64Err Bytes :=
  match sufLoop inputIndex 0 suffix {} with
  | .error e => .error e
  | .ok st =>
    let n := st.morsels.length
    if nonEmpty && n < 2 then .error (.invalidLength (inputIndex + n))
    else if (st.pad + n) % 4 ≠ 0 then .error .invalidPadding
    else match st.morsels with
      | [m0, m1] =>
        if m1 % 16 ≠ 0 then .error (.invalidLastSymbol (inputIndex + 1) st.last)
        else .ok [m0 * 4 + m1 / 16]
      | [m0, m1, m2] =>
        if m2 % 4 ≠ 0 then .error (.invalidLastSymbol (inputIndex + 2) st.last)
        else .ok [m0 * 4 + m1 / 16, m1 % 16 * 16 + m2 / 4]
      | [m0, m1, m2, m3] => .ok [m0 * 4 + m1 / 16, m1 % 16 * 16 + m2 / 4, m2 % 4 * 64 + m3]
      | _ => .ok []

/-- one complete non-terminal quad (`decode_chunk_4`/`_8`: first invalid symbol wins, `=` is invalid here) -/
def b64Quad (idx q0 q1 q2 q3 : Nat) : Except B64Err Bytes :=
  match b64Val q0 with
  | none => .error (.invalidByte idx q0)
  | some m0 =>
    match b64Val q1 with
    | none => .error (.invalidByte (idx + 1) q1)
    | some m1 =>
      match b64Val q2 with
      | none => .error (.invalidByte (idx + 2) q2)
      | some m2 =>
        match b64Val q3 with
        | none => .error (.invalidByte (idx + 3) q3)
        | some m3 => .ok [m0 * 4 + m1 / 16, m1 % 16 * 16 + m2 / 4, m2 % 4 * 64 + m3]

/-- quads while more than four symbols remain, then the suffix of 1–4 symbols -/
def b64Go (nonEmpty : Bool) : Nat → Bytes → Except B64Err Bytes
  | idx, q0 :: q1 :: q2 :: q3 :: r :: rest =>
    match b64Quad idx q0 q1 q2 q3 with
    | .error e => .error e
    | .ok out =>
      match b64Go nonEmpty (idx + 4) (r :: rest) with
      | .error e => .error e
      | .ok more => .ok (out ++ more)
  | idx, suffix => b64Suffix nonEmpty idx suffix

/-- the "trailing invalid byte" convenience check of `complete_quads_len` -/
def b64Precheck (input : Bytes) : Option B64Err :=
  if input.length % 4 = 1 then
    match input.getLast? with
    | some l => if l ≠ 61 ∧ b64Val l = none then some (.invalidByte (input.length - 1) l) else none
    | none => none
  else none

def b64Decode (input : Bytes) : Except B64Err Bytes :=
  match b64Precheck input with
  | some e => .error e
  | none => b64Go (!input.isEmpty) 0 input

/-! ## form-urlencoded serialisation and the URL-embedded error -/

def formUnchanged (b : Nat) : Bool := b == 42 || b == 45 || b == 46 || b == 95 || Url.isAlnum b

def formEnc : Bytes → Bytes
  | [] => []
  | b :: bs =>
    if formUnchanged b then b :: formEnc bs
    else if b = 32 then 43 :: formEnc bs
    else 37 :: Url.hexUp (b / 16) :: Url.hexUp (b % 16) :: formEnc bs

/-- `Serializer::append_pair` on the query `q` (text after `?`) -/
def appendPair (q k v : Bytes) : Bytes :=
  (if q.isEmpty then [] else q ++ [38]) ++ (formEnc k ++ 61 :: formEnc v)

def serializePairs : Bytes → List (Bytes × Bytes) → Bytes
  | q, [] => q
  | q, (k, v) :: rest => serializePairs (appendPair q k v) rest

def pathKey : Bytes := [95, 95, 112, 97, 116, 104]   -- "__path"
def errKey : Bytes := [95, 95, 101, 114, 114]        -- "__err"

/-- `Url::parse` accepts only absolute URLs; the model recognises `scheme:` -/
def schemeGo : Bytes → Bool
  | [] => false
  | b :: rest => if b = 58 then true else if Url.isAlnum b || b == 43 || b == 45 || b == 46 then schemeGo rest else false

def hasScheme : Bytes → Bool
  | [] => false
  | b :: rest => ((65 ≤ b && b ≤ 90) || (97 ≤ b && b ≤ 122)) && schemeGo rest

structure UrlParts where
  pre : Bytes
  query : Option Bytes
  frag : Option Bytes
  deriving DecidableEq, Repr

/-- split a serialised URL at the first `#`, then at the first `?` -/
def splitUrl (u : Bytes) : UrlParts :=
  let (noFrag, frag) := Url.splitFirst 35 u
  let (pre, q) := Url.splitFirst 63 noFrag
  { pre := pre
    query := if noFrag.contains 63 then some q else none
    frag := if u.contains 35 then some frag else none }

def joinUrl (p : UrlParts) : Bytes :=
  p.pre ++ (match p.query with | some q => 63 :: q | none => []) ++
    (match p.frag with | some f => 35 :: f | none => [])

/-- `ServerFnUrlError::to_url`; `none` = `Err(url::ParseError)` -/
def toUrl (base path errSer : Bytes) : Option Bytes :=
  if hasScheme base then
    let p := splitUrl base
    let q := appendPair (appendPair (p.query.getD []) pathKey path) errKey (b64Encode errSer)
    some (joinUrl { p with query := some q })
  else none

/-- `ParamsMap::get_str` over the pairs of a query: the most recently added value of the key -/
def queryGetLast (k : Bytes) : List (Bytes × Bytes) → Option Bytes
  | [] => none
  | (k', v) :: rest =>
    match queryGetLast k rest with
    | some r => some r
    | none => if k' = k then some v else none

/-- `ServerFnUrlError::decode_err` -/
def decodeErrUrl (cu : Custom) (v : Bytes) : SErr :=
  match b64Decode v with
  | .error e => fromSfe deserializationKind (b64ErrMsg e)
  | .ok bs => de cu bs

/-- `ServerFnUrlError::strip_error_info` -/
def stripErrorInfo (u : Bytes) : Bytes :=
  if hasScheme u then
    let p := splitUrl u
    let kept := (Url.formParse (p.query.getD [])).filter fun kv => kv.1 ≠ pathKey ∧ kv.1 ≠ errKey
    joinUrl { p with query := some (serializePairs [] kept) }
  else u

/-! ## the request / response pipeline -/

inductive Method where
  | get | post | put | patch | delete
  deriving DecidableEq, Repr

inductive Slot where
  | query      -- URL query string
  | bodyText   -- body built from / read as a `String`
  | bodyBytes  -- body as `Bytes`
  deriving DecidableEq, Repr

structure InEnc where
  name : String
  /-- `Encoding::METHOD`: the key under which the server registers the function -/
  method : Method
  /-- method of the request built by `into_req` -/
  reqMethod : Method
  /-- where `into_req` puts the encoded arguments -/
  clientSlot : Slot
  /-- where `from_req` looks for them -/
  serverSlot : Slot
  /-- `ServerFnErrorErr` variant reported when decoding the arguments fails -/
  decErrKind : Str

def argsKind : Str := "Args".toList

/-- codec/url.rs, codec/{post,patch,put}.rs — transcribed arm by arm -/
def inputEncodings : List InEnc := [
  ⟨"GetUrl", .get, .get, .query, .query, argsKind⟩,
  ⟨"PostUrl", .post, .post, .bodyText, .bodyText, argsKind⟩,
  ⟨"DeleteUrl", .delete, .delete, .query, .query, argsKind⟩,
  ⟨"PatchUrl", .patch, .patch, .bodyText, .bodyText, argsKind⟩,
  ⟨"PutUrl", .put, .put, .bodyText, .bodyText, argsKind⟩,
  ⟨"Post", .post, .post, .bodyBytes, .bodyBytes, deserializationKind⟩,
  ⟨"Patch", .patch, .patch, .bodyBytes, .bodyBytes, deserializationKind⟩,
  ⟨"Put", .put, .put, .bodyBytes, .bodyBytes, deserializationKind⟩ ]

/-- the table before the repair of F-C13-1: `FromReq<PatchUrl>` / `FromReq<PutUrl>` read `req.as_query()` -/
def inputEncodingsOld : List InEnc := [
  ⟨"GetUrl", .get, .get, .query, .query, argsKind⟩,
  ⟨"PostUrl", .post, .post, .bodyText, .bodyText, argsKind⟩,
  ⟨"DeleteUrl", .delete, .delete, .query, .query, argsKind⟩,
  ⟨"PatchUrl", .patch, .patch, .bodyText, .query, argsKind⟩,
  ⟨"PutUrl", .put, .put, .bodyText, .query, argsKind⟩,
  ⟨"Post", .post, .post, .bodyBytes, .bodyBytes, deserializationKind⟩,
  ⟨"Patch", .patch, .patch, .bodyBytes, .bodyBytes, deserializationKind⟩,
  ⟨"Put", .put, .put, .bodyBytes, .bodyBytes, deserializationKind⟩ ]

def findEnc (n : String) : List InEnc → Option InEnc
  | [] => none
  | e :: rest => if e.name == n then some e else findEnc n rest

/-- the slots agree on being the query or being the body -/
def InEnc.slotsAgree (ie : InEnc) : Bool :=
  (ie.clientSlot == .query) == (ie.serverSlot == .query)

structure Req where
  method : Method
  query : Option Bytes
  body : Bytes
  deriving DecidableEq, Repr

structure Res where
  status : Nat
  body : Bytes
  deriving DecidableEq, Repr

/-- an argument / result codec: `Encodes::encode`, `Decodes::decode` (errors are their `Display` text) -/
structure Codec (α : Type) where
  enc : α → Except Str Bytes
  dec : Bytes → Except Str α

/-- the error side: `FromServerFnError::{ser, de, from_server_fn_error}` of the declared error type -/
structure ErrCodec (E : Type) where
  ser : E → Bytes
  de : Bytes → E
  fromSfe : Str → Str → E

/-- the error codec of `ServerFnError<E>` -/
def sfeCodec (cu : Custom) : ErrCodec SErr := ⟨ser, de cu, fromSfe⟩

def intoReq (ie : InEnc) (data : Bytes) : Req :=
  match ie.clientSlot with
  | .query => ⟨ie.reqMethod, some data, []⟩
  | _ => ⟨ie.reqMethod, none, data⟩

/-- the encoded arguments as `from_req` obtains them -/
def serverData {E : Type} (ie : InEnc) (ec : ErrCodec E) (req : Req) : Except E Bytes :=
  match ie.serverSlot with
  | .query => .ok (req.query.getD [])
  | .bodyBytes => .ok req.body
  | .bodyText =>
    match utf8ErrGo 0 0 req.body with
    | none => .ok req.body
    | some e => .error (ec.fromSfe deserializationKind (utf8ErrMsg e))

def serverInput {E α : Type} (ie : InEnc) (ec : ErrCodec E) (ci : Codec α) (req : Req) : Except E α :=
  match serverData ie ec req with
  | .error e => .error e
  | .ok data =>
    match ci.dec data with
    | .ok a => .ok a
    | .error m => .error (ec.fromSfe ie.decErrKind m)

def errorResponse {E : Type} (ec : ErrCodec E) (e : E) : Res := ⟨500, ec.ser e⟩

/-- `run_on_server` = `Http::run_server` + `error_response` -/
def runServer {E α β : Type} (ie : InEnc) (ec : ErrCodec E) (ci : Codec α) (co : Codec β)
    (body : α → Except E β) (req : Req) : Res :=
  match serverInput ie ec ci req with
  | .error e => errorResponse ec e
  | .ok a =>
    match body a with
    | .error e => errorResponse ec e
    | .ok o =>
      match co.enc o with
      | .error m => errorResponse ec (ec.fromSfe serializationKind m)
      | .ok b => ⟨200, b⟩

def notFoundBody : Bytes := utf8Encode "no server function registered for this path and method".toList

/-- loop-back transport: route by method (the path is the function's own) -/
def dispatch (ie : InEnc) (handler : Req → Res) (req : Req) : Res :=
  if req.method = ie.method then handler req else ⟨400, notFoundBody⟩

def isErrorStatus (s : Nat) : Bool := 400 ≤ s && s ≤ 599

/-- the client half after the request has been sent -/
def clientDecode {E β : Type} (ec : ErrCodec E) (co : Codec β) (res : Res) : Except E β :=
  if isErrorStatus res.status then .error (ec.de res.body)
  else match co.dec res.body with
    | .ok o => .ok o
    | .error m => .error (ec.fromSfe deserializationKind m)

/-- `Http::run_client` -/
def runClient {E α β : Type} (ie : InEnc) (ec : ErrCodec E) (ci : Codec α) (co : Codec β)
    (send : Req → Res) (a : α) : Except E β :=
  match ci.enc a with
  | .error m => .error (ec.fromSfe serializationKind m)
  | .ok data => clientDecode ec co (send (intoReq ie data))

/-- remote call through the loop-back transport -/
def remoteCall {E α β : Type} (ie : InEnc) (ec : ErrCodec E) (ci : Codec α) (co : Codec β)
    (body : α → Except E β) (a : α) : Except E β :=
  runClient ie ec ci co (dispatch ie (runServer ie ec ci co body)) a

/-! ### the registered path -/

def trimLead (c : Char) : Str → Str
  | [] => []
  | x :: xs => if x = c then trimLead c xs else x :: xs

structure PathEnv where
  pfx : Str
  fnPath : Str
  fnName : Str
  hash : Str

/-- one argument of `concatcp!`: a literal or a named component -/
def pathPart (env : PathEnv) (part : Bool × Str) : Str :=
  if part.1 then part.2
  else if part.2 = "prefix".toList then env.pfx
  else if part.2 = "mod_path".toList then []
  else if part.2 = "fn_path".toList then env.fnPath
  else if part.2 = "fn_name_as_str".toList then env.fnName
  else if part.2 = "hash".toList then env.hash
  else []

/-- `ServerFn::PATH` for `#[server(prefix = .., endpoint = ..)] fn name`; `hash` is the decimal text of the
xxh64 of the crate directory and module path -/
def serverFnPath (pfx endpoint : Option Str) (fnName hash : Str) : Str :=
  let pre := pfx.getD Gen.ServerFnPath.defaultPrefix
  match endpoint with
  | some e =>
    let env : PathEnv := ⟨pre, Gen.ServerFnPath.endpointLead ++ trimLead Gen.ServerFnPath.endpointTrim e, fnName, hash⟩
    Gen.ServerFnPath.withEndpoint.flatMap (pathPart env)
  | none =>
    Gen.ServerFnPath.withoutEndpoint.flatMap (pathPart ⟨pre, [], fnName, hash⟩)

/-! ### the non-JS `<form>` fallback (`form-redirects`) -/

/-- `run_server` keeping the error apart, as `run_on_server` does -/
def runServerFull {E α β : Type} (ie : InEnc) (ec : ErrCodec E) (ci : Codec α) (co : Codec β)
    (body : α → Except E β) (req : Req) : Res × Option E :=
  match serverInput ie ec ci req with
  | .error e => (errorResponse ec e, some e)
  | .ok a =>
    match body a with
    | .error e => (errorResponse ec e, some e)
    | .ok o =>
      match co.enc o with
      | .error m => (errorResponse ec (ec.fromSfe serializationKind m), some (ec.fromSfe serializationKind m))
      | .ok b => (⟨200, b⟩, none)

structure FormRes where
  status : Nat
  location : Bytes
  body : Bytes
  deriving DecidableEq, Repr

/-- the `Location` of the redirect: `errSer` is `e.ser()` of the error, if there was one -/
def formLocation (path : Bytes) (referer : Option Bytes) (errSer : Option Bytes) : Bytes :=
  match errSer with
  | some es =>
    match toUrl (referer.getD [47]) path es with
    | some u => u
    | none => referer.getD [47]
  | none =>
    match referer with
    | some r => stripErrorInfo r
    | none => [47]

def runOnServerForm {E α β : Type} (ie : InEnc) (ec : ErrCodec E) (ci : Codec α) (co : Codec β)
    (body : α → Except E β) (path : Bytes) (referer : Option Bytes) (req : Req) : FormRes :=
  let (res, err) := runServerFull ie ec ci co body req
  ⟨302, formLocation path referer (err.map ec.ser), res.body⟩

/-! ### middleware -/

/-- a layer wraps the service below it -/
abbrev Middleware := (Req → Res) → Req → Res

/-- `for layer in middlewares() { service = layer.layer(service) }` -/
def applyLayers (layers : List Middleware) (handler : Req → Res) : Req → Res :=
  layers.foldl (fun acc l => l acc) handler

def middlewareKind : Str := "MiddlewareError".toList

/-- a layer that answers itself through the `ser` hook when `pred` holds -/
def mwBlock {E : Type} (ec : ErrCodec E) (pred : Req → Bool) (msg : Str) : Middleware :=
  fun inner req => if pred req then errorResponse ec (ec.fromSfe middlewareKind msg) else inner req

def remoteCallMw {E α β : Type} (ie : InEnc) (ec : ErrCodec E) (ci : Codec α) (co : Codec β)
    (layers : List Middleware) (body : α → Except E β) (a : α) : Except E β :=
  runClient ie ec ci co (dispatch ie (applyLayers layers (runServer ie ec ci co body))) a

/-- no arguments: the unit codec (serde_qs / serde_json / ciborium of a field-less struct) -/
def unitCodec : Codec Unit := ⟨fun _ => .ok [], fun _ => .ok ()⟩

/-! ### concrete codecs used by the driver -/

/-- lower-case hex text; decoding fails on anything else (the harness' `HexEncoding`) -/
def hexCodec : Codec Bytes where
  enc := fun bs => .ok ((bs.flatMap fun b => [Wire.hexDigit (b / 16 % 16), Wire.hexDigit (b % 16)]).map Char.toNat)
  dec := fun bs =>
    match Wire.bytesOfHexChars (bs.map Char.ofNat) with
    | some r => .ok r
    | none => .error "bad hex".toList

/-- an opaque lawful codec standing for a third-party serialiser: values are their own encoding;
`emptyErr` is the error the real decoder reports on empty input (never a value's encoding) -/
def opaqueCodec (emptyErr : Str) : Codec Bytes where
  enc := fun bs => .ok bs
  dec := fun bs => if bs.isEmpty then .error emptyErr else .ok bs

/-! ### streaming input through the generic back end -/

/-- `stream::iter(body).ready_chunks(n)`: `rechunkGo n room cur rest`, `cur` reversed -/
def rechunkGo (n : Nat) : Nat → Bytes → Bytes → List Bytes
  | _, cur, [] => if cur.isEmpty then [] else [cur.reverse]
  | 0, cur, b :: rest => cur.reverse :: rechunkGo n (n - 1) [b] rest
  | room + 1, cur, b :: rest => rechunkGo n room (b :: cur) rest

def rechunk (n : Nat) (body : Bytes) : List Bytes := rechunkGo n n [] body

/-- one chunk through `decode_text_chunks`: the item emitted (if any) and the bytes kept for the next chunk -/
def textStep (pending chunk : Bytes) : Option (Except SErr Bytes) × Bytes :=
  let buf := pending ++ chunk
  match utf8ErrGo 0 0 buf with
  | none => (some (.ok buf), [])
  | some (i, none) => (if i = 0 then none else some (.ok (buf.take i)), buf.drop i)
  | some (i, some n) => (some (.error (fromSfe deserializationKind (utf8ErrMsg (i, some n)))), [])

/-- `decode_text_chunks`: the items of the `TextStream` handed to the server function (or to the caller) -/
def textDecodeGo : Bytes → List Bytes → List (Except SErr Bytes)
  | pending, [] =>
    if pending.isEmpty then []
    else match utf8ErrGo 0 0 pending with
      | none => [.ok pending]
      | some e => [.error (fromSfe deserializationKind (utf8ErrMsg e))]
  | pending, c :: cs =>
    match textStep pending c with
    | (some it, p') => it :: textDecodeGo p' cs
    | (none, p') => textDecodeGo p' cs

def textDecodeItems (chunks : List Bytes) : List (Except SErr Bytes) := textDecodeGo [] chunks

/-! ### streamed responses: item lists with errors -/

/-- a chunk on the wire: `Ok(bytes)` or `Err(serialized error)` (`Stream<Item = Result<Bytes, Bytes>>`) -/
abbrev WireChunk := Except Bytes Bytes

/-- `IntoRes<StreamingText> for TextStream`: every item is relayed, in order -/
def textOutWire (items : List (Except SErr Bytes)) : List WireChunk :=
  items.map fun it => match it with
    | .ok b => .ok b
    | .error e => .error (ser e)

/-- `IntoRes<Streaming> for ByteStream`: the items are the chunks -/
def bytesOutWire (items : List WireChunk) : List WireChunk := items

/-- `try_from_stream` + transport: an error chunk is decoded into the declared error type and travels as
that value's `Display`, i.e. its `ser()` bytes -/
def relayChunk (cu : Custom) (c : WireChunk) : WireChunk :=
  match c with
  | .ok b => .ok b
  | .error b => .error (ser (de cu b))

/-- `decode_text_chunks` over wire chunks: an `Err` chunk is decoded with `E::de`, what is pending stays -/
def textDecodeWire (cu : Custom) : Bytes → List WireChunk → List (Except SErr Bytes)
  | pending, [] =>
    if pending.isEmpty then []
    else match utf8ErrGo 0 0 pending with
      | none => [.ok pending]
      | some e => [.error (fromSfe deserializationKind (utf8ErrMsg e))]
  | pending, .error b :: cs => .error (de cu b) :: textDecodeWire cu pending cs
  | pending, .ok c :: cs =>
    match textStep pending c with
    | (some it, p') => it :: textDecodeWire cu p' cs
    | (none, p') => textDecodeWire cu p' cs

/-- what the remote caller of a function with `output = StreamingText` receives -/
def textOutRemote (cu : Custom) (items : List (Except SErr Bytes)) : List (Except SErr Bytes) :=
  textDecodeWire cu [] ((textOutWire items).map (relayChunk cu))

/-- what the remote caller of a function with `output = Streaming` receives -/
def bytesOutRemote (cu : Custom) (items : List WireChunk) : List WireChunk :=
  (bytesOutWire items).map (relayChunk cu)

/-- the items up to and including the first error -/
def uptoFirstErr {ε α : Type} : List (Except ε α) → List (Except ε α)
  | [] => []
  | .ok a :: rest => .ok a :: uptoFirstErr rest
  | .error e :: _ => [.error e]

/-! ### the websocket protocol -/

def wsEncode {E γ : Type} (ec : ErrCodec E) (c : Codec γ) (item : Except E γ) : WireChunk :=
  match item with
  | .ok a =>
    match c.enc a with
    | .ok b => .ok b
    | .error m => .error (ec.ser (ec.fromSfe serializationKind m))
  | .error e => .error (ec.ser e)

def wsDecode {E γ : Type} (ec : ErrCodec E) (c : Codec γ) (frame : WireChunk) : Except E γ :=
  match frame with
  | .ok b =>
    match c.dec b with
    | .ok a => .ok a
    | .error m => .error (ec.fromSfe deserializationKind m)
  | .error b => .error (ec.de b)

/-- one message to the server and its answer back -/
def wsExchange {E α β : Type} (ec : ErrCodec E) (ci : Codec α) (co : Codec β)
    (reply : Except E α → Except E β) (m : Except E α) : Except E β :=
  wsDecode ec co (wsEncode ec co (reply (wsDecode ec ci (wsEncode ec ci m))))

/-- the client's write half: frames queued by `start_send`, frames on the wire -/
structure Writer where
  queue : List WireChunk := []
  wire : List WireChunk := []
  deriving DecidableEq, Repr

def Writer.feed (w : Writer) (f : WireChunk) : Writer := { w with queue := w.queue ++ [f] }
def Writer.flush (w : Writer) : Writer := ⟨[], w.wire ++ w.queue⟩
/-- `SinkExt::send`: feed, then flush -/
def Writer.send (w : Writer) (f : WireChunk) : Writer := (w.feed f).flush

/-- values are their own encoding (a lawful stand-in for a third-party serialiser, empty values included) -/
def rawCodec : Codec Bytes := ⟨.ok, .ok⟩

/-- before the repair of F-C13-2: one `String::from_utf8` per transport chunk -/
def textStreamItemsOld (chunks : List Bytes) : List (Except SErr Bytes) :=
  chunks.map fun c =>
    match utf8ErrGo 0 0 c with
    | none => .ok c
    | some e => .error (fromSfe deserializationKind (utf8ErrMsg e))

/-- does some scalar of a well-formed text straddle a boundary of the 16-byte re-chunking?
(the input class of F-C13-2) -/
def splitsScalar (body : Bytes) : Bool :=
  (rechunk 16 body).any fun c => (utf8ErrGo 0 0 c).isSome

end Leptos.ServerFn
