import LeptosModel.Proofs.HydrateState
import LeptosModel.Proofs.HydrateLoad
import LeptosModel.Proofs.HydrateInitial
import LeptosModel.Proofs.HydrateSettle
import LeptosModel.Proofs.HydrateFinal
import LeptosModel.Proofs.HydrateSim
import LeptosModel.Proofs.HydrateStream
import LeptosModel.Theorems.C07
/-!
# C05 — hydration adopts server-rendered HTML without mismatch

Model: `Model/Hydrate.lean` (printer `toHtml`, expected DOM `domOf`, the cursor walk `hydrate`,
specification `adopt`), over the views / states / DOM of `Model/View.lean`, `Model/Dom.lean` (C03)
and the parser of `Model/Html.lean` (C06).  All theorems quantify over **all** view trees of the
modelled grammar (text incl. the empty string, `()`, ordinary and void elements with plain / boolean /
optional attributes, tuples nested arbitrarily (= fragments), `Option`, `Either`/`EitherOf<n>`, `Vec`,
`AnyView`), by structural induction; no size bound.

| theorem | status |
|---|---|
| `C05_parse_print`                      | proved (all `wfV` views)                                             |
| `C05_hydrate_succeeds`                 | proved (all `wfH` views, every DOM that holds `domOf v`)            |
| `C05_load_realises`                    | proved (every parsed forest with distinct attribute names per element) |
| `C05_hydrate_parsed`                   | proved (composition print → parse → load → hydrate, all `wfV` views)  |
| `C05_state_eq_build_state_mod_ids`     | proved (every DOM, every cursor: *if* the walk succeeds)              |
| `C05_walk_commutes_with_writes`        | proved (the `set_text` of the repaired `hydrate` does not disturb the walk)  |
| `C05_initial_dom_like_csr`             | proved (all `wfV` views with plain attributes, `""` included: DOM after hydration = client-built DOM, comments aside); `…_partial` = the same about the DOM before the write, `C05_initial_dom_old_witness` |
| `C05_then_like_csr`                    | **proved**: hydrated-then-rebuilt = client-built-then-rebuilt, comments aside, for all pairs of one view type over the structural grammar (strings incl. `""`, `()`, elements, tuples, `Option`, `Either`, `Vec`, `AnyView`), static string attributes, `a` without child-less non-void elements |
| `C05_then_like_csr_kv`                 | **proved**: the same with `String` / `Option<String>` / `bool` attribute values (distinct names) changing freely between `a` and `b`; attribute lists compared as maps (`Tree.simList AttrsEq`, C03's relation for this fragment) |
| `C05_then_like_csr_stmt`               | OPEN: the same for child-less non-void elements in `a` (and exact attribute order for `Option` / `bool` values) (statement only; exercised by the correspondence run on every case) |
| `C05_empty_text_witness`, `…_mid`, `C05_then_like_csr_old_false` | regression witnesses of F-C05-1 (repaired: `fix: hydrating an empty string …`) |
| `C05_fragment_parent_witness`          | regression witness of F-C05-3 (repaired: `fix: an empty StaticVec hydrated as the first child …`) |
| `C05_keyed_position_witness`, `C05_result_err_position_witness` | regression witnesses of F-C05-4 / F-C05-5 (repaired: keyed list / `Result::Err` SSR position) |
| `C05_inert_walk`, `C05_inert_walk_error` | proved: `InertElement::hydrate` moves cursor and position exactly like the element it was rendered from |
| `C05_raw_text_child_witness`           | F-C05-2, outside the `wfV` grammar: a hydrated `<textarea>`/`<style>`/`<script>`/`<noscript>` keeps no child state |

Streamed forms (section 8): views with `Suspend`s whose futures complete in any order, rendered by
`to_html_stream_in_order` / `to_html_stream_out_of_order` / `resolve().await.to_html()` and hydrated by the client.

| theorem | status |
|---|---|
| `C05_resolved`                         | proved (all views): the resolved form prints like the client's view |
| `C05_stream_in_order`                  | proved (all views, all ready sets, all schedules, `Agree`): never panics; ended ⇒ chunks = client HTML (through `C07_in_order`) |
| `C05_stream_out_of_order`              | proved (the same after the inline scripts, clean strings; through `C07_out_of_order`) |
| `C05_stream_html`, `C05_stream_hydrates` | proved: what the driver computes is that HTML; parsed and hydrated it adopts every node, creates none |
| `C05_stream_ready`                     | proved: nothing pending at render time ⇒ `Agree` |
| `compile_spec`, `compileB_spec` (`compile_inOrd`, `compile_oooWf`, `compile_doc`) | proved (Proofs/HydrateStream): `Agree` ⇒ the program is in C07's class of its mode, resolved document = sync HTML, same final position — `Suspend`s nested to any depth (`compileB`: the value of a pending `Suspend`, continuation style, readiness decided at run time) |
| `C05_boundary_witness`                 | kernel-evaluated: `<Suspense>` / `<Transition>` boundaries (always pending when rendered asynchronously) under the stream theorems; in-order string after a boundary = F-C05-6 |
| `C05_error_boundary_position_witness`  | regression witness of F-C05-7 (repaired: `fix: <ErrorBoundary> must hand the position its children leave on …`): `ab` / `x<b></b><!>b` before, `a<!>b` / `x<b></b>b` now |
| `C05_nested_suspend_witness`           | kernel-evaluated: a `Suspend` inside the value of a `Suspend`, outer-before-inner and inner-before-outer, both stream forms |
| `C05_suspend_position_witness_in_order`, `…_out_of_order`, `C05_suspend_position_agree` | F-C05-6 (known finding, class `suspend-position`): the position after a *pending* `Suspend` is guessed (in-order: `NextChild`; out-of-order: unchanged); a wrong guess merges two strings into one text node or adds a `<!>` the client does not expect |
-/
namespace Leptos.Hydrate
open Leptos.Dom Leptos.View

/-! ## 1. the browser reads the SSR string as the expected node sequence -/

/-- **parse ∘ print**: for every view of the grammar `wfV` the HTML parser (WHATWG subset of C06;
`none` outside it) reads the server-rendered string as exactly `domOf v`: one text node per string
(`" "` for the empty string), an empty comment for every `<!>` marker (between adjacent strings,
for `()` / `None`, after a `Vec`), elements with their attributes and children. -/
theorem C05_parse_print (v : View) (h : wfV [[]] v = true) : Html.parse (toHtml v) = some (domOf v) := by
  have := (run_view v Html.rootFrame [] .firstChild h (by decide) (by decide)).1
  unfold Html.parse Html.initState toHtml
  rw [this]
  simp [Html.finish, Html.rootFrame, domOf]

/-! ## 2. the walk succeeds, creates nothing, and binds the existing nodes in order -/

/-- **hydration succeeds**: on every DOM whose `root` holds the node sequence `domOf v` (as the
forest `f` of node ids), `hydrate` never reaches a `failed_to_cast_*` branch, creates no node, and
returns exactly the state `adopt` specifies — the state that takes the nodes of `f` front to back
(skipping the separator comment in front of a string that follows a string); no node is left over;
every adopted node has the kind the state expects and a text state's node holds the retained string
(`" "` where the retained string is `""`). -/
theorem C05_hydrate_succeeds (v : View) (hw : wfH v = true) (d : Dom) (root : Id) (f : List IdTree)
    (hr : Realises d root f (domOf v)) :
    ∃ c, hydrateFrom d root v = .ok ⟨(adopt v .firstChild f).1, c, 0⟩ ∧
      (adopt v .firstChild f).2 = [] ∧ bound d (adopt v .firstChild f).1 = true := by
  obtain ⟨⟨r, hget, _, hkids⟩, hnd, hreal⟩ := hr
  have hc : Ctx d root (f.map IdTree.id) :=
    ⟨by simp [Dom.kidsOf, hget, hkids], hnd, realL_parent hreal⟩
  obtain ⟨consumed, rest, c', h1, h2, h3, h4, _, _, h7⟩ :=
    hyd_view d v root (f.map IdTree.id) [] f ⟨root, .firstChild⟩ [] hc (by simp) hw
      (by simpa [domOf] using hreal) (Or.inl ⟨rfl, rfl, rfl⟩)
  have hrest : rest = [] := by
    cases rest with
    | nil => rfl
    | cons _ _ => simp [realL] at h2
  exact ⟨c', h3, by rw [h4, hrest], h7⟩

/-- **the loaded DOM holds the parsed forest**: building one node per parsed node in document order
(what the correspondence harness does with the parser's output, what a browser's tree builder does)
below a fresh root gives a DOM that `Realises` the forest — for every forest whose elements have
pairwise distinct attribute names (the parser never produces a duplicate). -/
theorem C05_load_realises (ts : List HTree) (h : nodupAttrsL ts = true) :
    Realises (loadRoot ts).1 (loadRoot ts).2.1 (loadRoot ts).2.2 ts :=
  loadRoot_realises ts h

/-- **composition**: print, parse, load, hydrate.  For every view of the grammar, hydrating it
against the DOM built from what the parser reads in its own SSR string succeeds with 0 nodes created,
binds exactly the loaded nodes and leaves none over. -/
theorem C05_hydrate_parsed (v : View) (h : wfV [[]] v = true) :
    ∃ ts, Html.parse (toHtml v) = some ts ∧
      ∃ c, hydrateFrom (loadRoot ts).1 (loadRoot ts).2.1 v =
          .ok ⟨(adopt v .firstChild (loadRoot ts).2.2).1, c, 0⟩ ∧
        bound (loadRoot ts).1 (adopt v .firstChild (loadRoot ts).2.2).1 = true := by
  refine ⟨domOf v, C05_parse_print v h, ?_⟩
  have hr : Realises (loadRoot (domOf v)).1 (loadRoot (domOf v)).2.1 (loadRoot (domOf v)).2.2 (domOf v) :=
    C05_load_realises _ (nodupAttrs_dom v _ .firstChild h)
  obtain ⟨c, h1, _, h3⟩ := C05_hydrate_succeeds v (wfH_of_wfV v _ h) _ _ _ hr
  exact ⟨c, h1, h3⟩

/-! ## 3. the hydrated state is a client-built state up to node identity -/

/-- **state = build state modulo ids**: whenever the walk succeeds — on *any* DOM, from *any* cursor —
the retained state has the same shape and retains the same strings, attribute values, branch indices
and type tags as the state `build` makes for the same view (`nshape` forgets node ids and identifies
the child-less element's `Some(placeholder)` with the hydrated `None`).  In particular the string a
hydrated text state retains is the view's string, `""` included — whatever the adopted node holds. -/
theorem C05_state_eq_build_state_mod_ids (v : View) (hw : wfH v = true) (d : Dom) (c : Cur) (o : Out)
    (d' : Dom) (h : hydrate d v c = .ok o) : nshape o.state = nshape (build v d').2 :=
  shape_hyd d v c o d' hw h

/-! ## 4. after hydration the view shows what a client-built one shows -/

/-- **the walk commutes with its writes**: the repaired `hydrate` writes `""` into the adopted
placeholder of an empty string *during* the walk; the walk reads node kinds, child lists and parents
only, which `set_text` leaves alone, so on the DOM with all writes applied (and on every DOM in
between) the walk returns what it returns on the untouched DOM.  This is what allows the model to
perform the walk first (`hydrate`) and the writes afterwards (`settle`). -/
theorem C05_walk_commutes_with_writes (d : Dom) (st : State) (v : View) (c : Cur) :
    hydrate (settle st d) v c = hydrate d v c :=
  hydrate_congr (settle_sameShape st d) v c

/-- **DOM after hydration like CSR** (all views of the grammar with plain attributes — the empty
string included, since the repair of F-C05-1): the children of the root after hydration (`domA`: the
parsed nodes, every string view's text node holding the string itself) show — marker comments
removed, adjacent text merged — exactly what `build` + `mount` of the same view shows (`render`, the
specification side of C03): the same elements, the same attributes in the same order, the same text.
(That the model's DOM after `settle` serialises to `domA` is evaluated by the driver on every case.) -/
theorem C05_initial_dom_like_csr (v : View) (hw : wfV [[]] v = true) (hp : plainV v = true) :
    stripL (domA v .firstChild) = stripL (render v) := by
  have := initialA_view v [[]] .firstChild [] hw hp
  simpa [stripL_eq_foldr] using this

/-- the same about the DOM the browser builds from the SSR string, i.e. **before** the write of the
repair (= what the code left behind before the repair): only without an empty string -/
theorem C05_initial_dom_like_csr_partial (v : View) (hw : wfV [[]] v = true) (hp : plainV v = true)
    (hne : hasEmptyText v = false) : stripL (toDomTrees (domOf v)) = stripL (render v) := by
  have h : "" ∉ texts v := by simpa [hasEmptyText] using hne
  have := initial_view v [[]] .firstChild [] hw hp h
  simpa [stripL_eq_foldr, domOf] using this

/-! ## 5. … and keeps behaving like one under rebuilds -/

/- `plainV` (Proofs/HydrateInitial.lean): views whose attributes are plain (`String`, `Option<String>`,
`bool`).  Class and style values are normalised differently by the SSR printer (`trim`, `name:value;`)
and by the DOM (`classList`, `name: value;`), which is C03/C06's subject, not C05's. -/

/-- the views `a`, `b` the property compares: two values of one Rust type, inside the grammar -/
def Comparable (a b : View) : Prop :=
  (∃ ty, HasTy a ty ∧ HasTy b ty) ∧ wfV [[]] a = true ∧ wfV [[]] b = true ∧
    plainV a = true ∧ plainV b = true

/-- **then like CSR**: for two values `a`, `b` of one view type — all structural combinators: strings incl.
the empty string, `()`, elements, tuples nested arbitrarily, `Option`, `Either`/`EitherOf<n>` incl. branch
switches, `Vec` (grow, shrink, fill, clear), `AnyView` incl. a change of the erased type; static string
attributes with distinct names (`staticV`: the attribute fragment for which C03 proves `rebuild`); every
non-void element of `a` has children (`fullV`) — the SSR string of `a`, parsed, loaded, hydrated with `a`
and then rebuilt with `b` shows, comments aside, exactly what `a` built and mounted on the client and
rebuilt with `b` shows; hydration created no node.

Proof (Proofs/Hydrate{Erase,EraseView,EraseRebuild,Rep,RepE,Then,Final}.lean): the hydrated DOM differs
from a client-built one by the `<!>` separators in front of strings that follow strings — comments no
state refers to.  (1) Erasing a set of such inert comments commutes with every DOM primitive and hence
with `mount`, `unmount`, `insert_before_this`, `mount_before`, `build` and `rebuild` (`erase_rebuild`).
(2) The hydrated world after the writes of `settle`, with the separators erased, is a mounted
representation of `a` in the sense of C03 (`hyd_rep`: `Rep`; `Inv`).  (3) C03's `rebuild_spec` then gives
`render b` on the erased side, and `build_mount_spec` + `rebuild_spec` give `render b` for the
client-built twin.  (4) Serialising a DOM and the same DOM with inert comments erased agree once
comments are stripped (`serList_erase`), and the fuel of `serializeKids` suffices (`depth_le_owned`,
`nodup_bounded`). -/
theorem C05_then_like_csr (a b : View) (ty : Ty) (hta : HasTy a ty) (htb : HasTy b ty)
    (hwa : wfV [[]] a = true) (hwb : wfV [[]] b = true) (hsa : staticV a = true) (hsb : staticV b = true)
    (hfa : fullV a = true) : likeCsr (domOf a) a b = true := by
  obtain ⟨k1, h1, hstrip⟩ := hydrated_side a b ty hta htb hwa (wfH_of_wfV b _ hwb) (staticV_allEl a hsa)
    (staticV_allEl b hsb) hfa
  have h2 := csr_side a b ty hta htb (staticV_allEl a hsa) (staticV_allEl b hsb) (wfH_of_wfV b _ hwb)
  simp [likeCsr, likeCsrOf, h1, h2, hstrip, treesBeq_refl]

/-- **then behaves like a client-built view, `Option<String>` / `bool` attribute values included.**  The same for
views whose elements carry `String`, `Option<String>` and `bool` attribute values with pairwise distinct names
(`kvV`), values changing freely between `a` and `b` (`None` ↔ `Some`, `false` ↔ `true`, other strings): hydration
succeeds, creates no node, and after the rebuild the hydrated tree and the client-built tree are the same once
comments are stripped — attribute lists compared **as maps** (`Tree.simList AttrsEq`: a removed attribute that
is set again later is appended, so its position in the list is not an invariant; C03's `AttrsRebuild_kv`).
Proof: the erasure argument of `C05_then_like_csr` is independent of the attribute fragment (`Frag`: build and
rebuild of plain attributes are `set_attribute` / `remove_attribute` on the element, which commute with the
erasure — `rebuildAttrs_erase`); the hydrated element's attributes are those of a fresh render (`attrs_like_csr`);
C03's `rebuild_spec` for `KVAttrs` up to `AttrsEq` on both sides; `stripL` respects the relation (`sim_stripL`). -/
theorem C05_then_like_csr_kv (a b : View) (ty : Ty) (hta : HasTy a ty) (htb : HasTy b ty)
    (hwa : wfV [[]] a = true) (hwb : wfV [[]] b = true) (hka : kvV a = true) (hkb : kvV b = true)
    (hfa : fullV a = true) :
    ∃ k1 k2, runHydrated (domOf a) a b = ⟨.ok (), 0, some k1⟩ ∧ runCsr a b = some k2 ∧
      Tree.simList AttrsEq (stripL k1) (stripL k2) :=
  then_like_csr_kv a b ty hta htb hwa hwb hka hkb hfa

/-- what is still **OPEN** (stated, not proved): the same for non-void elements without children (hydrated with
`children: None`, client-built with a placeholder child) and with attribute lists compared exactly for
`Option<String>` / `bool` values (`C05_then_like_csr_kv` compares them as maps).  The correspondence run evaluates
it on every generated pair (model and real code); the instances below are kernel-evaluated. -/
def C05_then_like_csr_stmt : Prop :=
  ∀ a b : View, Comparable a b → likeCsr (domOf a) a b = true

/-- **F-C05-2** (kernel-evaluated; outside the grammar `wfV`, which has no raw-text elements): an
element with `ESCAPE_CHILDREN = false` hydrates with `children: None` (html/element/mod.rs `hydrate`:
`if !Ch::EXISTS || !E::ESCAPE_CHILDREN { None }`), so a later rebuild never reaches its children:
`<textarea>a</textarea>` rebuilt with `"b"` still reads `a`; built on the client it reads `b`. -/
theorem C05_raw_text_child_witness :
    let a : View := .elem "textarea" [] (.tuple [.text "a"])
    let b : View := .elem "textarea" [] (.tuple [.text "b"])
    hasRawKids a = true ∧ (Html.parse (toHtml a)).map (fun ts => likeCsr ts a b) = some false ∧
      (Html.parse (toHtml a)).map (fun ts => likeCsr ts a a) = some true := by
  refine ⟨by decide +kernel, by decide +kernel, by decide +kernel⟩

/-! ## regression witnesses: what the code did before the repairs -/

/-- the statement of §5 about the code before the repair of F-C05-1 -/
def C05_then_like_csr_old : Prop :=
  ∀ a b : View, Comparable a b → likeCsrOld (domOf a) a b = true

/-- **F-C05-1 (repaired)** (kernel-evaluated): the view `""` (a `String`).  The server renders `" "`,
the browser makes a text node `" "`, hydration adopts it and retains `""`.  Before the repair the node
kept `" "` and a rebuild with `""` compared equal and left it alone: the hydrated DOM showed `" "`,
the client-built twin `""`.  Now `hydrate` resets the node and both show `""`. -/
theorem C05_empty_text_witness :
    Comparable (.text "") (.text "") ∧
      toHtml (.text "") = [' '] ∧
      (runHydratedOld (domOf (.text "")) (.text "") (.text "")).kids.map (treesBeq [.text " "]) = some true ∧
      (runHydrated (domOf (.text "")) (.text "") (.text "")).kids.map (treesBeq [.text ""]) = some true ∧
      (runCsr (.text "") (.text "")).map (treesBeq [.text ""]) = some true ∧
      likeCsrOld (domOf (.text "")) (.text "") (.text "") = false ∧
      likeCsr (domOf (.text "")) (.text "") (.text "") = true := by
  refine ⟨⟨⟨.text, by decide, by decide⟩, by decide, by decide, by decide, by decide⟩, by decide,
    by decide +kernel, by decide +kernel, by decide +kernel, by decide +kernel, by decide +kernel⟩

theorem C05_then_like_csr_old_false : ¬ C05_then_like_csr_old := by
  intro h
  have := h (.text "") (.text "") C05_empty_text_witness.1
  rw [C05_empty_text_witness.2.2.2.2.2.1] at this
  cases this

/-- the same in the middle of other text: `("a", "", "b")` showed `a b` after hydration where the
client-built tree shows `ab` -/
theorem C05_empty_text_witness_mid :
    likeCsrOld (domOf (.tuple [.text "a", .text "", .text "b"])) (.tuple [.text "a", .text "", .text "b"])
      (.tuple [.text "a", .text "", .text "b"]) = false ∧
    likeCsr (domOf (.tuple [.text "a", .text "", .text "b"])) (.tuple [.text "a", .text "", .text "b"])
      (.tuple [.text "a", .text "", .text "b"]) = true := by
  refine ⟨by decide +kernel, by decide +kernel⟩

/-- before the repair the DOM after hydration was the parsed DOM, and `C05_initial_dom_like_csr_partial`
needed its hypothesis: the view `""` showed `" "` where a client-built one shows nothing -/
theorem C05_initial_dom_old_witness :
    ¬ (∀ v : View, wfV [[]] v = true → plainV v = true → stripL (toDomTrees (domOf v)) = stripL (render v)) := by
  intro h
  have := h (.text "") (by decide) (by decide)
  simp [domOf, dom, textNode, toDomTrees, toDomTree, render, stripL, stripT, pushText] at this

/-- **F-C05-3 (repaired)** (kernel-evaluated): `<div>` with children `Fragment([])`, `<span>tail</span>`,
hydrated, the fragment rebuilt with `[<span>x</span>]`.  `StaticVec::hydrate` recorded
`cursor.current().parent_element()` as the parent of its items; with no item and the position still
`FirstChild` the cursor is on the `<div>` itself, so that was the `<div>`'s parent and the rebuild
mounted `<span>x</span>` next to the `<div>` instead of into it.  Now the cursor's node is taken while
the position is `FirstChild`. -/
theorem C05_fragment_parent_witness :
    let x : View := .elem "span" [] (.tuple [.text "x"])
    let tail : View := .elem "span" [] (.tuple [.text "tail"])
    (Html.parse (toHtml (.elem "div" [] (.tuple [tail])))).map
        (fun ts => (fragLikeCsr true ts "div" [] [] [x] [tail], fragLikeCsr false ts "div" [] [] [x] [tail])) =
      some (false, true) ∧
    -- unaffected: a non-empty fragment, or an empty one after a sibling
    (Html.parse (toHtml (.elem "div" [] (.tuple [x, tail])))).map
        (fun ts => fragLikeCsr true ts "div" [] [x] [x, x] [tail]) = some true ∧
    (Html.parse (toHtml (.elem "div" [] (.tuple [tail])))).map
        (fun ts => fragLikeCsr true ts "div" [tail] [] [x] []) = some true := by
  refine ⟨by decide +kernel, by decide +kernel, by decide +kernel⟩

/-- **F-C05-4 (repaired)** (kernel-evaluated): a keyed list rendered its items with `NextChild` forced after
each and did not update the position after its trailing `<!>`.  (1) `("a", keyed([]), "b")` rendered
`a<!><!>b`: hydration finds a comment where it expects the string `b`.  (2) string items rendered `ab<!>`:
one merged text node, hydration of the second item fails.  With the repair the keyed list is rendered
exactly like a `Vec` and both hydrate. -/
theorem C05_keyed_position_witness :
    let a : View := .text "a"
    let b : View := .text "b"
    -- (1) empty list between strings
    (html true a .firstChild ++ (htmlKeyedOld [] .nextChildAfterText).1 ++
        html true b (htmlKeyedOld [] .nextChildAfterText).2 = "a<!><!>b".toList ∧
      hydratesOn "a<!><!>b".toList (.tuple [a, .vec [], b]) = false ∧
      toHtml (.tuple [a, .vec [], b]) = "a<!>b".toList ∧
      hydratesOn "a<!>b".toList (.tuple [a, .vec [], b]) = true) ∧
    -- (2) string items
    ((htmlKeyedOld [a, b] .firstChild).1 = "ab<!>".toList ∧
      hydratesOn "ab<!>".toList (.vec [a, b]) = false ∧
      toHtml (.vec [a, b]) = "a<!>b<!>".toList ∧
      hydratesOn "a<!>b<!>".toList (.vec [a, b]) = true) := by
  refine ⟨⟨by decide +kernel, by decide +kernel, by decide +kernel, by decide +kernel⟩,
    ⟨by decide +kernel, by decide +kernel, by decide +kernel, by decide +kernel⟩⟩

/-- **F-C05-5 (repaired)** (kernel-evaluated): `Result::Err` rendered its `<!>` without updating the
position: `("a", Err, "b")` rendered `a<!><!>b`, which does not hydrate; now `a<!>b` like `Option::None`. -/
theorem C05_result_err_position_witness :
    let a : View := .text "a"
    let b : View := .text "b"
    html true a .firstChild ++ (htmlErrOld .nextChildAfterText).1 ++ html true b (htmlErrOld .nextChildAfterText).2 =
        "a<!><!>b".toList ∧
      hydratesOn "a<!><!>b".toList (.tuple [a, .onone, b]) = false ∧
      toHtml (.tuple [a, .onone, b]) = "a<!>b".toList ∧
      hydratesOn "a<!>b".toList (.tuple [a, .onone, b]) = true := by
  refine ⟨by decide +kernel, by decide +kernel, by decide +kernel, by decide +kernel⟩

/-- **InertElement**: its `hydrate` makes the step and the cast of an element and leaves the children
alone; cursor, position and outcome are those of hydrating the element it was rendered from — on every
DOM, from every cursor (so an `InertElement` can stand wherever that element can: first, middle, last or
only child). -/
theorem C05_inert_walk (d : Dom) (c : Cur) (tag : String) (as : List AttrVal) (ch : View) (o : Out)
    (h : hydrate d (.elem tag as ch) c = .ok o) :
    ∃ o', hydrateInert d c = .ok o' ∧ o'.cur = o.cur ∧ o'.created = 0 := by
  simp only [hydrate] at h
  by_cases hel : d.isElement (elemTarget d c) = true
  · simp only [hel, if_true] at h
    refine ⟨⟨.elem (elemTarget d c) [] none, ⟨elemTarget d c, .nextChild⟩, 0⟩, by simp [hydrateInert, hel], ?_, rfl⟩
    split at h
    · cases h; rfl
    · split at h
      · cases h; rfl
      · cases h
  · simp [hel] at h

/-- … and where hydrating the element fails at its own cast, so does the `InertElement` -/
theorem C05_inert_walk_error (d : Dom) (c : Cur) (h : d.isElement (elemTarget d c) = false) :
    hydrateInert d c = .error (.element "" (elemTarget d c)) := by
  simp [hydrateInert, h]

/-! ## 8. `Suspend` and the streamed forms

A view with `Suspend`s (carried as `.any (suspTy fid) (.osome v)`, see Model/Hydrate) is rendered on the server by
`to_html_stream_in_order`, `to_html_stream_out_of_order` or `resolve().await.to_html()` while its futures complete
in any order; the client hydrates `clientOf v` (every future ready).  `compile` produces the builder program with the
`Position` threaded; the programs are in the classes of C07's theorems (`compile_inOrd`, `compile_oooWf`), so the
stream machine of `Model/Stream` delivers, for *every* completion schedule, the program's resolved document; and that
document is the synchronous HTML of the client's view whenever every position guess of a pending `Suspend` is right
(`Agree`, decidable; `compile_spec`).  A `Suspend` inside the value of a pending `Suspend` is rendered when the outer
future resolves; whether it is ready then is decided by the stream machine (`compileB`: `Op.ite`), and `Agree` asks
its guess to be right either way.  Where a guess is wrong the following string gains or loses its `<!>`
(F-C05-6, class `suspend-position`: `C05_suspend_position_witness_*`). -/

/-- **C05_resolved.** `resolve().await.to_html()` of a view with `Suspend`s is `to_html()` of the client's view
    (a resolved `Suspend` is `Some(value)`; `Vec`/`Keyed` resolve their items in list order). -/
theorem C05_resolved (v : View) : toHtml (clientOf v) = toHtml v := toHtml_clientOf v

/-- **C05_stream_in_order.** Every view, every set of futures ready at render time, every completion schedule: if
    every guess is right, the in-order stream never panics and, once it has ended, its chunks concatenate to the HTML
    the hydrating client expects. -/
theorem C05_stream_in_order (v : View) (d0 : List Nat) (sched : List (List Nat))
    (ha : Agree false d0 true v .firstChild = true) :
    (∀ o ∈ ((Stream.startStream false d0 (compile false d0 true v .firstChild).1).polls sched).out,
      o ≠ Stream.Poll.panic ∧ o ≠ Stream.Poll.stuck) ∧
    (((Stream.startStream false d0 (compile false d0 true v .firstChild).1).polls sched).out.getLast? = some .done →
      Stream.itemsOf ((Stream.startStream false d0 (compile false d0 true v .firstChild).1).polls sched).out
        = toHtml (clientOf v)) := by
  have h := Stream.C07_in_order _ (compile_inOrd d0 v true .firstChild ha) d0 sched
  refine ⟨h.2.2, fun hl => ?_⟩
  rw [h.2.1 hl, toHtml_clientOf]
  simpa [docOf, toHtml] using (compile_doc false d0 v true .firstChild ha).1

/-- **C05_stream_out_of_order.** The same for the out-of-order stream once the client has run the inline scripts
    (strings free of marker / `<template` / `<script` text: C07's hygiene condition, decidable). -/
theorem C05_stream_out_of_order (v : View) (d0 : List Nat) (sched : List (List Nat))
    (ha : Agree true d0 true v .firstChild = true)
    (hc : Stream.cleanOps (compile true d0 true v .firstChild).1 = true) :
    (∀ o ∈ ((Stream.startStream true d0 (compile true d0 true v .firstChild).1).polls sched).out,
      o ≠ Stream.Poll.panic ∧ o ≠ Stream.Poll.stuck) ∧
    (((Stream.startStream true d0 (compile true d0 true v .firstChild).1).polls sched).out.getLast? = some .done →
      Stream.applyScripts (Stream.itemsOf ((Stream.startStream true d0 (compile true d0 true v .firstChild).1).polls sched).out)
        = toHtml (clientOf v)) := by
  have h := Stream.C07_out_of_order _ (compile_oooWf d0 v true .firstChild ha) hc d0 sched
  refine ⟨h.1, fun hl => ?_⟩
  rw [h.2 hl, toHtml_clientOf]
  simpa [docOf, toHtml] using (compile_doc true d0 v true .firstChild ha).1

/-- **C05_stream_html.** What the correspondence driver computes (`stream`: the harness' plan, then polls to the
    end) is, under the same conditions, the HTML of the client's view. -/
theorem C05_stream_html (ooo : Bool) (d0 : List Nat) (steps : List (List Nat)) (v : View)
    (ha : Agree ooo d0 true v .firstChild = true)
    (hc : ooo = true → Stream.cleanOps (compile true d0 true v .firstChild).1 = true)
    (hl : (stream ooo d0 steps v).last = some .done) :
    (stream ooo d0 steps v).html = toHtml (clientOf v) := by
  obtain ⟨s, hs⟩ := stream_polls ooo d0 steps v
  simp only [stream, hs] at hl ⊢
  cases ooo with
  | false => simpa using (C05_stream_in_order v d0 s ha).2 hl
  | true => simpa using (C05_stream_out_of_order v d0 s ha (hc rfl)).2 hl

/-- **C05_stream_hydrates** (composition): stream → browser → hydrate.  The client's view hydrated against the DOM
    built from what the parser reads in the streamed document succeeds with 0 nodes created and binds exactly the
    loaded nodes — for every completion schedule. -/
theorem C05_stream_hydrates (ooo : Bool) (d0 : List Nat) (steps : List (List Nat)) (v : View)
    (hw : wfV [[]] (clientOf v) = true)
    (ha : Agree ooo d0 true v .firstChild = true)
    (hc : ooo = true → Stream.cleanOps (compile true d0 true v .firstChild).1 = true)
    (hl : (stream ooo d0 steps v).last = some .done) :
    ∃ ts, Html.parse (stream ooo d0 steps v).html = some ts ∧
      ∃ c, hydrateFrom (loadRoot ts).1 (loadRoot ts).2.1 (clientOf v) =
          .ok ⟨(adopt (clientOf v) .firstChild (loadRoot ts).2.2).1, c, 0⟩ ∧
        bound (loadRoot ts).1 (adopt (clientOf v) .firstChild (loadRoot ts).2.2).1 = true := by
  rw [C05_stream_html ooo d0 steps v ha hc hl]
  exact C05_hydrate_parsed (clientOf v) hw

/-- **C05_stream_ready.** No future pending at render time (and no `<Suspense>` boundary, which is always pending
    when it is rendered asynchronously): no guess is made, both streams are the synchronous HTML whatever the view. -/
theorem C05_stream_ready (ooo : Bool) (d0 : List Nat) (v : View) (h : ∀ f ∈ fidsOf v, d0.contains f = true)
    (hb : boundaries v = 0) :
    Agree ooo d0 true v .firstChild = true := agree_of_ready ooo d0 v true .firstChild h hb

/-! ### F-C05-6: the position after a pending `Suspend` is a guess (class `suspend-position`) -/

/-- `("a", Suspend("b"), "c")` -/
def exSuspText : View := .tuple [.text "a", .any (suspTy 0) (.osome (.text "b")), .text "c"]
/-- `("a", Suspend(<b></b>), "c")` -/
def exSuspElem : View := .tuple [.text "a", .any (suspTy 0) (.osome (.elem "b" [] .unit)), .text "c"]

/-- in-order, pending: the caller continues with `NextChild`, the value leaves `NextChildAfterText`: `"c"` loses its
    separator, the browser sees one text node `bc`, and two string states adopt that one node (the walk does not
    notice: `Cursor::sibling` stays where it is when there is no sibling) — a rebuild of `"b"` then overwrites `"c"`.
    With the future ready at render time the same view streams correctly. -/
theorem C05_suspend_position_witness_in_order :
    Agree false [] true exSuspText .firstChild = false ∧
    (stream false [] [] exSuspText).last = some .done ∧
    (stream false [] [] exSuspText).html = "a<!>bc".toList ∧
    toHtml (clientOf exSuspText) = "a<!>b<!>c".toList ∧
    likeCsr ((Html.parse (stream false [] [] exSuspText).html).getD []) (clientOf exSuspText)
      (.tuple [.text "a", .any (suspTy 0) (.osome (.text "B")), .text "c"]) = false ∧
    (stream false [0] [] exSuspText).html = "a<!>b<!>c".toList := by decide +kernel

/-- out-of-order, pending: the caller continues with its own position (`NextChildAfterText`), the value (an
    element) leaves `NextChild`: `"c"` gets a `<!>` the client does not expect — hydration fails. -/
theorem C05_suspend_position_witness_out_of_order :
    Agree true [] true exSuspElem .firstChild = false ∧
    (stream true [] [] exSuspElem).last = some .done ∧
    (stream true [] [] exSuspElem).html = "a<b></b><!>c".toList ∧
    toHtml (clientOf exSuspElem) = "a<b></b>c".toList ∧
    (match Html.parse (stream true [] [] exSuspElem).html with
     | some ts => (hydrateFrom (loadRoot ts).1 (loadRoot ts).2.1 (clientOf exSuspElem)).toOption.isNone
     | none => false) = true ∧
    (stream true [0] [] exSuspElem).html = "a<b></b>c".toList := by decide +kernel

/-- a `Suspend` inside the value of a `Suspend` (`<em>o1</em>`, `Suspend(<b>inner</b>)`, `<i>o2</i>` inside the outer
    one): its readiness is decided when the outer future resolves (`compileB`, `Op.ite`).  Every guess is right, so
    `C05_stream_in_order` / `C05_stream_out_of_order` apply; here the outer future resolves while the inner one is
    still pending, and the other way round (kernel-evaluated) -/
def exNested : View :=
  .tuple [.elem "hr" [] .unit,
    .any (suspTy 0) (.osome (.tuple [.elem "em" [] (.tuple [.text "o1"]),
      .any (suspTy 1) (.osome (.elem "b" [] (.tuple [.text "inner"]))), .elem "i" [] (.tuple [.text "o2"])]))]

theorem C05_nested_suspend_witness :
    Agree false [] true exNested .firstChild = true ∧ Agree true [] true exNested .firstChild = true ∧
    toHtml (clientOf exNested) = "<hr><em>o1</em><b>inner</b><i>o2</i>".toList ∧
    (stream false [] [[0], [], [1]] exNested).html = toHtml (clientOf exNested) ∧
    (stream false [] [[1], [], [0]] exNested).html = toHtml (clientOf exNested) ∧
    (stream true [] [[0], [], [1]] exNested).html = toHtml (clientOf exNested) ∧
    (stream true [] [[1], [], [0]] exNested).html = toHtml (clientOf exNested) ∧
    (stream false [1] [[0]] exNested).html = toHtml (clientOf exNested) := by decide +kernel

/-- `<Suspense>` / `<Transition>` boundaries (children without asynchronous parts; carried as `.any (boundaryTy _) v`):
    rendered asynchronously they take the two branches of a pending `Suspend` with a future that needs one executor
    turn, so the stream theorems above cover them; `(<hr>, <Suspense><b>x</b></Suspense>, <i>)` streams to the client's
    HTML in both forms, while `("a", <Suspense>"b"</Suspense>, "c")` in order is F-C05-6 again (`a<!>bc`). -/
theorem C05_boundary_witness :
    let ok : View := .tuple [.elem "hr" [] .unit, .any (boundaryTy 0) (.elem "b" [] (.tuple [.text "x"])), .elem "i" [] .unit]
    let bad : View := .tuple [.text "a", .any (boundaryTy 0) (.text "b"), .text "c"]
    Agree false [] true ok .firstChild = true ∧ Agree true [] true ok .firstChild = true ∧
    (stream false [] [] ok).html = toHtml (clientOf ok) ∧ (stream true [] [] ok).html = toHtml (clientOf ok) ∧
    toHtml (clientOf ok) = "<hr><b>x</b><i></i>".toList ∧
    Agree false [] true bad .firstChild = false ∧ (stream false [] [] bad).html = "a<!>bc".toList ∧
    toHtml (clientOf bad) = "a<!>b<!>c".toList := by decide +kernel

/-! ### F-C05-7 (repaired): `<ErrorBoundary>` did not hand on the position its children leave

The leptos wrapper components are carried by modelled constructors (lean/Driver/C05.lean): `<ErrorBoundary>` with `Ok`
children, `<Show>` (a closure over an `Either`), `<For>` (a closure over a keyed list) are `AnyView`s that a rebuild
always replaces, transparent for `to_html` / `hydrate` / `build` — so every theorem of this file applies to them as it
does to `.any`.  Before the repair `ErrorBoundaryView::to_html_with_buf` rendered its children with a copy of the
position and dropped the copy (`htmlEbOld`). -/

/-- (i) `(<ErrorBoundary>{Ok("a")}</ErrorBoundary>, "b")` was rendered `ab`: one text node, adopted by both string
    states, and a rebuild of `"a"` overwrites `"b"`; (ii) `("x", <ErrorBoundary><b/></ErrorBoundary>, "b")` was rendered
    `x<b></b><!>b`, where hydration fails.  The repaired boundary prints `a<!>b` / `x<b></b>b`, which hydrate. -/
theorem C05_error_boundary_position_witness :
    let eb (v : View) : View := .any (.elem "#eb" [] (.arr 0 .unit)) v
    let v1 : View := .tuple [eb (.any (.opt .unit) (.osome (.text "a"))), .text "b"]
    let w1 : View := .tuple [eb (.any (.opt .unit) (.osome (.text "A"))), .text "b"]
    let v2 : View := .tuple [.text "x", eb (.elem "b" [] .unit), .text "b"]
    htmlEbOld [] (.any (.opt .unit) (.osome (.text "a"))) [.text "b"] = "ab".toList ∧
    toHtml v1 = "a<!>b".toList ∧
    (Html.parse "ab".toList).map (fun ts => likeCsr ts v1 w1) = some false ∧
    likeCsr (domOf v1) v1 w1 = true ∧
    htmlEbOld [.text "x"] (.elem "b" [] .unit) [.text "b"] = "x<b></b><!>b".toList ∧
    toHtml v2 = "x<b></b>b".toList ∧
    (match Html.parse "x<b></b><!>b".toList with
     | some ts => (hydrateFrom (loadRoot ts).1 (loadRoot ts).2.1 v2).toOption.isNone
     | none => false) = true ∧
    likeCsr (domOf v2) v2 v2 = true := by decide +kernel

/-- the other way round both guesses are right: the same two views stream correctly in the other mode -/
theorem C05_suspend_position_agree :
    Agree true [] true exSuspText .firstChild = true ∧ Agree false [] true exSuspElem .firstChild = true ∧
    (stream true [] [] exSuspText).html = "a<!>b<!>c".toList ∧
    (stream false [] [] exSuspElem).html = "a<b></b>c".toList := by decide +kernel

/-! ## non-vacuity: the hypotheses are satisfiable and the conclusions bite

(closed terms evaluated by the kernel: `decide +kernel` — no axiom beyond the kernel's reduction) -/

section examples

/-- adjacent strings in an element: `<p>Hello, <!>World<!>!</p>` -/
def exAdj (name : String) : View := .elem "p" [] (.tuple [.text "Hello, ", .text name, .text "!"])
example : wfV [[]] (exAdj "World") = true := by decide +kernel
example : toHtml (exAdj "World") = "<p>Hello, <!>World<!>!</p>".toList := by decide +kernel
example : loadOK (domOf (exAdj "World")) = true := by decide +kernel
example : Comparable (exAdj "World") (exAdj "Bob") :=
  ⟨⟨.elem "p" [] (.tuple [.text, .text, .text]), by decide +kernel, by decide +kernel⟩, by decide +kernel, by decide +kernel, by decide +kernel, by decide +kernel⟩
example : likeCsr (domOf (exAdj "World")) (exAdj "World") (exAdj "Bob") = true := by decide +kernel
/-- the hypotheses of `C05_then_like_csr` are satisfiable (and its conclusion is the line above) -/
example : staticV (exAdj "World") = true ∧ fullV (exAdj "World") = true ∧ staticV (exAdj "Bob") = true := by
  decide +kernel
example : likeCsr (domOf (exAdj "World")) (exAdj "World") (exAdj "Bob") = true :=
  C05_then_like_csr (exAdj "World") (exAdj "Bob") (.elem "p" [] (.tuple [.text, .text, .text]))
    (by decide +kernel) (by decide +kernel) (by decide +kernel) (by decide +kernel) (by decide +kernel)
    (by decide +kernel) (by decide +kernel)

/-- the empty string: rendered as `" "`, adopted and reset to `""` -/
example : wfV [[]] (.text "") = true := by decide +kernel
example : domOf (.text "") = [.text [' ']] := by decide +kernel
example : loadOK (domOf (.text "")) = true := by decide +kernel
example : likeCsr (domOf (.text "")) (.text "") (.text "now") = true := by decide +kernel
example : likeCsr (domOf (.text "")) (.text "") (.text "") = true := by decide +kernel
example : hasEmptyText (.text "") = true := by decide +kernel

/-- `Option`: none ↔ some between two strings -/
def exOpt (o : View) : View := .elem "div" [.str "id" "x"] (.tuple [.text "a", o, .text "b"])
example : wfV [[]] (exOpt .onone) = true := by decide +kernel
example : toHtml (exOpt .onone) = "<div id=\"x\">a<!>b</div>".toList := by decide +kernel
example : toHtml (exOpt (.osome (.text "m"))) = "<div id=\"x\">a<!>m<!>b</div>".toList := by decide +kernel
example : loadOK (domOf (exOpt .onone)) = true := by decide +kernel
example : likeCsr (domOf (exOpt .onone)) (exOpt .onone) (exOpt (.osome (.text "m"))) = true := by decide +kernel
example : likeCsr (domOf (exOpt (.osome (.text "m")))) (exOpt (.osome (.text "m"))) (exOpt .onone) = true := by
  decide +kernel

/-- `Option<String>` and `bool` attribute values changing on rebuild: the hypotheses of `C05_then_like_csr_kv`
are satisfiable, and its conclusion holds even with attribute lists compared exactly here -/
def exKV (title : Option String) (hidden : Bool) (s : String) : View :=
  .elem "span" [.str "id" "x", .ostr "title" title, .bool "hidden" hidden] (.tuple [.text s])
example : wfV [[]] (exKV none true "a") = true ∧ kvV (exKV none true "a") = true ∧ fullV (exKV none true "a") = true ∧
    wfV [[]] (exKV (some "t") false "b") = true ∧ kvV (exKV (some "t") false "b") = true := by decide +kernel
example : toHtml (exKV none true "a") = "<span id=\"x\" hidden>a</span>".toList := by decide +kernel
example : likeCsr (domOf (exKV none true "a")) (exKV none true "a") (exKV (some "t") false "b") = true := by
  decide +kernel
example : ∃ k1 k2, runHydrated (domOf (exKV none true "a")) (exKV none true "a") (exKV (some "t") false "b")
      = ⟨.ok (), 0, some k1⟩ ∧ runCsr (exKV none true "a") (exKV (some "t") false "b") = some k2 ∧
      Tree.simList AttrsEq (stripL k1) (stripL k2) :=
  C05_then_like_csr_kv _ _ (.elem "span" [.str "id", .ostr "title", .bool "hidden"] (.tuple [.text]))
    (by decide +kernel) (by decide +kernel) (by decide +kernel) (by decide +kernel) (by decide +kernel)
    (by decide +kernel) (by decide +kernel)

/-- a `Vec` of elements followed by a sibling: the trailing `<!>` is where new items go -/
def exItem (s : String) : View := .elem "b" [] (.tuple [.text s])
def exVec (items : List View) : View := .tuple [.vec items, .elem "i" [] (.tuple [.text "s"])]
example : wfV [[]] (exVec [exItem "1", exItem "2"]) = true := by decide +kernel
example : toHtml (exVec [exItem "1", exItem "2"]) = "<b>1</b><b>2</b><!><i>s</i>".toList := by decide +kernel
example : loadOK (domOf (exVec [exItem "1", exItem "2"])) = true := by decide +kernel
example : likeCsr (domOf (exVec [exItem "1", exItem "2"])) (exVec [exItem "1", exItem "2"])
    (exVec [exItem "1", exItem "2", exItem "3"]) = true := by decide +kernel
example : likeCsr (domOf (exVec [])) (exVec []) (exVec [exItem "1"]) = true := by decide +kernel

/-- an `Either` switch next to a string, and a void element -/
example : likeCsr (domOf (.tuple [.either 2 0 (.text "l"), .text "s", .elem "br" [] .unit]))
    (.tuple [.either 2 0 (.text "l"), .text "s", .elem "br" [] .unit])
    (.tuple [.either 2 1 (exItem "r"), .text "s", .elem "br" [] .unit]) = true := by decide +kernel

/-- a mismatching DOM is an observable error, not a silent success: a string view against `<b></b>` -/
example : (hydrateFrom (loadRoot [.elem ['b'] [] []]).1 0 (.text "a")).toOption.isNone = true := by decide +kernel

end examples

end Leptos.Hydrate
