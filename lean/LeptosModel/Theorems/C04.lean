import LeptosModel.Proofs.RViewMain
import LeptosModel.Proofs.RViewShow
import LeptosModel.Proofs.RViewTop
import LeptosModel.Proofs.RViewQuiet
import LeptosModel.Proofs.RViewMRun
import LeptosModel.Proofs.RViewErrb
import LeptosModel.Proofs.SViewLoaded
import LeptosModel.Proofs.RViewMSettleE
/-!
# C04 — a mounted reactive view always settles to the render of current state

Model: `LeptosModel/Model/RView.lean` (reactive views = the reactive graph of `Model/Reactive.lean` +
a retained state tree that carries its DOM nodes).  Lemmas: `Proofs/RView*.lean`.
-/
namespace Leptos.RView
open Leptos.Reactive

/-! ## `C04_settles` -/

/-- **full statement**: for EVERY well-formed program of the grammar — definitions: signals and memos
(memos over memos, any tracked expressions); view: static text, `()`, elements with static / reactive
attributes, classes and styles, tuples, `move ||` text, `move || Either`, `<Show>` (an `ArcMemo` over the
truth value in front of an `Either`) and `<For>` (the keyed diff of C11), nested arbitrarily; every dynamic
part reads signals and memos through arbitrary expressions (`ite` = dynamic dependencies) — and EVERY
history of signal writes, polls of any ready task in any order (tasks of dropped effects and of effects
still alive inside a dropped branch included), `idle` runs and the disposal of the mount handle: at every
idle point the serialised DOM below the mount root is the from-scratch render of the view for the current
values of the signals (memos at their from-scratch values).

Proof: the reactive graph satisfies the reactive core's state invariant `TopC` (C01/C02/C09:
`Proofs/ReactiveConv.lean`, state-level lemmas `Proofs/ReactiveState2.lean`, `Proofs/ReactivePush.lean`) with
the dropped render effects as its dead set, through every creation (`TopC.createRenderEffect`, `TopC.push`),
run (`TopC.consume`, `BusyState.effUpdate`, `EffUpdPostC.noRun`/`runEffBody`), disposal (`TopC.dispose`) and
write (`TopC.set`); the DOM phase of a re-run starts at a quiescent state.  The state tree shows what its
effects stored (`GoodM`, `EM`); an effect that is not notified has stored the from-scratch value of its
body (`TopC.effect_val`); hence `serialize = render` when no task is ready (`GoodM.serialize_eq`).
Views with component-local state (`scope`, `forRows`) are outside `View.wf`; they are covered by
correspondence. -/
theorem C04_settles_full (p : Program) (ops : List Op) (hw : p.wf = true)
    (hd : (run p ops).disposed = false) (hidle : ready (run p ops) = []) :
    (run p ops).dom = render (run p ops).env p.view := by
  have hw' := hw
  simp only [Program.wf, Bool.and_eq_true] at hw'
  rcases InvDM.run hw (wf_coreS p.view hw'.2) ops with h | h
  · rw [h.1] at hd; cases hd
  · exact h.2.settled (wf_coreS p.view hw'.2) hidle

/-- (a) dynamic parts that read MEMOS (named stage: an instance of `C04_settles_full`; no `allSigs`) -/
theorem C04_settles_memo (p : Program) (ops : List Op) (hw : p.wf = true) (hc : p.view.core = true)
    (hd : (run p ops).disposed = false) (hidle : ready (run p ops) = []) :
    (run p ops).dom = render (run p ops).env p.view :=
  have _ := hc
  C04_settles_full p ops hw hd hidle

/-- (b) `<Show>` anywhere in the view (named stage: an instance of `C04_settles_full`) -/
theorem C04_settles_show (p : Program) (ops : List Op) (hw : p.wf = true)
    (hd : (run p ops).disposed = false) (hidle : ready (run p ops) = []) :
    (run p ops).dom = render (run p ops).env p.view :=
  C04_settles_full p ops hw hd hidle

/-- **nested dynamic parts over signals** — unconditional: for every program whose definitions are
signals and whose view is built from static structure (text, `()`, elements, tuples), dynamic leaves
(`move ||` text, reactive attribute, class and style), `move || Either` and `<For>` (keyed lists,
through the theorems of C11) — nested ARBITRARILY (an `either` or a `<For>` inside the branches of an
`either`, dynamic leaves and elements with reactive attributes inside branches, …) — all reading
signals (through arbitrary expressions with `ite`, i.e. dynamic
dependencies), for EVERY history of signal writes, executor polls in ANY order (including polls of the
tasks of dropped effects and of effects that are still alive inside a dropped branch), `idle` runs and
disposal: at every idle point the serialised DOM of the mount root equals the from-scratch render of
the view for the current signal values. -/
theorem C04_settles (p : Program) (ops : List Op) (hw : p.wf = true) (hs : allSigs p.defs = true)
    (hc : p.view.core = true) (hd : (run p ops).disposed = false) (hidle : ready (run p ops) = []) :
    (run p ops).dom = render (run p ops).env p.view := by
  rcases InvD.run hw hs hc ops with h | h
  · rw [h.1] at hd; cases hd
  · simp only [Program.wf, Bool.and_eq_true] at hw
    exact h.2.settled hw.2 hidle

/-- **`<For>`** (named stage of `C04_settles_full`): `C04_settles` covers keyed lists — `View.core`
allows `forKeyed` anywhere, also inside `either` branches and beside other dynamic parts.  The list
update is `Leptos.Keyed.rebuild`; the proof goes through `C11_build_wf`, `C11_storage_is_to`,
`C11_dom_order` (`Proofs/RViewFor.lean`: the keyed state stays well-formed and mounted with one `<li>` per
row, hence the rows in DOM order are the keys last handed to the list).  Selector over signals; still
open for `<For>`: selectors that read memos, rows with dynamic content. -/
theorem C04_settles_for (p : Program) (ops : List Op) (hw : p.wf = true) (hs : allSigs p.defs = true)
    (hc : p.view.core = true) (hd : (run p ops).disposed = false) (hidle : ready (run p ops) = []) :
    (run p ops).dom = render (run p ops).env p.view :=
  C04_settles p ops hw hs hc hd hidle

/-- the keyed-list invariant behind it: in a `<For>` state that is well-formed and mounted (`KOK`; holds
after `buildFor`, kept by `rerunFor`) the rows read off the DOM are the keys of the list -/
theorem C04_for_rows_are_keys {ks : Keyed.KState} (h : KOK ks) : forRows ks = ks.hashed := forRows_eq h

/-- `<For>` re-run: a row whose key is still in the new list keeps its item — the same `<li>` node -/
theorem C04_for_keeps_rows (st : St) {ks : Keyed.KState} (texts : List (Nat × Nat)) {keys : List Nat}
    (h : KOK ks) (hk : keys.Nodup) :
    KOK (rerunFor st ks texts keys).1 ∧ (rerunFor st ks texts keys).1.hashed = keys ∧
    ∀ it ∈ Keyed.somes ks.w.storage, it.key ∈ keys →
      it ∈ Keyed.somes (rerunFor st ks texts keys).1.w.storage :=
  ⟨rerunFor_kok st texts h hk, rfl, rerunFor_keeps st texts h hk⟩

/-! ## `<ForEnumerate>`: the index every row is told -/

/-- the index signals of the rows as a map from keys: `set_index(i)` / `view_fn(i, item)` write it -/
def tell (m : Nat → Option Nat) (ki : Nat × Nat) : Nat → Option Nat :=
  fun k => if k = ki.1 then some ki.2 else m k

theorem tell_foldl_absent : ∀ (l : List (Nat × Nat)) (m : Nat → Option Nat) (k : Nat),
    k ∉ l.map (·.1) → l.foldl tell m k = m k
  | [], _, _, _ => rfl
  | a :: l, m, k, h => by
    simp only [List.map_cons, List.mem_cons, not_or] at h
    rw [List.foldl_cons, tell_foldl_absent l _ k h.2]
    simp [tell, h.1]

theorem tell_foldl_mem : ∀ (l : List (Nat × Nat)) (m : Nat → Option Nat) (k i : Nat),
    (l.map (·.1)).Nodup → (k, i) ∈ l → l.foldl tell m k = some i
  | [], _, _, _, _, h => by simp at h
  | a :: l, m, k, i, hnd, h => by
    simp only [List.map_cons, List.nodup_cons] at hnd
    rw [List.foldl_cons]
    rcases List.mem_cons.1 h with h | h
    · subst h
      rw [tell_foldl_absent l _ k hnd.1]
      simp [tell]
    · exact tell_foldl_mem l _ k i hnd.2 h

/-- **every row of a `<ForEnumerate>` knows its position after the list update** (model of
`tachys::view::keyed` = `Leptos.Keyed.rebuild`, through C11): if before the update every row's index
signal held its position in the old list, then after `set_index` was called for the surviving rows that
the diff moved (`log.setIndex`) and the new rows were created with their index (`log.builds`), every
row's index signal holds its position in the new list — for all duplicate-free lists, also when a row
returns to the index it was created at.  (`RView.rerunRows` performs exactly these writes: `setIx` over
`log.setIndex`, `rowStep` over `log.builds`.) -/
theorem C04_enumerate_index (s : Keyed.KState) (to : List Nat) (hs : Keyed.Wf s) (hto : to.Nodup)
    (m : Nat → Option Nat) (hm : ∀ i k, s.hashed[i]? = some k → m k = some i) :
    ∀ j k, to[j]? = some k →
      (Keyed.rebuild s to).w.log.builds.foldl tell ((Keyed.rebuild s to).w.log.setIndex.foldl tell m) k = some j := by
  intro j k hjk
  obtain ⟨hsn, hsm⟩ := Keyed.C11_set_index s to hs hto
  obtain ⟨_, ⟨hbn, hbm⟩, _⟩ := Keyed.C11_identity s to hs hto
  by_cases hk : k ∈ s.hashed
  · -- a surviving row: no build; told iff it is not where it was
    have hnb : k ∉ (Keyed.rebuild s to).w.log.builds.map (·.1) := by
      intro hmem
      obtain ⟨⟨k', i⟩, hin, rfl⟩ := List.mem_map.1 hmem
      exact ((hbm k' i).1 hin).2 hk
    rw [tell_foldl_absent _ _ k hnb]
    by_cases hsame : s.hashed[j]? = some k
    · have hns : k ∉ (Keyed.rebuild s to).w.log.setIndex.map (·.1) := by
        intro hmem
        obtain ⟨⟨k', i⟩, hin, rfl⟩ := List.mem_map.1 hmem
        have h3 := (hsm k' i).1 hin
        have hij : i = j := by
          have h1 := h3.2.1
          exact (List.getElem?_inj (List.getElem?_eq_some_iff.1 h1).1 hto).1 (h1.trans hjk.symm)
        rw [hij] at h3
        exact h3.2.2 hsame
      rw [tell_foldl_absent _ _ k hns]
      exact hm j k hsame
    · exact tell_foldl_mem _ _ k j hsn ((hsm k j).2 ⟨hk, hjk, hsame⟩)
  · exact tell_foldl_mem _ _ k j hbn ((hbm k j).2 ⟨hjk, hk⟩)

/-! ## `<ErrorBoundary>`: the boundary's effect, the register of errors, the spec

The register of a boundary (`errors`, a map; here its size, every registered error having an id of its own)
is written by `bump` only: `+1` when a `Result` leaf is built or re-run as `Err` (`throw`), `-1` when an `Err`
leaf becomes `Ok` or its state is dropped by the task that held it (`clear`).  The theorems below are the
balance of these writes and what the boundary's own effect does with the register; that every mounted
view with boundaries settles to the fresh render is checked by correspondence (see props/C04.py). -/

/-- the boundary's own render effect only toggles: after its re-run the region shows the fallback iff
`errors_empty` (`v`) is false, the children's state is what it was (they are kept, not rebuilt), no
reactive state changes and nothing is dropped -/
theorem C04_errb_effect_toggles (e m s : Nat) (fb : Option N) (kid : RState) (v : Int) (st : St) :
    serialize (rerunIn e v (.errb e m s fb kid) st).1 =
        (if v != 0 then serialize kid else [.text (.lit "error")]) ∧
      (∃ fb', (rerunIn e v (.errb e m s fb kid) st).1 = .errb e m s fb' kid) ∧
      (rerunIn e v (.errb e m s fb kid) st).2.1.rs = st.rs ∧
      (rerunIn e v (.errb e m s fb kid) st).2.1.zombies = st.zombies := by
  cases fb <;> cases hb : (v != 0) <;> simp [rerunIn, hb, serialize, St.alloc]

/-- a `Result` leaf keeps the register of its boundary balanced: its re-run changes the number of registered
errors by (it is `Err` now) − (it was `Err` before), and its DOM shows the new value -/
theorem C04_res_balance (e s : Nat) (c x : Expr) (n : N) (last : Option Int) (v : Int) (st : St) (v0 : Int)
    (hs : st.prog[s]? = some (.sig v0)) (hlt : s < st.rs.nodes.length) :
    envOf (rerunIn e v (.res e c x n last (some s)) st).2.1.rs s =
        envOf st.rs s + (if (decodeRes v).isNone then 1 else 0) - (if last.isNone then 1 else 0) ∧
      serialize (rerunIn e v (.res e c x n last (some s)) st).1 =
        (match decodeRes v with
         | some w => [.text (.int w)]
         | none => [.comment]) := by
  simp only [rerunIn, if_true]
  cases last with
  | none =>
    cases hd : decodeRes v with
    | none =>
      simp only [bumpTo, serialize, Option.isNone_none, if_true]
      rw [bump_val st s 0 v0 hs hlt]
      exact ⟨by omega, trivial⟩
    | some w =>
      simp only [bumpTo, serialize, Option.isNone_none, Option.isNone_some, if_true, Bool.false_eq_true, if_false]
      rw [bump_val st.alloc.2 s (-1) v0 hs hlt]
      exact ⟨by simp only [St.alloc]; omega, trivial⟩
  | some l =>
    cases hd : decodeRes v with
    | none =>
      simp only [bumpTo, serialize, Option.isNone_none, Option.isNone_some, if_true, Bool.false_eq_true, if_false]
      rw [bump_val st.alloc.2 s 1 v0 hs hlt]
      exact ⟨by simp only [St.alloc]; omega, trivial⟩
    | some w =>
      simp only [serialize, Option.isNone_some, Bool.false_eq_true, if_false]
      exact ⟨by omega, trivial⟩

/-- … and so does its disappearance: what the task of a dropped leaf holds while the leaf is in error is the
token of its registration (`RState.held`), and the end of that task (`releaseZombie`: `Drop for ResultState`,
which unregisters through the hook the state was built under) takes exactly that registration back -/
theorem C04_dropped_error_unregisters (e s : Nat) (c x : Expr) (n : N) (st : St) (v0 : Int)
    (hs : st.prog[s]? = some (.sig v0)) (hlt : s < st.rs.nodes.length)
    (hz : st.zombies.filter (fun z => z.1 == e) = (RState.res e c x n none (some s)).held) :
    envOf (releaseZombie st e).rs s = envOf st.rs s - 1 := by
  unfold releaseZombie
  rw [hz]
  simp only [RState.held, List.foldl_cons, List.foldl_nil, clearTok, dropState, RState.locals, killAll, dropAll]
  exact bump_val { st with zombies := st.zombies.filter fun z => !(z.1 == e) } s (-1) v0 hs hlt

/-- the spec: a fresh render of a boundary shows the fallback iff some `Result` below it (and not below a
boundary of its own) is `Err` for the current values -/
theorem C04_errb_render (ρ : Nat → Int) (kid : View) :
    render ρ (.eb kid) =
      if errL ρ (fun _ _ => none) kid [] 0 [] then [.text (.lit "error")]
      else renderL ρ (fun _ _ => none) kid [] 0 [] := rfl

/-- **`<ErrorBoundary>` settles**: for every program (signals and memos) whose view is a boundary over static
structure with dynamic text, reactive attributes / classes / styles and `Result` leaves (`res c x`: `Err` while
`c ≠ 0`), every leaf over signals AND memos, and EVERY history — writes to the program's signals, polls of any
ready task in any order (a leaf's effect before or after the boundary's, the boundary's before the leaves have
caught up, …), `idle` runs —: at every idle point the DOM is the from-scratch render: the fallback iff some
`Result` is `Err` for the current values, otherwise the children with every leaf at its current value.

Proof: the boundary's register and memo are two more definitions; a registration (`bump`) is a signal write in
the middle of a re-run, under which the reactive core's invariant `TopC` is kept (`setSigM`: `Proofs/RViewMErrb.lean`,
`rerunOK_eb`, `InvDM.startE`); the register is the number of leaves in error through every build, write and poll
(`Proofs/RViewMCount.lean`, `RViewMCountB.lean`; the reactive operations never write a signal:
`Proofs/RViewSigVal.lean`); at an idle point every effect has stored the from-scratch value of its body
(`Proofs/RViewMSettleE.lean`). -/
theorem C04_errb_settles (defs : Prog) (kid : View) (ops : List Op) (hd : defsOk defs = true)
    (hw : kid.wfR defs.length = true) (hl : kid.leavesR = true) (hops : opsOk defs.length ops)
    (hdis : (run { defs := defs, view := .eb kid } ops).disposed = false)
    (hidle : ready (run { defs := defs, view := .eb kid } ops) = []) :
    (run { defs := defs, view := .eb kid } ops).dom =
      render (run { defs := defs, view := .eb kid } ops).env (.eb kid) := by
  rcases InvE.run hd hw hl ops hops with h | h
  · rw [h.1] at hdis; cases hdis
  · exact InvE.settled h.2.1 h.2.2 hl hw hidle

/-- the special case of views without `either` (kept: `C04_untouched_nodes` is proved for this class) -/
theorem C04_settles_leaves (p : Program) (ops : List Op) (hw : p.wf = true) (hs : allSigs p.defs = true)
    (hl : p.view.leaves = true) (hd : (run p ops).disposed = false) (hidle : ready (run p ops) = []) :
    (run p ops).dom = render (run p ops).env p.view :=
  C04_settles p ops hw hs (View.leaves_core _ hl) hd hidle

/-- after the mount handle is dropped the root stays empty, whatever happens afterwards
(every program, every view of the grammar) -/
theorem C04_disposed_stays_empty (p : Program) (ops ops' : List Op) :
    (run p (ops ++ [.dispose] ++ ops')).dom = [] := by
  have h1 : ∀ (l : List Op) (s : St), s.disposed = true ∧ s.root = none →
      (l.foldl step s).disposed = true ∧ (l.foldl step s).root = none := by
    intro l
    induction l with
    | nil => intro s h; exact h
    | cons op rest ih => intro s h; exact ih _ (step_disposed s op h)
  have : (run p (ops ++ [.dispose] ++ ops')).root = none := by
    simp only [run, List.foldl_append, List.foldl_cons, List.foldl_nil]
    exact (h1 ops' _ (dispose_disposed _)).2
  unfold St.dom
  rw [this]

/-! ## `C04_untouched_nodes` -/

/-- **parts whose inputs did not change keep their nodes** (static structure, dynamic leaves,
arbitrarily nested `either`, and `<For>` as ONE dynamic part — all its rows are governed by the list's
effect; the finer statement for rows whose key stays is `C04_for_keeps_rows` — over signals): take any idle point of any history, then any further history
`ops'` of writes, polls in any order and `idle` runs.  Every DOM node below (and including) the mount root
that existed at the idle point and none of whose governing dynamic parts (`g`: its own reactive
attributes / text expression, the `either`s enclosing it, and the `either`s whose region lies directly
in its child list) had read, at its last run, a signal that `ops'` writes, is still there afterwards —
the same node id with the same mutation counter (`St.nodes` lists `(⟨id, mutation count⟩, governing
effects)`).  A `set` counts as a change of its signal whether or not the value differs
(`RwSignal::set` always notifies). -/
theorem C04_untouched_nodes (p : Program) (ops ops' : List Op) (hw : p.wf = true)
    (hs : allSigs p.defs = true) (hc : p.view.core = true)
    (hd : (run p ops).disposed = false) (hidle : ready (run p ops) = []) (hnd : Op.dispose ∉ ops') :
    ∀ n g, (n, g) ∈ (run p ops).nodes →
      (∀ e ∈ g, ∀ id ∈ writes ops', id ∉ ((run p ops).rs.get e).sources) →
      (n, g) ∈ (run p (ops ++ ops')).nodes := by
  intro n g hm hq
  have hw' := hw
  simp only [Program.wf, Bool.and_eq_true] at hw'
  have h0 : InvC p.defs.length p.view (run p ops) := by
    rcases InvD.run hw hs hc ops with h | h
    · rw [h.1] at hd; cases hd
    · exact h.2
  obtain ⟨t, ht⟩ := h0.tree
  have hquiet : ∀ e ∈ g, p.defs.length ≤ e ∧ quietIn (writes ops') (run p ops) e := by
    intro e he
    obtain ⟨x, cur, hok⟩ := Good.effOK p.view t ht.good e (St.nodes_sub ht.root hm e he)
    refine ⟨hok.ke, ?_, ?_⟩
    · rcases hok.ok with hp | hcur
      · exfalso
        have : e ∈ ready (run p ops) := by
          unfold ready
          refine List.mem_filter.2 ⟨hok.task, ?_⟩
          simp [hp.2.2, hok.done]
        rw [hidle] at this; simp at this
      · exact hcur.1
    · intro id hid hsub
      exact hq e he id hid (h0.rinv.exact id e hsub)
  have hrun : run p (ops ++ ops') = ops'.foldl step (run p ops) := by
    simp only [run, List.foldl_append]
  rw [hrun]
  exact ((QuietC.steps hw'.2 hc ops' _ (QuietC.start h0) (fun _ h => h) hnd).keep n g hm hquiet).1

/-- a write never touches the DOM by itself (every program, every view): effects run when polled -/
theorem C04_set_touches_nothing (st : St) (id : Nat) (v : Int) :
    (setSig st id v).root = st.root ∧ (setSig st id v).rootN = st.rootN := ⟨rfl, rfl⟩

/-! ## `C04_show_no_rerender_same_branch` -/

/-- **`Show` does not re-render when the truth value of its condition is unchanged.**  In ANY state in
which a `Show`'s memo `m` (over the boolean of a condition `c` reading signals) has been marked dirty
by a write and its render effect `e` has been check-notified (`ShowPre`: this is what
`RwSignal::set` on a signal read by `c` produces), if the condition's truth value for the current
signal values is the one the memo holds, then polling the effect's task recomputes the memo, finds it
unchanged, and does NOT run the effect: the whole mounted tree (every node id, every mutation
counter), the root, the zombies, the task list and the program are untouched; the memo is clean and
the effect is neither notified nor woken any more. -/
theorem C04_show_no_rerender_same_branch {K : Nat} {st : St} {e m : Nat} {c : Expr}
    (h : ShowPre K st e m c) :
    (pollTask st e).root = st.root ∧ (pollTask st e).rootN = st.rootN ∧
    (pollTask st e).nodes = st.nodes ∧
    (pollTask st e).zombies = st.zombies ∧ (pollTask st e).tasks = st.tasks ∧
    (pollTask st e).prog = st.prog ∧ (pollTask st e).next = st.next ∧
    ((pollTask st e).rs.get m).st = .clean ∧ ((pollTask st e).rs.get m).val = (st.rs.get m).val ∧
    ((pollTask st e).rs.get e).chan = false ∧ ((pollTask st e).rs.get e).woken = false := by
  obtain ⟨rs', hp, h1, h2, h3, _, h5⟩ := show_poll_same h
  rw [hp]
  exact ⟨rfl, rfl, rfl, rfl, rfl, rfl, rfl, h1, h2, h3, h5⟩

/-- the program of the `Show` examples: `<Show when=move || s0 != 0 fallback="no">{move || s1}</Show>` -/
def showProg : Program :=
  { defs := [.sig 1, .sig 5], view := .show (.rd true 0) (.dynText (.rd true 1)) (.text "no") }

/-- the same with a plain `move || if s0 != 0 { Either::Left(..) } else { Either::Right(..) }` -/
def eitherProg : Program :=
  { defs := [.sig 1, .sig 5], view := .either (.rd true 0) (.dynText (.rd true 1)) (.text "no") }

/-- non-vacuity: after `set s0 2` (truth value unchanged) the reachable state satisfies `ShowPre` for
the `Show`'s effect 3 and memo 2 … -/
example : ShowPre 2 (run showProg [.idle, .set 0 2]) 3 2 (.rd true 0) :=
  ⟨by decide +kernel, by decide +kernel, by decide +kernel, by decide +kernel, by decide +kernel,
   by decide +kernel, by decide +kernel, by decide +kernel, by decide +kernel, by decide +kernel,
   by decide +kernel, by decide +kernel, by decide +kernel, by decide +kernel, by decide +kernel,
   by decide +kernel, by decide +kernel⟩

/-- … the branch keeps its nodes (ids and mutation counters) through the whole round, while the
plain `either` over the same condition re-renders: the nested dynamic text is a NEW node (id 2
instead of 1) and the root's child list was mutated twice -/
example :
    (run showProg [.idle, .set 0 2, .idle]).nodes = (run showProg [.idle]).nodes ∧
    (run showProg [.idle]).nodes = [(⟨0, 1⟩, [3]), (⟨1, 0⟩, [3, 4])] ∧
    (run eitherProg [.idle]).nodes = [(⟨0, 1⟩, [2]), (⟨1, 0⟩, [2, 3])] ∧
    (run eitherProg [.idle, .set 0 2, .idle]).nodes = [(⟨0, 3⟩, [2]), (⟨2, 0⟩, [2, 4])] ∧
    (run eitherProg [.idle, .set 0 2, .idle]).dom = (run eitherProg [.idle]).dom := by decide +kernel

/-- non-vacuity of `C04_settles` with nesting: an `either` inside an `either`, an element with a
reactive class inside a branch; branches switch, a dropped branch's effects are polled later -/
def nestProg : Program :=
  { defs := [.sig 1, .sig 0],
    view := .elem "div" [.cls "hot" (.rd true 1)]
      (.either (.rd true 0)
        (.either (.rd true 1) (.dynText (.rd true 0)) (.elem "b" [.dyn "title" (.rd true 1)] (.dynText (.rd true 1))))
        (.seq (.dynText (.rd true 0)) (.text "-"))) }

def nestOps : List Op := [.idle, .set 0 0, .poll 1, .set 1 1, .poll 0, .poll 0, .set 0 2, .poll 2, .idle]

example : nestProg.wf = true ∧ allSigs nestProg.defs = true ∧ nestProg.view.core = true ∧
    nestProg.view.leaves = false ∧
    (run nestProg nestOps).disposed = false ∧ ready (run nestProg nestOps) = [] ∧
    (run nestProg nestOps).zombies.length = 0 ∧ (run nestProg (nestOps.take 8)).zombies.length ≠ 0 ∧
    (run nestProg nestOps).dom =
      [.open "div" [.cls "hot" true], .text (.int 2), .close] ∧
    (run nestProg nestOps).dom ≠ (run nestProg []).dom := by decide +kernel

/-- non-vacuity of `C04_untouched_nodes` with nesting: writing signal 1 re-renders the inner `either`
(new node for its branch) but the `<i>` element beside the outer `either` and the outer structure keep
their nodes; the `div` (which carries a class over signal 1) is mutated -/
def nestProg2 : Program :=
  { defs := [.sig 1, .sig 0],
    view := .elem "div" [.cls "hot" (.rd true 1)]
      (.seq (.elem "i" [] (.dynText (.rd true 0)))
        (.either (.rd true 0) (.either (.rd true 1) (.text "a") (.dynText (.rd true 1))) (.text "-"))) }

example : nestProg2.wf = true ∧ nestProg2.view.core = true ∧ nestProg2.view.leaves = false ∧
    ready (run nestProg2 [.idle]) = [] ∧ writes [Op.set 1 5, Op.idle] = [1] ∧
    (run nestProg2 [.idle]).nodes =
      [(⟨0, 1⟩, []), (⟨1, 2⟩, [2, 4, 5]), (⟨2, 1⟩, []), (⟨3, 0⟩, [3]), (⟨4, 0⟩, [4, 5, 6])] ∧
    ((run nestProg2 [.idle]).rs.get 3).sources = [0] ∧ ((run nestProg2 [.idle]).rs.get 4).sources = [0] ∧
    (run nestProg2 ([.idle] ++ [.set 1 5, .idle])).nodes =
      [(⟨0, 1⟩, []), (⟨1, 5⟩, [2, 4, 5]), (⟨2, 1⟩, []), (⟨3, 0⟩, [3]), (⟨5, 0⟩, [4, 5])] := by decide +kernel

/-- non-vacuity with `<For>`: a keyed list beside an `either` whose left branch is another keyed list;
rows are reordered, removed and added (`[1,2,3] → [3,1] → [2,4,3,1]`), the inner list appears with a
branch switch; partial polling in between -/
def forProg : Program :=
  { defs := [.sig 0, .sig 0],
    view := .elem "ul" [.cls "big" (.rd true 0)]
      (.seq (.forKeyed (.rd true 0) [[1, 2, 3], [3, 1], [2, 4, 3, 1]])
        (.either (.rd true 1) (.forKeyed (.add (.rd true 0) (.rd true 1)) [[5], [6, 5]]) (.text "-"))) }

def forOps : List Op := [.idle, .set 0 1, .idle, .set 1 1, .set 0 2, .poll 0, .idle]

example : forProg.wf = true ∧ allSigs forProg.defs = true ∧ forProg.view.core = true ∧
    (run forProg forOps).disposed = false ∧ ready (run forProg forOps) = [] ∧
    ready (run forProg (forOps.take 6)) ≠ [] ∧
    (run forProg [.idle]).dom =
      [.open "ul" [.cls "big" false]] ++ [1, 2, 3].flatMap rowTree ++ [.comment, .text (.lit "-"), .close] ∧
    (run forProg forOps).dom =
      [.open "ul" [.cls "big" true]] ++ [2, 4, 3, 1].flatMap rowTree ++ [.comment] ++
        [6, 5].flatMap rowTree ++ [.comment, .close] := by decide +kernel

/-- … and `C04_untouched_nodes` on it: writing signal 1 switches the `either` to the inner list; the
rows of the outer list (effect 3, sources `[0]`) keep ids and mutation counters -/
example :
    ready (run forProg [.idle]) = [] ∧ writes [Op.set 1 1, Op.idle] = [1] ∧
    ((run forProg [.idle]).rs.get 3).sources = [0] ∧
    (run forProg [.idle]).nodes =
      [(⟨0, 1⟩, []), (⟨1, 5⟩, [2, 3, 4]), (⟨2, 1⟩, [3]), (⟨6, 0⟩, [3]), (⟨3, 1⟩, [3]), (⟨7, 0⟩, [3]),
       (⟨4, 1⟩, [3]), (⟨8, 0⟩, [3]), (⟨5, 0⟩, [3]), (⟨9, 0⟩, [4])] ∧
    (run forProg ([.idle] ++ [.set 1 1, .idle])).nodes =
      [(⟨0, 1⟩, []), (⟨1, 9⟩, [2, 3, 4, 5]), (⟨2, 1⟩, [3]), (⟨6, 0⟩, [3]), (⟨3, 1⟩, [3]), (⟨7, 0⟩, [3]),
       (⟨4, 1⟩, [3]), (⟨8, 0⟩, [3]), (⟨5, 0⟩, [3]), (⟨10, 1⟩, [4, 5]), (⟨13, 0⟩, [4, 5]),
       (⟨11, 1⟩, [4, 5]), (⟨14, 0⟩, [4, 5]), (⟨12, 0⟩, [4, 5])] := by decide +kernel

/-- non-vacuity of `C04_settles_full` beyond signals: memos over memos, a `Show` over a memo, a class and an
`either` over memos; partial polling in between (the history passes through non-idle states with four
ready tasks); none of the earlier stages applies (`allSigs` and `core` fail) -/
def memoProg : Program :=
  { defs := [.sig 1, .sig 2, .memo (.add (.rd true 0) (.rd true 1)), .memo (.mulc 2 (.rd true 2))],
    view := .seq (.show (.rd true 2) (.dynText (.rd true 3)) (.text "no"))
      (.elem "p" [.cls "on" (.rd true 3)] (.either (.rd true 2) (.dynText (.add (.rd true 2) (.rd true 0))) .unit)) }

def memoOps : List Op := [.idle, .set 0 (-2), .poll 1, .set 1 5, .poll 0, .idle, .set 0 (-5), .idle]

example : memoProg.wf = true ∧ allSigs memoProg.defs = false ∧ memoProg.view.core = false ∧
    (run memoProg memoOps).disposed = false ∧ ready (run memoProg memoOps) = [] ∧
    ready (run memoProg (memoOps.take 5)) = [5, 7, 9, 8] ∧
    (run memoProg [.idle]).dom =
      [.text (.int 6), .open "p" [.cls "on" true], .text (.int 4), .close] ∧
    (run memoProg (memoOps.take 6)).dom =
      [.text (.int 6), .open "p" [.cls "on" true], .text (.int 1), .close] ∧
    (run memoProg memoOps).dom =
      [.text (.lit "no"), .open "p" [.cls "on" false], .comment, .close] := by decide +kernel

/-- the model with component-local state (`View.scope`, `View.forRows`: outside the class of the theorems,
checked by correspondence): every row's component body creates a memo over an outer signal and the key;
rows that the keyed diff keeps (`[1,2,3] → [3,1]`) keep reacting through it when the outer signal is
written afterwards -/
def rowProg : Program :=
  { defs := [.sig 0, .sig 3],
    view := .elem "ul" []
      (.forRows false (.rd true 0) [[1, 2, 3], [3, 1]] (.scope 0 (.memo (.add (.rd true 1) Expr.key)) (.dynText (Expr.loc 0)))) }

example : rowProg.view.wfX 2 0 false = true ∧
    (run rowProg [.idle]).dom =
      [.open "ul" [], .open "li" [], .text (.lit "1"), .text (.int 4), .close,
       .open "li" [], .text (.lit "2"), .text (.int 5), .close,
       .open "li" [], .text (.lit "3"), .text (.int 6), .close, .comment, .close] ∧
    (run rowProg [.idle, .set 0 1, .idle, .set 1 5, .idle]).dom =
      [.open "ul" [], .open "li" [], .text (.lit "3"), .text (.int 8), .close,
       .open "li" [], .text (.lit "1"), .text (.int 6), .close, .comment, .close] ∧
    (run rowProg [.idle, .set 0 1, .idle, .set 1 5, .idle]).dom =
      renderL (run rowProg [.idle, .set 0 1, .idle, .set 1 5, .idle]).env (fun _ _ => none) rowProg.view [] 0 [] ∧
    (run rowProg [.idle, .set 0 1, .idle]).dead.length = 1 := by decide +kernel

/-! an error boundary over two failing leaves and a `Show` that creates a third one later: one error
goes away — the fallback stays; the last one goes — the children come back; the `Show` opens on failing
content — the fallback again; it closes while its content is in error — the children again; every time the
DOM is the fresh render -/

def ebProg : Program :=
  { defs := [.sig 1, .sig 1, .sig 0],
    view := .elem "div" []
      (.eb (.seq (.res (.rd true 0) (.lit 1))
        (.seq (.res (.rd true 1) (.lit 2)) (.show (.rd true 2) (.res (.lit 1) (.lit 3)) (.text "closed"))))) }

example :
    (run ebProg [.idle]).dom = [.open "div" [], .text (.lit "error"), .close] ∧
    (run ebProg [.idle, .set 0 0, .idle]).dom = [.open "div" [], .text (.lit "error"), .close] ∧
    (run ebProg [.idle, .set 0 0, .idle, .set 1 0, .idle]).dom =
      [.open "div" [], .text (.int 1), .text (.int 2), .text (.lit "closed"), .close] ∧
    (run ebProg [.idle, .set 0 0, .idle, .set 1 0, .idle, .set 2 1, .idle]).dom =
      [.open "div" [], .text (.lit "error"), .close] ∧
    (run ebProg [.idle, .set 0 0, .idle, .set 1 0, .idle, .set 2 1, .idle, .set 2 0, .poll 0, .poll 0, .idle]).dom =
      [.open "div" [], .text (.int 1), .text (.int 2), .text (.lit "closed"), .close] ∧
    (∀ ops ∈ [[Op.idle], [.idle, .set 0 0, .idle], [.idle, .set 0 0, .idle, .set 1 0, .idle],
        [.idle, .set 0 0, .idle, .set 1 0, .idle, .set 2 1, .idle],
        [.idle, .set 0 0, .idle, .set 1 0, .idle, .set 2 1, .idle, .set 2 0, .poll 0, .poll 0, .idle]],
      ready (run ebProg ops) = [] ∧ (run ebProg ops).dom = render (run ebProg ops).env ebProg.view) := by
  decide +kernel

/-! non-vacuity of `C04_errb_settles`: two failing leaves over a signal and a memo, a dynamic text and a reactive
class below the boundary; the hypotheses hold; the boundary's effect is polled BEFORE the recovering leaf's (the
fallback stays: the register is still 1), then the leaf; in the end the children with current values -/

def ebLeafProg : Program :=
  { defs := [.sig 1, .sig 1, .memo (.add (.rd true 0) (.rd true 1))],
    view := .eb (.elem "div" [.cls "on" (.rd true 1)]
      (.seq (.res (.rd true 0) (.lit 1)) (.seq (.res (.add (.rd true 2) (.lit (-1))) (.rd true 2)) (.dynText (.rd true 2))))) }

example :
    defsOk ebLeafProg.defs = true ∧
    (match ebLeafProg.view with | .eb kid => kid.wfR 3 && kid.leavesR | _ => false) = true ∧
    ready (run ebLeafProg [.idle, .set 0 0, .idle]) = [] ∧
    (run ebLeafProg [.idle, .set 0 0]).dom = [.text (.lit "error")] ∧
    (run ebLeafProg [.idle, .set 0 0, .idle]).dom =
      [.open "div" [.cls "on" true], .text (.int 1), .text (.int 1), .text (.int 1), .close] ∧
    (run ebLeafProg [.idle, .set 0 0, .idle]).dom = render (run ebLeafProg [.idle, .set 0 0, .idle]).env ebLeafProg.view ∧
    (run ebLeafProg [.idle, .set 0 0, .idle, .set 1 3, .idle]).dom = [.text (.lit "error")] ∧
    (run ebLeafProg [.idle, .set 0 0, .idle, .set 1 3, .idle]).dom =
      render (run ebLeafProg [.idle, .set 0 0, .idle, .set 1 3, .idle]).env ebLeafProg.view := by
  decide +kernel

/-! non-vacuity: a program with a reactive attribute, class, style and two dynamic texts with a
dynamic dependency; a history with partial polling; the hypotheses hold, the DOM changes -/

def exProg : Program :=
  { defs := [.sig 0, .sig 1],
    view := .elem "div" [.dyn "title" (.rd true 0), .cls "on" (.rd true 1), .sty "width" (.add (.rd true 0) (.rd true 1))]
      (.seq (.dynText (.ite (.rd true 1) (.rd true 0) (.lit 7))) (.seq (.text "x") (.dynText (.rd true 1)))) }

def exOps : List Op := [.set 0 5, .poll 3, .set 1 0, .poll 1, .idle]

example : exProg.wf = true ∧ allSigs exProg.defs = true ∧ exProg.view.leaves = true ∧ exProg.view.core = true ∧
    (run exProg exOps).disposed = false ∧ ready (run exProg exOps) = [] ∧
    ready (run exProg (exOps.take 4)) ≠ [] ∧
    (run exProg exOps).dom =
      [.open "div" [.plain "title" (.int 5), .cls "on" false, .sty "width" (.px 5)],
       .text (.int 7), .text (.lit "x"), .text (.int 0), .close] ∧
    (run exProg exOps).dom ≠ (run exProg []).dom := by decide +kernel

/-- non-vacuity of `C04_untouched_nodes`: after `idle`, writing signal 0 and running to idle leaves the
text node of `dynText R1` (governed by effect 6, whose sources are `[1]`) in place, while the text node
of the first dynamic text is mutated -/
example :
    ready (run exProg [.idle]) = [] ∧ ((run exProg [.idle]).rs.get 6).sources = [1] ∧
    ((run exProg [.idle]).rs.get 5).sources = [1, 0] ∧
    writes [Op.set 0 5, Op.idle] = [0] ∧
    (run exProg [.idle]).nodes =
      [(⟨0, 1⟩, []), (⟨1, 5⟩, [2, 3, 4]), (⟨2, 0⟩, [5]), (⟨3, 0⟩, []), (⟨4, 0⟩, [6])] ∧
    (run exProg ([.idle] ++ [.set 0 5, .idle])).nodes =
      [(⟨0, 1⟩, []), (⟨1, 7⟩, [2, 3, 4]), (⟨2, 1⟩, [5]), (⟨3, 0⟩, []), (⟨4, 0⟩, [6])] := by decide +kernel

end Leptos.RView

/-! ## `<Suspense>` / `<Transition>` at idle points (`Model/SView.lean`)

`Leptos.SView.C04_suspense_loaded`, `C04_transition_once`, `C04_suspense_pending` (Proofs/SViewLoaded.lean).
A kernel-checked history of the nested view of the seeded change C04-r2-1: the inner resource starts to reload
while the outer boundary shows its fallback and the outer one completes first — the inner boundary shows ITS
fallback; in the end nothing is left loading and the DOM is the loaded view. -/
namespace Leptos.SView
open Leptos.Reactive Leptos.RView

def nestedProg : SProg :=
  { defs := [.sig 1, .sig 1], bodies := [.rd true 0, .rd true 1], pre := [0, 1],
    view := .elem "section" [] (.sus (.seq (.elem "b" [] (.aw 0)) (.sus (.elem "p" [] (.aw 1))))) }

example :
    nestedProg.wf = true ∧
    nestedProg.start.dom = [.open "section" [], .open "b" [], .text (.int 1), .close,
      .open "p" [], .text (.int 1), .close, .close] ∧
    (nestedProg.run [.set 0 2, .set 1 2]).dom = [.open "section" [], .text (.lit "wait"), .close] ∧
    (nestedProg.run [.set 0 2, .set 1 2, .resolve 0]).dom =
      [.open "section" [], .open "b" [], .text (.int 2), .close, .text (.lit "wait"), .close] ∧
    (nestedProg.run [.set 0 2, .set 1 2, .resolve 0, .resolve 1]).dom =
      [.open "section" [], .open "b" [], .text (.int 2), .close, .open "p" [], .text (.int 2), .close, .close] ∧
    (nestedProg.run [.set 0 2, .set 1 2, .resolve 0, .resolve 1]).dom =
      renderLoaded (nestedProg.run [.set 0 2, .set 1 2, .resolve 0, .resolve 1]) nestedProg.view 0 := by
  decide +kernel

end Leptos.SView

