import LeptosModel.Model.RView
/-! # C04 — placeholder while the proofs are written -/
