import LeptosModel.Proofs.Async
/-!
# C10 — async derived values settle on the latest inputs

All theorems are about `run c es` for an ARBITRARY configuration `c` (any number of sources, with or
without initial value, any kind of subscriber effect) and an ARBITRARY event list `es`: every
interleaving of source writes, refetches, manual writes, fetch completions, awaiter attachments and
polls of any woken task in any order (single-threaded executor).  They follow from the invariant
`Inv` (Proofs/Async.lean, `Inv.run`).

*settled* = every started fetch has completed (or was dropped) and no task is woken.

Finding F-C10-1 (confirmed on the real code, corpus/C10/stolen.ops): `C10_settles_on_latest_full` is
FALSE.  A dependent that has the derived among its sources and is check-notified through another
source (here: an effect that also reads a memo of the same signal) calls
`ArcAsyncDerivedInner::update_if_necessary` on the derived during its own check phase; that call
consumes the derived's `Dirty` state (`state = Clean; return true`).  If the dependent's task is polled
before the derived's task, the derived's task finds nothing to do and never refetches: the derived keeps
the result for the OLD inputs forever.  `C10_settles_on_latest_partial` holds whenever that did not
happen in the history (`stolen = false`, decidable); `C10_settles_on_latest` shows it cannot happen
when no dependent reads a memo.
-/
namespace Leptos.Async

/-! ## history functions (pure functions of the event list) -/

/-- the source values after the history -/
def latestSrc (c : Cfg) (es : List Event) : List Val :=
  es.foldl (fun src e => match e with
    | .set i v => if i < src.length then setAt src i v else src
    | _ => src) c.srcs

/-- the value of the last manual write of the history -/
def lastManualOf (es : List Event) : Option Val :=
  es.foldl (fun m e => match e with | .manualSet v => some v | _ => m) none

def hasManual (es : List Event) : Bool :=
  es.any fun e => match e with | .manualSet _ => true | _ => false

/-! ## frame facts: only `set` changes the sources, only `manualSet` makes a manual write -/

/-- `t` has the sources and the last manual write of `s`, and no manual value that `s` has not -/
def SameHist (s t : State) : Prop :=
  t.eff = s.eff ∧ t.src = s.src ∧ t.lastManual = s.lastManual ∧ (t.manualLive = true → s.manualLive = true)

theorem SameHist.refl (s : State) : SameHist s s := ⟨rfl, rfl, rfl, id⟩

theorem SameHist.trans {a b c : State} (h1 : SameHist a b) (h2 : SameHist b c) : SameHist a c :=
  ⟨h2.1.trans h1.1, h2.2.1.trans h1.2.1, h2.2.2.1.trans h1.2.2.1, fun h => h1.2.2.2 (h2.2.2.2 h)⟩

theorem applyResult_hist (s : State) : SameHist s (applyResult s) := by
  simp only [applyResult, SameHist]
  split <;> simp

theorem fetchState_hist (s : State) : SameHist s (fetchState s) := by
  simp only [fetchState, startFetch, dUpdateOwn, SameHist]
  (repeat' split) <;> simp

theorem dIter_hist (s : State) : SameHist s (dIter s).1 := by
  rw [dIter_def]
  split
  · exact ⟨rfl, rfl, rfl, id⟩
  · split
    · split
      · exact (fetchState_hist s).trans (applyResult_hist _)
      · exact fetchState_hist s
    · exact ⟨rfl, rfl, rfl, id⟩

theorem dLoop_hist (n : Nat) (s : State) : SameHist s (dLoop n s) := by
  induction n generalizing s with
  | zero => exact ⟨rfl, rfl, rfl, id⟩
  | succ n ih =>
    rw [dLoop]
    split
    · exact (dIter_hist s).trans (ih _)
    · exact dIter_hist s

theorem pollD_hist (s : State) : SameHist s (pollD s) := by
  unfold pollD
  dsimp only
  split
  · refine SameHist.trans ?_ (dLoop_hist 3 _)
    split <;> exact ⟨rfl, rfl, rfl, id⟩
  · exact SameHist.trans ⟨rfl, rfl, rfl, id⟩ (dLoop_hist 3 _)
  · have h1 : SameHist s { s with dWoken := false } := ⟨rfl, rfl, rfl, id⟩
    split
    · exact (h1.trans (applyResult_hist _)).trans (dLoop_hist 3 _)
    · exact h1

theorem effUpdate_hist (s : State) : SameHist s (effUpdate s).1 := by
  unfold effUpdate
  split
  · exact ⟨rfl, rfl, rfl, id⟩
  · have h := Frame.effAny (if s.eFirst = true then [] else effSources s.eff) s
    exact ⟨h.eff, h.src, h.lastManual, fun hh => by rw [← h.manualLive]; exact hh⟩

theorem runEffect_hist (s : State) : SameHist s (runEffect s) := by
  obtain ⟨ms, mv, mr, x, h⟩ := runEffect_spec s
  rw [h]
  exact ⟨rfl, rfl, rfl, id⟩

theorem eIter_hist (s : State) : SameHist s (eIter s).1 := by
  rw [eIter_def]
  split
  · exact ⟨rfl, rfl, rfl, id⟩
  · have h1 : SameHist s { s with eReg := true, eChan := false } := ⟨rfl, rfl, rfl, id⟩
    split
    · exact (h1.trans (effUpdate_hist _)).trans (runEffect_hist _)
    · exact h1.trans (effUpdate_hist _)

theorem eLoop_hist (n : Nat) (s : State) : SameHist s (eLoop n s) := by
  induction n generalizing s with
  | zero => exact ⟨rfl, rfl, rfl, id⟩
  | succ n ih =>
    rw [eLoop]
    split
    · exact (eIter_hist s).trans (ih _)
    · exact eIter_hist s

theorem pollNth_hist (s : State) (j : Nat) : SameHist s (pollNth s j) := by
  unfold pollNth
  dsimp only
  split
  · rename_i t _
    cases t
    · exact pollD_hist s
    · exact SameHist.trans ⟨rfl, rfl, rfl, id⟩ (eLoop_hist 3 _)
    · exact ⟨rfl, rfl, rfl, id⟩
  · exact SameHist.refl s

theorem dMarkDirty_hist (s : State) : SameHist s (dMarkDirty s) := by
  simp only [dMarkDirty, dNotify, SameHist]
  (repeat' split) <;> simp

theorem mMarkDirty_hist (s : State) : SameHist s (mMarkDirty s) := by
  simp only [mMarkDirty, eMarkCheck, eNotify, SameHist]
  (repeat' split) <;> simp

/-- one event: sources, last manual write and "a manual value is live" evolve as the history says -/
theorem step_hist (s : State) (e : Event) :
    (step s e).eff = s.eff ∧
    (step s e).src = (match e with
      | .set i v => if i < s.src.length then setAt s.src i v else s.src
      | _ => s.src) ∧
    (step s e).lastManual = (match e with | .manualSet v => some v | _ => s.lastManual) ∧
    ((step s e).manualLive = true → s.manualLive = true ∨ ∃ v, e = .manualSet v) := by
  cases e with
  | set i v =>
    simp only [step, setSrc]
    split
    · split
      · have h := (dMarkDirty_hist { s with src := setAt s.src i v }).trans (mMarkDirty_hist _)
        exact ⟨h.1, h.2.1, h.2.2.1, fun hh => .inl (h.2.2.2 hh)⟩
      · have h := dMarkDirty_hist { s with src := setAt s.src i v }
        exact ⟨h.1, h.2.1, h.2.2.1, fun hh => .inl (h.2.2.2 hh)⟩
    · exact ⟨rfl, rfl, rfl, .inl⟩
  | refetch =>
    have h := dMarkDirty_hist s
    exact ⟨h.1, h.2.1, h.2.2.1, fun hh => .inl (h.2.2.2 hh)⟩
  | manualSet v => simp [step, manualSet]
  | complete f =>
    simp only [step, complete]
    split <;> exact ⟨rfl, rfl, rfl, .inl⟩
  | attach => exact ⟨rfl, rfl, rfl, .inl⟩
  | poll j =>
    have h := pollNth_hist s j
    exact ⟨h.1, h.2.1, h.2.2.1, fun hh => .inl (h.2.2.2 hh)⟩
  | get => exact ⟨rfl, rfl, rfl, .inl⟩

theorem foldl_hist (s : State) (es : List Event) :
    (es.foldl step s).eff = s.eff ∧
    (es.foldl step s).src = es.foldl (fun src e => match e with
      | .set i v => if i < src.length then setAt src i v else src
      | _ => src) s.src ∧
    (es.foldl step s).lastManual =
      es.foldl (fun m e => match e with | .manualSet v => some v | _ => m) s.lastManual ∧
    ((es.foldl step s).manualLive = true → s.manualLive = true ∨ hasManual es = true) := by
  induction es generalizing s with
  | nil => exact ⟨rfl, rfl, rfl, .inl⟩
  | cons e es ih =>
    obtain ⟨h0, h1, h2, h3⟩ := ih (step s e)
    obtain ⟨g0, g1, g2, g3⟩ := step_hist s e
    simp only [List.foldl_cons]
    refine ⟨h0.trans g0, ?_, ?_, ?_⟩
    · rw [h1, g1]
    · rw [h2, g2]
    · intro hh
      rcases h3 hh with h | h
      · rcases g3 h with h | ⟨v, rfl⟩
        · exact .inl h
        · exact .inr (by simp [hasManual])
      · exact .inr (by simp only [hasManual, List.any_cons] at h ⊢; simp [h])

theorem run_effKind (c : Cfg) (es : List Event) : (run c es).eff = c.eff :=
  (foldl_hist (init c) es).1

/-- the model's sources are the sources of the history -/
theorem run_src (c : Cfg) (es : List Event) : (run c es).src = latestSrc c es :=
  (foldl_hist (init c) es).2.1

theorem run_lastManual (c : Cfg) (es : List Event) : (run c es).lastManual = lastManualOf es :=
  (foldl_hist (init c) es).2.2.1

theorem run_manualLive (c : Cfg) (es : List Event) (h : hasManual es = false) :
    (run c es).manualLive = false := by
  cases hm : (run c es).manualLive
  · rfl
  · rcases (foldl_hist (init c) es).2.2.2 hm with h' | h'
    · simp [init] at h'
    · simp [h] at h'

theorem run_eff (c : Cfg) (es : List Event) : hasMemo (run c es).eff = false → (run c es).stolen = false :=
  (Inv.run c es).ec.e6

/-! ## settled points -/

/-- at a settled point the derived's task sleeps at `rx.next()` with nothing pending -/
theorem settled_waiting {s : State} (h : Inv s) (hs : settled s = true) :
    s.pc = .waiting ∧ s.loading = false ∧ s.dstate = .clean ∧ readyList s = [] := by
  simp only [settled, Bool.and_eq_true, decide_eq_true_eq, List.isEmpty_iff] at hs
  obtain ⟨hst, hrl⟩ := hs
  obtain ⟨hd, he, ha⟩ := readyList_nil hrl
  obtain ⟨⟨r1, r2, r7, m1, aw⟩, ⟨r3, r4, r5, r6, fresh⟩, _, _⟩ := h
  have hpc : s.pc = .waiting := by
    cases hp : s.pc
    · have := (r3 hp).1; simp [hd] at this
    · rfl
    · obtain ⟨h1, _, h3⟩ := r6 hp
      rcases h1 with h1 | h1
      · exact absurd h1 hst
      · have := h3 h1; simp [hd] at this
  obtain ⟨hl, hw⟩ := r5 hpc
  obtain ⟨_, hch⟩ := hw hd
  refine ⟨hpc, hl, ?_, hrl⟩
  cases hds : s.dstate
  · rfl
  · have := r2 hds; simp [hch] at this
  · exact absurd hds r1

/-- The loading indication is off at every settled point — unconditionally. -/
theorem C10_settles_loading_off (c : Cfg) (es : List Event) (hs : settled (run c es) = true) :
    (run c es).loading = false :=
  (settled_waiting (Inv.run c es) hs).2.1

/-- **full statement**: at every settled point of every history the loading indication is off and the
derived holds the last manual write if that came after the last returned fetch, and otherwise the
fetcher's result for the LATEST source values. -/
def C10_settles_on_latest_full : Prop :=
  ∀ (c : Cfg) (es : List Event), settled (run c es) = true →
    (run c es).loading = false ∧ (run c es).value = expected (run c es)

/-- the strongest true form: the full conclusion at every settled point of every history in which no
dependent consumed the derived's `Dirty` state (`stolen`, a decidable function of the history) -/
theorem C10_settles_on_latest_partial (c : Cfg) (es : List Event)
    (hs : settled (run c es) = true) (hst : (run c es).stolen = false) :
    (run c es).loading = false ∧ (run c es).value = expected (run c es) := by
  have h := Inv.run c es
  obtain ⟨hpc, hl, hcl, _⟩ := settled_waiting h hs
  refine ⟨hl, ?_⟩
  unfold expected
  cases hm : (run c es).manualLive
  · simpa using (h.dr.fresh hst hcl).1 hpc hm
  · simpa using h.dc.m1 hm

/-- No memo-reading dependent (no subscriber effect, or one that reads only the derived): the full
statement holds — for every history, interleaving and polling order. -/
theorem C10_settles_on_latest (c : Cfg) (es : List Event) (hm : hasMemo c.eff = false)
    (hs : settled (run c es) = true) :
    (run c es).loading = false ∧ (run c es).value = expected (run c es) := by
  apply C10_settles_on_latest_partial c es hs
  apply run_eff
  rw [run_effKind]; exact hm

/-- In terms of the history alone: without manual writes the settled value is the fetcher applied to the
latest source values (the sources as the `set` events of the history leave them). -/
theorem C10_settles_on_latest_history (c : Cfg) (es : List Event) (hm : hasMemo c.eff = false)
    (hman : hasManual es = false) (hs : settled (run c es) = true) :
    (run c es).loading = false ∧ (run c es).value = some (fetchFn (latestSrc c es)) := by
  obtain ⟨h1, h2⟩ := C10_settles_on_latest c es hm hs
  refine ⟨h1, ?_⟩
  rw [h2, expected, run_manualLive c es hman, run_src]
  rfl

end Leptos.Async
