import LeptosModel.Proofs.Async
import LeptosModel.Proofs.AsyncSusp
import LeptosModel.Proofs.AsyncRun
import LeptosModel.Proofs.AsyncLock
import LeptosModel.Theorems.C10Pause
/-!
# C10 — async derived values settle on the latest inputs

All theorems are about `run c es` for an ARBITRARY configuration `c` (any number of sources, read
directly or through a memo, with or without initial value, any kind of subscriber effect) and an
ARBITRARY event list `es`: every interleaving of source writes, refetches, manual writes, fetch
completions, awaiter attachments and polls of any woken task in any order (single-threaded executor).
They follow from the invariant `Inv` (Proofs/Async.lean, `Inv.run`).

*settled* = every started fetch has completed (or was dropped) and no task is woken.

The model is the code as it is: AFTER two repairs (hooks/fix-c10-1.patch, fix-c10-2.patch, both applied); with
them `C10_settles_on_latest` holds at full strength.  The code before each repair is kept as `runOld1` /
`runOld2` (Model/Async.lean, validated against the unrepaired code by the same correspondence harness)
with the regression witnesses at the end of this file.  A third repair (hooks/fix-c10-3.patch) is PROPOSED and
not applied: F-C10-3 is a known finding (class `suspense-stale`, `staleSuspense`); `run` = `runF false` has it,
the statement that fails is `C10_suspense_forgets_dropped_readers_full` (`…_full_false`), what holds of the code
as it is is `C10_suspense_forgets_dropped_readers_partial`, and what the repair achieves is stated about
`runF true` (`C10_suspense_forgets_dropped_readers`, `C10_suspense_reload_after_drop_unnoticed`):

* F-C10-1 (`C10_dirty_stolen_witness`): a dependent that had the derived among its sources and was
  check-notified through another source called `update_if_necessary` on the derived during its own
  check phase, which consumed the derived's `Dirty` state; polled before the derived's task, it left the
  derived on the result for the OLD inputs for good.
* F-C10-2 (`C10_stale_initial_witness`): a derived whose fetcher reads a MEMO reused the future created
  in its constructor although the memo had changed before the task's first poll (`already_dirty` only
  sees signals).
* F-C10-3 = F-C04-5 (`C10_stale_registration_witness`, KNOWN, not repaired): a `SuspenseContext` registered by a
  read or an `.await` under a boundary, and the task ids taken for it, outlive the reader (its owner cleaned up,
  its future dropped): the boundary falls back during the next reload of a value nothing below it reads any more.
-/
namespace Leptos.Async

/-! ## history functions (pure functions of the event list) -/

/-- the source values after the history -/
def latestSrc (c : Cfg) (es : List Event) : List Val :=
  es.foldl (fun src e => match e with
    | .set i v => if i < src.length then setAt src i v else src
    | _ => src) c.srcs

/-- the value of the last manual write of the history -/
def lastManualOf (es : List Event) : Option Val :=
  es.foldl (fun m e => match e with | .manualSet v => some v | _ => m) none

def hasManual (es : List Event) : Bool :=
  es.any fun e => match e with | .manualSet _ => true | _ => false

/-! ## frame facts: only `set` changes the sources, only `manualSet` makes a manual write -/

/-- `t` has the sources and the last manual write of `s`, and no manual value that `s` has not -/
def SameHist (s t : State) : Prop :=
  t.eff = s.eff ∧ t.src = s.src ∧ t.lastManual = s.lastManual ∧ (t.manualLive = true → s.manualLive = true)

theorem SameHist.refl (s : State) : SameHist s s := ⟨rfl, rfl, rfl, id⟩

theorem SameHist.trans {a b c : State} (h1 : SameHist a b) (h2 : SameHist b c) : SameHist a c :=
  ⟨h2.1.trans h1.1, h2.2.1.trans h1.2.1, h2.2.2.1.trans h1.2.2.1, fun h => h1.2.2.2 (h2.2.2.2 h)⟩

theorem applyResult_hist (s : State) : SameHist s (applyResult s) := by
  simp only [applyResult, postReads, SameHist]
  split <;> simp

theorem smUpdate_hist (s : State) : SameHist s (smUpdate s).1 := by
  simp only [smUpdate, SameHist]
  split <;> simp

theorem dNeedsRerun_hist (s : State) : SameHist s (dNeedsRerun s).1 := by
  simp only [dNeedsRerun]
  split
  · exact ⟨rfl, rfl, rfl, id⟩
  · exact smUpdate_hist s

theorem dropInitial_hist (s : State) : SameHist s (dropInitial s) := by
  simp only [dropInitial, SameHist]
  split <;> simp

theorem startFetch_hist (s : State) : SameHist s (startFetch s) := by
  simp only [startFetch, smUpdate, SameHist]
  (repeat' split) <;> simp

theorem chk_hist (s : State) : SameHist s (chk s).1 :=
  SameHist.trans (b := { s with reg := true, chan := false }) ⟨rfl, rfl, rfl, id⟩ (dNeedsRerun_hist _)

theorem fetchState_hist (s : State) : SameHist s (fetchState s) := by
  simp only [fetchState]
  split
  · exact ((chk_hist s).trans (dropInitial_hist _)).trans (startFetch_hist _)
  · exact (chk_hist s).trans (startFetch_hist _)

theorem dIter_hist (s : State) : SameHist s (dIter s).1 := by
  rw [dIter_def]
  split
  · exact ⟨rfl, rfl, rfl, id⟩
  · split
    · split
      · split
        · exact (fetchState_hist s).trans (applyResult_hist _)
        · exact (fetchState_hist s).trans ⟨rfl, rfl, rfl, id⟩
      · exact fetchState_hist s
    · exact chk_hist s

theorem dLoop_hist (n : Nat) (s : State) : SameHist s (dLoop n s) := by
  induction n generalizing s with
  | zero => exact ⟨rfl, rfl, rfl, id⟩
  | succ n ih =>
    rw [dLoop]
    split
    · exact (dIter_hist s).trans (ih _)
    · exact dIter_hist s

theorem pollD_hist (s : State) : SameHist s (pollD s) := by
  unfold pollD
  dsimp only
  split
  · refine SameHist.trans ?_ (dLoop_hist 3 _)
    split <;> exact ⟨rfl, rfl, rfl, id⟩
  · exact SameHist.trans ⟨rfl, rfl, rfl, id⟩ (dLoop_hist 3 _)
  · have h1 : SameHist s { s with dWoken := false } := ⟨rfl, rfl, rfl, id⟩
    split
    · split
      · exact (h1.trans (applyResult_hist _)).trans (dLoop_hist 3 _)
      · exact ⟨rfl, rfl, rfl, id⟩
    · exact h1

theorem effUpdate_hist (s : State) : SameHist s (effUpdate s).1 := by
  unfold effUpdate
  split
  · exact ⟨rfl, rfl, rfl, id⟩
  · have h := Frame.effAny (if s.eFirst = true then [] else effSources s.eff) s
    exact ⟨h.eff, h.src, h.lastManual, fun hh => by rw [← h.manualLive]; exact hh⟩

theorem runEffect_hist (s : State) : SameHist s (runEffect s) := by
  obtain ⟨ms, mv, mr, x, h⟩ := runEffect_spec s
  rw [h]
  exact ⟨rfl, rfl, rfl, id⟩

theorem eIter_hist (s : State) : SameHist s (eIter s).1 := by
  rw [eIter_def]
  split
  · exact ⟨rfl, rfl, rfl, id⟩
  · have h1 : SameHist s { s with eReg := true, eChan := false } := ⟨rfl, rfl, rfl, id⟩
    split
    · exact (h1.trans (effUpdate_hist _)).trans (runEffect_hist _)
    · exact h1.trans (effUpdate_hist _)

theorem eLoop_hist (n : Nat) (s : State) : SameHist s (eLoop n s) := by
  induction n generalizing s with
  | zero => exact ⟨rfl, rfl, rfl, id⟩
  | succ n ih =>
    rw [eLoop]
    split
    · exact (eIter_hist s).trans (ih _)
    · exact eIter_hist s

theorem pollNth_hist (s : State) (j : Nat) : SameHist s (pollNth s j) := by
  unfold pollNth
  dsimp only
  split
  · rename_i t _
    cases t
    · show SameHist s (pollT0 s)
      unfold pollT0
      split <;> exact ⟨rfl, rfl, rfl, id⟩
    · exact pollD_hist s
    · exact SameHist.trans ⟨rfl, rfl, rfl, id⟩ (eLoop_hist 4 _)
    · show SameHist s (pollA s _)
      unfold pollA wakeWriter
      dsimp only
      split <;> exact ⟨rfl, rfl, rfl, id⟩
  · exact SameHist.refl s

theorem dMarkDirty_hist (s : State) : SameHist s (dMarkDirty s) := by
  simp only [dMarkDirty, dNotify, SameHist]
  (repeat' split) <;> simp

theorem smMarkDirty_hist (s : State) : SameHist s (smMarkDirty s) := by
  simp only [smMarkDirty, dMarkCheck, dNotify, SameHist]
  (repeat' split) <;> simp

theorem mMarkDirty_hist (s : State) : SameHist s (mMarkDirty s) := by
  simp only [mMarkDirty, eMarkCheck, eNotify, SameHist]
  (repeat' split) <;> simp

/-- one event: sources, last manual write and "a manual value is live" evolve as the history says -/
theorem step_hist (s : State) (e : Event) :
    (step s e).eff = s.eff ∧
    (step s e).src = (match e with
      | .set i v => if i < s.src.length then setAt s.src i v else s.src
      | _ => s.src) ∧
    (step s e).lastManual = (match e with | .manualSet v => some v | _ => s.lastManual) ∧
    ((step s e).manualLive = true → s.manualLive = true ∨ ∃ v, e = .manualSet v) := by
  cases e with
  | set i v =>
    simp only [step, setSrc]
    split
    · have fin : ∀ u : State, SameHist { s with src := setAt s.src i v } u →
          SameHist { s with src := setAt s.src i v } (if u.mRan = true then mMarkDirty u else u) := by
        intro u hu
        split
        · exact hu.trans (mMarkDirty_hist _)
        · exact hu
      by_cases hv : s.viaMemo = true
      · rw [if_pos hv]
        have h := fin _ (smMarkDirty_hist { s with src := setAt s.src i v })
        exact ⟨h.1, h.2.1, h.2.2.1, fun hh => .inl (h.2.2.2 hh)⟩
      · rw [if_neg hv]
        split
        · have h := fin _ (dMarkDirty_hist { s with src := setAt s.src i v })
          exact ⟨h.1, h.2.1, h.2.2.1, fun hh => .inl (h.2.2.2 hh)⟩
        · have h := fin _ (SameHist.refl { s with src := setAt s.src i v })
          exact ⟨h.1, h.2.1, h.2.2.1, fun hh => .inl (h.2.2.2 hh)⟩
    · exact ⟨rfl, rfl, rfl, .inl⟩
  | refetch =>
    have h : SameHist s (refetch s) := by
      unfold refetch
      split
      · exact SameHist.trans (b := { s with rc := s.rc + 1 }) ⟨rfl, rfl, rfl, id⟩ (smMarkDirty_hist _)
      · exact dMarkDirty_hist s
    exact ⟨h.1, h.2.1, h.2.2.1, fun hh => .inl (h.2.2.2 hh)⟩
  | manualSet v => simp [step, manualSet]
  | complete f =>
    simp only [step, complete]
    split <;> exact ⟨rfl, rfl, rfl, .inl⟩
  | attach => exact ⟨rfl, rfl, rfl, .inl⟩
  | poll j =>
    have h := pollNth_hist s j
    exact ⟨h.1, h.2.1, h.2.2.1, fun hh => .inl (h.2.2.2 hh)⟩
  | get => exact ⟨rfl, rfl, rfl, .inl⟩
  | bread =>
    simp only [step, bread]
    (repeat' split) <;> exact ⟨rfl, rfl, rfl, .inl⟩
  | attachS => exact ⟨rfl, rfl, rfl, .inl⟩
  | bdrop => exact ⟨rfl, rfl, rfl, .inl⟩
  | attachR => exact ⟨rfl, rfl, rfl, .inl⟩
  | attachH => exact ⟨rfl, rfl, rfl, .inl⟩
  | hold => exact ⟨rfl, rfl, rfl, .inl⟩
  | release =>
    simp only [step, release, wakeWriter]
    split <;> exact ⟨rfl, rfl, rfl, .inl⟩

theorem foldl_hist (s : State) (es : List Event) :
    (es.foldl step s).eff = s.eff ∧
    (es.foldl step s).src = es.foldl (fun src e => match e with
      | .set i v => if i < src.length then setAt src i v else src
      | _ => src) s.src ∧
    (es.foldl step s).lastManual =
      es.foldl (fun m e => match e with | .manualSet v => some v | _ => m) s.lastManual ∧
    ((es.foldl step s).manualLive = true → s.manualLive = true ∨ hasManual es = true) := by
  induction es generalizing s with
  | nil => exact ⟨rfl, rfl, rfl, .inl⟩
  | cons e es ih =>
    obtain ⟨h0, h1, h2, h3⟩ := ih (step s e)
    obtain ⟨g0, g1, g2, g3⟩ := step_hist s e
    simp only [List.foldl_cons]
    refine ⟨h0.trans g0, ?_, ?_, ?_⟩
    · rw [h1, g1]
    · rw [h2, g2]
    · intro hh
      rcases h3 hh with h | h
      · rcases g3 h with h | ⟨v, rfl⟩
        · exact .inl h
        · exact .inr (by simp [hasManual])
      · exact .inr (by simp only [hasManual, List.any_cons] at h ⊢; simp [h])

theorem run_effKind (c : Cfg) (es : List Event) : (run c es).eff = c.eff :=
  (foldl_hist (init c) es).1

/-- the model's sources are the sources of the history -/
theorem run_src (c : Cfg) (es : List Event) : (run c es).src = latestSrc c es :=
  (foldl_hist (init c) es).2.1

theorem run_lastManual (c : Cfg) (es : List Event) : (run c es).lastManual = lastManualOf es :=
  (foldl_hist (init c) es).2.2.1

theorem run_manualLive (c : Cfg) (es : List Event) (h : hasManual es = false) :
    (run c es).manualLive = false := by
  cases hm : (run c es).manualLive
  · rfl
  · rcases (foldl_hist (init c) es).2.2.2 hm with h' | h'
    · simp [init] at h'
    · simp [h] at h'

theorem run_stolen (c : Cfg) (es : List Event) : (run c es).stolen = false :=
  (Inv.run c es).ec.e6

/-! ## settled points -/

/-- at a settled point the derived's task sleeps at `rx.next()` with nothing pending -/
theorem settled_waiting {s : State} (h : Inv s) (hs : settled s = true) :
    s.pc = .waiting ∧ s.loading = false ∧ s.dstate = .clean ∧ readyList s = [] ∧ inputsNow s = s.src := by
  simp only [settled, Bool.and_eq_true, decide_eq_true_eq, List.isEmpty_iff] at hs
  obtain ⟨⟨hst, hrl⟩, hg⟩ := hs
  obtain ⟨hd, he, ha⟩ := readyList_nil hrl
  obtain ⟨⟨r1, r2, r7, m1, aw, s1, s2, t1⟩, ⟨r3, r4, r5, r6, fresh, r8⟩, _, _⟩ := h
  have hpc : s.pc = .waiting := by
    cases hp : s.pc
    · have := (r3 hp).1; simp [hd] at this
    · rfl
    · obtain ⟨h1, _, h3, _⟩ := r6 hp
      rcases h1 with h1 | h1
      · exact absurd h1 hst
      · -- the result is there: either the tick has fired (then the task is woken) or the tick task is live
        cases htf : s.tickFired
        · exact absurd (t1 htf) (not_tickLive_of_idle hrl)
        · rcases h3 htf h1 with hw | hw
          · simp [hd] at hw
          · have := (r8 hw).2.2.2 hg; simp [hd] at this
  obtain ⟨hl, hw⟩ := r5 hpc
  obtain ⟨_, hch⟩ := hw hd
  refine ⟨hpc, hl, ?_, hrl, ?_⟩
  · cases hds : s.dstate
    · rfl
    · have := r2 hds; simp [hch] at this
    · exact absurd hds r1
  · -- the source memo, if used, is clean (else the channel flag would be set), so it caches the sources
    unfold inputsNow
    split
    · rename_i hv
      cases hsd : s.smDirty
      · exact (s1 hv hsd).1
      · have := s2 hsd; simp [hch] at this
    · rfl

/-- The loading indication is off at every settled point — unconditionally. -/
theorem C10_settles_loading_off (c : Cfg) (es : List Event) (hs : settled (run c es) = true) :
    (run c es).loading = false :=
  (settled_waiting (Inv.run c es) hs).2.1

/-- **full statement**: at every settled point of every history the loading indication is off and the
derived holds the last manual write if that came after the last returned fetch, and otherwise the
fetcher's result for the LATEST source values. -/
def C10_settles_on_latest_full : Prop :=
  ∀ (c : Cfg) (es : List Event), settled (run c es) = true →
    (run c es).loading = false ∧ (run c es).value = expected (run c es)

/-- The full statement holds (of the repaired code): every configuration — sources read directly or
through a memo, any subscriber effect, with or without a memo of its own — every history, every
interleaving and polling order. -/
theorem C10_settles_on_latest : C10_settles_on_latest_full := by
  intro c es hs
  have h := Inv.run c es
  obtain ⟨hpc, hl, hcl, _, hin⟩ := settled_waiting h hs
  refine ⟨hl, ?_⟩
  unfold expected
  cases hm : (run c es).manualLive
  · cases hvm : (run c es).viaMemo
    · -- sources read directly: the recorded run is the fetcher's run on the current sources
      have hq := ((RInv.run c es).q2 hvm hcl).1 ⟨hpc, (h.dr.r4 (by simp [hpc])).1⟩
      simp only [evalNow, hvm, Bool.false_eq_true, if_false]
      rw [← hq.1]
      simpa using hq.2 hm
    · have := (h.dr.fresh hvm (run_stolen c es) hcl).1 hpc hm
      rw [hin] at this
      simpa [evalNow, hvm] using this
  · simpa using h.dc.m1 hm

/-- In terms of the history alone: without manual writes the settled value is the fetcher applied to the
latest source values (the sources as the `set` events of the history leave them). -/
theorem C10_settles_on_latest_history (c : Cfg) (es : List Event)
    (hman : hasManual es = false) (hs : settled (run c es) = true) :
    (run c es).loading = false ∧ (run c es).value = some (fetchFn (evalNow (run c es))) ∧
    (run c es).src = latestSrc c es := by
  obtain ⟨h1, h2⟩ := C10_settles_on_latest c es hs
  refine ⟨h1, ?_, run_src c es⟩
  rw [h2, expected, run_manualLive c es hman]
  rfl

/-! ## dynamic dependencies -/

/-- Every input read in the LAST run (the one in flight, or the one whose result the derived holds) is
subscribed — whether it was read when the future was created or after its `await`, in the first run or in a
later one. -/
theorem C10_reads_subscribed (c : Cfg) (es : List Event) (hv : (run c es).viaMemo = false) :
    ∀ p ∈ (run c es).run.log, p.1 ∈ (run c es).dSub :=
  (RInv.run c es).q1 hv

/-- The dependency set of a run is the set of reads of that run: at a settled point the recorded run is
exactly what the fetcher reads when it is run from scratch on the CURRENT source values (so, with
`C10_reads_subscribed`, every input the fetcher would read now is subscribed, and a write to any of them
starts a refetch), ... -/
theorem C10_dependency_set_is_reads (c : Cfg) (es : List Event) (hv : (run c es).viaMemo = false)
    (hs : settled (run c es) = true) :
    (run c es).run = Run.execAll (run c es).src ((run c es).fx.sync ++ (run c es).fx.post) {} ∧
    ∀ p ∈ (Run.execAll (run c es).src ((run c es).fx.sync ++ (run c es).fx.post) {}).log, p.1 ∈ (run c es).dSub := by
  have h := Inv.run c es
  obtain ⟨hpc, _, hcl, _, _⟩ := settled_waiting h hs
  have hq := (((RInv.run c es).q2 hv hcl).1 ⟨hpc, (h.dr.r4 (by simp [hpc])).1⟩).1
  refine ⟨hq, ?_⟩
  rw [← hq]
  exact C10_reads_subscribed c es hv

/-- ... and while a fetch is in flight and nothing it has read so far has changed (`Clean`), the reads made
when its future was created are the fetcher's `sync` reads on the current sources. -/
theorem C10_in_flight_reads_current (c : Cfg) (es : List Event) (hv : (run c es).viaMemo = false)
    (hc : (run c es).dstate = .clean) (hpc : (run c es).pc = .fetching) :
    (run c es).run = Run.execAll (run c es).src (run c es).fx.sync {} :=
  ((RInv.run c es).q2 hv hc).2 (by simp [hpc])

/-! ## awaiters -/

/-- At every settled point (no guard on the value is held any more) no task that awaited the derived is left parked
in `wakers` or waiting to be polled: each has been resumed with a value — or is a holder still sitting on its guard
(`holding`; `settled` says no guard is held: see `C10_no_holder_when_settled_open`), or was `lost` (polled with
loading off while the value lock was not readable: excluded by `C10_no_awaiter_lost` when no manual write
happened). -/
theorem C10_awaiters_resumed (c : Cfg) (es : List Event) (hs : settled (run c es) = true) :
    ∀ a ∈ (run c es).aws, a.parked = false ∧ (a.done = true ∨ a.holding = true ∨ a.lost = true) ∧
      (a.done = true → a.kind ≠ .tick → a.aborted = false → a.result ≠ none) := by
  have h := Inv.run c es
  obtain ⟨_, hl, _, hrl, _⟩ := settled_waiting h hs
  obtain ⟨_, _, hw⟩ := readyList_nil hrl
  intro a ha
  obtain ⟨h1, h2, h3, _, _, _⟩ := h.dc.aw a ha
  have hp : a.parked = false := by
    cases hp : a.parked
    · rfl
    · have := h2 hp; simp [hl] at this
  refine ⟨hp, ?_, h3⟩
  cases hd : a.done
  · rcases h1 hd with hw' | hp' | hh | hlost
    · have := hw a ha hw'; simp [hd] at this
    · simp [hp] at hp'
    · exact .inr (.inl hh)
    · exact .inr (.inr hlost)
  · exact .inl rfl

theorem awsResumed_of_settled (c : Cfg) (es : List Event) (hs : settled (run c es) = true)
    (hq : ∀ a ∈ (run c es).aws, a.holding = false ∧ a.lost = false) :
    awsResumed (run c es) = true := by
  unfold awsResumed
  rw [List.all_eq_true]
  intro a ha
  obtain ⟨_, h1, h3⟩ := C10_awaiters_resumed c es hs a ha
  obtain ⟨q1, q2⟩ := hq a ha
  have hd : a.done = true := by
    rcases h1 with h | h | h
    · exact h
    · rw [q1] at h; exact absurd h (by decide)
    · rw [q2] at h; exact absurd h (by decide)
  have h3' := h3 hd
  cases hk : a.kind <;> cases hr : a.result <;> simp_all

/-! ### readers that hold a guard on the value (`async_lock::RwLock`) across awaits -/

/-- Whatever guards are held, by whom and for how long — in every reachable state every task that waits for the
derived and has not finished is accounted for: it is woken (the executor will poll it), or parked in `wakers`
(`notify_subs` will wake it; only while loading), or a holder sitting on its guard until `release` (woken the moment
its release is sent), or `lost` — the `(false, Poll::Pending)` arm of the value futures: polled with loading off while
the lock was not readable, `Pending` with its waker registered nowhere. -/
theorem C10_awaiter_parked_or_woken (c : Cfg) (es : List Event) :
    ∀ a ∈ (run c es).aws, a.done = false →
      a.woken = true ∨ (a.parked = true ∧ (run c es).loading = true) ∨ a.holding = true ∨ a.lost = true := by
  intro a ha hd
  obtain ⟨h1, h2, _⟩ := (Inv.run c es).dc.aw a ha
  rcases h1 hd with h | h | h | h
  · exact .inl h
  · exact .inr (.inl ⟨h, h2 h⟩)
  · exact .inr (.inr (.inl h))
  · exact .inr (.inr (.inr h))

/-- a holder whose release has been sent is woken: it will drop its guard -/
theorem C10_holder_woken_on_release (c : Cfg) (es : List Event) :
    ∀ a ∈ (run c es).aws, a.holding = true → a.rel = true → a.woken = true := by
  intro a ha
  exact ((Inv.run c es).dc.aw a ha).2.2.2.1

/-- The derived's task waits for the write lock only with the result of its fetch in hand (the fetch has returned,
the loading flag is still on until the value is stored), and it is not forgotten there: once the last read guard has
gone it is woken — the finished reload is stored, `notify_subs` runs and every parked awaiter is resumed. -/
theorem C10_writer_woken_when_guards_gone (c : Cfg) (es : List Event) (h : (run c es).lockReg = true) :
    (run c es).pc = .fetching ∧ (run c es).curStatus = .ready ∧
    ((run c es).guards = 0 → (run c es).dWoken = true) := by
  obtain ⟨h1, h2, _, h4⟩ := (Inv.run c es).dr.r8 h
  exact ⟨h1, h2, h4⟩

/-- As long as no manual write happens the lock is unreadable only while loading is on (the only writer that ever
waits for it is the derived's own task, which stores the value before it turns loading off), so the
`(false, Poll::Pending)` arm of the value futures is never taken: NO AWAITER IS EVER LOST, whatever guards are held,
by whom and for how long, and in whatever order everything is polled.  (With a manual write during a fetch loading
is off while the task later waits for the lock; the arm is reachable then: `C10_awaiter_lost_after_manual_write_witness`.) -/
theorem C10_no_awaiter_lost (c : Cfg) (es : List Event) (hes : ∀ e ∈ es, ∀ v, e ≠ .manualSet v) :
    ∀ a ∈ (run c es).aws, a.lost = false :=
  (LOK.run c es hes).n

/-- ... so every task that waits for the derived and has not finished is woken, parked in `wakers` while loading, or
a holder sitting on its guard until it is released -/
theorem C10_awaiter_parked_or_woken_strict (c : Cfg) (es : List Event) (hes : ∀ e ∈ es, ∀ v, e ≠ .manualSet v) :
    ∀ a ∈ (run c es).aws, a.done = false →
      a.woken = true ∨ (a.parked = true ∧ (run c es).loading = true) ∨ a.holding = true := by
  intro a ha hd
  rcases C10_awaiter_parked_or_woken c es a ha hd with h | h | h | h
  · exact .inl h
  · exact .inr (.inl h)
  · exact .inr (.inr h)
  · rw [C10_no_awaiter_lost c es hes a ha] at h; exact absurd h (by decide)

/-- the arm is not dead code: a manual write during a fetch turns loading off; a holder then takes its guard; the
fetch completes and the task queues for the write lock with loading OFF; an awaiter polled now is lost (the model of
the code as it is; the drivers keep manual writes and guards apart) -/
theorem C10_awaiter_lost_after_manual_write_witness :
    let es : List Event := [.poll 0, .manualSet 5, .attachH, .poll 0, .complete 0, .poll 0, .attach, .poll 0]
    (run {} es).lockReg = true ∧ (run {} es).loading = false ∧
    (run {} es).aws.any (fun a => a.lost) = true := by decide

/-- OPEN (not proved; stated, not claimed): `guards` counts the harness's own guards plus the holders that have
theirs, so at a settled point (`guards = 0`) no holder is still holding. -/
def C10_no_holder_when_settled_open : Prop :=
  ∀ (c : Cfg) (es : List Event), settled (run c es) = true → ∀ a ∈ (run c es).aws, a.holding = false

/-- the seeded scenario (round-4 seed 2), kernel-evaluated: a holder keeps the first value's guard; the source
changes, the reload completes and waits for the lock; a by-value awaiter, a `by_ref()` awaiter and a `ready()`
awaiter arrive and are polled in that window (parked, the lock is not readable); the guard is released: the value is
stored, all four are resumed with the new value, nothing is lost -/
theorem C10_guard_held_witness :
    let es : List Event := [.poll 0, .complete 0, .poll 0, .attachH, .poll 0, .set 0 2, .poll 0, .complete 1, .poll 0,
      .attach, .poll 0, .attachR, .poll 0]
    (run {} es).lockReg = true ∧ (run {} es).loading = true ∧ (run {} es).guards = 1 ∧
    readyList (run {} es) = [] ∧
    settled (run {} (es ++ [.release, .poll 0, .poll 0, .poll 0, .poll 0])) = true ∧
    oracle (run {} (es ++ [.release, .poll 0, .poll 0, .poll 0, .poll 0])) = none ∧
    (run {} (es ++ [.release, .poll 0, .poll 0, .poll 0, .poll 0])).value = some (fetchFn [2]) ∧
    awsResumed (run {} (es ++ [.release, .poll 0, .poll 0, .poll 0, .poll 0])) = true := by decide

/-- F-C10-4 (KNOWN, implementation-confirmed by hooks/F-C10-4.demo.rs; class `blocksThread`).  The window in which
a synchronous read of the derived blocks its thread for good is reachable with everything idle: a holder keeps the
first value's guard, the source changes, the reload completes — the task is queued for the write lock, nothing is
woken, and a `get` now would never return.  It stays open after the guard has been released until the task has
been polled; then it is closed. -/
theorem C10_sync_access_blocks_witness :
    let es : List Event := [.poll 0, .complete 0, .poll 0, .attachH, .poll 0, .set 0 2, .poll 0, .complete 1, .poll 0]
    readyList (run {} es) = [] ∧ (run {} es).guards = 1 ∧
    blocksThread (run {} es) .get = true ∧ blocksThread (run {} es) .bread = true ∧
    blocksThread (run {} es) (.manualSet 5) = true ∧
    -- the guard is released and dropped (the holder has been polled): still blocked until the task runs
    (run {} (es ++ [.release, .poll 1])).guards = 0 ∧ blocksThread (run {} (es ++ [.release, .poll 1])) .get = true ∧
    readyList (run {} (es ++ [.release, .poll 1])) = [.d] ∧
    blocksThread (run {} (es ++ [.release, .poll 1, .poll 0])) .get = false ∧
    -- control: a guard next to no pending reload blocks no reader (only a manual write)
    blocksThread (run {} [.poll 0, .complete 0, .poll 0, .attachH, .poll 0]) .get = false ∧
    blocksThread (run {} [.poll 0, .complete 0, .poll 0, .attachH, .poll 0]) (.manualSet 5) = true := by decide

/-- ... and it is exactly the window in which the derived's task holds the result of its fetch and has not stored
it: a synchronous read can block only while a fetch has returned and loading is still on -/
theorem C10_sync_read_blocks_only_while_storing (c : Cfg) (es : List Event)
    (h : blocksThread (run c es) .get = true) :
    (run c es).pc = .fetching ∧ (run c es).curStatus = .ready :=
  ⟨(C10_writer_woken_when_guards_gone c es h).1, (C10_writer_woken_when_guards_gone c es h).2.1⟩

/-- An awaiter is only ever resumed while the loading indication is off, and then with the value the
derived holds: never `None` (the `unwrap` in `AsyncDerivedFuture::poll` cannot panic). -/
theorem C10_await_never_panics (c : Cfg) (es : List Event) :
    (run c es).loading = false → (run c es).value ≠ none :=
  (Inv.run c es).dc.r7

/-! ## synchronous reads -/

/-- the inputs the fetch in flight will have read when its result is produced: what it read when its future
was created, plus its reads after the `await`, made at the source values of that moment -/
def resultInputs (s : State) : List Val := (postReads s).curInputs

theorem applyResult_value (s : State) :
    (applyResult s).value = s.value ∨ (applyResult s).value = some (fetchFn (resultInputs s)) := by
  simp only [applyResult, resultInputs, postReads]
  split <;> simp

theorem fetchState_ready (s : State) (h : (fetchState s).curStatus = .ready) :
    s.curStatus = .ready ∧ resultInputs (fetchState s) = resultInputs s := by
  rcases fetchState_cases s with ⟨_, _, _, _, heq⟩ | heq
  · rw [heq] at h ⊢; exact ⟨h, by simp [resultInputs, postReads]⟩
  · rw [heq] at h; simp at h

theorem fetchState_value (s : State) : (fetchState s).value = s.value := by
  rcases fetchState_cases s with ⟨_, _, _, _, heq⟩ | heq <;> rw [heq]

theorem chk_value (s : State) : (chk s).1.value = s.value := by
  simp only [chk, dNeedsRerun, smUpdate]
  (repeat' split) <;> rfl

theorem dIter_value (s : State) :
    (dIter s).1.value = s.value ∨
    (s.curStatus = .ready ∧ (dIter s).1.value = some (fetchFn (resultInputs s))) := by
  rw [dIter_def]
  split
  · exact .inl rfl
  · split
    · split
      · rename_i hr
        split
        · obtain ⟨h1, h2⟩ := fetchState_ready s hr.2
          rcases applyResult_value (fetchState s) with h | h
          · exact .inl (h.trans (fetchState_value s))
          · exact .inr ⟨h1, by rw [← h2]; exact h⟩
        · exact .inl (fetchState_value s)
      · exact .inl (fetchState_value s)
    · exact .inl (chk_value s)

theorem dIter_stop_value (s : State) (h : s.chan = false) : (dIter s).1.value = s.value := by
  rw [dIter_def, if_pos h]

theorem dLoop3_value (s : State) :
    (dLoop 3 s).value = s.value ∨
    (s.curStatus = .ready ∧ (dLoop 3 s).value = some (fetchFn (resultInputs s))) := by
  rw [dLoop_eq]
  split
  · rename_i hc
    rw [dIter_stop_value _ (dIter_cont_chan s hc)]
    exact dIter_value s
  · exact dIter_value s

theorem applyResult_curStatus (s : State) : (applyResult s).curStatus = .done := by
  simp only [applyResult, postReads]
  split <;> simp

theorem pollD_value (s : State) :
    (pollD s).value = s.value ∨
    (s.curStatus = .ready ∧ (pollD s).value = some (fetchFn (resultInputs s))) := by
  unfold pollD
  dsimp only
  split
  · split
    · rcases dLoop3_value { s with dWoken := false, initialFut := false, curStatus := .dropped, pc := .waiting }
        with h | ⟨h, _⟩
      · exact .inl h
      · simp at h
    · rcases dLoop3_value { s with dWoken := false, pc := .waiting } with h | ⟨h1, h2⟩
      · exact .inl h
      · exact .inr ⟨h1, h2⟩
  · rcases dLoop3_value { s with dWoken := false } with h | ⟨h1, h2⟩
    · exact .inl h
    · exact .inr ⟨h1, h2⟩
  · split
    · rename_i hr
      split
      · rcases dLoop3_value (applyResult { s with dWoken := false }) with h | ⟨h, _⟩
        · rcases applyResult_value { s with dWoken := false } with h' | h'
          · exact .inl (h.trans h')
          · exact .inr ⟨hr.2, h.trans h'⟩
        · rw [applyResult_curStatus] at h; simp at h
      · exact .inl rfl
    · exact .inl rfl

theorem effUpdate_value (s : State) : (effUpdate s).1.value = s.value := by
  unfold effUpdate
  split
  · rfl
  · exact (Frame.effAny _ s).value

theorem runEffect_value (s : State) : (runEffect s).value = s.value := by
  obtain ⟨ms, mv, mr, x, h⟩ := runEffect_spec s
  rw [h]

theorem eIter_value (s : State) : (eIter s).1.value = s.value := by
  rw [eIter_def]
  split
  · rfl
  · split
    · show (runEffect _).value = _
      rw [runEffect_value, effUpdate_value]
    · show (effUpdate _).1.value = _
      rw [effUpdate_value]

theorem eLoop_value (n : Nat) (s : State) : (eLoop n s).value = s.value := by
  induction n generalizing s with
  | zero => rfl
  | succ n ih =>
    rw [eLoop]
    split
    · rw [ih, eIter_value]
    · exact eIter_value s

theorem dMarkDirty_value (s : State) : (dMarkDirty s).value = s.value := by
  simp only [dMarkDirty, dNotify]; (repeat' split) <;> rfl
theorem smMarkDirty_value (s : State) : (smMarkDirty s).value = s.value := by
  simp only [smMarkDirty, dMarkCheck, dNotify]; (repeat' split) <;> rfl
theorem mMarkDirty_value (s : State) : (mMarkDirty s).value = s.value := by
  simp only [mMarkDirty, eMarkCheck, eNotify]; (repeat' split) <;> rfl

theorem setSrc_value (s : State) (i : Nat) (v : Val) : (setSrc s i v).value = s.value := by
  unfold setSrc
  split
  · have fin : ∀ u : State, u.value = s.value → (if u.mRan = true then mMarkDirty u else u).value = s.value := by
      intro u hu
      split
      · rw [mMarkDirty_value]; exact hu
      · exact hu
    by_cases hv : s.viaMemo = true
    · dsimp only
      rw [if_pos hv]
      exact fin _ (smMarkDirty_value _)
    · dsimp only
      rw [if_neg hv]
      split
      · exact fin _ (dMarkDirty_value _)
      · exact fin _ rfl
  · rfl

/-- A synchronous read after ANY event, in ANY state, returns what it returned before the event —
unless the event is a manual write (then it is that value) or a poll that hands the derived's task the
result of the fetch the harness completed (then it is the fetcher's result for the inputs that fetch
captured).  In particular a read before completion returns the previous value (or `None`), never
anything fabricated; source writes, refetches, completions, attachments and polls of other tasks
never change what is read. -/
theorem C10_sync_read_is_previous_or_none (s : State) (e : Event) :
    (step s e).value = s.value ∨
    (∃ v, e = .manualSet v ∧ (step s e).value = some v) ∨
    (∃ j, e = .poll j ∧ s.curStatus = .ready ∧ (step s e).value = some (fetchFn (resultInputs s))) := by
  cases e with
  | set i v =>
    exact .inl (setSrc_value s i v)
  | refetch =>
    refine .inl ?_
    simp only [step, refetch]
    split
    · exact smMarkDirty_value _
    · exact dMarkDirty_value _
  | manualSet v => exact .inr (.inl ⟨v, rfl, by simp [step, manualSet]⟩)
  | complete f =>
    refine .inl ?_
    simp only [step, complete]
    split <;> rfl
  | attach => exact .inl rfl
  | poll j =>
    simp only [step, pollNth]
    split
    · rename_i t _
      cases t
      · refine .inl ?_
        show (pollT0 s).value = s.value
        unfold pollT0
        split <;> rfl
      · rcases pollD_value s with h | ⟨h1, h2⟩
        · exact .inl h
        · exact .inr (.inr ⟨j, rfl, h1, h2⟩)
      · exact .inl (eLoop_value 4 _)
      · refine .inl ?_
        show (pollA s _).value = s.value
        unfold pollA wakeWriter
        dsimp only
        split <;> rfl
    · exact .inl rfl
  | get => exact .inl rfl
  | bread =>
    refine .inl ?_
    simp only [step, bread]
    (repeat' split) <;> rfl
  | attachS => exact .inl rfl
  | bdrop => exact .inl rfl
  | attachR => exact .inl rfl
  | attachH => exact .inl rfl
  | hold => exact .inl rfl
  | release =>
    refine .inl ?_
    simp only [step, release, wakeWriter]
    split <;> rfl

/-! ## dependents -/

/-- `notify_subs` (run for every completed fetch and every manual write — the only two places that
change the value or turn the loading indication off) marks the subscribed effect dirty, sets its channel,
wakes its task if it sleeps, and un-parks every awaiter. -/
theorem C10_notify_marks_every_subscriber (s : State) (h : s.eSubD = true) :
    (notifySubs s).eDirty = true ∧ (notifySubs s).eChan = true ∧
    (s.eReg = true → (notifySubs s).eWoken = true) ∧
    (∀ a ∈ (notifySubs s).aws, a.parked = false) ∧ (notifySubs s).loading = false := by
  refine ⟨by simp [h], by simp [h], fun hr => by simp [h, hr], ?_, by simp⟩
  intro a ha
  rw [notifySubs_aws] at ha
  rcases List.mem_map.mp ha with ⟨b, _, rfl⟩
  unfold wakeAw
  split <;> simp_all

/-- End to end: whenever the executor is idle (no task woken) — after any history, at any point, not
only at settled points — the subscriber effect has run and its last run saw exactly the value the
derived holds now: no transition of the derived is ever lost on a dependent. -/
theorem C10_dependents_notified_each_transition (c : Cfg) (es : List Event)
    (he : hasEffect c.eff = true) (hidle : readyList (run c es) = []) :
    (run c es).eFirst = false ∧ lastSeen (run c es) = some (run c es).value := by
  have h := Inv.run c es
  have he' : hasEffect (run c es).eff = true := by rw [run_effKind]; exact he
  obtain ⟨_, hw, _⟩ := readyList_nil hidle
  have hf : (run c es).eFirst = false := by
    cases hf : (run c es).eFirst
    · rfl
    · have := h.ew.w1 he' hf; simp [hw] at this
  refine ⟨hf, ?_⟩
  rcases (h.ec.e2 he' hf).2 with hd | hs
  · have := h.ec.e3 hd
    have := h.ew.w2 hw
    simp_all
  · exact hs

/-! ## the `<Suspense/>` boundary -/

/-- A boundary that has read the value is waiting for the load in flight: whenever a fetch is in flight that
the boundary has read from (it read after the loop took the registrations for the previous fetch: before
this fetch started, or while it is in flight — with no value yet, or with the previous value during a
reload) and no manual write has turned the loading indication off, the boundary's task list is non-empty. -/
theorem C10_suspense_pending_while_covered (c : Cfg) (es : List Event)
    (h : suspCovered (run c es) = true) : 0 < (run c es).pending := by
  have hs := SInv.run c es
  simp only [suspCovered, Bool.and_eq_true, decide_eq_true_eq, Bool.not_eq_true', Bool.or_eq_true] at h
  obtain ⟨⟨hpc, hm⟩, hcov⟩ := h
  rw [hs.p1]
  rcases hcov with hcov | hcov
  · have := (hs.p3 hpc).mp hcov
    omega
  · have := hs.p6 hpc hm hcov
    omega

/-- ... and it is told about every completion: whenever the executor is idle and no fetch is in flight, the
boundary's task list is empty (every reader task has resolved, the loop holds no task id). -/
theorem C10_suspense_released_when_idle (c : Cfg) (es : List Event)
    (hidle : readyList (run c es) = []) (hpc : (run c es).pc ≠ .fetching) : (run c es).pending = 0 := by
  have h := Inv.run c es
  have hs := SInv.run c es
  obtain ⟨hd, _, hw⟩ := readyList_nil hidle
  have hwait : (run c es).pc = .waiting := by
    cases hp : (run c es).pc
    · have := (h.dr.r3 hp).1; simp [hd] at this
    · rfl
    · exact absurd hp hpc
  have hl := (h.dr.r5 hwait).1
  have hn : nLive (run c es).aws = 0 := by
    unfold nLive liveReaders
    rw [List.length_eq_zero_iff, List.filter_eq_nil_iff]
    intro a ha
    obtain ⟨h1, h2, _, _, h5, h6⟩ := h.dc.aw a ha
    cases hdn : a.done
    · rcases h1 hdn with hw' | hp' | hh | hlost
      · have := hw a ha hw'; simp [hdn] at this
      · have := h2 hp'; simp [hl] at this
      · simp [(h5 hh).2]
      · have := h6 hlost
        cases hk : a.kind <;> simp_all [AwKind.usesLock]
    · simp
  rw [hs.p1, hn, hs.p2 hpc]

theorem C10_suspense_released_when_settled (c : Cfg) (es : List Event) (hs : settled (run c es) = true) :
    (run c es).pending = 0 := by
  obtain ⟨hpc, _, _, hrl, _⟩ := settled_waiting (Inv.run c es) hs
  exact C10_suspense_released_when_idle c es hrl (by simp [hpc])

/-! ### readers that go away -/

theorem applyResult_noReader (s : State) : (applyResult s).noReader = s.noReader := by
  simp only [applyResult]
  split <;> simp [notifySubs_noReader]

theorem fetchState_noReader (s : State) : (fetchState s).noReader = s.noReader := by
  rcases fetchState_cases s with ⟨_, _, _, _, heq⟩ | heq <;> rw [heq]

theorem chk_noReader (s : State) : (chk s).1.noReader = s.noReader := by
  simp only [chk, dNeedsRerun, smUpdate]
  (repeat' split) <;> rfl

theorem dIter_noReader (s : State) : (dIter s).1.noReader = s.noReader := by
  rw [dIter_def]
  split
  · rfl
  · split
    · split
      · split
        · exact (applyResult_noReader _).trans (fetchState_noReader s)
        · exact fetchState_noReader s
      · exact fetchState_noReader s
    · exact chk_noReader s

theorem dLoop_noReader (n : Nat) (s : State) : (dLoop n s).noReader = s.noReader := by
  induction n generalizing s with
  | zero => rfl
  | succ n ih =>
    rw [dLoop]
    split
    · exact (ih _).trans (dIter_noReader s)
    · exact dIter_noReader s

theorem pollD_noReader (s : State) : (pollD s).noReader = s.noReader := by
  unfold pollD
  dsimp only
  split
  · split <;> exact dLoop_noReader _ _
  · exact dLoop_noReader _ _
  · split
    · split
      · exact (dLoop_noReader _ _).trans (applyResult_noReader _)
      · rfl
    · rfl

theorem applyResult_liveReaders (s : State) : liveReaders (applyResult s).aws = liveReaders s.aws := by
  simp only [applyResult]
  split
  · simp only [notifySubs_aws, postReads_aws]
    exact nLive_wake s.aws
  · rfl

theorem fetchState_liveReaders (s : State) : liveReaders (fetchState s).aws = liveReaders s.aws := by
  have hn : liveReaders (if s.isLocal = true then s.aws ++ [({ kind := .tick, tag := s.nf + 1 } : Aw)] else s.aws)
      = liveReaders s.aws := by
    split
    · rw [show liveReaders (s.aws ++ [({ kind := .tick, tag := s.nf + 1 } : Aw)]) =
        nLive s.aws + nLive [({ kind := .tick, tag := s.nf + 1 } : Aw)] from nLive_append _ _]
      simp [nLive, liveReaders]
    · rfl
  rcases fetchState_cases s with ⟨_, _, _, _, heq⟩ | heq <;> rw [heq]
  exact hn

theorem chk_aws (s : State) : (chk s).1.aws = s.aws := by
  simp only [chk, dNeedsRerun, smUpdate]
  (repeat' split) <;> rfl

theorem dIter_liveReaders (s : State) : liveReaders (dIter s).1.aws = liveReaders s.aws := by
  rw [dIter_def]
  split
  · rfl
  · split
    · split
      · split
        · exact (applyResult_liveReaders _).trans (fetchState_liveReaders s)
        · exact fetchState_liveReaders s
      · exact fetchState_liveReaders s
    · rw [chk_aws]

theorem dLoop_liveReaders (n : Nat) (s : State) : liveReaders (dLoop n s).aws = liveReaders s.aws := by
  induction n generalizing s with
  | zero => rfl
  | succ n ih =>
    rw [dLoop]
    split
    · exact (ih _).trans (dIter_liveReaders s)
    · exact dIter_liveReaders s

theorem pollD_liveReaders (s : State) : liveReaders (pollD s).aws = liveReaders s.aws := by
  unfold pollD
  dsimp only
  split
  · split <;> exact dLoop_liveReaders _ _
  · exact dLoop_liveReaders _ _
  · split
    · split
      · exact (dLoop_liveReaders _ _).trans (applyResult_liveReaders _)
      · rfl
    · rfl

/-- only a new reader under the boundary (`bread`, `attachS`) ends "no reader", and only a synchronous read
spawns a task holding a handle of the boundary -/
theorem step_noReader (s : State) (e : Event) (hb : e ≠ .bread) (ha : e ≠ .attachS) (hd : e ≠ .bdrop)
    (h : s.noReader = true) :
    (step s e).noReader = true ∧ liveReaders (step s e).aws ≤ liveReaders s.aws := by
  cases e with
  | set i v =>
    have hh := setSrc_susp s i v
    exact ⟨hh.2.2.2.2.2.2.2.2.2.trans h, Nat.le_of_eq (congrArg liveReaders hh.2.1)⟩
  | refetch =>
    have hh := refetch_susp s
    exact ⟨hh.2.2.2.2.2.2.2.2.2.trans h, Nat.le_of_eq (congrArg liveReaders hh.2.1)⟩
  | manualSet v =>
    simp only [step, manualSet, notifySubs_noReader, notifySubs_aws]
    exact ⟨h, Nat.le_of_eq (nLive_wake s.aws)⟩
  | complete f =>
    have hh := complete_susp s f
    exact ⟨hh.2.2.2.2.2.2.2.2.2.trans h, Nat.le_of_eq (congrArg liveReaders hh.2.1)⟩
  | attach =>
    refine ⟨h, Nat.le_of_eq ?_⟩
    show liveReaders (s.aws ++ [({} : Aw)]) = liveReaders s.aws
    rw [show liveReaders (s.aws ++ [({} : Aw)]) = nLive s.aws + nLive [({} : Aw)] from nLive_append _ _]
    simp [nLive, liveReaders]
  | poll j =>
    simp only [step, pollNth]
    split
    · rename_i t _
      cases t
      · show (pollT0 s).noReader = true ∧ liveReaders (pollT0 s).aws ≤ liveReaders s.aws
        unfold pollT0
        split <;> exact ⟨h, Nat.le_refl _⟩
      · exact ⟨(pollD_noReader s).trans h, Nat.le_of_eq (pollD_liveReaders s)⟩
      · have hh := eLoop_susp 4 { s with eWoken := false }
        exact ⟨hh.2.2.2.2.2.2.2.2.2.trans h, Nat.le_of_eq (congrArg liveReaders hh.2.1)⟩
      · rename_i i _
        have := nLive_poll s.loading s.lockReg s.value s.aws i
        unfold nLive at this
        show (pollA s i).noReader = true ∧ liveReaders (pollA s i).aws ≤ liveReaders s.aws
        unfold pollA wakeWriter
        dsimp only
        split
        · exact ⟨h, Nat.le.intro this⟩
        · exact ⟨h, Nat.le.intro this⟩
    · exact ⟨h, Nat.le_refl _⟩
  | get => exact ⟨h, Nat.le_refl _⟩
  | bread => exact absurd rfl hb
  | attachS => exact absurd rfl ha
  | bdrop => exact absurd rfl hd
  | attachR =>
    refine ⟨h, Nat.le_of_eq ?_⟩
    show liveReaders (s.aws ++ [({ kind := .awaiterR } : Aw)]) = liveReaders s.aws
    rw [show liveReaders (s.aws ++ [({ kind := .awaiterR } : Aw)]) = nLive s.aws + nLive [({ kind := .awaiterR } : Aw)]
      from nLive_append _ _]
    simp [nLive, liveReaders]
  | attachH =>
    refine ⟨h, Nat.le_of_eq ?_⟩
    show liveReaders (s.aws ++ [({ kind := .holder } : Aw)]) = liveReaders s.aws
    rw [show liveReaders (s.aws ++ [({ kind := .holder } : Aw)]) = nLive s.aws + nLive [({ kind := .holder } : Aw)]
      from nLive_append _ _]
    simp [nLive, liveReaders]
  | hold => exact ⟨h, Nat.le_refl _⟩
  | release =>
    show (release s).noReader = true ∧ liveReaders (release s).aws ≤ liveReaders s.aws
    unfold release wakeWriter
    dsimp only
    split
    · exact ⟨h, Nat.le_of_eq (nLive_release s.aws)⟩
    · exact ⟨h, Nat.le_of_eq (nLive_release s.aws)⟩

/-- ... whether the proposed repair 3 is applied or not -/
theorem stepF_noReader (f : Bool) (s : State) (e : Event) (hb : e ≠ .bread) (ha : e ≠ .attachS)
    (h : s.noReader = true) :
    (stepF f s e).noReader = true ∧ liveReaders (stepF f s e).aws ≤ liveReaders s.aws := by
  by_cases hd : e = .bdrop
  · subst hd
    cases f
    · exact ⟨rfl, Nat.le_of_eq (nLive_drop s.aws)⟩
    · exact ⟨rfl, Nat.le_of_eq (nLive_drop s.aws)⟩
  · have : stepF f s e = step s e := by cases e <;> first | rfl | exact absurd rfl hd
    rw [this]
    exact step_noReader s e hb ha hd h

theorem foldl_noReader (f : Bool) (s : State) (es : List Event) (hes : ∀ e ∈ es, e ≠ .bread ∧ e ≠ .attachS)
    (h : s.noReader = true) :
    (es.foldl (stepF f) s).noReader = true ∧ liveReaders (es.foldl (stepF f) s).aws ≤ liveReaders s.aws := by
  induction es generalizing s with
  | nil => exact ⟨h, Nat.le_refl _⟩
  | cons e es ih =>
    have he := hes e (by simp)
    obtain ⟨h1, h2⟩ := stepF_noReader f s e he.1 he.2 h
    obtain ⟨h3, h4⟩ := ih _ (fun x hx => hes x (by simp [hx])) h1
    exact ⟨h3, Nat.le_trans h4 h2⟩

/-- `SInv true` (nothing registered, nothing held while there is no reader) survives any continuation of the
code AS IT IS that brings no new reader -/
theorem foldl_quiet (s : State) (es : List Event) (hes : ∀ e ∈ es, e ≠ .bread ∧ e ≠ .attachS)
    (hs : SInv true s) (h : s.noReader = true) : SInv true (es.foldl step s) := by
  induction es generalizing s with
  | nil => exact hs
  | cons e es ih =>
    have he := hes e (by simp)
    have h1 := (stepF_noReader false s e he.1 he.2 h).1
    rw [stepF_false] at h1
    exact ih _ (fun x hx => hes x (by simp [hx])) (hs.step_quiet h e) h1

/-- WHAT THE PROPOSED REPAIR hooks/fix-c10-3.patch ACHIEVES (`runF true`; not true of the code as it is, see
`C10_suspense_forgets_dropped_readers_full_false`).  A boundary takes no part in a reload on behalf of readers
that are gone: once every reader under the boundary has been disposed (`bdrop`: a `<Show>` closed, a row removed,
a tab switched — the readers' owners are cleaned up, their awaiting futures dropped), then — whatever happened
before, and whatever happens afterwards short of a NEW reader reading or awaiting the value under the
boundary: writes, reloads, completions, polls in any order — nothing is registered for the next run, the loop
holds no task id of the boundary, and the boundary's task list consists of nothing but the handles of
synchronous reads made during a load that was in flight when the readers went (`liveReaders`: each is
dropped when that load's `ready()` resolves; the server rendering of `<Suspense/>` depends on them outliving
the owner they were made in) and never grows. -/
theorem C10_suspense_forgets_dropped_readers (c : Cfg) (es es' : List Event)
    (hes : ∀ e ∈ es', e ≠ .bread ∧ e ≠ .attachS) :
    (runF true c (es ++ .bdrop :: es')).susp = 0 ∧ (runF true c (es ++ .bdrop :: es')).idsHeld = 0 ∧
    (runF true c (es ++ .bdrop :: es')).pending = liveReaders (runF true c (es ++ .bdrop :: es')).aws ∧
    (runF true c (es ++ .bdrop :: es')).pending ≤ (runF true c (es ++ [.bdrop])).pending := by
  have h0 : (runF true c (es ++ [.bdrop])).noReader = true := by
    unfold runF
    rw [List.foldl_append]
    rfl
  have hrun : runF true c (es ++ .bdrop :: es') = es'.foldl (stepF true) (runF true c (es ++ [.bdrop])) := by
    unfold runF
    rw [List.foldl_append, List.foldl_append]
    rfl
  obtain ⟨hn, hle⟩ := foldl_noReader true _ es' hes h0
  rw [← hrun] at hn hle
  have hs : SInv true (runF true c (es ++ .bdrop :: es')) := SInv.runF c _
  have hs0 : SInv true (runF true c (es ++ [.bdrop])) := SInv.runF c _
  obtain ⟨h1, h2⟩ := hs.p4 rfl hn
  obtain ⟨_, h2'⟩ := hs0.p4 rfl h0
  have hp := hs.p1
  have hp0 := hs0.p1
  unfold nLive at hp hp0
  exact ⟨h1, h2, by omega, by omega⟩

/-- ... in particular, with the repair, a reload that starts after the readers are gone goes unnoticed by the
boundary: if its task list was empty when they went (no synchronous read was waiting for a load in flight), it
stays empty -/
theorem C10_suspense_reload_after_drop_unnoticed (c : Cfg) (es es' : List Event)
    (hes : ∀ e ∈ es', e ≠ .bread ∧ e ≠ .attachS) (h0 : (runF true c (es ++ [.bdrop])).pending = 0) :
    (runF true c (es ++ .bdrop :: es')).pending = 0 := by
  have := (C10_suspense_forgets_dropped_readers c es es' hes).2.2.2
  omega

/-- THE SAME STATEMENT ABOUT THE CODE AS IT IS (`run`): false — known finding F-C10-3 = F-C04-5, class
`suspense-stale` -/
def C10_suspense_forgets_dropped_readers_full : Prop :=
  ∀ (c : Cfg) (es es' : List Event), (∀ e ∈ es', e ≠ .bread ∧ e ≠ .attachS) →
    (run c (es ++ [.bdrop])).pending = 0 → (run c (es ++ .bdrop :: es')).pending = 0

/-- WHAT HOLDS OF THE CODE AS IT IS.  The damage is limited to the registrations the readers left behind: from any
point at which no reader exists under the boundary, nothing is registered any more (`susp = 0`: the next run
of the loop has used the registrations up, or there never were any) and the loop holds no task id
(`idsHeld = 0`: that run has finished), the boundary behaves as with the repair — whatever happens afterwards
short of a new reader (including further `bdrop`s), nothing is registered, no id is held, the task list is
nothing but the unresolved handles of earlier synchronous reads and never grows. -/
theorem C10_suspense_forgets_dropped_readers_partial (c : Cfg) (es es' : List Event)
    (hes : ∀ e ∈ es', e ≠ .bread ∧ e ≠ .attachS)
    (hn : (run c es).noReader = true) (h1 : (run c es).susp = 0) (h2 : (run c es).idsHeld = 0) :
    (run c (es ++ es')).susp = 0 ∧ (run c (es ++ es')).idsHeld = 0 ∧
    (run c (es ++ es')).pending = liveReaders (run c (es ++ es')).aws ∧
    (run c (es ++ es')).pending ≤ (run c es).pending := by
  have hrun : run c (es ++ es') = es'.foldl step (run c es) := by
    unfold run
    rw [List.foldl_append]
  have hq : SInv true (run c es) := (SInv.run c es).quiet (fun _ => ⟨h1, h2⟩)
  have hs := foldl_quiet _ es' hes hq hn
  obtain ⟨hn', hle⟩ := foldl_noReader false _ es' hes hn
  have hff : es'.foldl (stepF false) (run c es) = es'.foldl step (run c es) := by
    congr 1
    funext s e
    exact stepF_false s e
  rw [hff, ← hrun] at hn' hle
  rw [← hrun] at hs
  obtain ⟨a1, a2⟩ := hs.p4 rfl hn'
  have hp := hs.p1
  have hp0 := hq.p1
  unfold nLive at hp hp0
  exact ⟨a1, a2, by omega, by omega⟩

/-- ... and the registrations ARE used up by the next run: when the loop starts a fetch it takes them all
(`susp = 0` afterwards), and it gives the ids back when that fetch has returned; so with no reader left the
hypotheses of `…_partial` hold whenever the derived's task is back at `rx.next()` after a run -/
theorem C10_suspense_stale_ids_released_with_the_run (c : Cfg) (es : List Event)
    (hpc : (run c es).pc ≠ .fetching) : (run c es).idsHeld = 0 :=
  (SInv.run c es).p2 hpc

/-- a boundary nothing has ever read under waits for nothing (the code as it is, and with the repair) -/
theorem C10_suspense_idle_without_readers (c : Cfg) (es : List Event)
    (hes : ∀ e ∈ es, e ≠ .bread ∧ e ≠ .attachS) : (run c es).pending = 0 := by
  have hq : SInv true (init c) := (SInv.init c (f := true))
  have hs : SInv true (es.foldl step (init c)) := foldl_quiet _ es hes hq (by simp [init])
  obtain ⟨hn, hle⟩ := foldl_noReader false (init c) es hes (by simp [init])
  have hff : es.foldl (stepF false) (init c) = es.foldl step (init c) := by
    congr 1
    funext s e
    exact stepF_false s e
  rw [hff] at hn hle
  obtain ⟨_, h2⟩ := hs.p4 rfl hn
  have hp := hs.p1
  have h0 : liveReaders (init c).aws = 0 := by simp [init, liveReaders]
  unfold nLive at hp
  unfold run
  omega

/-! ## the version test -/

/-- `latest_version == this_version` can never fail: only the derived's own task increments `version`,
and it does so once per fetch it starts (fetches are serialised by the task's loop). -/
theorem C10_version_check_redundant (c : Cfg) (es : List Event) (h : (run c es).pc = .fetching) :
    (run c es).fetchVersion = (run c es).version :=
  ((Inv.run c es).dr.r6 h).2.1

/-! ## regression witnesses: what the code did before the repairs -/

/-- one source (0), an effect reading the derived and then a memo of the same source -/
def c10Cfg : Cfg := { srcs := [0], init := none, eff := .dm }

/-- first fetch loads (polls: derived, effect; `complete 0`; derived, effect), then `s := 1`
and the EFFECT's task is polled before the derived's task -/
def c10Events : List Event :=
  [.poll 0, .poll 0, .complete 0, .poll 0, .poll 0, .set 0 1, .poll 1, .poll 0]

/-- F-C10-1 (repaired): the effect's check used to consume the derived's `Dirty` state: settled, no
second fetch ever started, the value is the result for the OLD input.  Now the derived's task still
finds `Dirty`, refetches (second fetch on input 1) and settles on the new input. -/
theorem C10_dirty_stolen_witness :
    settled (runOld1 c10Cfg c10Events) = true ∧
    (runOld1 c10Cfg c10Events).nf = 1 ∧
    (runOld1 c10Cfg c10Events).src = [1] ∧
    (runOld1 c10Cfg c10Events).value = some (fetchFn [0]) ∧
    expected (runOld1 c10Cfg c10Events) = some (fetchFn [1]) ∧
    (runOld1 c10Cfg c10Events).stolen = true ∧
    (run c10Cfg c10Events).curInputs = [1] ∧ (run c10Cfg c10Events).nf = 2 ∧
    settled (run c10Cfg (c10Events ++ [.complete 1, .poll 0, .poll 0])) = true ∧
    (run c10Cfg (c10Events ++ [.complete 1, .poll 0, .poll 0])).value = some (fetchFn [1]) := by decide

/-- the full statement was false of the code before repair 1 -/
theorem C10_settles_on_latest_old1_false :
    ¬ ∀ (c : Cfg) (es : List Event), settled (runOld1 c es) = true →
        (runOld1 c es).loading = false ∧ (runOld1 c es).value = expected (runOld1 c es) := by
  intro h
  have w := C10_dirty_stolen_witness
  have := (h c10Cfg c10Events w.1).2
  rw [w.2.2.2.1, w.2.2.2.2.1] at this
  exact absurd this (by decide)

/-- one source (1) read through a memo; it is written (3) before the derived's task is polled at all -/
def c10MemoCfg : Cfg := { srcs := [1], viaMemo := true }

def c10MemoEvents : List Event := [.set 0 3, .poll 0, .complete 0, .complete 1, .poll 0]

/-- F-C10-2 (repaired): the task used to reuse the constructor's future (inputs 1) although its check had
just found the memo changed: one fetch, settled on `fetch(1)` with the source at 3.  Now the stale
future is dropped and a second fetch reads 3. -/
theorem C10_stale_initial_witness :
    settled (runOld2 c10MemoCfg c10MemoEvents) = true ∧
    (runOld2 c10MemoCfg c10MemoEvents).nf = 1 ∧
    (runOld2 c10MemoCfg c10MemoEvents).src = [3] ∧
    (runOld2 c10MemoCfg c10MemoEvents).value = some (fetchFn [1]) ∧
    expected (runOld2 c10MemoCfg c10MemoEvents) = some (fetchFn [3]) ∧
    settled (run c10MemoCfg c10MemoEvents) = true ∧
    (run c10MemoCfg c10MemoEvents).nf = 2 ∧
    (run c10MemoCfg c10MemoEvents).value = some (fetchFn [3]) := by decide

/-- the full statement was false of the code before repair 2 -/
theorem C10_settles_on_latest_old2_false :
    ¬ ∀ (c : Cfg) (es : List Event), settled (runOld2 c es) = true →
        (runOld2 c es).loading = false ∧ (runOld2 c es).value = expected (runOld2 c es) := by
  intro h
  have w := C10_stale_initial_witness
  have := (h c10MemoCfg c10MemoEvents w.1).2
  rw [w.2.2.2.1, w.2.2.2.2.1] at this
  exact absurd this (by decide)

/-- the first load has finished; a reader under the boundary reads the value and is disposed; the source is
written and the derived's task starts the reload -/
def c10DropEvents : List Event := [.poll 0, .complete 0, .poll 0, .bread, .poll 0]

def c10DropTail : List Event := [.set 0 1, .poll 0]

/-- F-C10-3 = F-C04-5 (KNOWN; `run` = the code as it is, `runF true` = with the proposed repair): the reload takes
the registration the disposed reader has left and holds a task id of the boundary until it finishes — the boundary
falls back although nothing below it reads the value any more (`staleSuspense`); an awaiter (`attachS`) leaves the
same registration; a reader disposed DURING a reload keeps the id until the reload finishes.  With the repair all
three end with their reader. -/
theorem C10_stale_registration_witness :
    (run {} (c10DropEvents ++ [.bdrop])).pending = 0 ∧
    (run {} (c10DropEvents ++ .bdrop :: c10DropTail)).pc = .fetching ∧
    (run {} (c10DropEvents ++ .bdrop :: c10DropTail)).pending = 1 ∧
    staleSuspense (run {} (c10DropEvents ++ .bdrop :: c10DropTail)) = true ∧
    oracle (run {} (c10DropEvents ++ .bdrop :: c10DropTail)) = some "suspense-stale" ∧
    (runF true {} (c10DropEvents ++ .bdrop :: c10DropTail)).pc = .fetching ∧
    (runF true {} (c10DropEvents ++ .bdrop :: c10DropTail)).pending = 0 ∧
    -- an awaiter instead of a synchronous read
    (run {} ([.poll 0, .complete 0, .poll 0, .attachS, .poll 0] ++ .bdrop :: c10DropTail)).pending = 1 ∧
    (runF true {} ([.poll 0, .complete 0, .poll 0, .attachS, .poll 0] ++ .bdrop :: c10DropTail)).pending = 0 ∧
    -- disposed while the reload holds the id
    (run {} (c10DropEvents ++ [.set 0 1, .poll 0] ++ .bdrop :: [])).pending = 1 ∧
    (runF true {} (c10DropEvents ++ [.set 0 1, .poll 0] ++ .bdrop :: [])).pending = 0 ∧
    -- the stale id goes when that reload has finished, and the next reload is not joined any more (`…_partial`)
    (run {} (c10DropEvents ++ .bdrop :: c10DropTail ++ [.complete 1, .poll 0])).pending = 0 ∧
    (run {} (c10DropEvents ++ .bdrop :: c10DropTail ++ [.complete 1, .poll 0, .set 0 2, .poll 0])).pc = .fetching ∧
    (run {} (c10DropEvents ++ .bdrop :: c10DropTail ++ [.complete 1, .poll 0, .set 0 2, .poll 0])).pending = 0 ∧
    -- control: the reader is still there — the boundary waits for the reload, with and without the repair
    (run {} (c10DropEvents ++ c10DropTail)).pending = 1 ∧
    (runF true {} (c10DropEvents ++ c10DropTail)).pending = 1 := by decide

/-- the full statement is false of the code as it is -/
theorem C10_suspense_forgets_dropped_readers_full_false : ¬ C10_suspense_forgets_dropped_readers_full := by
  intro h
  have := h {} c10DropEvents c10DropTail (by decide) C10_stale_registration_witness.1
  rw [C10_stale_registration_witness.2.2.1] at this
  exact absurd this (by decide)

/-- with repairs 1 and 2 switched on the parameterised chain IS the model: the code as it is (`f = false`,
`runF false = run`: `runF_false`) or with the proposed repair 3 (`f = true`) -/
theorem runV_repaired (f : Bool) (c : Cfg) (es : List Event) : runV true true f c es = runF f c es := by
  have hstep : ∀ (s : State) (e : Event), stepV true true f s e = stepF f s e := by
    intro s e
    cases e <;> try rfl
    rename_i j
    have hd : ∀ s, dIterV true s = dIter s := by
      intro s; simp [dIterV, dIter]
    have hdl : ∀ n s, dLoopV true n s = dLoop n s := by
      intro n
      induction n with
      | zero => intro s; rfl
      | succ n ih => intro s; simp [dLoopV, dLoop, hd, ih]
    have hea : ∀ l s, effAnyV true l s = effAny l s := by
      intro l
      induction l with
      | nil => intro s; rfl
      | cons x rest ih => intro s; cases x <;> simp [effAnyV, effAny, ih]
    have he : ∀ s, eIterV true s = eIter s := by
      intro s; simp [eIterV, eIter, effUpdateV, effUpdate, hea]
    have hel : ∀ n s, eLoopV true n s = eLoop n s := by
      intro n
      induction n with
      | zero => intro s; rfl
      | succ n ih => intro s; simp [eLoopV, eLoop, he, ih]
    simp only [stepV, stepF, step, pollNthV, pollNth, pollTask, pollE, pollDV, pollD, hdl, hel]
    split <;> simp_all
  unfold runV runF
  generalize init c = s
  induction es generalizing s with
  | nil => rfl
  | cons e es ih => simp [List.foldl_cons, hstep, ih]

/-! ## non-vacuity: concrete histories that satisfy the hypotheses (kernel-evaluated) -/

/-- two sources; two overlapping source writes while the first fetch is in flight; the first (now stale)
result arrives last; an awaiter attached before anything is ready; an effect reading the derived -/
def exCfg : Cfg := { srcs := [1, 2], init := none, eff := .d }

def exEvents : List Event :=
  [.poll 0, .poll 0,          -- derived's task reaches `fut.await` (fetch 0 on inputs 1,2); effect's first run
   .attach, .poll 0,          -- an awaiter parks
   .set 0 3, .set 1 4,        -- two writes during the fetch
   .complete 0, .poll 0,      -- the stale result arrives: stored, then refetch on (3,4)
   .poll 0, .poll 0,          -- effect sees the stale value; the awaiter parks again (loading is on)
   .complete 1, .poll 0,      -- the fresh result
   .poll 0, .poll 0]          -- effect; awaiter resumes

example :
    hasManual exEvents = false ∧
    settled (run exCfg exEvents) = true ∧
    (run exCfg exEvents).nf = 2 ∧ latestSrc exCfg exEvents = [3, 4] ∧
    (run exCfg exEvents).value = some (fetchFn [3, 4]) ∧ (run exCfg exEvents).loading = false ∧
    (run exCfg exEvents).aws.map (·.result) = [some (fetchFn [3, 4])] ∧
    (run exCfg exEvents).eLog.map (·.1) = [none, some (fetchFn [1, 2]), some (fetchFn [3, 4])] ∧
    readyList (run exCfg exEvents) = [] ∧ hasEffect exCfg.eff = true := by decide

/-- the stale value is visible to a synchronous read between the two completions (previous value,
not fabricated), while the loading indication is on -/
example :
    (run exCfg (exEvents.take 8)).value = some (fetchFn [1, 2]) ∧
    (run exCfg (exEvents.take 8)).loading = true ∧
    (run exCfg (exEvents.take 8)).pc = .fetching ∧
    (run exCfg (exEvents.take 6)).value = none := by decide

/-- a memo-reading effect polled AFTER the derived's task -/
example :
    settled (run c10Cfg [.poll 0, .poll 0, .complete 0, .poll 0, .poll 0, .set 0 1, .poll 0, .poll 0,
      .complete 1, .poll 0, .poll 0]) = true ∧
    (run c10Cfg [.poll 0, .poll 0, .complete 0, .poll 0, .poll 0, .set 0 1, .poll 0, .poll 0,
      .complete 1, .poll 0, .poll 0]).value = some (fetchFn [1]) := by decide

/-- manual writes: one during the fetch is overwritten by the fetch's result, one at rest stays -/
example :
    settled (run {} [.poll 0, .manualSet 50, .complete 0, .poll 0]) = true ∧
    (run {} [.poll 0, .manualSet 50, .complete 0, .poll 0]).value = some (fetchFn [0]) ∧
    settled (run {} [.poll 0, .complete 0, .poll 0, .manualSet 50]) = true ∧
    (run {} [.poll 0, .complete 0, .poll 0, .manualSet 50]).value = some 50 ∧
    expected (run {} [.poll 0, .complete 0, .poll 0, .manualSet 50]) = lastManualOf [.manualSet 50] := by
  decide

/-- a source write before the task's first poll drops the initial fetch (`already_dirty`) -/
example :
    (run {} [.set 0 5, .poll 0]).curInputs = [5] ∧ (run {} [.set 0 5, .poll 0]).nf = 2 ∧
    settled (run {} [.set 0 5, .poll 0, .complete 1, .poll 0]) = true ∧
    (run {} [.set 0 5, .poll 0, .complete 1, .poll 0]).value = some (fetchFn [5]) := by decide

/-- sources read through a memo: a write of the SAME value makes the memo recompute unchanged (no
refetch, the value is still the fetcher's result for the latest sources); a write of a new value during
the fetch refetches -/
example :
    (run c10MemoCfg [.poll 0, .complete 0, .poll 0, .set 0 1, .poll 0]).nf = 1 ∧
    settled (run c10MemoCfg [.poll 0, .complete 0, .poll 0, .set 0 1, .poll 0]) = true ∧
    (run c10MemoCfg [.poll 0, .complete 0, .poll 0, .set 0 1, .poll 0]).value = some (fetchFn [1]) ∧
    (run c10MemoCfg [.poll 0, .set 0 4, .complete 0, .poll 0]).nf = 2 ∧
    (run c10MemoCfg [.poll 0, .set 0 4, .complete 0, .poll 0]).curInputs = [4] ∧
    settled (run c10MemoCfg [.poll 0, .set 0 4, .complete 0, .poll 0, .complete 1, .poll 0]) = true ∧
    (run c10MemoCfg [.poll 0, .set 0 4, .complete 0, .poll 0, .complete 1, .poll 0]).value =
      some (fetchFn [4]) := by decide

/-- a `Resource` (`res`): `refetch()` and then a source write — the seeded "memo drops its subscription"
change leaves this on `fetch(0)`; a source write and `refetch()` in one turn give ONE refetch on the new
source -/
example :
    settled (run { srcs := [0], res := true }
      [.poll 0, .complete 0, .poll 0, .refetch, .poll 0, .complete 1, .poll 0, .set 0 2, .poll 0,
       .complete 2, .poll 0]) = true ∧
    (run { srcs := [0], res := true }
      [.poll 0, .complete 0, .poll 0, .refetch, .poll 0, .complete 1, .poll 0, .set 0 2, .poll 0,
       .complete 2, .poll 0]).value = some (fetchFn [2]) ∧
    (run { srcs := [0], res := true } [.poll 0, .complete 0, .poll 0, .set 0 2, .refetch, .poll 0]).nf = 2 ∧
    (run { srcs := [0], res := true } [.poll 0, .complete 0, .poll 0, .set 0 2, .refetch, .poll 0]).curInputs
      = [2] := by decide

/-- the boundary reads at the three phases: no value + loading (one handle + one task id held by the loop),
value + idle (the reader resolves at once, the registration covers the next reload), value + reloading
(the seeded "handle only when there is no value" change leaves this one at 0) -/
example :
    (run {} [.bread, .poll 0, .poll 0]).pending = 2 ∧
    suspCovered (run {} [.bread, .poll 0, .poll 0]) = true ∧
    (run {} [.bread, .poll 0, .poll 0, .complete 0, .poll 0, .poll 0]).pending = 0 ∧
    (run {} [.poll 0, .complete 0, .poll 0, .bread, .poll 0]).pending = 0 ∧
    (run {} [.poll 0, .complete 0, .poll 0, .bread, .poll 0, .set 0 1, .poll 0]).pending = 1 ∧
    suspCovered (run {} [.poll 0, .complete 0, .poll 0, .bread, .poll 0, .set 0 1, .poll 0]) = true ∧
    (run {} [.poll 0, .complete 0, .poll 0, .set 0 1, .poll 0, .bread, .poll 0]).pending = 1 ∧
    (run {} [.poll 0, .complete 0, .poll 0, .set 0 1, .poll 0, .bread, .poll 0]).value = some (fetchFn [0]) ∧
    readyList (run {} [.poll 0, .complete 0, .poll 0, .set 0 1, .poll 0, .bread, .poll 0]) = [] ∧
    suspCovered (run {} [.poll 0, .complete 0, .poll 0, .set 0 1, .poll 0, .bread, .poll 0]) = true := by
  decide

/-- a `OnceResource`: the boundary waits only while there is no value -/
example :
    (run { srcs := [3], once := true } [.bread, .poll 0, .poll 0]).pending = 1 ∧
    (run { srcs := [3], once := true } [.bread, .poll 0, .poll 0, .complete 0, .poll 0, .poll 0]).pending = 0 ∧
    (run { srcs := [3], once := true } [.poll 0, .complete 0, .poll 0, .bread]).pending = 0 ∧
    (run { srcs := [3], once := true } [.poll 0, .complete 0, .poll 0, .bread]).value = some (fetchFn [3]) := by
  decide

/-- a `LocalResource`: every fetch waits for its tick task first (`t0` for fetch 0, spawned before the
derived's own task; a tick task per later fetch); a result that arrives before the tick has fired is only
consumed after it -/
example :
    readyList (run { srcs := [1], isLocal := true } []) = [.t0, .d] ∧
    -- the derived's task polled first: waits for the tick; result arrives; still nothing to do until t0 fires
    readyList (run { srcs := [1], isLocal := true } [.poll 1, .complete 0]) = [.t0] ∧
    (run { srcs := [1], isLocal := true } [.poll 1, .complete 0]).value = none ∧
    settled (run { srcs := [1], isLocal := true } [.poll 1, .complete 0, .poll 0, .poll 0]) = true ∧
    (run { srcs := [1], isLocal := true } [.poll 1, .complete 0, .poll 0, .poll 0]).value = some (fetchFn [1]) ∧
    -- a refetch spawns a new tick task
    readyList (run { srcs := [1], isLocal := true } [.poll 1, .complete 0, .poll 0, .poll 0, .refetch, .poll 0])
      = [.a 0] ∧
    settled (run { srcs := [1], isLocal := true }
      [.poll 1, .complete 0, .poll 0, .poll 0, .set 0 5, .poll 0, .poll 0, .poll 0, .complete 1, .poll 0]) = true ∧
    (run { srcs := [1], isLocal := true }
      [.poll 1, .complete 0, .poll 0, .poll 0, .set 0 5, .poll 0, .poll 0, .poll 0, .complete 1, .poll 0]).value
      = some (fetchFn [5]) := by decide

/-- a fetcher with a conditional read AFTER its await: `flag = s0` is read when the future is created, `extra =
s1` only if the flag is non-zero, after the await.  First run (flag 0): `s1` is not read, not subscribed, a
write to it wakes nobody.  Flag := 1: second run reads `s1` for the first time, in its post-await part — from
then on a write to `s1` starts a refetch (round-3 seed 1 leaves the value on `fetch(1, 6)` here). -/
def dynCfg : Cfg := { srcs := [0, 5], fx := some { sync := [.src 0], post := [.ifFlag 1] } }

example :
    (run dynCfg [.poll 0, .complete 0, .poll 0]).value = some (fetchFn [0]) ∧
    (1 ∉ (run dynCfg [.poll 0, .complete 0, .poll 0]).dSub) ∧
    readyList (run dynCfg [.poll 0, .complete 0, .poll 0, .set 1 6]) = [] ∧
    settled (run dynCfg [.poll 0, .complete 0, .poll 0, .set 1 6]) = true ∧
    expected (run dynCfg [.poll 0, .complete 0, .poll 0, .set 1 6]) = some (fetchFn [0]) ∧
    (run dynCfg [.poll 0, .complete 0, .poll 0, .set 1 6, .set 0 1, .poll 0, .complete 1, .poll 0]).value
      = some (fetchFn [1, 6]) ∧
    (run dynCfg [.poll 0, .complete 0, .poll 0, .set 1 6, .set 0 1, .poll 0, .complete 1, .poll 0]).run.log
      = [(0, 1), (1, 6)] ∧
    (1 ∈ (run dynCfg [.poll 0, .complete 0, .poll 0, .set 1 6, .set 0 1, .poll 0, .complete 1, .poll 0]).dSub) ∧
    readyList (run dynCfg [.poll 0, .complete 0, .poll 0, .set 1 6, .set 0 1, .poll 0, .complete 1, .poll 0,
      .set 1 7]) = [.d] ∧
    settled (run dynCfg [.poll 0, .complete 0, .poll 0, .set 1 6, .set 0 1, .poll 0, .complete 1, .poll 0,
      .set 1 7, .poll 0, .complete 2, .poll 0]) = true ∧
    (run dynCfg [.poll 0, .complete 0, .poll 0, .set 1 6, .set 0 1, .poll 0, .complete 1, .poll 0,
      .set 1 7, .poll 0, .complete 2, .poll 0]).value = some (fetchFn [1, 7]) := by decide

/-- an indexed read (`inputs[idx.get()].get()`) made when the future is created: the index moves from source 1
to source 2 in the second run; the write to source 2 that follows is seen -/
example :
    (run { srcs := [0, 5, 6], fx := some { sync := [.src 0, .idx] } } [.poll 0, .complete 0, .poll 0]).run.log
      = [(0, 0), (1, 5)] ∧
    settled (run { srcs := [0, 5, 6], fx := some { sync := [.src 0, .idx] } }
      [.poll 0, .complete 0, .poll 0, .set 0 1, .poll 0, .complete 1, .poll 0, .set 2 9, .poll 0, .complete 2,
       .poll 0]) = true ∧
    (run { srcs := [0, 5, 6], fx := some { sync := [.src 0, .idx] } }
      [.poll 0, .complete 0, .poll 0, .set 0 1, .poll 0, .complete 1, .poll 0, .set 2 9, .poll 0, .complete 2,
       .poll 0]).value = some (fetchFn [1, 9]) := by decide

end Leptos.Async
