import LeptosModel.Model.Url
/-!
# C15 — URL, query and parameter decoding is total and happens exactly once

Property theorems about the code after the two repairs recorded in
`known_findings.txt` (`fixed:` lines).  `Bytes s` says every element is a byte;
`utf8Valid s` is the invariant of Rust's `String`/`&str`.

Totality: the model functions of the repaired code (`unescape`, `PMap.insert`,
`searchParams`, `pathParam`) are total Lean functions without an error case; the
panic of the old code is the `none` of `unescapeOld`/`searchParamsOld`, kept for the
regression witnesses at the end.
-/
namespace Leptos.Url

def Bytes (s : List Nat) : Prop := ∀ b ∈ s, b < 256

/-! ## percent-encoding lemmas -/

theorem hexVal_hexUp : ∀ n, n < 16 → hexVal (hexUp n) = some n := by decide

theorem tripleVal_hexUp (b : Nat) (hb : b < 256) (rest : List Nat) :
    tripleVal (hexUp (b / 16) :: hexUp (b % 16) :: rest) = some b := by
  have h1 := hexVal_hexUp (b / 16) (by omega)
  have h2 := hexVal_hexUp (b % 16) (by omega)
  simp only [tripleVal, h1, h2]
  congr 1; omega

theorem isAlnum_ne_pct {b : Nat} (h : isAlnum b = true) : b ≠ 37 := by
  intro hb; subst hb; simp [isAlnum] at h

theorem pctGo_escape (s : List Nat) (hs : Bytes s) : pctGo 0 (escape s) = s := by
  induction s with
  | nil => simp [escape, pctGo]
  | cons b bs ih =>
    have hb : b < 256 := hs b (by simp)
    have hbs : Bytes bs := fun x hx => hs x (by simp [hx])
    unfold escape
    split
    · next h =>
      have := isAlnum_ne_pct h
      simp [pctGo, this, ih hbs]
    · simp [pctGo, tripleVal_hexUp b hb, ih hbs]

theorem pctDecode_escape (s : List Nat) (hs : Bytes s) : pctDecode (escape s) = s :=
  pctGo_escape s hs

theorem pctGo_noTriple (s : List Nat) (h : hasPctTriple s = false) : pctGo 0 s = s := by
  induction s with
  | nil => simp [pctGo]
  | cons b bs ih =>
    simp only [hasPctTriple, Bool.or_eq_false_iff, Bool.and_eq_false_iff] at h
    obtain ⟨h1, h2⟩ := h
    unfold pctGo
    split
    · next hb =>
      have : tripleVal bs = none := by
        rcases h1 with h1 | h1
        · simp [hb] at h1
        · cases ht : tripleVal bs <;> simp [ht] at h1 ⊢
      simp [this, ih h2, hb]
    · simp [ih h2]

theorem lossyGo_of_valid (s : List Nat) : ∀ k, validGo k s = true → lossyGo k 0 s = s := by
  induction s with
  | nil => intro k _; cases k <;> simp [lossyGo]
  | cons b bs ih =>
    intro k h
    cases k with
    | succ k => simp [lossyGo, validGo] at h ⊢; exact ih k h
    | zero =>
      simp only [validGo] at h
      simp only [lossyGo]
      split at h
      · next n hn => simp [ih _ h]
      · simp at h

theorem utf8Lossy_of_valid (s : List Nat) (h : utf8Valid s = true) : utf8Lossy s = s :=
  lossyGo_of_valid s 0 h

/-- the characters `escape` can emit: ASCII alphanumerics and `%` -/
def safeByte (b : Nat) : Bool := isAlnum b || b = 37

theorem hexUp_alnum : ∀ n, n < 16 → isAlnum (hexUp n) = true := by decide

theorem escape_safe (s : List Nat) (hs : Bytes s) : ∀ b ∈ escape s, safeByte b = true := by
  induction s with
  | nil => simp [escape]
  | cons c cs ih =>
    have hc : c < 256 := hs c (by simp)
    have hcs : Bytes cs := fun x hx => hs x (by simp [hx])
    unfold escape
    split
    · next h =>
      intro b hb
      simp only [List.mem_cons] at hb
      rcases hb with rfl | hb
      · simp [safeByte, h]
      · exact ih hcs b hb
    · intro b hb
      simp only [List.mem_cons] at hb
      rcases hb with rfl | rfl | rfl | hb
      · simp [safeByte]
      · simp [safeByte, hexUp_alnum (c / 16) (by omega)]
      · simp [safeByte, hexUp_alnum (c % 16) (by omega)]
      · exact ih hcs b hb

theorem safe_ne {b : Nat} (h : safeByte b = true) : b ≠ 38 ∧ b ≠ 61 ∧ b ≠ 43 := by
  refine ⟨?_, ?_, ?_⟩ <;> (intro hb; subst hb; simp [safeByte, isAlnum] at h)

theorem plusToSpace_safe (s : List Nat) (h : ∀ b ∈ s, safeByte b = true) : plusToSpace s = s := by
  induction s with
  | nil => rfl
  | cons b bs ih =>
    have hb := (safe_ne (h b (by simp))).2.2
    have ih' := ih (fun x hx => h x (by simp [hx]))
    unfold plusToSpace at ih' ⊢
    simp [hb, ih']

theorem formDecode_escape (s : List Nat) (hb : Bytes s) (hv : utf8Valid s = true) :
    formDecode (escape s) = s := by
  unfold formDecode
  rw [plusToSpace_safe _ (escape_safe s hb), pctDecode_escape s hb, utf8Lossy_of_valid s hv]

/-! ## splitting lemmas -/

theorem splitOn_append (sep : Nat) (a rest : List Nat) (ha : ∀ b ∈ a, b ≠ sep) :
    splitOn sep (a ++ sep :: rest) = a :: splitOn sep rest := by
  induction a with
  | nil => simp [splitOn]
  | cons c cs ih =>
    have hc : c ≠ sep := ha c (by simp)
    have := ih (fun x hx => ha x (by simp [hx]))
    simp [splitOn, hc, this]

theorem splitOn_noSep (sep : Nat) (a : List Nat) (ha : ∀ b ∈ a, b ≠ sep) :
    splitOn sep a = [a] := by
  induction a with
  | nil => simp [splitOn]
  | cons c cs ih =>
    have hc : c ≠ sep := ha c (by simp)
    have := ih (fun x hx => ha x (by simp [hx]))
    simp [splitOn, hc, this]

theorem splitFirst_append (sep : Nat) (k v : List Nat) (hk : ∀ b ∈ k, b ≠ sep) :
    splitFirst sep (k ++ sep :: v) = (k, v) := by
  induction k with
  | nil => simp [splitFirst]
  | cons c cs ih =>
    have hc : c ≠ sep := hk c (by simp)
    have := ih (fun x hx => hk x (by simp [hx]))
    simp [splitFirst, hc, this]

/-! ## the query string of a list of pairs -/

/-- one `k=v&` piece as `to_query_string` writes it -/
def piece (kv : List Nat × List Nat) : List Nat := escape kv.1 ++ [61] ++ escape kv.2 ++ [38]

def PairOK (kv : List Nat × List Nat) : Prop :=
  Bytes kv.1 ∧ Bytes kv.2 ∧ utf8Valid kv.1 = true ∧ utf8Valid kv.2 = true

theorem piece_body_no_amp (kv : List Nat × List Nat) (h : PairOK kv) :
    ∀ b ∈ escape kv.1 ++ [61] ++ escape kv.2, b ≠ 38 := by
  intro b hb
  simp only [List.mem_append, List.mem_singleton] at hb
  rcases hb with (hb | hb) | hb
  · exact (safe_ne (escape_safe _ h.1 b hb)).1
  · omega
  · exact (safe_ne (escape_safe _ h.2.1 b hb)).1

theorem parsePiece (kv : List Nat × List Nat) (h : PairOK kv) :
    (let (k, v) := splitFirst 61 (escape kv.1 ++ [61] ++ escape kv.2); (formDecode k, formDecode v)) = kv := by
  have hk : ∀ b ∈ escape kv.1, b ≠ 61 := fun b hb => (safe_ne (escape_safe _ h.1 b hb)).2.1
  have : escape kv.1 ++ [61] ++ escape kv.2 = escape kv.1 ++ 61 :: escape kv.2 := by simp
  rw [this, splitFirst_append 61 _ _ hk]
  simp [formDecode_escape _ h.1 h.2.2.1, formDecode_escape _ h.2.1 h.2.2.2]

/-- parsing the concatenation of pieces (with or without the final `&`) gives the pairs back -/
theorem formParse_pieces (l : List (List Nat × List Nat)) (h : ∀ kv ∈ l, PairOK kv) :
    formParse (l.flatMap piece) = l ∧ formParse ((l.flatMap piece).dropLast) = l := by
  induction l with
  | nil => simp [formParse, splitOn]
  | cons kv rest ih =>
    have hkv := h kv (by simp)
    have hrest := ih (fun x hx => h x (by simp [hx]))
    have hbody := piece_body_no_amp kv hkv
    have hne : (escape kv.1 ++ [61] ++ escape kv.2).isEmpty = false := by simp
    have hp := parsePiece kv hkv
    have e1 : (kv :: rest).flatMap piece
        = (escape kv.1 ++ [61] ++ escape kv.2) ++ 38 :: rest.flatMap piece := by
      simp [List.flatMap_cons, piece]
    constructor
    · rw [e1]
      unfold formParse
      rw [splitOn_append 38 _ _ hbody]
      simp only [List.filter_cons, hne, Bool.not_false, ite_true, List.map_cons]
      have := hrest.1
      unfold formParse at this
      rw [this]
      congr 1
    · cases rest with
      | nil =>
        have e2 : ([kv].flatMap piece).dropLast = escape kv.1 ++ [61] ++ escape kv.2 := by
          have : [kv].flatMap piece = (escape kv.1 ++ [61] ++ escape kv.2) ++ [38] := by
            simp [List.flatMap_cons, piece]
          rw [this, List.dropLast_concat]
        rw [e2]
        unfold formParse
        rw [splitOn_noSep 38 _ hbody]
        simp only [List.filter_cons, hne, Bool.not_false, ite_true, List.filter_nil, List.map_cons, List.map_nil]
        congr 1
      | cons kv2 rest2 =>
        have hne2 : (kv2 :: rest2).flatMap piece ≠ [] := by
          simp [List.flatMap_cons, piece]
        rw [e1]
        have e3 : ((escape kv.1 ++ [61] ++ escape kv.2) ++ 38 :: (kv2 :: rest2).flatMap piece).dropLast
            = (escape kv.1 ++ [61] ++ escape kv.2) ++ 38 :: ((kv2 :: rest2).flatMap piece).dropLast := by
          rw [List.dropLast_append_of_ne_nil (by simp), List.dropLast_cons_of_ne_nil hne2]
        rw [e3]
        unfold formParse
        rw [splitOn_append 38 _ _ hbody]
        simp only [List.filter_cons, hne, Bool.not_false, ite_true, List.map_cons]
        have := hrest.2
        unfold formParse at this
        rw [this]
        congr 1

/-! ## regrouping -/

/-- the invariant of `ParamsMap`: keys pairwise distinct, every key has at least one value -/
def MapOK : PMap → Prop
  | [] => True
  | (k, vs) :: rest => vs ≠ [] ∧ (∀ kv ∈ rest, kv.1 ≠ k) ∧ MapOK rest

theorem push_append_new (m : PMap) (k v : List Nat) (h : ∀ kv ∈ m, kv.1 ≠ k) :
    m.push k v = m ++ [(k, [v])] := by
  induction m with
  | nil => rfl
  | cons e rest ih =>
    obtain ⟨k', vs⟩ := e
    have hk : k' ≠ k := h (k', vs) (by simp)
    simp [PMap.push, hk, ih (fun x hx => h x (by simp [hx]))]

theorem push_append_last (m : PMap) (k : List Nat) (vs : List (List Nat)) (v : List Nat)
    (h : ∀ kv ∈ m, kv.1 ≠ k) : (m ++ [(k, vs)]).push k v = m ++ [(k, vs ++ [v])] := by
  induction m with
  | nil => simp [PMap.push]
  | cons e rest ih =>
    obtain ⟨k', vs'⟩ := e
    have hk : k' ≠ k := h (k', vs') (by simp)
    simp [PMap.push, hk, ih (fun x hx => h x (by simp [hx]))]

theorem pushAll_values (acc : PMap) (k : List Nat) (done vs : List (List Nat)) (rest : List (List Nat × List Nat))
    (h : ∀ kv ∈ acc, kv.1 ≠ k) :
    PMap.pushAll (acc ++ [(k, done)]) (vs.map (fun v => (k, v)) ++ rest)
      = PMap.pushAll (acc ++ [(k, done ++ vs)]) rest := by
  induction vs generalizing done with
  | nil => simp
  | cons v vs ih =>
    simp only [List.map_cons, List.cons_append, PMap.pushAll]
    rw [push_append_last acc k done v h, ih (done ++ [v])]
    simp

theorem pushAll_mapPairs (m acc : PMap) (hm : MapOK m) (hacc : ∀ kv ∈ acc, ∀ kv' ∈ m, kv.1 ≠ kv'.1) :
    PMap.pushAll acc (mapPairs m) = acc ++ m := by
  induction m generalizing acc with
  | nil => simp [mapPairs, PMap.pushAll]
  | cons e rest ih =>
    obtain ⟨k, vs⟩ := e
    obtain ⟨hne, hdist, hrest⟩ := hm
    cases vs with
    | nil => exact absurd rfl hne
    | cons v vs =>
      have hk : ∀ kv ∈ acc, kv.1 ≠ k := fun kv hkv => hacc kv hkv (k, v :: vs) (by simp)
      have e1 : mapPairs ((k, v :: vs) :: rest) = (k, v) :: (vs.map (fun v => (k, v)) ++ mapPairs rest) := by
        simp [mapPairs, List.flatMap_cons]
      rw [e1]
      simp only [PMap.pushAll]
      rw [push_append_new acc k v hk, pushAll_values acc k [v] vs (mapPairs rest) hk]
      have := ih (acc ++ [(k, [v] ++ vs)]) hrest (by
        intro kv hkv kv' hkv'
        simp only [List.mem_append, List.mem_singleton] at hkv
        rcases hkv with hkv | rfl
        · exact hacc kv hkv kv' (by simp [hkv'])
        · exact fun heq => hdist kv' hkv' heq.symm)
      rw [this]; simp

/-! ## property theorems -/

/-- **escape ∘ unescape**: escaping any string and unescaping the result returns the
original string (every Rust string is `Bytes` and `utf8Valid`). -/
theorem C15_escape_unescape (s : List Nat) (hb : Bytes s) (hv : utf8Valid s = true) :
    unescape (escape s) = s := by
  simp [unescape, pctDecode_escape s hb, utf8Lossy_of_valid s hv]

/-- **query parameters are decoded exactly once**: for every raw query, looking a key up in
the parsed map returns exactly the once-decoded values of the pairs with that key, with
multiplicity and in order of appearance (`formParse` is one form-urlencoded decode). -/
theorem C15_query_once (q k : List Nat) :
    (searchParams q).getAll k =
      (if valuesOf (formParse q) k = [] then none else some (valuesOf (formParse q) k)) := by
  unfold searchParams
  -- general statement over an accumulator
  suffices h : ∀ (l : List (List Nat × List Nat)) (acc : PMap),
      (PMap.pushAll acc l).getAll k =
        match acc.getAll k with
        | some vs => some (vs ++ valuesOf l k)
        | none => if valuesOf l k = [] then none else some (valuesOf l k) by
    simpa [PMap.getAll] using h (formParse q) []
  intro l
  induction l with
  | nil => intro acc; cases h : acc.getAll k <;> simp [PMap.pushAll, valuesOf, h]
  | cons kv rest ih =>
    intro acc
    obtain ⟨k', v⟩ := kv
    simp only [PMap.pushAll]
    rw [ih]
    -- effect of one push on the lookup
    have hpush : ∀ (m : PMap), (m.push k' v).getAll k =
        if k' = k then some ((m.getAll k).getD [] ++ [v]) else m.getAll k := by
      intro m
      induction m with
      | nil => by_cases hk : k' = k <;> simp [PMap.push, PMap.getAll, hk]
      | cons e m ihm =>
        obtain ⟨k2, vs2⟩ := e
        by_cases hk : k' = k
        · subst hk
          simp only [ite_true] at ihm ⊢
          by_cases h2 : k2 = k'
          · subst h2; simp [PMap.push, PMap.getAll]
          · simp [PMap.push, PMap.getAll, h2, ihm]
        · simp only [hk, ite_false] at ihm ⊢
          by_cases h2 : k2 = k'
          · subst h2; simp [PMap.push, PMap.getAll, hk]
          · by_cases h3 : k2 = k
            · subst h3; simp [PMap.push, PMap.getAll, h2]
            · simp [PMap.push, PMap.getAll, h2, h3, ihm]
    rw [hpush]
    by_cases hk : k' = k
    · subst hk
      have hv : valuesOf ((k', v) :: rest) k' = v :: valuesOf rest k' := by
        simp [valuesOf, List.filterMap_cons]
      rw [hv]
      cases h : acc.getAll k' <;> simp
    · have hv : valuesOf ((k', v) :: rest) k = valuesOf rest k := by
        simp [valuesOf, List.filterMap_cons, hk]
      rw [hv]
      cases h : acc.getAll k <;> simp [hk]

/-- **path parameters are decoded exactly once**: a matched raw segment is stored as its
single percent-decoding (when that is UTF-8; otherwise the offending bytes are replaced by
U+FFFD — in neither case is there a panic or a second decode). -/
theorem C15_path_param_once (seg : List Nat) (h : utf8Valid (pctDecode seg) = true) :
    pathParam seg = pctDecode seg := by
  simp [pathParam, unescape, utf8Lossy_of_valid _ h]

theorem C15_path_param_lossy (seg : List Nat) : pathParam seg = utf8Lossy (pctDecode seg) := rfl

/-- **route parameters under nested routes are decoded exactly once**: what `use_params_map()` returns
below `<Routes>`/`<ParentRoute>` (the merged map of all matched routes) is, for every matched raw segment,
its single lossy percent-decoding — for any nesting depth. -/
theorem C15_nested_params_once (segs : List (List Nat)) :
    nestedParams segs = segs.map fun seg => utf8Lossy (pctDecode seg) := rfl

theorem C15_nested_params_eq_flat (segs : List (List Nat)) :
    nestedParams segs = segs.map pathParam := rfl

theorem collect_go (acc : PMap) (pairs : List (List Nat × List Nat)) :
    pairs.foldl (fun m kv => m.insert kv.1 kv.2) acc
      = PMap.pushAll acc (pairs.map fun kv => (kv.1, unescape kv.2)) := by
  induction pairs generalizing acc with
  | nil => simp [PMap.pushAll]
  | cons kv rest ih =>
    simp only [List.foldl_cons, List.map_cons, PMap.pushAll]
    rw [ih]
    rfl

/-- **collecting pairs (`FromIterator`) decodes every value exactly once and groups a repeated key with its
first occurrence, wherever it repeats**: the collected map is what pushing the once-decoded pairs in order gives
(the same grouping function the query theorems are about). -/
theorem C15_collect_once (pairs : List (List Nat × List Nat)) :
    PMap.collect pairs = PMap.pushAll [] (pairs.map fun kv => (kv.1, utf8Lossy (pctDecode kv.2))) := by
  simpa [PMap.collect, unescape] using collect_go [] pairs

/-- **query round-trip**: a parameter map (any keys and values that are Rust strings) written
with `to_query_string` and parsed back is the same map — keys, values, multiplicity, order. -/
theorem C15_query_roundtrip (m : PMap) (hm : MapOK m)
    (hs : ∀ kv ∈ mapPairs m, PairOK kv) :
    searchParams ((toQueryString m).drop 1) = m := by
  cases m with
  | nil => simp [toQueryString, searchParams, formParse, splitOn, PMap.pushAll]
  | cons e rest =>
    have hflat : ((e :: rest).flatMap fun kvs => kvs.2.flatMap fun v => escape kvs.1 ++ [61] ++ escape v ++ [38])
        = (mapPairs (e :: rest)).flatMap piece := by
      simp only [mapPairs, List.flatMap_assoc, List.flatMap_map, piece]
    have hq : (toQueryString (e :: rest)).drop 1 = ((mapPairs (e :: rest)).flatMap piece).dropLast := by
      simp only [toQueryString, List.isEmpty_cons, Bool.false_eq_true, ite_false, List.drop_succ_cons, List.drop_zero]
      rw [← hflat]
    rw [hq]
    unfold searchParams
    rw [(formParse_pieces _ hs).2]
    simpa using pushAll_mapPairs (e :: rest) [] hm (by simp)

/-! ## regression witnesses: what the code did before the repairs -/

/-- F-C15-1 (repaired): `x=%2541` used to read back as `"A"`; one decode gives `%41` -/
theorem C15_double_decode_witness :
    searchParamsOld [120, 61, 37, 50, 53, 52, 49] = some [([120], [[65]])] ∧
    searchParams [120, 61, 37, 50, 53, 52, 49] = [([120], [[37, 52, 49]])] := by
  decide

/-- F-C15-2 (repaired): `x=%25FF` used to panic in the second decode -/
theorem C15_panic_witness :
    searchParamsOld [120, 61, 37, 50, 53, 70, 70] = none ∧
    searchParams [120, 61, 37, 50, 53, 70, 70] = [([120], [[37, 70, 70]])] := by decide

/-- F-C15-3 (repaired): a raw path segment `%FF` used to panic; now it is U+FFFD -/
theorem C15_path_param_panic_witness :
    unescapeOld [37, 70, 70] = none ∧ pathParam [37, 70, 70] = [0xEF, 0xBF, 0xBD] := by decide

/-- F-C15-4 (repaired by 36ea226): under `<Routes>` the merged parameter map used to be re-collected through
`ParamsMap::insert`; `/org/a%2541/user/100%2525` read org = "aA", id = "100%" -/
theorem C15_nested_double_decode_witness :
    nestedParamsOld [[97, 37, 50, 53, 52, 49], [49, 48, 48, 37, 50, 53, 50, 53]] = [[97, 65], [49, 48, 48, 37]] ∧
    nestedParams [[97, 37, 50, 53, 52, 49], [49, 48, 48, 37, 50, 53, 50, 53]]
      = [[97, 37, 52, 49], [49, 48, 48, 37, 50, 53]] := by decide

/-! ## non-vacuity -/

example : Bytes [60, 195, 169, 37] ∧ utf8Valid [60, 195, 169, 37] = true := by
  constructor
  · intro b hb; simp at hb; omega
  · decide

/-- a map with a repeated key, a `%41` value, `&`, `=` and a multi-byte character -/
example :
    let m : PMap := [([107, 38], [[37, 52, 49], [61]]), ([195, 169], [[]])]
    MapOK m ∧ (∀ kv ∈ mapPairs m, PairOK kv) ∧ searchParams ((toQueryString m).drop 1) = m := by
  refine ⟨?_, ?_, by decide⟩
  · simp [MapOK]
  · intro kv hkv
    simp [mapPairs] at hkv
    rcases hkv with rfl | rfl | rfl <;>
      (refine ⟨?_, ?_, by decide, by decide⟩ <;> (intro b hb; simp at hb; try omega))

end Leptos.Url
