import LeptosModel.Model.Url
/-!
# C15 — URL, query and parameter decoding is total and happens exactly once

Property theorems.  `Bytes s` says every element is a byte; `utf8Valid s` is the
invariant of Rust's `String`/`&str`.
-/
namespace Leptos.Url

def Bytes (s : List Nat) : Prop := ∀ b ∈ s, b < 256

/-! ## helper lemmas -/

theorem hexVal_hexUp : ∀ n, n < 16 → hexVal (hexUp n) = some n := by decide

theorem tripleVal_hexUp (b : Nat) (hb : b < 256) (rest : List Nat) :
    tripleVal (hexUp (b / 16) :: hexUp (b % 16) :: rest) = some b := by
  have h1 := hexVal_hexUp (b / 16) (by omega)
  have h2 := hexVal_hexUp (b % 16) (by omega)
  simp only [tripleVal, h1, h2]
  congr 1; omega

theorem isAlnum_ne_pct {b : Nat} (h : isAlnum b = true) : b ≠ 37 := by
  intro hb; subst hb; simp [isAlnum] at h

theorem pctGo_escape (s : List Nat) (hs : Bytes s) : pctGo 0 (escape s) = s := by
  induction s with
  | nil => simp [escape, pctGo]
  | cons b bs ih =>
    have hb : b < 256 := hs b (by simp)
    have hbs : Bytes bs := fun x hx => hs x (by simp [hx])
    unfold escape
    split
    · next h =>
      have := isAlnum_ne_pct h
      simp [pctGo, this, ih hbs]
    · simp [pctGo, tripleVal_hexUp b hb, ih hbs]

theorem pctDecode_escape (s : List Nat) (hs : Bytes s) : pctDecode (escape s) = s :=
  pctGo_escape s hs

theorem pctGo_noTriple (s : List Nat) (h : hasPctTriple s = false) : pctGo 0 s = s := by
  induction s with
  | nil => simp [pctGo]
  | cons b bs ih =>
    simp only [hasPctTriple, Bool.or_eq_false_iff, Bool.and_eq_false_iff] at h
    obtain ⟨h1, h2⟩ := h
    unfold pctGo
    split
    · next hb =>
      have : tripleVal bs = none := by
        rcases h1 with h1 | h1
        · simp [hb] at h1
        · cases ht : tripleVal bs <;> simp [ht] at h1 ⊢
      simp [this, ih h2, hb]
    · simp [ih h2]

theorem lossyGo_of_valid (s : List Nat) : ∀ k, validGo k s = true → lossyGo k 0 s = s := by
  induction s with
  | nil => intro k _; cases k <;> simp [lossyGo]
  | cons b bs ih =>
    intro k h
    cases k with
    | succ k => simp [lossyGo, validGo] at h ⊢; exact ih k h
    | zero =>
      simp only [validGo] at h
      simp only [lossyGo]
      split at h
      · next n hn => simp [ih _ h]
      · simp at h

theorem utf8Lossy_of_valid (s : List Nat) (h : utf8Valid s = true) : utf8Lossy s = s :=
  lossyGo_of_valid s 0 h

theorem unescape_noTriple (v : List Nat) (hv : utf8Valid v = true)
    (hn : hasPctTriple v = false) : unescape v = some v := by
  simp [unescape, pctDecode, pctGo_noTriple v hn, hv]

theorem insertAll_eq_pushAll (l : List (List Nat × List Nat)) :
    ∀ m : PMap, (∀ kv ∈ l, utf8Valid kv.2 = true ∧ hasPctTriple kv.2 = false) →
      PMap.insertAll m l = some (PMap.pushAll m l) := by
  induction l with
  | nil => intro m _; simp [PMap.insertAll, PMap.pushAll]
  | cons kv rest ih =>
    intro m h
    obtain ⟨k, v⟩ := kv
    have hkv := h (k, v) (by simp)
    simp only [PMap.insertAll, PMap.insert, unescape_noTriple v hkv.1 hkv.2, PMap.pushAll]
    exact ih _ (fun x hx => h x (by simp [hx]))

/-! ## property theorems -/

/-- **escape ∘ unescape**: escaping any string and unescaping the result returns
the original string (every Rust string is `Bytes` and `utf8Valid`). -/
theorem C15_escape_unescape (s : List Nat) (hb : Bytes s) (hv : utf8Valid s = true) :
    unescape (escape s) = some s := by
  simp [unescape, pctDecode_escape s hb, hv]

/-- **exactly once, full statement** (what the property asks of query values):
the map the application reads is the once-decoded pair list, for every query. -/
def C15_once_full : Prop := ∀ q : List Nat, searchParams q = some (searchParamsSpec q)

/-- the full statement is false of the code: `x=%2541` reads back as `"A"`,
although one decode of `%2541` is `%41` (F-C15-1) -/
theorem C15_double_decode_witness :
    searchParams [120, 61, 37, 50, 53, 52, 49] = some [([120], [[65]])] ∧
    searchParamsSpec [120, 61, 37, 50, 53, 52, 49] = [([120], [[37, 52, 49]])] := by
  decide

theorem C15_once_full_false : ¬ C15_once_full := by
  intro h
  have := h [120, 61, 37, 50, 53, 52, 49]
  revert this; decide

/-- **totality, full statement**: parsing never panics. -/
def C15_total_full : Prop := ∀ q : List Nat, (searchParams q).isSome = true

/-- false of the code: `x=%25FF` panics in the second decode (F-C15-2) -/
theorem C15_panic_witness : searchParams [120, 61, 37, 50, 53, 70, 70] = none := by decide

theorem C15_total_full_false : ¬ C15_total_full := by
  intro h
  have := h [120, 61, 37, 50, 53, 70, 70]
  revert this; decide

/-- a raw path segment that decodes to invalid UTF-8 panics as well (F-C15-3) -/
theorem C15_path_param_panic_witness : pathParam [37, 70, 70] = none := by decide

/-- **once + total, partial**: for every query whose once-decoded values contain
no further `%HH` triple (the known-finding class is the negation of exactly this
decidable hypothesis) the code neither panics nor decodes twice.
`utf8Valid` of the values is the `String` invariant of what `query_pairs` returns. -/
theorem C15_once_total_partial (q : List Nat)
    (h : ∀ kv ∈ formParse q, utf8Valid kv.2 = true ∧ hasPctTriple kv.2 = false) :
    searchParams q = some (searchParamsSpec q) :=
  insertAll_eq_pushAll (formParse q) [] h

/-- **path parameters are decoded exactly once** and never panic when the decoded
bytes are UTF-8 (for a raw segment `seg`, the value read is `pctDecode seg`). -/
theorem C15_path_param_once (seg : List Nat) (h : utf8Valid (pctDecode seg) = true) :
    pathParam seg = some (pctDecode seg) := by
  simp [pathParam, unescape, h]

/-- a stored value that is read back through `insert` is unchanged iff … (the
direction used by the round-trip): values without `%HH` survive `insert`. -/
theorem C15_insert_noTriple (m : PMap) (k v : List Nat) (hv : utf8Valid v = true)
    (hn : hasPctTriple v = false) : m.insert k v = some (m.push k v) := by
  simp [PMap.insert, unescape_noTriple v hv hn]

/-! ## non-vacuity -/

example : Bytes [60, 195, 169, 37] ∧ utf8Valid [60, 195, 169, 37] = true := by
  constructor
  · intro b hb; simp at hb; omega
  · decide

example : ∀ kv ∈ formParse [97, 61, 37, 52, 49, 38, 98, 61, 43],
    utf8Valid kv.2 = true ∧ hasPctTriple kv.2 = false := by decide

example : searchParams [97, 61, 37, 52, 49, 38, 98, 61, 43] = some [([97], [[65]]), ([98], [[32]])] := by
  decide

end Leptos.Url
