import LeptosModel.Model.ServerFn
import LeptosModel.Proofs.ServerFnErr
import LeptosModel.Proofs.ServerFnB64
import LeptosModel.Proofs.ServerFnForm
import LeptosModel.Proofs.ServerFnUtf8
import LeptosModel.Proofs.ServerFnStream
/-!
# C13 — calling a server function remotely equals calling it directly

Property theorems over `Model/ServerFn`.  The error kinds are those of the table extracted from
server_fn/src/error.rs (`Gen/ErrorKinds.lean`); messages, byte strings, queries, codecs, function bodies,
statuses and requests are universally quantified.
-/
namespace Leptos.ServerFn
open Leptos Leptos.Gen.ErrorKinds

/-! ## the `Kind|msg` wire format -/

/-- **Error round trip (text level)**: for every variant of the extracted table and *every* message —
separators, newlines, any scalar — decoding the encoding returns the same error.  For the custom variant
the hypothesis is the stated `Display`/`FromStr` round trip of the custom type on that value. -/
theorem C13_error_roundtrip (cu : Custom) (e : SErr)
    (hk : e.kind ∈ variants.map (·.1))
    (hc : isCustomKind e.kind = true → cu.canon e.msg = some e.msg) :
    decodeErr cu (encodeErr e) = .ok e := by
  rw [← table_covers_enum.1] at hk
  obtain ⟨vp, hmem, hvp⟩ := List.mem_map.mp hk
  obtain ⟨henc, hsep, hdec⟩ := table_encode_decode vp hmem
  obtain ⟨kind, msg⟩ := e
  simp only at hvp hc
  subst hvp
  simp only [encodeErr, henc, decodeErr, splitOnce_append separator vp.2 msg hsep, hdec]
  cases hcu : isCustomKind vp.1 with
  | false => rfl
  | true => simp [hc hcu]

/-- **Error round trip (wire level)**: `E::de(e.ser()) == e` over the UTF-8 bytes. -/
theorem C13_error_roundtrip_bytes (cu : Custom) (e : SErr)
    (hk : e.kind ∈ variants.map (·.1))
    (hc : isCustomKind e.kind = true → cu.canon e.msg = some e.msg) :
    de cu (ser e) = e := by
  simp [de, ser, fromUtf8_utf8Encode, C13_error_roundtrip cu e hk hc]

/-- `NoCustomError` satisfies the custom-type hypothesis on its only value -/
theorem C13_noCustomError_law : noCustomError.canon "Unit Type Displayed".toList = some "Unit Type Displayed".toList := rfl

/-- the error codec of `ServerFnError<E>` is lawful on every declared value (what the pipeline theorem assumes) -/
def SErr.WellFormed (cu : Custom) (e : SErr) : Prop :=
  e.kind ∈ variants.map (·.1) ∧ (isCustomKind e.kind = true → cu.canon e.msg = some e.msg)

theorem C13_sfeCodec_lawful (cu : Custom) (e : SErr) (h : e.WellFormed cu) :
    (sfeCodec cu).de ((sfeCodec cu).ser e) = e :=
  C13_error_roundtrip_bytes cu e h.1 h.2

/-! ## decoders are total: every failure is a value of the declared error type -/

theorem decodeErr_kind (cu : Custom) (s : Str) (e : SErr) (h : decodeErr cu s = .ok e) :
    e.kind ∈ variants.map (·.1) := by
  unfold decodeErr at h
  split at h
  · cases h
  · next ty data _ =>
    split at h
    · next variant ha =>
      have := (table_covers_enum.2 _ (assoc_mem ty decodeArms _ ha))
      cases h; exact this
    · next variant ha =>
      have := (table_covers_enum.2 _ (assoc_mem ty decodeArms _ ha))
      split at h
      · cases h; exact this
      · cases h
    · cases h

theorem fromSfe_deserialization (m : Str) : fromSfe deserializationKind m = ⟨deserializationKind, m⟩ := by
  unfold fromSfe
  rw [if_neg deserialization_declared.2]

theorem fromSfe_deserialization_kind (m : Str) : (fromSfe deserializationKind m).kind = deserializationKind := by
  rw [fromSfe_deserialization]

/-- **Totality of `de`**: on every byte string — ill-formed UTF-8, no separator, unknown kind, unparsable
custom payload — the result is an error value whose variant is one of the declared enum. -/
theorem C13_decode_total (cu : Custom) (b : Bytes) : (de cu b).kind ∈ variants.map (·.1) := by
  unfold de
  split
  · rw [fromSfe_deserialization_kind]; exact deserialization_declared.1
  · next s _ =>
    split
    · next e he => exact decodeErr_kind cu s e he
    · rw [fromSfe_deserialization_kind]; exact deserialization_declared.1

/-- the three fall-backs of `decode`, exactly as the code words them -/
theorem C13_decode_fallbacks (cu : Custom) (s : Str) :
    (splitOnce separator s = none →
      decodeErr cu s = .error ("Invalid format: missing delimiter in ".toList ++ debugStr s)) ∧
    (∀ ty data, splitOnce separator s = some (ty, data) → assoc ty decodeArms = none →
      decodeErr cu s = .error ("Unknown error type: ".toList ++ ty)) ∧
    (∀ ty data v, splitOnce separator s = some (ty, data) → assoc ty decodeArms = some (v, true) →
      cu.canon data = none → decodeErr cu s = .error ("Failed to parse CustErr from ".toList ++ debugStr data)) := by
  refine ⟨?_, ?_, ?_⟩
  · intro h; simp [decodeErr, h]
  · intro ty data h1 h2; simp [decodeErr, h1, h2]
  · intro ty data v h1 h2 h3; simp [decodeErr, h1, h2, h3]

/-- every failure of `de` is reported as `Deserialization(msg)`: the result is either a decoded error or
`Deserialization` carrying the decoder's message -/
theorem C13_de_cases (cu : Custom) (b : Bytes) :
    (∃ s e, fromUtf8 b = .ok s ∧ decodeErr cu s = .ok e ∧ de cu b = e) ∨
    (∃ m, de cu b = ⟨deserializationKind, m⟩) := by
  unfold de
  split
  · right; exact ⟨_, fromSfe_deserialization _⟩
  · next s hs =>
    split
    · next e he => left; exact ⟨s, e, hs, he, rfl⟩
    · right; exact ⟨_, fromSfe_deserialization _⟩

/-- the URL form is total as well -/
theorem C13_decode_err_url_total (cu : Custom) (v : Bytes) : (decodeErrUrl cu v).kind ∈ variants.map (·.1) := by
  unfold decodeErrUrl
  split
  · rw [fromSfe_deserialization_kind]; exact deserialization_declared.1
  · exact C13_decode_total cu _

/-! ## the URL-embedded form -/

/-- base64url decode ∘ encode = id over all byte strings (induction in `Proofs/ServerFnB64`) -/
theorem C13_b64_roundtrip (bs : Bytes) (hb : IsBytes bs) : b64Decode (b64Encode bs) = .ok bs :=
  b64Decode_encode bs hb

/-- the pairs written by `append_pair` parse back, after any earlier query -/
theorem C13_pairs_roundtrip (q : Bytes) (kvs : List (Bytes × Bytes))
    (h : ∀ kv ∈ kvs, IsBytes kv.1 ∧ IsBytes kv.2 ∧ Url.utf8Valid kv.1 = true ∧ Url.utf8Valid kv.2 = true) :
    Url.formParse (serializePairs q kvs) = Url.formParse q ++ kvs :=
  formParse_serializePairs kvs h q

theorem pathKey_props : IsBytes pathKey ∧ Url.utf8Valid pathKey = true ∧ IsBytes errKey ∧
    Url.utf8Valid errKey = true ∧ pathKey ≠ errKey := by unfold IsBytes; decide

/-- **URL round trip**: for every earlier query `q` (stale `__err`/`__path` pairs included), every server
function path and every well-formed error, the query written by `to_url` yields, through
`query_pairs` + `get_str` + `decode_err`, the same error and the same path. -/
theorem C13_url_error_roundtrip (cu : Custom) (e : SErr) (q : Bytes) (path : Str) (h : e.WellFormed cu) :
    let query := appendPair (appendPair q pathKey (utf8Encode path)) errKey (b64Encode (ser e))
    (queryGetLast errKey (Url.formParse query)).map (decodeErrUrl cu) = some e ∧
    queryGetLast pathKey (Url.formParse query) = some (utf8Encode path) := by
  obtain ⟨pk1, pk2, ek1, ek2, hne⟩ := pathKey_props
  have hser : IsBytes (ser e) := utf8Encode_bytes _
  have hascii := b64Encode_ascii (ser e) hser
  have hb64 : IsBytes (b64Encode (ser e)) := fun x hx => by have := hascii x hx; omega
  have vb64 : Url.utf8Valid (b64Encode (ser e)) = true := validGo_ascii _ hascii
  have hp : IsBytes (utf8Encode path) := utf8Encode_bytes _
  have vp : Url.utf8Valid (utf8Encode path) = true := utf8Valid_utf8Encode _
  simp only
  rw [formParse_appendPair _ errKey _ ek1 hb64 ek2 vb64, formParse_appendPair q pathKey _ pk1 hp pk2 vp]
  constructor
  · rw [queryGetLast_append_hit]
    simp [decodeErrUrl, b64Decode_encode (ser e) hser, C13_error_roundtrip_bytes cu e h.1 h.2]
  · rw [queryGetLast_append_miss pathKey errKey _ _ (fun h => hne h.symm), queryGetLast_append_hit]

/-- **URL round trip at the level of the whole URL**: for every absolute base URL — with or without
query, fragment, stale error pairs — `to_url` succeeds, keeps everything before the query and the fragment,
and the error and path read back from the result are the ones that were written. -/
theorem C13_to_url_roundtrip (cu : Custom) (e : SErr) (base : Bytes) (path : Str) (h : e.WellFormed cu)
    (hs : hasScheme base = true) :
    ∃ u, toUrl base (utf8Encode path) (ser e) = some u ∧
      (queryGetLast errKey (Url.formParse ((splitUrl u).query.getD []))).map (decodeErrUrl cu) = some e ∧
      queryGetLast pathKey (Url.formParse ((splitUrl u).query.getD [])) = some (utf8Encode path) ∧
      (splitUrl u).pre = (splitUrl base).pre ∧ (splitUrl u).frag = (splitUrl base).frag := by
  obtain ⟨hpre, hq⟩ := splitUrl_clean base
  have hser : IsBytes (ser e) := utf8Encode_bytes _
  have hascii := b64Encode_ascii (ser e) hser
  have hb64 : IsBytes (b64Encode (ser e)) := fun x hx => by have := hascii x hx; omega
  have hp : IsBytes (utf8Encode path) := utf8Encode_bytes _
  obtain ⟨pk1, _, ek1, _, _⟩ := pathKey_props
  have hq1 := appendPair_no_hash _ pathKey (utf8Encode path) pk1 hp hq
  have hq2 := appendPair_no_hash _ errKey (b64Encode (ser e)) ek1 hb64 hq1
  have hsplit := splitUrl_joinUrl (splitUrl base).pre _ (splitUrl base).frag hpre hq2
  have hrt := C13_url_error_roundtrip cu e ((splitUrl base).query.getD []) path h
  simp only at hrt
  refine ⟨joinUrl ⟨(splitUrl base).pre, some (appendPair (appendPair ((splitUrl base).query.getD []) pathKey
    (utf8Encode path)) errKey (b64Encode (ser e))), (splitUrl base).frag⟩, ?_, ?_⟩
  · simp only [toUrl, hs, if_true]
  · rw [hsplit]
    exact ⟨hrt.1, hrt.2, rfl, rfl⟩

/-- relative references are refused by `Url::parse`: `to_url` returns an error, nothing is written -/
theorem C13_to_url_relative (base path errSer : Bytes) (hs : hasScheme base = false) :
    toUrl base path errSer = none := by
  simp [toUrl, hs]

/-- `decode_err` undoes `URL_SAFE.encode(e.ser())` -/
theorem C13_decode_err_url_roundtrip (cu : Custom) (e : SErr) (h : e.WellFormed cu) :
    decodeErrUrl cu (b64Encode (ser e)) = e := by
  simp [decodeErrUrl, b64Decode_encode (ser e) (utf8Encode_bytes _), C13_error_roundtrip_bytes cu e h.1 h.2]

theorem queryGetLast_filter_none (k : Bytes) (p : Bytes × Bytes → Bool) (hp : ∀ kv, p kv = true → kv.1 ≠ k) :
    ∀ l : List (Bytes × Bytes), queryGetLast k (l.filter p) = none := by
  intro l
  induction l with
  | nil => simp [queryGetLast]
  | cons kv rest ih =>
    rw [List.filter_cons]
    by_cases hk : p kv = true
    · obtain ⟨k', v'⟩ := kv
      have : k' ≠ k := hp _ hk
      simp [hk, queryGetLast, ih, this]
    · simp [hk, ih]

/-- `strip_error_info` at the level of the query: what is parsed afterwards is what was parsed before
minus the two error keys (`h`: the `String` invariant of what `query_pairs` returns). -/
theorem C13_strip_removes_error_info (q : Bytes)
    (h : ∀ kv ∈ Url.formParse q, IsBytes kv.1 ∧ IsBytes kv.2 ∧ Url.utf8Valid kv.1 = true ∧ Url.utf8Valid kv.2 = true) :
    let kept := (Url.formParse q).filter fun kv => kv.1 ≠ pathKey ∧ kv.1 ≠ errKey
    Url.formParse (serializePairs [] kept) = kept ∧
    queryGetLast errKey kept = none ∧ queryGetLast pathKey kept = none := by
  simp only
  refine ⟨?_, ?_, ?_⟩
  · have := formParse_serializePairs ((Url.formParse q).filter fun kv => kv.1 ≠ pathKey ∧ kv.1 ≠ errKey)
      (fun kv hkv => h kv (List.mem_filter.mp hkv).1) []
    simpa [Url.formParse, Url.splitOn] using this
  · exact queryGetLast_filter_none errKey _ (fun kv hkv => by simp at hkv; exact hkv.2) _
  · exact queryGetLast_filter_none pathKey _ (fun kv hkv => by simp at hkv; exact hkv.1) _

/-! ## the pipeline -/

def Codec.Lawful {α : Type} (c : Codec α) : Prop := ∀ a, ∃ b, c.enc a = .ok b ∧ c.dec b = .ok a

def ErrCodec.Lawful {E : Type} (ec : ErrCodec E) : Prop := ∀ e, ec.de (ec.ser e) = e

/-- an encoding whose server half reads the body as a `String` needs UTF-8 output from the codec
(true of the URL encodings: `serde_qs::to_string` returns a `String`) -/
def TextSafe {α : Type} (ie : InEnc) (c : Codec α) : Prop :=
  ie.serverSlot = .bodyText → ∀ a b, c.enc a = .ok b → utf8ErrGo 0 0 b = none

theorem serverData_intoReq {E : Type} (ie : InEnc) (ec : ErrCodec E) (data : Bytes)
    (hs : ie.slotsAgree = true) (ht : ie.serverSlot = .bodyText → utf8ErrGo 0 0 data = none) :
    serverData ie ec (intoReq ie data) = .ok data := by
  unfold InEnc.slotsAgree at hs
  unfold serverData intoReq
  cases hc : ie.clientSlot <;> cases hv : ie.serverSlot <;> simp [hc, hv] at hs ⊢
  all_goals first | rfl | simp [ht hv]

/-- **Remote = direct, partial**: for every input encoding whose two halves agree on where the arguments
travel and on the method, all lawful argument/result codecs, every lawful error codec, every function body
and every argument, the call through client, transport and server returns exactly what the body returns —
`Ok` and `Err` alike. -/
theorem C13_pipeline_refines_direct_partial {E α β : Type} (ie : InEnc) (ec : ErrCodec E) (ci : Codec α)
    (co : Codec β) (body : α → Except E β) (a : α)
    (hs : ie.slotsAgree = true) (hm : ie.reqMethod = ie.method)
    (hci : ci.Lawful) (hco : co.Lawful) (hec : ec.Lawful) (ht : TextSafe ie ci) :
    remoteCall ie ec ci co body a = body a := by
  obtain ⟨data, henc, hdec⟩ := hci a
  have hdata := serverData_intoReq ie ec data hs (fun h => ht h a data henc)
  have hmeth : (intoReq ie data).method = ie.method := by
    unfold intoReq; split <;> simp [hm]
  simp only [remoteCall, runClient, henc, dispatch, hmeth, if_true, runServer, serverInput, hdata, hdec]
  cases hb : body a with
  | error e => simp [errorResponse, clientDecode, isErrorStatus, hec e]
  | ok o =>
    obtain ⟨b, henc', hdec'⟩ := hco o
    simp [henc', clientDecode, isErrorStatus, hdec']

theorem C13_table_methods_agree : ∀ ie ∈ inputEncodings, ie.reqMethod = ie.method := by decide

/-- every row of the (repaired) table: client and server agree on where the arguments travel -/
theorem C13_table_slots_agree : ∀ ie ∈ inputEncodings, ie.slotsAgree = true := by decide

/-- **Remote = direct** (full): for *every* input encoding the library provides, all lawful argument /
result codecs, every lawful error codec, every function body and every argument, the call through client,
transport and server returns exactly what the body returns — `Ok` and `Err` alike. -/
theorem C13_pipeline_refines_direct {E α β : Type} (ie : InEnc) (hie : ie ∈ inputEncodings)
    (ec : ErrCodec E) (ci : Codec α) (co : Codec β) (body : α → Except E β) (a : α)
    (hci : ci.Lawful) (hco : co.Lawful) (hec : ec.Lawful) (ht : TextSafe ie ci) :
    remoteCall ie ec ci co body a = body a :=
  C13_pipeline_refines_direct_partial ie ec ci co body a (C13_table_slots_agree ie hie)
    (C13_table_methods_agree ie hie) hci hco hec ht

/-! ### regression: the table before `fix: PatchUrl and PutUrl read their arguments from the request body` -/

/-- the same statement over the old table -/
def C13_pipeline_refines_direct_old : Prop :=
  ∀ ie ∈ inputEncodingsOld, ∀ (E α β : Type) (ec : ErrCodec E) (ci : Codec α) (co : Codec β)
    (body : α → Except E β) (a : α),
    ci.Lawful → co.Lawful → ec.Lawful → TextSafe ie ci → remoteCall ie ec ci co body a = body a

def idCodec : Codec Bytes := ⟨.ok, .ok⟩

theorem idCodec_lawful : idCodec.Lawful := fun a => ⟨a, rfl, rfl⟩

def trivialErr : ErrCodec Bytes := ⟨id, id, fun _ m => m.map Char.toNat⟩

/-- F-C13-1 (repaired): with the old `PatchUrl` row — arguments written to the body, read from the query —
the body ran on the decoding of the empty string; with the repaired row the same call returns the argument -/
theorem C13_patchurl_witness :
    (∃ ie ∈ inputEncodingsOld, ie.name = "PatchUrl" ∧
      remoteCall ie trivialErr idCodec idCodec (fun x => .ok x) [1] = .ok []) ∧
    (∃ ie ∈ inputEncodings, ie.name = "PatchUrl" ∧
      remoteCall ie trivialErr idCodec idCodec (fun x => .ok x) [1] = .ok [1]) := by
  refine ⟨⟨⟨"PatchUrl", .patch, .patch, .bodyText, .query, argsKind⟩, by simp [inputEncodingsOld], rfl, by decide⟩,
    ⟨⟨"PatchUrl", .patch, .patch, .bodyText, .bodyText, argsKind⟩, by simp [inputEncodings], rfl, by decide⟩⟩

theorem C13_pipeline_refines_direct_old_false : ¬ C13_pipeline_refines_direct_old := by
  intro h
  have := h ⟨"PatchUrl", .patch, .patch, .bodyText, .query, argsKind⟩ (by simp [inputEncodingsOld])
    Bytes Bytes Bytes trivialErr idCodec idCodec (fun x => .ok x) [1]
    idCodec_lawful idCodec_lawful (fun _ => rfl) (fun h => by simp at h)
  revert this; decide

theorem C13_table_slot_mismatch_old :
    (inputEncodingsOld.filter fun ie => !ie.slotsAgree).map (·.name) = ["PatchUrl", "PutUrl"] := by decide

/-- **Status rule**: an error status is decoded with the error codec and nothing else, any other status
with the output codec and nothing else. -/
theorem C13_status_rule {E α β : Type} (ie : InEnc) (ec : ErrCodec E) (ci : Codec α) (co : Codec β)
    (res : Res) (a : α) (data : Bytes) (henc : ci.enc a = .ok data) :
    runClient ie ec ci co (fun _ => res) a =
      if 400 ≤ res.status ∧ res.status ≤ 599 then .error (ec.de res.body)
      else match co.dec res.body with
        | .ok o => .ok o
        | .error m => .error (ec.fromSfe deserializationKind m) := by
  simp only [runClient, henc, clientDecode, isErrorStatus]
  by_cases h : 400 ≤ res.status ∧ res.status ≤ 599
  · simp [h]
  · have : (decide (400 ≤ res.status) && decide (res.status ≤ 599)) = false := by
      simp only [Bool.and_eq_false_iff, decide_eq_false_iff_not]; omega
    cases hd : co.dec res.body <;> simp [h, this]

/-- **Server side is total**: whatever request arrives — wrong slot, ill-formed text, undecodable
arguments — the answer is a 200 carrying an encoded result or a 500 carrying an encoded error value. -/
theorem C13_server_total {E α β : Type} (ie : InEnc) (ec : ErrCodec E) (ci : Codec α) (co : Codec β)
    (body : α → Except E β) (req : Req) :
    (∃ a o b, body a = .ok o ∧ co.enc o = .ok b ∧ runServer ie ec ci co body req = ⟨200, b⟩) ∨
    (∃ e, runServer ie ec ci co body req = ⟨500, ec.ser e⟩) := by
  unfold runServer
  split
  · right; exact ⟨_, rfl⟩
  · next a _ =>
    split
    · right; exact ⟨_, rfl⟩
    · next o ho =>
      split
      · right; exact ⟨_, rfl⟩
      · next b hb => left; exact ⟨a, o, b, ho, hb, rfl⟩

/-- **Client side is total**: whatever response arrives, the caller gets `Ok` of a decoded value or an error
of the declared type built by `de` or by `from_server_fn_error(Deserialization)`. -/
theorem C13_client_total {E β : Type} (ec : ErrCodec E) (co : Codec β) (res : Res) :
    (clientDecode ec co res = .error (ec.de res.body)) ∨
    (∃ o, co.dec res.body = .ok o ∧ clientDecode ec co res = .ok o) ∨
    (∃ m, co.dec res.body = .error m ∧ clientDecode ec co res = .error (ec.fromSfe deserializationKind m)) := by
  unfold clientDecode
  split
  · left; rfl
  · split
    · next o ho => right; left; exact ⟨o, ho, rfl⟩
    · next m hm => right; right; exact ⟨m, hm, rfl⟩

/-- the codec the driver instantiates the pipeline with (the harness' `HexEncoding`) satisfies the codec
law on byte strings -/
theorem hexCodec_roundtrip (a : Bytes) (ha : IsBytes a) :
    ∃ b, hexCodec.enc a = .ok b ∧ hexCodec.dec b = .ok a := by
  refine ⟨_, rfl, ?_⟩
  have hd : ∀ n, n < 16 → Wire.hexVal? (Wire.hexDigit n) = some n := by decide
  have hc : ∀ n, n < 16 → Char.ofNat (Wire.hexDigit n).toNat = Wire.hexDigit n := fun n _ => Char.ofNat_toNat _
  have key : ∀ l : Bytes, IsBytes l →
      Wire.bytesOfHexChars (((l.flatMap fun b => [Wire.hexDigit (b / 16 % 16), Wire.hexDigit (b % 16)]).map Char.toNat).map Char.ofNat) = some l := by
    intro l
    induction l with
    | nil => intro _; rfl
    | cons b bs ih =>
      intro hl
      have hb : b < 256 := hl b (by simp)
      have ih' := ih (fun x hx => hl x (by simp [hx]))
      simp only [List.flatMap_cons, List.map_cons, List.cons_append, List.nil_append,
        Char.ofNat_toNat, Wire.bytesOfHexChars, hd (b / 16 % 16) (by omega), hd (b % 16) (by omega)]
      simp only [List.map_map] at ih'
      simp only [List.map_map, ih']
      congr 2; omega
  simp only [hexCodec]
  rw [key a ha]

/-! ## streaming text through the generic back end -/

theorem rechunkGo_flatten (n : Nat) : ∀ (rest : Bytes) (room : Nat) (cur : Bytes),
    (rechunkGo n room cur rest).flatten = cur.reverse ++ rest := by
  intro rest
  induction rest with
  | nil => intro room cur; cases room <;> (simp only [rechunkGo]; split <;> simp_all)
  | cons b bs ih =>
    intro room cur
    cases room with
    | zero => simp [rechunkGo, ih]
    | succ r => simp [rechunkGo, ih]

/-- re-chunking loses nothing: the chunks concatenate to the body -/
theorem C13_rechunk_flatten (n : Nat) (body : Bytes) : (rechunk n body).flatten = body := by
  simp [rechunk, rechunkGo_flatten]

/-- **Text stream** (full): whatever text is sent and however the transport cuts its bytes into chunks —
in the middle of scalars, into empty chunks, one byte at a time — `decode_text_chunks` hands over `Ok` items
only, and they concatenate to exactly the text that was sent. -/
theorem C13_text_stream (s : Str) (chunks : List Bytes) (h : chunks.flatten = utf8Encode s) :
    ∃ payloads : List Bytes, textDecodeItems chunks = payloads.map .ok ∧ payloads.flatten = utf8Encode s := by
  obtain ⟨ps, h1, h2⟩ := textDecodeGo_ok chunks [] s (by simpa using h)
  exact ⟨ps, h1, by simpa [h] using h2⟩

/-- in particular through the generic back end, which cuts the body every 16 bytes -/
theorem C13_text_stream_generic (s : Str) :
    ∃ payloads : List Bytes, textDecodeItems (rechunk 16 (utf8Encode s)) = payloads.map .ok ∧
      payloads.flatten = utf8Encode s :=
  C13_text_stream s _ (C13_rechunk_flatten 16 _)

/-! ### regression: before `fix: StreamingText completes a character split across transport chunks` -/

/-- the old statement: well-formed text arrives without error items -/
def C13_text_stream_old : Prop :=
  ∀ body : Bytes, utf8ErrGo 0 0 body = none →
    ∀ it ∈ textStreamItemsOld (rechunk 16 body), ∃ c, it = .ok c

/-- F-C13-2 (repaired): fifteen ASCII bytes and `é` — the two bytes of `é` land in different 16-byte chunks;
the old per-chunk decoder turned both chunks into errors, the repaired one returns the text -/
theorem C13_text_stream_witness :
    utf8ErrGo 0 0 ((List.replicate 15 97) ++ [0xC3, 0xA9]) = none ∧
    textStreamItemsOld (rechunk 16 ((List.replicate 15 97) ++ [0xC3, 0xA9])) =
      [.error ⟨deserializationKind, utf8ErrMsg (15, none)⟩, .error ⟨deserializationKind, utf8ErrMsg (0, some 1)⟩] ∧
    textDecodeItems (rechunk 16 ((List.replicate 15 97) ++ [0xC3, 0xA9])) =
      [.ok (List.replicate 15 97), .ok [0xC3, 0xA9]] := by
  decide

theorem C13_text_stream_old_false : ¬ C13_text_stream_old := by
  intro h
  have h1 := h ((List.replicate 15 97) ++ [0xC3, 0xA9]) C13_text_stream_witness.1
  rw [C13_text_stream_witness.2.1] at h1
  obtain ⟨c, hc⟩ := h1 (.error ⟨deserializationKind, utf8ErrMsg (15, none)⟩) List.mem_cons_self
  cases hc

/-! ## streamed responses: item sequences with errors -/

/-- an item a server function can put into a `TextStream<ServerFnError<E>>`: a `String` or a declared error -/
def TextItemOK (cu : Custom) (it : Except SErr Bytes) : Prop :=
  match it with
  | .ok b => ∃ s : Str, b = utf8Encode s
  | .error e => e.WellFormed cu

/-- **Output text stream round trip**: for every item sequence — errors first, in the middle, last, several,
only errors, empty strings — the remote caller of a function with `output = StreamingText` receives exactly
the items the direct caller receives: every `Ok` text, every `Err` with its kind and message, and every item
after an error (the code relays the whole sequence; nothing ends the stream at a failure). -/
theorem C13_text_out_roundtrip (cu : Custom) (items : List (Except SErr Bytes))
    (h : ∀ it ∈ items, TextItemOK cu it) : textOutRemote cu items = items := by
  unfold textOutRemote textOutWire
  induction items with
  | nil => simp [textDecodeWire]
  | cons it rest ih =>
    have hit := h it (by simp)
    have ih' := ih (fun x hx => h x (by simp [hx]))
    cases it with
    | ok b =>
      obtain ⟨s, hs⟩ := hit
      have hv : utf8ErrGo 0 0 b = none := by rw [hs]; exact utf8ErrGo_utf8Encode s 0
      simp only [List.map_cons, relayChunk, textDecodeWire, textStep, List.nil_append, hv]
      rw [ih']
    | error e =>
      have hrt := C13_error_roundtrip_bytes cu e hit.1 hit.2
      simp only [List.map_cons, relayChunk, textDecodeWire, hrt]
      rw [ih']

/-- in particular the caller sees the same items up to and including the first error -/
theorem C13_text_out_first_error (cu : Custom) (items : List (Except SErr Bytes))
    (h : ∀ it ∈ items, TextItemOK cu it) :
    uptoFirstErr (textOutRemote cu items) = uptoFirstErr items := by
  rw [C13_text_out_roundtrip cu items h]

def wireErr? {ε α : Type} (c : Except ε α) : Option ε :=
  match c with
  | .error e => some e
  | .ok _ => none

/-- **No error chunk is ever dropped by the client decoder**: whatever arrives — any chunking, ill-formed
text, anything pending — every `Err` chunk comes out as `E::de` of its bytes, in order (the decoder may add
`Deserialization` errors of its own for ill-formed text, it never removes one). -/
theorem C13_text_decode_keeps_errors (cu : Custom) (wire : List WireChunk) : ∀ pending : Bytes,
    List.Sublist ((wire.filterMap wireErr?).map (de cu)) ((textDecodeWire cu pending wire).filterMap wireErr?) := by
  induction wire with
  | nil => intro pending; simp
  | cons c cs ih =>
    intro pending
    cases c with
    | error b =>
      simp only [List.filterMap_cons, wireErr?, List.map_cons, textDecodeWire]
      exact List.Sublist.cons_cons _ (ih pending)
    | ok b =>
      simp only [List.filterMap_cons, wireErr?, textDecodeWire]
      split
      · next it p' _ =>
        cases it with
        | ok x => simp only [List.filterMap_cons, wireErr?]; exact ih p'
        | error x => simp only [List.filterMap_cons, wireErr?]; exact List.Sublist.cons _ (ih p')
      · next p' _ => exact ih p'

/-- the server half relays every item: one wire chunk per item, errors as their `ser()` bytes -/
theorem C13_text_out_wire_complete (items : List (Except SErr Bytes)) :
    (textOutWire items).length = items.length ∧
    (textOutWire items).filterMap wireErr? = (items.filterMap wireErr?).map ser := by
  constructor
  · simp [textOutWire]
  · unfold textOutWire
    induction items with
    | nil => rfl
    | cons it rest ih =>
      cases it with
      | ok b => simp only [List.map_cons, List.filterMap_cons, wireErr?]; exact ih
      | error e => simp only [List.map_cons, List.filterMap_cons, wireErr?, ih]

/-- **Output byte stream round trip**: chunks pass unchanged, an error chunk that is the `ser()` of a
declared error passes unchanged, for every position of the errors in the sequence. -/
theorem C13_bytes_out_roundtrip (cu : Custom) (items : List WireChunk)
    (h : ∀ b, Except.error b ∈ items → ∃ e : SErr, e.WellFormed cu ∧ b = ser e) :
    bytesOutRemote cu items = items := by
  unfold bytesOutRemote bytesOutWire
  induction items with
  | nil => rfl
  | cons it rest ih =>
    have ih' := ih (fun b hb => h b (by simp [hb]))
    cases it with
    | ok b => simp only [List.map_cons, relayChunk]; rw [ih']
    | error b =>
      obtain ⟨e, he, hb⟩ := h b (by simp)
      subst hb
      simp only [List.map_cons, relayChunk, C13_error_roundtrip_bytes cu e he.1 he.2]
      rw [ih']

theorem table_custom_flag : ∀ t ∈ decodeArms, isCustomKind t.2.1 = t.2.2 := by decide

theorem deserialization_not_custom : isCustomKind deserializationKind = false := by decide

/-- what `de` returns is a well-formed value when the custom type's `Display`/`FromStr` pair is stable
(`from_str(x.to_string())` of a parsed value parses to the same text) -/
theorem de_wellFormed (cu : Custom) (hidem : ∀ s d, cu.canon s = some d → cu.canon d = some d) (b : Bytes) :
    (de cu b).WellFormed cu := by
  refine ⟨C13_decode_total cu b, ?_⟩
  unfold de
  split
  · rw [fromSfe_deserialization]; intro hc; rw [deserialization_not_custom] at hc; cases hc
  · next s _ =>
    split
    · next e he =>
      unfold decodeErr at he
      split at he
      · cases he
      · next ty data _ =>
        split at he
        · next variant ha =>
          have := table_custom_flag _ (assoc_mem ty decodeArms _ ha)
          cases he
          intro hc; simp only at this; rw [this] at hc; cases hc
        · next variant ha =>
          split at he
          · next d hd => cases he; intro _; exact hidem _ _ hd
          · cases he
        · cases he
    · rw [fromSfe_deserialization]; intro hc; rw [deserialization_not_custom] at hc; cases hc

/-- for *arbitrary* error bytes the chunk is normalised, but the error it decodes to is the same -/
theorem C13_bytes_out_error_value (cu : Custom) (hidem : ∀ s d, cu.canon s = some d → cu.canon d = some d)
    (b : Bytes) : ∃ b', relayChunk cu (.error b) = .error b' ∧ de cu b' = de cu b := by
  have hw := de_wellFormed cu hidem b
  exact ⟨ser (de cu b), rfl, C13_error_roundtrip_bytes cu (de cu b) hw.1 hw.2⟩

/-! ## the registered path (`ServerFn::PATH`, table extracted from server_fn_macro) -/

open Leptos.Gen.ServerFnPath in
/-- with `endpoint = e`: prefix, a slash, the endpoint without its leading slashes -/
theorem C13_path_with_endpoint (pfx : Option Str) (e name hash : Str) :
    serverFnPath pfx (some e) name hash = pfx.getD defaultPrefix ++ '/' :: trimLead '/' e := by
  simp [serverFnPath, pathPart, withEndpoint, endpointLead, endpointTrim]

open Leptos.Gen.ServerFnPath in
/-- without: prefix, a slash, the function name, the hash -/
theorem C13_path_without_endpoint (pfx : Option Str) (name hash : Str) :
    serverFnPath pfx none name hash = pfx.getD defaultPrefix ++ '/' :: (name ++ hash) := by
  simp [serverFnPath, pathPart, withoutEndpoint]

theorem trimLead_cons_self (c : Char) (s : Str) : trimLead c (c :: s) = trimLead c s := by
  simp [trimLead]

/-- leading slashes of the endpoint do not matter: `"x"`, `"/x"`, `"//x"` name the same path -/
theorem C13_path_endpoint_slashes (pfx : Option Str) (e name hash : Str) :
    serverFnPath pfx (some ('/' :: e)) name hash = serverFnPath pfx (some e) name hash := by
  rw [C13_path_with_endpoint, C13_path_with_endpoint, trimLead_cons_self]

/-- two functions of one module (same prefix, same hash) get different paths unless they have the same name -/
theorem C13_path_names_distinct (pfx : Option Str) (n1 n2 hash : Str)
    (h : serverFnPath pfx none n1 hash = serverFnPath pfx none n2 hash) : n1 = n2 := by
  rw [C13_path_without_endpoint, C13_path_without_endpoint] at h
  have h1 := List.append_cancel_left h
  simp only [List.cons.injEq, true_and] at h1
  exact List.append_cancel_right h1

/-! ## the non-JS `<form>` fallback -/

theorem runServerFull_fst {E α β : Type} (ie : InEnc) (ec : ErrCodec E) (ci : Codec α) (co : Codec β)
    (body : α → Except E β) (req : Req) :
    (runServerFull ie ec ci co body req).1 = runServer ie ec ci co body req := by
  unfold runServerFull runServer
  split
  · rfl
  · split
    · rfl
    · split <;> rfl

/-- the error `run_on_server` keeps is the function's own error, or none when it returned `Ok`
(for a request built by the client half, under the hypotheses of the pipeline theorem) -/
theorem runServerFull_snd {E α β : Type} (ie : InEnc) (ec : ErrCodec E) (ci : Codec α) (co : Codec β)
    (body : α → Except E β) (a : α) (data : Bytes) (henc : ci.enc a = .ok data) (hdec : ci.dec data = .ok a)
    (hs : ie.slotsAgree = true) (ht : TextSafe ie ci) (hco : co.Lawful) :
    (runServerFull ie ec ci co body (intoReq ie data)).2 =
      match body a with | .error e => some e | .ok _ => none := by
  have hdata := serverData_intoReq ie ec data hs (fun h => ht h a data henc)
  simp only [runServerFull, serverInput, hdata, hdec]
  cases hb : body a with
  | error e => rfl
  | ok o =>
    obtain ⟨b, henc', _⟩ := hco o
    simp [henc']

/-- reading the error bytes back from a URL written by `to_url`, for any error encoding (text or binary) -/
theorem to_url_bytes_roundtrip (base : Bytes) (path : Str) (errSer : Bytes) (hb : IsBytes errSer)
    (hs : hasScheme base = true) :
    ∃ u, toUrl base (utf8Encode path) errSer = some u ∧
      (queryGetLast errKey (Url.formParse ((splitUrl u).query.getD []))).map b64Decode = some (.ok errSer) ∧
      queryGetLast pathKey (Url.formParse ((splitUrl u).query.getD [])) = some (utf8Encode path) := by
  obtain ⟨hpre, hq⟩ := splitUrl_clean base
  have hascii := b64Encode_ascii errSer hb
  have hb64 : IsBytes (b64Encode errSer) := fun x hx => by have := hascii x hx; omega
  have vb64 : Url.utf8Valid (b64Encode errSer) = true := validGo_ascii _ hascii
  have hp : IsBytes (utf8Encode path) := utf8Encode_bytes _
  have vp : Url.utf8Valid (utf8Encode path) = true := utf8Valid_utf8Encode _
  obtain ⟨pk1, pk2, ek1, ek2, hne⟩ := pathKey_props
  have hq1 := appendPair_no_hash _ pathKey (utf8Encode path) pk1 hp hq
  have hq2 := appendPair_no_hash _ errKey (b64Encode errSer) ek1 hb64 hq1
  have hsplit := splitUrl_joinUrl (splitUrl base).pre _ (splitUrl base).frag hpre hq2
  refine ⟨joinUrl ⟨(splitUrl base).pre, some (appendPair (appendPair ((splitUrl base).query.getD []) pathKey
    (utf8Encode path)) errKey (b64Encode errSer)), (splitUrl base).frag⟩, ?_, ?_, ?_⟩
  · simp only [toUrl, hs, if_true]
  · rw [hsplit]
    simp only [Option.getD_some]
    rw [formParse_appendPair _ errKey _ ek1 hb64 ek2 vb64, queryGetLast_append_hit]
    simp [b64Decode_encode errSer hb]
  · rw [hsplit]
    simp only [Option.getD_some]
    rw [formParse_appendPair _ errKey _ ek1 hb64 ek2 vb64, formParse_appendPair _ pathKey _ pk1 hp pk2 vp,
      queryGetLast_append_miss pathKey errKey _ _ (fun h => hne h.symm), queryGetLast_append_hit]

/-- **Form fallback, error case (partial: absolute `Referer`)**: for every error value of *any* lawful error
encoding — text or binary — and every absolute referer (query, fragment, stale error pairs), the `Location` of
the redirect carries the error: `decode_err` of its `__err` pair is the error, `__path` is the function's path. -/
theorem C13_form_fallback_error_partial {E : Type} (ec : ErrCodec E) (hec : ec.Lawful) (e : E)
    (hbytes : IsBytes (ec.ser e)) (path : Str) (referer : Bytes) (hs : hasScheme referer = true) :
    let loc := formLocation (utf8Encode path) (some referer) (some (ec.ser e))
    let pairs := Url.formParse ((splitUrl loc).query.getD [])
    (queryGetLast errKey pairs).map (fun v => (b64Decode v).map ec.de) = some (.ok e) ∧
    queryGetLast pathKey pairs = some (utf8Encode path) := by
  obtain ⟨u, hu, h1, h2⟩ := to_url_bytes_roundtrip referer path (ec.ser e) hbytes hs
  simp only [formLocation, Option.getD_some, hu]
  refine ⟨?_, h2⟩
  cases hq : queryGetLast errKey (Url.formParse ((splitUrl u).query.getD [])) with
  | none => rw [hq] at h1; cases h1
  | some v =>
    rw [hq] at h1
    simp only [Option.map_some, Option.some.injEq] at h1 ⊢
    rw [h1]
    simp [Except.map, hec e]

/-- the full statement: for every referer the browser may (or may not) send -/
def C13_form_fallback_error_full : Prop :=
  ∀ (referer : Option Bytes) (path : Str) (e : SErr), e.WellFormed noCustomError →
    let loc := formLocation (utf8Encode path) referer (some (ser e))
    ∃ v, queryGetLast errKey (Url.formParse ((splitUrl loc).query.getD [])) = some v

/-- witness (F-C13-5): without a `Referer` header `to_url("/")` fails and the error is dropped: the browser
is sent to `/` with nothing in the URL -/
theorem C13_form_no_referer_witness :
    formLocation (utf8Encode "/api/f".toList) none (some (ser ⟨"ServerError".toList, "boom".toList⟩)) = [47] := by
  decide

theorem C13_form_fallback_error_full_false : ¬ C13_form_fallback_error_full := by
  intro h
  obtain ⟨v, hv⟩ := h none "/api/f".toList ⟨"ServerError".toList, "boom".toList⟩ (by constructor <;> decide)
  simp only [C13_form_no_referer_witness] at hv
  have : queryGetLast errKey (Url.formParse ((splitUrl [47]).query.getD [])) = none := by decide
  rw [this] at hv
  cases hv

/-- **Form fallback, success case**: stale error info of an earlier submission is stripped from the
referer; without a referer the browser is sent to `/` -/
theorem C13_form_fallback_ok (path : Bytes) (referer : Option Bytes) :
    formLocation path referer none = match referer with | some r => stripErrorInfo r | none => [47] := by
  cases referer <;> rfl

/-- the whole fallback for a request built by the client half: status 302, the body of the ordinary answer,
and the `Location` decided by the function's own result -/
theorem C13_form_fallback_outcome {E α β : Type} (ie : InEnc) (ec : ErrCodec E) (ci : Codec α) (co : Codec β)
    (body : α → Except E β) (a : α) (data : Bytes) (henc : ci.enc a = .ok data) (hdec : ci.dec data = .ok a)
    (hs : ie.slotsAgree = true) (ht : TextSafe ie ci) (hco : co.Lawful) (path : Bytes) (referer : Option Bytes) :
    runOnServerForm ie ec ci co body path referer (intoReq ie data) =
      ⟨302, formLocation path referer (match body a with | .error e => some (ec.ser e) | .ok _ => none),
        (runServer ie ec ci co body (intoReq ie data)).body⟩ := by
  have h1 := runServerFull_fst ie ec ci co body (intoReq ie data)
  have h2 := runServerFull_snd ie ec ci co body a data henc hdec hs ht hco
  unfold runOnServerForm
  rw [← h1]
  cases hr : runServerFull ie ec ci co body (intoReq ie data) with
  | mk res err =>
    rw [hr] at h2
    simp only at h2
    subst h2
    cases body a <;> rfl

/-! ## middleware -/

theorem applyLayers_id (layers : List Middleware) (h : ∀ l ∈ layers, ∀ inner, l inner = inner) (handler : Req → Res) :
    applyLayers layers handler = handler := by
  unfold applyLayers
  induction layers generalizing handler with
  | nil => rfl
  | cons l ls ih =>
    simp only [List.foldl_cons]
    rw [h l (by simp)]
    exact ih (fun x hx => h x (by simp [hx])) handler

/-- **Pass-through middleware** (any number of layers) does not change what the caller gets -/
theorem C13_middleware_identity {E α β : Type} (ie : InEnc) (hie : ie ∈ inputEncodings) (ec : ErrCodec E)
    (ci : Codec α) (co : Codec β) (layers : List Middleware) (hl : ∀ l ∈ layers, ∀ inner, l inner = inner)
    (body : α → Except E β) (a : α)
    (hci : ci.Lawful) (hco : co.Lawful) (hec : ec.Lawful) (ht : TextSafe ie ci) :
    remoteCallMw ie ec ci co layers body a = body a := by
  unfold remoteCallMw
  rw [applyLayers_id layers hl]
  exact C13_pipeline_refines_direct ie hie ec ci co body a hci hco hec ht

/-- **A middleware that answers itself** reaches the caller as the declared error built by
`from_server_fn_error(MiddlewareError(msg))` — kind and message intact — and otherwise is transparent -/
theorem C13_middleware_block {E α β : Type} (ie : InEnc) (hie : ie ∈ inputEncodings) (ec : ErrCodec E)
    (ci : Codec α) (co : Codec β) (pred : Req → Bool) (msg : Str) (body : α → Except E β) (a : α) (data : Bytes)
    (henc : ci.enc a = .ok data)
    (hci : ci.Lawful) (hco : co.Lawful) (hec : ec.Lawful) (ht : TextSafe ie ci) :
    remoteCallMw ie ec ci co [mwBlock ec pred msg] body a =
      if pred (intoReq ie data) then .error (ec.fromSfe middlewareKind msg) else body a := by
  have hmeth : (intoReq ie data).method = ie.method := by
    unfold intoReq; split <;> simp [C13_table_methods_agree ie hie]
  by_cases hp : pred (intoReq ie data) = true
  · simp only [remoteCallMw, runClient, henc, dispatch, hmeth, if_true, applyLayers, List.foldl_cons, List.foldl_nil,
      mwBlock, hp, errorResponse, clientDecode, isErrorStatus]
    simp [hec (ec.fromSfe middlewareKind msg)]
  · have hrc := C13_pipeline_refines_direct ie hie ec ci co body a hci hco hec ht
    simp only [remoteCall, runClient, henc, dispatch, hmeth, if_true] at hrc
    simp only [remoteCallMw, runClient, henc, dispatch, hmeth, if_true, applyLayers, List.foldl_cons, List.foldl_nil,
      mwBlock, hp, Bool.false_eq_true, if_false]
    exact hrc

/-- a function without arguments: the unit codec is lawful, so the pipeline theorem applies -/
theorem C13_noargs {E β : Type} (ie : InEnc) (hie : ie ∈ inputEncodings) (ec : ErrCodec E) (co : Codec β)
    (result : Except E β) (hco : co.Lawful) (hec : ec.Lawful) :
    remoteCall ie ec unitCodec co (fun _ => result) () = result :=
  C13_pipeline_refines_direct ie hie ec unitCodec co (fun _ => result) () (fun _ => ⟨[], rfl, rfl⟩) hco hec
    (fun _ _ b hb => by simp [unitCodec] at hb; subst hb; rfl)

/-! ## the websocket protocol -/

theorem wsDecode_wsEncode {E γ : Type} (ec : ErrCodec E) (c : Codec γ) (hc : c.Lawful) (hec : ec.Lawful)
    (item : Except E γ) : wsDecode ec c (wsEncode ec c item) = item := by
  cases item with
  | ok a =>
    obtain ⟨b, h1, h2⟩ := hc a
    simp [wsEncode, wsDecode, h1, h2]
  | error e => simp [wsEncode, wsDecode, hec e]

/-- **One websocket exchange = the direct call**: message and answer, `Ok` and `Err` alike -/
theorem C13_ws_exchange {E α β : Type} (ec : ErrCodec E) (ci : Codec α) (co : Codec β)
    (reply : Except E α → Except E β) (m : Except E α)
    (hci : ci.Lawful) (hco : co.Lawful) (hec : ec.Lawful) :
    wsExchange ec ci co reply m = reply m := by
  unfold wsExchange
  rw [wsDecode_wsEncode ec ci hci hec, wsDecode_wsEncode ec co hco hec]

/-- a whole conversation -/
theorem C13_ws_conversation {E α β : Type} (ec : ErrCodec E) (ci : Codec α) (co : Codec β)
    (reply : Except E α → Except E β) (msgs : List (Except E α))
    (hci : ci.Lawful) (hco : co.Lawful) (hec : ec.Lawful) :
    msgs.map (wsExchange ec ci co reply) = msgs.map reply := by
  induction msgs with
  | nil => rfl
  | cons m ms ih => simp [C13_ws_exchange ec ci co reply m hci hco hec, ih]

theorem writer_send_fold (fs : List WireChunk) : ∀ w : Writer, w.queue = [] →
    fs.foldl Writer.send w = ⟨[], w.wire ++ fs⟩ := by
  induction fs with
  | nil => intro w h; cases w; simp_all
  | cons f rest ih =>
    intro w h
    simp only [List.foldl_cons]
    rw [ih (w.send f) (by simp [Writer.send, Writer.flush])]
    simp [Writer.send, Writer.feed, Writer.flush, h]

/-- **Nothing stays in the client's write buffer**: after each `send` the queue is empty and every frame so
far is on the wire, in order — so a caller that waits for the answer to message k before sending k+1 is
never left waiting for a message that was not transmitted. -/
theorem C13_ws_send_transmits (fs : List WireChunk) :
    fs.foldl Writer.send {} = ⟨[], fs⟩ := by
  simpa using writer_send_fold fs {} rfl

/-- with `feed` alone the frame stays queued (what the forwarder must not do) -/
example : (({} : Writer).feed (.ok [1])).wire = [] ∧ (({} : Writer).send (.ok [1])).wire = [.ok [1]] := by decide

/-! ## deeply nested values -/

/-- a value of unbounded nesting depth: a thread in first-child / next-sibling form (`leaf` = no more replies) -/
inductive Nest where
  | leaf
  | node (child sibling : Nest)
  deriving DecidableEq, Repr

def Nest.depth : Nest → Nat
  | .leaf => 0
  | .node c s => max (c.depth + 1) s.depth

/-- the encoder recurses on the value, with no depth limit -/
def encNest : Nest → Bytes
  | .leaf => [0]
  | .node c s => 1 :: (encNest c ++ encNest s)

/-- the decoder recurses on `fuel`; `decNest` gives it the length of the input, so it is total and never
short of fuel on a well-formed body, whatever its depth -/
def decNestGo : Nat → Bytes → Option (Nest × Bytes)
  | 0, _ => none
  | _ + 1, [] => none
  | f + 1, b :: r =>
    if b = 0 then some (.leaf, r)
    else match decNestGo f r with
      | none => none
      | some (c, r1) =>
        match decNestGo f r1 with
        | none => none
        | some (s, r2) => some (.node c s, r2)

def decNest (bs : Bytes) : Except Str Nest :=
  match decNestGo (bs.length + 1) bs with
  | some (t, []) => .ok t
  | _ => .error "malformed".toList

def nestCodec : Codec Nest := ⟨fun t => .ok (encNest t), decNest⟩

theorem decNestGo_enc (t : Nest) : ∀ (rest : Bytes) (fuel : Nat), (encNest t).length < fuel →
    decNestGo fuel (encNest t ++ rest) = some (t, rest) := by
  induction t with
  | leaf =>
    intro rest fuel h
    cases fuel with
    | zero => simp at h
    | succ f => simp [encNest, decNestGo]
  | node c s ihc ihs =>
    intro rest fuel h
    cases fuel with
    | zero => simp at h
    | succ f =>
      simp only [encNest, List.length_cons, List.length_append] at h
      have h1 := ihc (encNest s ++ rest) f (by omega)
      have h2 := ihs rest f (by omega)
      simp only [encNest, List.cons_append, List.append_assoc, decNestGo]
      simp [h1, h2]

/-- **Decoding is total on encoder output regardless of depth**: the model's tree codec is lawful on every
value, however deeply nested — no recursion limit on either side -/
theorem C13_deep_values_roundtrip (t : Nest) : nestCodec.dec (encNest t) = .ok t := by
  have := decNestGo_enc t [] ((encNest t).length + 1) (by omega)
  simp only [List.append_nil] at this
  simp [nestCodec, decNest, this]

/-- values of every depth exist and go through -/
def chain : Nat → Nest
  | 0 => .leaf
  | n + 1 => .node (chain n) .leaf

theorem chain_depth (n : Nat) : (chain n).depth = n := by
  induction n with
  | zero => rfl
  | succ n ih => simp [chain, Nest.depth, ih]

example : nestCodec.dec (encNest (chain 100)) = .ok (chain 100) := C13_deep_values_roundtrip _

theorem nestCodec_lawful : nestCodec.Lawful := fun t => ⟨encNest t, rfl, C13_deep_values_roundtrip t⟩

/-- so the pipeline theorem covers values of every depth: remote = direct for a thread nested n levels, all n -/
theorem C13_pipeline_deep_values {E : Type} (ie : InEnc) (hie : ie ∈ inputEncodings) (ec : ErrCodec E) (hec : ec.Lawful)
    (ht : TextSafe ie nestCodec) (body : Nest → Except E Nest) (n : Nat) :
    remoteCall ie ec nestCodec nestCodec body (chain n) = body (chain n) :=
  C13_pipeline_refines_direct ie hie ec nestCodec nestCodec body (chain n) nestCodec_lawful nestCodec_lawful hec ht

/-! ## body placement -/

/-- what a decoder is given when the transport hands the body over as a sub-slice of a larger receive buffer:
`pre.length` bytes into it (any offset from any alignment boundary), followed by anything -/
def placedBody (pre post body : Bytes) : Bytes := ((pre ++ body ++ post).drop pre.length).take body.length

theorem C13_body_placement (pre post body : Bytes) : placedBody pre post body = body := by
  simp [placedBody, List.append_assoc]

/-- **Decoding does not depend on where the body lies in memory.**  In the model — which is the specification
here — a decoder is a function of the byte string, so this is immediate; the content is on the implementation
side, where the harness delivers every body at every offset 0..15 from a 16-byte boundary (rkyv needs aligned
storage for out-of-line 8/16-byte values and must copy). -/
theorem C13_decode_placement_independent {α : Type} (c : Codec α) (pre post body : Bytes) :
    c.dec (placedBody pre post body) = c.dec body := by
  rw [C13_body_placement]

/-! ## non-vacuity -/

/-- a message full of separators and line breaks, through text and bytes -/
example : decodeErr noCustomError (encodeErr ⟨"ServerError".toList, "a|b||\n\r|".toList⟩) =
    .ok ⟨"ServerError".toList, "a|b||\n\r|".toList⟩ := by decide

example : (⟨"ServerError".toList, "a|b||\n\r|é😀".toList⟩ : SErr).WellFormed noCustomError := by
  constructor <;> decide

example : (⟨"WrappedServerError".toList, "Unit Type Displayed".toList⟩ : SErr).WellFormed noCustomError := by
  constructor <;> decide

example : de noCustomError (ser ⟨"Args".toList, "x|y".toList⟩) = ⟨"Args".toList, "x|y".toList⟩ := by decide

/-- the three fall-backs are reachable -/
example : de noCustomError [110, 111] = ⟨deserializationKind, "Invalid format: missing delimiter in \"no\"".toList⟩ := by
  decide
example : de noCustomError [88, 124, 49] = ⟨deserializationKind, "Unknown error type: X".toList⟩ := by decide
example : (de noCustomError [0xFF]).kind = deserializationKind := by decide

example : IsBytes [0, 255, 16, 32, 77] ∧ b64Decode (b64Encode [0, 255, 16, 32, 77]) = .ok [0, 255, 16, 32, 77] := by
  constructor
  · intro b hb; simp at hb; omega
  · decide

/-- hostile base64 is rejected with a value, not a crash -/
example : b64Decode [97, 82, 61, 61] = .error (.invalidLastSymbol 1 82) := by decide

/-- the pipeline hypotheses are satisfiable: `Post` with the identity codec -/
example : (⟨"Post", .post, .post, .bodyBytes, .bodyBytes, deserializationKind⟩ : InEnc).slotsAgree = true ∧
    idCodec.Lawful ∧ trivialErr.Lawful ∧
    TextSafe ⟨"Post", .post, .post, .bodyBytes, .bodyBytes, deserializationKind⟩ idCodec :=
  ⟨rfl, idCodec_lawful, fun _ => rfl, fun h => by simp at h⟩

example : remoteCall ⟨"GetUrl", .get, .get, .query, .query, argsKind⟩ (sfeCodec noCustomError) idCodec idCodec
    (fun x => if x = [7] then .error ⟨"Args".toList, "a|b".toList⟩ else .ok (x ++ x)) [7] =
    .error ⟨"Args".toList, "a|b".toList⟩ := by decide

/-- a text cut one byte at a time, with an empty chunk in between -/
example : textDecodeItems [[97], [0xF0], [0x9F], [], [0x98], [0x80, 0xC3], [0xA9]] =
    [.ok [97], .ok [0xF0, 0x9F, 0x98, 0x80], .ok [0xC3, 0xA9]] := by decide

/-- the paths of the harness' functions, from the extracted derivation -/
example : serverFnPath (some "/rpc/v1".toList) (some "//t_prefix".toList) "t_prefix".toList "123".toList =
    "/rpc/v1/t_prefix".toList := by decide
example : serverFnPath none none "t_default_path".toList "8123".toList = "/api/t_default_path8123".toList := by decide

/-- the fallback with an absolute referer carrying a stale error: the new error wins -/
example :
    let loc := formLocation (utf8Encode "/api/f".toList) (some (utf8Encode "http://h/p?__err=c3RhbGU=#x".toList))
      (some (ser ⟨"Args".toList, "a|b".toList⟩))
    (queryGetLast errKey (Url.formParse ((splitUrl loc).query.getD []))).map (decodeErrUrl noCustomError) =
      some ⟨"Args".toList, "a|b".toList⟩ := by decide

example : hasScheme (utf8Encode "http://h/p?__err=c3RhbGU=#x".toList) = true := by decide

/-- a blocking middleware: the error reaches the caller -/
example : remoteCallMw ⟨"Post", .post, .post, .bodyBytes, .bodyBytes, deserializationKind⟩ (sfeCodec noCustomError)
    idCodec idCodec [mwBlock (sfeCodec noCustomError) (fun r => r.body.head? == some 255) "no|entry".toList]
    (fun x => .ok x) [255, 1] = .error ⟨middlewareKind, "no|entry".toList⟩ := by decide

/-- a failure in the middle of a streamed response: the rows, the error, and the row after it -/
example : textOutRemote noCustomError
    [.ok [114, 49], .error ⟨"ServerError".toList, "reset|now".toList⟩, .ok [114, 50]] =
    [.ok [114, 49], .error ⟨"ServerError".toList, "reset|now".toList⟩, .ok [114, 50]] := by decide

example : TextItemOK noCustomError (.ok [114, 49]) ∧
    TextItemOK noCustomError (.error ⟨"ServerError".toList, "reset|now".toList⟩) :=
  ⟨⟨['r', '1'], by decide⟩, by constructor <;> decide⟩

/-- raw error bytes that are not an encoding are normalised to the error they decode to -/
example : bytesOutRemote noCustomError [.ok [1], .error [110, 111]] =
    [.ok [1], .error (ser ⟨deserializationKind, "Invalid format: missing delimiter in \"no\"".toList⟩)] := by decide

example : ∀ s d, noCustomError.canon s = some d → noCustomError.canon d = some d := by
  intro s d h; simp [noCustomError] at h ⊢; exact h

/-- really ill-formed bytes and a truncated end are still reported -/
example : textDecodeItems [[97, 0xFF], [0xC3]] =
    [.error ⟨deserializationKind, utf8ErrMsg (1, some 1)⟩, .error ⟨deserializationKind, utf8ErrMsg (0, none)⟩] := by
  decide

end Leptos.ServerFn
