import LeptosModel.Model.Reactive
import LeptosModel.Proofs.ReactiveTopEff
import LeptosModel.Proofs.ReactiveJust
import LeptosModel.Proofs.ReactiveReach
/-!
# C01 — derived values equal a from-scratch recomputation

`C01_read_eq_scratch_stmt` is the property at full strength for programs whose bodies use
tracked reads only (an untracked read contributes a snapshot, see `C01_untracked_…`).
The proof (invariant over the mark/check/pull protocol) lives in `Proofs/ReactiveInv.lean`;
it is complete: `C01_read_eq_scratch` below is a theorem.
-/
namespace Leptos.Reactive

def progTracked (p : Prog) : Bool :=
  p.all fun d => match d with | .sig _ => true | .memo b => b.noUntracked | .eff b => b.noUntracked

def isData (p : Prog) (i : Nat) : Bool :=
  match p[i]? with | some (.sig _) => true | some (.memo _) => true | _ => false

theorem progTracked_eq (p : Prog) : progTracked p = bodiesTracked p := rfl

/-- **full statement**: after any history (writes incl. equal values, reads of any node in any
order, executor polls running effects whose bodies may write signals, pause / resume / dispose),
reading any signal or memo returns its from-scratch value.
Proof: `Proofs/Reactive*.lean` — invariant `InvR` of the mark / check / pull protocol, big-step
lemma `upd_ok` for `update_if_necessary`, `setSignal_inv` for writes, `effLoop_spec` for effect tasks. -/
theorem C01_read_eq_scratch :
  ∀ (p : Prog) (ops : List Op) (m : Nat), WF p = true → progTracked p = true → isData p m = true →
    (step p (run p ops) (.read m)).2 = some (specVal p (run p ops) m) := by
  intro p ops m hwf ht hd
  have hm : m < p.length := by
    rcases Nat.lt_or_ge m p.length with h | h
    · exact h
    · simp [isData, List.getElem?_eq_none h] at hd
  apply read_eq_scratch hwf ht ops m hm
  simp only [isData] at hd
  cases hp : p[m]? with
  | none => rfl
  | some d => cases d <;> simp_all

/-- stage (a), kept as a corollary: programs without effects -/
theorem C01_read_eq_scratch_noeff :
    ∀ (p : Prog) (ops : List Op) (m : Nat), WF p = true → progTracked p = true → noEff p = true →
      isData p m = true →
      (step p (run p ops) (.read m)).2 = some (specVal p (run p ops) m) :=
  fun p ops m hwf ht _ hd => C01_read_eq_scratch p ops m hwf ht hd

/-- the from-scratch value does not depend on the fuel once it exceeds the node id -/
theorem C01_scratch_fuel_irrelevant :
  ∀ (p : Prog) (env : Nat → Int) (f g id : Nat), WF p = true → id < f → id < g →
    scratch p env f id = scratch p env g id :=
  fun _ env f g id hwf hf hg => scratch_fuel env hwf f g id hf hg

/-! ## sanity: a diamond with an equality cut-off and a conditional read, three writes -/

def c01Prog : Prog :=
  [.sig 1, .sig 0,
   .memo (.ite (.rd true 0) (.lit 1) (.lit 0)),            -- 2: cut-off on s0 ≠ 0
   .memo (.add (.rd true 0) (.rd true 2)),                  -- 3
   .memo (.ite (.rd true 1) (.rd true 3) (.rd true 2)),     -- 4: conditional dependency
   .memo (.add (.rd true 3) (.rd true 4))]                  -- 5: diamond over 3/4

example :
    let ops : List Op := [.read 5, .set 0 2, .read 4, .set 1 1, .set 0 0, .read 5, .read 3]
    WF c01Prog = true ∧ progTracked c01Prog = true ∧ noEff c01Prog = true ∧ isData c01Prog 5 = true ∧
    (step c01Prog (run c01Prog ops) (.read 5)).2 = some (specVal c01Prog (run c01Prog ops) 5) ∧
    specVal c01Prog (run c01Prog ops) 5 = 0 := by decide +kernel

/-! ## sanity with effects: an effect that copies `s0 + 1` into `s1` while memos depend on `s1` -/

def c01ProgE : Prog :=
  [.sig 1, .sig 0,
   .memo (.add (.rd true 0) (.rd true 1)),                 -- 2
   .eff (.wr 1 (.add (.rd true 0) (.lit 1))),              -- 3: s1 := s0 + 1
   .memo (.mulc 2 (.rd true 2)),                           -- 4
   .eff (.seq (.rd true 4) (.rd true 1))]                  -- 5

example :
    let ops : List Op := [.read 4, .idle, .read 4, .set 0 5, .read 2, .poll 0, .read 4, .idle]
    WF c01ProgE = true ∧ progTracked c01ProgE = true ∧ isData c01ProgE 4 = true ∧
    (step c01ProgE (run c01ProgE ops) (.read 4)).2 = some (specVal c01ProgE (run c01ProgE ops) 4) ∧
    specVal c01ProgE (run c01ProgE ops) 4 = 22 := by decide +kernel

/-! ## untracked reads (`untrack(..)`)

For programs whose bodies also use untracked reads the from-scratch value is not the reference
(an untracked read contributes the value it had when the memo last ran).  `evalSnap ρ b U`
(`Proofs/ReactiveBasic.lean`) evaluates body `b` with tracked reads taken from `ρ` and the k-th
executed untracked read taken from the k-th element of the snapshot list `U`. -/

/-- **untracked reads**: for every WF program (tracked and untracked reads, effects with writes) and
every history, the value returned by a read of memo `m` equals its body evaluated with every TRACKED
read replaced by what a read of that node returns right afterwards (its current, up-to-date value) and
the untracked reads replaced by some snapshot `U`.  (Not expressed: that `U` consists of the values the
untracked nodes had when `m` last ran — the model keeps no ghost record of untracked reads.)
For bodies without untracked reads `evalSnap ρ b U = (evalPure ρ b, U)` (`evalSnap_tracked`). -/
theorem C01_untracked_snapshot :
    ∀ (p : Prog) (ops : List Op) (m : Nat) (b : Expr), WF p = true → p[m]? = some (.memo b) →
      ∃ U : List Int, (step p (run p ops) (.read m)).2 =
        some (evalSnap (fun x => ((step p (step p (run p ops) (.read m)).1 (.read x)).2).getD 0) b U).1 :=
  fun _ ops m b hwf hb => read_snapshot hwf ops m b hb

/-- sanity: `m = s0 + untrack(s1)`; after `s1 := 5` the memo keeps the snapshot 0, after `s0 := 1` it re-runs -/
example :
    let p : Prog := [.sig 0, .sig 0, .memo (.add (.rd true 0) (.rd false 1))]
    WF p = true ∧ progTracked p = false ∧
    (step p (run p [.read 2, .set 1 5]) (.read 2)).2 = some 0 ∧
    specVal p (run p [.read 2, .set 1 5]) 2 = 5 ∧
    (step p (run p [.read 2, .set 1 5, .set 0 1]) (.read 2)).2 = some 6 := by decide +kernel

/-- **untracked reads are inert** (ghost-free reading of "the snapshot is the value at the last run"):
after a read of memo `m`, a write to a signal `sg` that is not among the transitive TRACKED sources
recorded by the last runs (`trackedDep s p.length m sg = false`, `Proofs/ReactiveReach.lean`: `sg` was read
by `m`'s dependency cone only untracked, or not at all) does not change what `read m` returns — the memo is
not even marked.  All WF programs (effects, untracked reads). -/
theorem C01_untracked_inert :
    ∀ (p : Prog) (ops : List Op) (m sg : Nat) (b : Expr) (v0 v : Int), WF p = true →
      p[m]? = some (.memo b) → p[sg]? = some (.sig v0) →
      trackedDep (step p (run p ops) (.read m)).1 p.length m sg = false →
      (step p (step p (step p (run p ops) (.read m)).1 (.set sg v)).1 (.read m)).2 =
        (step p (run p ops) (.read m)).2 :=
  fun _ ops m sg b v0 v hwf hb hsg hdep => set_inert hwf ops m sg b v0 v hb hsg hdep

/-- sanity: `m = s0 + untrack(s1)`: `s1` is not a tracked dependency, `s0` is -/
example :
    let p : Prog := [.sig 0, .sig 0, .memo (.add (.rd true 0) (.rd false 1))]
    trackedDep (step p (run p []) (.read 2)).1 p.length 2 1 = false ∧
    trackedDep (step p (run p []) (.read 2)).1 p.length 2 0 = true ∧
    (step p (step p (step p (run p []) (.read 2)).1 (.set 1 7)).1 (.read 2)).2 = some 0 := by
  decide +kernel

end Leptos.Reactive
