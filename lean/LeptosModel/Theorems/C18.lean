import LeptosModel.Proofs.Macro
import LeptosModel.Theorems.C06
import LeptosModel.Gen.Elements
/-!
# C18 — the `view!` macro renders what the template says

Model: Model/Macro.lean (`inertHtml` = the macro-time printer, `builderView`/`builderKids` = the builder
path as a tachys view, `macroHtml` = `to_html()` of the expansion the macro really produces, `denote` =
the document a template stands for, `normalize` = normal form of a parsed document).  `parse`, `toHtml`
and C06's `C06_structure_preserved` come from Model/Html, Theorems/C06.

All theorems quantify over **all** templates of the modelled grammar (elements of any nesting depth,
every attribute form, text, `{block}`s, fragments, `<Wrap>`), with all strings unbounded.  The hypothesis
`wfTs false [[]] ts` (Proofs/Macro.lean, decidable) says: the elements are ones the parser subset of C06
knows and the tree builder simply inserts, attribute names are tokenizable and distinct (what the macro
itself demands), no string contains U+0000/U+000D (C06's classes), **and** the four C18 finding classes
are absent: raw-text elements have no children and `<title>` one string (`rawtext-marker`,
`noscript-inert`; also C06's `raw-text-child`), no empty text (`empty-text`), class strings without
Unicode-only white space (`class-unicode-ws`).  For each class the full statement is refuted below by a
kernel-checked witness that was replayed on the real macro (corpus/C18).
-/
namespace Leptos.Macro
open Leptos.Html

/-! ## the two paths and what they denote -/

/-- **builder path**: the HTML tachys prints for what the builder path constructs parses, after
normalisation, to exactly the document the template denotes. -/
theorem C18_builder_denotes (ts : List Tmpl) (h : wfTs false [[]] ts = true) :
    normalize (parse (toHtml (builderKids ts))) = some (denote ts) := by
  rw [builderKids_eq ts true, C06_structure_preserved _ (wf_viewKids ts false true [[]] h)]
  have := struct_viewKids ts false true [[]] h .firstChild []
  simp only [List.append_nil, normList] at this
  simp [normalize, structureOf, this, denote]

/-- **the expansion the macro really produces** (builder elements with `InertElement` strings wherever
`is_inert_element` says so): same statement. -/
theorem C18_macro_denotes (ts : List Tmpl) (h : wfTs false [[]] ts = true) :
    normalize (parse (macroHtml ts)) = some (denote ts) := by
  rw [macroHtml_eq ts h, C06_structure_preserved _ (wf_viewKids ts true true [[]] h)]
  have := struct_viewKids ts true true [[]] h .firstChild []
  simp only [List.append_nil, normList] at this
  simp [normalize, structureOf, this, denote]

/-- **inert path**: the string the macro prints at compile time for an inert element parses, after
normalisation, to the document the element denotes (empty literals allowed here). -/
theorem C18_inert_denotes (t : Tmpl) (h : wfT true [[]] t = true) (hi : isInert t = true) :
    normalize (parse (inertHtml t)) = some (denote [t]) := by
  cases t with
  | elem tag attrs kids =>
    have hw : wfTs true [[]] [.elem tag attrs kids] = true := by simp [wfTs, h]
    have hk := inertNode_of_isInert hi
    have e : inertHtml (.elem tag attrs kids) = toHtml (inertKidsView [.elem tag attrs kids]) := by
      have := inert_html _ [[]] hw hk
      simp only [inertKidsHtml, List.append_nil] at this
      simp [inertHtml, toHtml, this]
    rw [e, C06_structure_preserved _ (inert_wf _ [[]] hw hk)]
    have := inert_struct _ [[]] hw hk []
    simp only [List.append_nil, normList] at this
    simp [normalize, structureOf, this, denote]
  | text s => simp [isInert] at hi
  | block s => simp [isInert] at hi
  | frag k => simp [isInert] at hi
  | comp k => simp [isInert] at hi

/-- **both paths yield the same document** for every element the macro may print at compile time. -/
theorem C18_paths_agree (t : Tmpl) (h : wfT false [[]] t = true) (hi : isInert t = true) :
    normalize (parse (inertHtml t)) = normalize (parse (toHtml (builderView t))) := by
  have hb := C18_builder_denotes [t] (by simp [wfTs, h])
  simp only [builderKids, List.append_nil] at hb
  rw [C18_inert_denotes t (wfT_mono t _ h) hi, hb]

/-- the expansion with inert subtrees and the pure builder path are indistinguishable after
normalisation: switching a subtree between the two paths is invisible -/
theorem C18_macro_eq_builder (ts : List Tmpl) (h : wfTs false [[]] ts = true) :
    normalize (parse (macroHtml ts)) = normalize (parse (toHtml (builderKids ts))) := by
  rw [C18_macro_denotes ts h, C18_builder_denotes ts h]

/-! ## adding a dynamic part leaves the static parts alone -/

/-- the denotation of a context around a hole, as a function of what the hole contributes -/
def shellDen (sh : Shell) (hole : List Tree → List Tree) (l r : List Tmpl) (acc : List Tree) : List Tree :=
  match sh with
  | .elem tag attrs => .elem tag (denAttrs attrs) (if isVoid tag then [] else denKs l (hole (denKs r []))) :: acc
  | .frag => denKs l (hole (denKs r acc))
  | .comp => .elem sSection [] (denKs l (hole (denKs r []))) :: acc

def plugDen : List Frame → (List Tree → List Tree) → (List Tree → List Tree)
  | [], hole => hole
  | f :: fs, hole => plugDen fs (shellDen f.shell hole f.left f.right)

theorem denKs_append (a b : List Tmpl) (acc : List Tree) : denKs (a ++ b) acc = denKs a (denKs b acc) := by
  induction a with
  | nil => simp [denKs]
  | cons t a ih => simp [denKs, ih]

theorem denKs_plug (fs : List Frame) : ∀ (x : List Tmpl) (acc : List Tree),
    denKs (plug fs x) acc = plugDen fs (denKs x) acc := by
  induction fs with
  | nil => intro x acc; rfl
  | cons f fs ih =>
    intro x acc
    have e : denKs [f.shell.wrap (f.left ++ x ++ f.right)] = shellDen f.shell (denKs x) f.left f.right := by
      funext a
      cases hs : f.shell <;>
        simp [Shell.wrap, denKs, denK, shellDen, denKs_append]
    simp only [plug, plugDen, ih, e]

/-- **static parts are stable**: the document rendered for a template with a hole filled by `x` is the
context's own denotation — every sibling subtree at every level, every ancestor's attributes, computed
from the context alone — around what `x` denotes.  Whether `x` is static (and its ancestors therefore
possibly printed at macro time) or a dynamic `{block}` (which forces all its ancestors onto the builder
path) changes nothing outside the hole. -/
theorem C18_static_parts_stable (fs : List Frame) (x : List Tmpl) (h : wfTs false [[]] (plug fs x) = true) :
    normalize (parse (macroHtml (plug fs x))) = some (plugDen fs (denKs x) []) := by
  rw [C18_macro_denotes _ h, denote, denKs_plug]

/-- the two-template form: replacing the subtree `x` by the dynamic block `{v}` -/
theorem C18_static_parts_stable_block (fs : List Frame) (x : List Tmpl) (v : Str)
    (h1 : wfTs false [[]] (plug fs x) = true) (h2 : wfTs false [[]] (plug fs [.block v]) = true) :
    normalize (parse (macroHtml (plug fs x))) = some (plugDen fs (denKs x) []) ∧
    normalize (parse (macroHtml (plug fs [.block v]))) = some (plugDen fs (consText v) []) := by
  refine ⟨C18_static_parts_stable fs x h1, ?_⟩
  rw [C18_static_parts_stable fs _ h2]
  have : denKs [Tmpl.block v] = consText v := by funext a; simp [denKs, denK]
  rw [this]

/-! ## the forced-dynamic twin -/

theorem sortKey_dyn (a : TAttr) : sortKey (dynAttr a) = sortKey a := by cases a <;> rfl
theorem builderAttr_dyn (a : TAttr) : builderAttr (dynAttr a) = builderAttr a := by cases a <;> rfl

theorem filter_key_dyn (k : Nat) (attrs : List TAttr) :
    (attrs.map dynAttr).filter (fun a => sortKey a = k) = (attrs.filter (fun a => sortKey a = k)).map dynAttr := by
  induction attrs with
  | nil => rfl
  | cons a r ih =>
    simp only [List.map_cons, List.filter_cons, sortKey_dyn, ih]
    split <;> simp

theorem sortAttrs_dyn (attrs : List TAttr) : sortAttrs (attrs.map dynAttr) = (sortAttrs attrs).map dynAttr := by
  simp only [sortAttrs, List.map_append, filter_key_dyn]

theorem builderAttrs_dyn (attrs : List TAttr) : builderAttrs (attrs.map dynAttr) = builderAttrs attrs := by
  simp [builderAttrs, sortAttrs_dyn, List.map_map, Function.comp_def, builderAttr_dyn]

mutual
/-- replacing every literal by a `{…}` with the same value builds the same tachys view … -/
theorem C18_twin_same_view : (t : Tmpl) → builderView (dynamize t) = builderView t
  | .text s => by simp [dynamize, builderView]
  | .block s => by simp [dynamize, builderView]
  | .elem tag attrs kids => by simp [dynamize, builderView, builderAttrs_dyn, C18_twin_same_view_kids kids]
  | .frag kids => by simp [dynamize, builderView, C18_twin_same_view_kids kids]
  | .comp kids => by simp [dynamize, builderView, C18_twin_same_view_kids kids]
theorem C18_twin_same_view_kids : (ts : List Tmpl) → builderKids (dynKids ts) = builderKids ts
  | [] => by simp [dynKids, builderKids]
  | t :: ts => by simp [dynKids, builderKids, C18_twin_same_view t, C18_twin_same_view_kids ts]
end

theorem plainDen_dyn (attrs : List TAttr) : plainDen (attrs.map dynAttr) = plainDen attrs := by
  induction attrs with
  | nil => rfl
  | cons a r ih =>
    cases a with
    | boolDyn n b => cases b <;> simp [dynAttr, plainDen, ih]
    | _ => simp [dynAttr, plainDen, ih]

theorem classDen_dyn (attrs : List TAttr) : classDen (attrs.map dynAttr) = classDen attrs := by
  induction attrs with
  | nil => rfl
  | cons a r ih =>
    cases a with
    | clsToggle n b => cases b <;> simp [dynAttr, classDen, ih]
    | clsTuple n b => cases b <;> simp [dynAttr, classDen, ih]
    | _ => simp [dynAttr, classDen, ih]

theorem styleSrc_dyn (attrs : List TAttr) : styleSrc (attrs.map dynAttr) = styleSrc attrs := by
  induction attrs with
  | nil => rfl
  | cons a r ih => cases a <;> simp [dynAttr, styleSrc, ih]

theorem denAttrs_dyn (attrs : List TAttr) : denAttrs (attrs.map dynAttr) = denAttrs attrs := by
  simp [denAttrs, plainDen_dyn, sortAttrs_dyn, classDen_dyn, styleSrc_dyn]

mutual
/-- … and denotes the same document -/
theorem C18_twin_same_meaning : (t : Tmpl) → ∀ acc, denK (dynamize t) acc = denK t acc
  | .text s, _ => by simp [dynamize, denK]
  | .block s, _ => by simp [dynamize, denK]
  | .elem tag attrs kids, _ => by simp [dynamize, denK, denAttrs_dyn, C18_twin_same_meaning_kids kids]
  | .frag kids, _ => by simp [dynamize, denK, C18_twin_same_meaning_kids kids]
  | .comp kids, _ => by simp [dynamize, denK, C18_twin_same_meaning_kids kids]
theorem C18_twin_same_meaning_kids : (ts : List Tmpl) → ∀ acc, denKs (dynKids ts) acc = denKs ts acc
  | [], _ => by simp [dynKids, denKs]
  | t :: ts, acc => by simp [dynKids, denKs, C18_twin_same_meaning t, C18_twin_same_meaning_kids ts]
end

/-! ## the full statements, and why they are false of the code -/

/-- the full property: whatever the real expansion renders, if it is HTML at all (inside the parser
subset), it is the document the template denotes -/
def C18_macro_denotes_full : Prop :=
  ∀ (ts : List Tmpl) (a : List Tree), parse (macroHtml ts) = some a → normList a = denote ts

/-- the full property: both paths yield the same document for every inert element -/
def C18_paths_agree_full : Prop :=
  ∀ (t : Tmpl), isInert t = true → ∀ a b, parse (inertHtml t) = some a → parse (toHtml (builderView t)) = some b →
    normList a = normList b

def sDiv : Str := ['d','i','v']
def sP : Str := ['p']
def cNbsp : Char := Char.ofNat 160

/-- F-C18-1 (`noscript-inert`): the macro-time printer escapes the text of `<noscript>` (its no-escape list
is `script|style|textarea`), tachys does not (`ESCAPE_CHILDREN = false`), and a parser with scripting
enabled reads `<noscript>` as raw text: `<noscript>"a<b"</noscript>` is `a&lt;b` on the inert path (text
`a&lt;b`) and `a<b` on the builder path. -/
theorem C18_noscript_inert_witness :
    isInert (.elem tNoscript [] [.text ['a','<','b']]) = true ∧
    inertHtml (.elem tNoscript [] [.text ['a','<','b']]) =
      ['<','n','o','s','c','r','i','p','t','>','a','&','l','t',';','b','<','/','n','o','s','c','r','i','p','t','>'] ∧
    normalize (parse (inertHtml (.elem tNoscript [] [.text ['a','<','b']]))) =
      some [.elem tNoscript [] [.text ['a','&','l','t',';','b']]] ∧
    normalize (parse (toHtml (builderView (.elem tNoscript [] [.text ['a','<','b']])))) =
      some [.elem tNoscript [] [.text ['a','<','b']]] ∧
    denote [.elem tNoscript [] [.text ['a','<','b']]] = [.elem tNoscript [] [.text ['a','<','b']]] ∧
    -- as the macro really expands it (a child of a root element), and with a dynamic sibling added
    normalize (parse (macroHtml [.elem sDiv [] [.elem tNoscript [] [.text ['a','<','b']]]])) =
      some [.elem sDiv [] [.elem tNoscript [] [.text ['a','&','l','t',';','b']]]] ∧
    findingClass [.elem sDiv [] [.elem tNoscript [] [.text ['a','<','b']]]] = some 0 := by
  decide

/-- F-C18-2 (`rawtext-marker`): between two string children tachys writes the marker `<!>`, also inside
`<title>` (RCDATA), where it is text: `<title>"T" {"u"}</title>` has the title `T<!>u`; the static
`<title>"T" "u"</title>` (inert path) has `Tu`. -/
theorem C18_rawtext_marker_witness :
    macroHtml [.elem sDiv [] [.elem tTitle [] [.text ['T'], .block ['u']]]] =
      ['<','d','i','v','>','<','t','i','t','l','e','>','T','<','!','>','u','<','/','t','i','t','l','e','>','<','/','d','i','v','>'] ∧
    normalize (parse (macroHtml [.elem sDiv [] [.elem tTitle [] [.text ['T'], .block ['u']]]])) =
      some [.elem sDiv [] [.elem tTitle [] [.text ['T','<','!','>','u']]]] ∧
    denote [.elem sDiv [] [.elem tTitle [] [.text ['T'], .block ['u']]]] =
      [.elem sDiv [] [.elem tTitle [] [.text ['T','u']]]] ∧
    normalize (parse (macroHtml [.elem sDiv [] [.elem tTitle [] [.text ['T'], .text ['u']]]])) =
      some [.elem sDiv [] [.elem tTitle [] [.text ['T','u']]]] ∧
    findingClass [.elem sDiv [] [.elem tTitle [] [.text ['T'], .block ['u']]]] = some 1 := by
  decide

/-- F-C18-3 (`class-unicode-ws`): tachys trims the class attribute with `str::trim` (Unicode white
space); the inert printer writes the literal as it is.  `class="\u{a0}x"`: one class token `U+00A0 x` on the
inert path, the token `x` on the builder path. -/
theorem C18_class_unicode_ws_witness :
    isInert (.elem sP [.cls false [cNbsp, 'x']] [.text ['t']]) = true ∧
    normalize (parse (inertHtml (.elem sP [.cls false [cNbsp, 'x']] [.text ['t']]))) =
      some [.elem sP [(sClass, [cNbsp, 'x'])] [.text ['t']]] ∧
    normalize (parse (toHtml (builderView (.elem sP [.cls false [cNbsp, 'x']] [.text ['t']])))) =
      some [.elem sP [(sClass, ['x'])] [.text ['t']]] ∧
    denote [.elem sP [.cls false [cNbsp, 'x']] [.text ['t']]] = [.elem sP [(sClass, [cNbsp, 'x'])] [.text ['t']]] ∧
    findingClass [.elem sP [.cls false [cNbsp, 'x']] [.text ['t']]] = some 2 := by
  decide

/-- F-C18-4 (`empty-text`): an empty string child is one space for tachys and nothing for the inert
printer: `<p>""</p>` is `<p></p>` at macro time and `<p> </p>` on the builder path. -/
theorem C18_empty_text_witness :
    isInert (.elem sP [] [.text []]) = true ∧
    normalize (parse (inertHtml (.elem sP [] [.text []]))) = some [.elem sP [] []] ∧
    normalize (parse (toHtml (builderView (.elem sP [] [.text []])))) = some [.elem sP [] [.text [' ']]] ∧
    denote [.elem sP [] [.text []]] = [.elem sP [] []] ∧
    findingClass [.elem sP [] [.text []]] = some 3 := by
  decide

theorem C18_paths_agree_full_false : ¬ C18_paths_agree_full := by
  intro h
  have w := C18_empty_text_witness
  have ha : parse (inertHtml (.elem sP [] [.text []])) = some [.elem sP [] []] := by decide
  have hb : parse (toHtml (builderView (.elem sP [] [.text []]))) = some [.elem sP [] [.text [' ']]] := by decide
  have := h _ w.1 _ _ ha hb
  revert this
  decide

theorem C18_macro_denotes_full_false : ¬ C18_macro_denotes_full := by
  intro h
  have ha : parse (macroHtml [.elem sDiv [] [.elem tTitle [] [.text ['T'], .block ['u']]]]) =
      some [.elem sDiv [] [.elem tTitle [] [.text ['T','<','!','>','u']]]] := by decide
  have := h _ _ ha
  revert this
  decide

/-- **the finding classes are exactly outside the hypothesis**: a well-formed template is in none of the
four classes the driver attaches to failing verdicts (so the partial theorems' hypothesis and the known-finding
classes do not overlap) -/
theorem C18_classes_excluded (ts : List Tmpl) (h : wfTs false [[]] ts = true) : findingClass ts = none := by
  have hall := seen_ok_kids ts true [[]] h
  have key : ∀ (p : Seen → Bool), (∀ s, p s = true → s.bad = true) → (seenKids true true ts).any p = false := by
    intro p hp
    cases hany : (seenKids true true ts).any p
    · rfl
    · obtain ⟨s, hs, hps⟩ := List.any_eq_true.mp hany
      have := List.all_eq_true.mp hall s hs
      rw [hp s hps] at this
      cases this
  simp only [findingClass]
  rw [key Seen.noscriptInert (by intro s h; simp [Seen.bad, h]), key Seen.rawMarker (by intro s h; simp [Seen.bad, h]),
    key Seen.classWs (by intro s h; simp [Seen.bad, h]), key Seen.emptyText (by intro s h; simp [Seen.bad, h])]
  simp

/-- OPEN (not proved; exercised by the harness only): a raw-text element with ONE literal child free of
`<`, `&`, NUL, CR (and not starting with a line feed, which `<textarea>` drops) renders that literal verbatim on both paths and reads back unchanged.  C06's proved class has
no lemma for RAWTEXT / script-data content (its raw-text elements are child-less), so the main theorems
exclude these templates; SVG elements (foreign content, outside `parse`'s subset) are likewise only covered
by the correspondence run. -/
def C18_rawtext_single_stmt : Prop :=
  ∀ (tag s : Str), tag ∈ [tScript, tStyle, tTextarea] → titleInert s = true → s ≠ [] → s.head? ≠ some cLf →
    normalize (parse (macroHtml [.elem sDiv [] [.elem tag [] [.text s]]])) =
      some (denote [.elem sDiv [] [.elem tag [] [.text s]]]) ∧
    normalize (parse (macroHtml [.elem sDiv [] [.elem tag [] [.block s]]])) =
      some (denote [.elem sDiv [] [.elem tag [] [.block s]]])

/-! ## the macro's hard-coded element lists against the runtime table (regenerated from source) -/

/-- the model's lists are the ones in leptos_macro/src/view/mod.rs -/
theorem C18_table_lists :
    Leptos.Gen.Elements.macroSelfClosing = macroVoid ∧ Leptos.Gen.Elements.macroNoEscape = macroNoEscape := by
  decide

/-- for every element tachys has, the macro's `is_self_closing` is tachys' `SELF_CLOSING` -/
theorem C18_table_void : ∀ r ∈ Leptos.Gen.Elements.rows, macroIsVoid r.1 = r.2.1 := by decide +kernel

/-- full: every tag the macro treats as void is a (void) tachys element -/
def C18_table_void_full : Prop :=
  ∀ t ∈ Leptos.Gen.Elements.macroSelfClosing, (t, true, true) ∈ Leptos.Gen.Elements.rows

/-- `param` is void for the macro and does not exist in tachys: `<param>` compiles only while its subtree is
inert (`<div><param name="a"/></div>`); any dynamic attribute makes the builder path call the missing
`html::element::param()`.  No accepted template renders differently, so this is not a finding class. -/
theorem C18_table_void_full_false : ¬ C18_table_void_full := by
  intro h
  have := h sParam (by decide)
  revert this
  decide +kernel

theorem C18_table_void_partial :
    ∀ t ∈ Leptos.Gen.Elements.macroSelfClosing, t ≠ sParam → (t, true, true) ∈ Leptos.Gen.Elements.rows := by
  decide +kernel

/-- full: the macro escapes the text children of exactly the elements tachys escapes -/
def C18_table_noescape_full : Prop :=
  ∀ r ∈ Leptos.Gen.Elements.rows, macroEscapes r.1 = r.2.2

theorem C18_table_noescape_full_false : ¬ C18_table_noescape_full := by
  intro h
  have := h (tNoscript, false, false) (by decide +kernel)
  revert this
  decide

/-- the lists agree on every element but `noscript` (F-C18-1) -/
theorem C18_table_noescape_partial :
    ∀ r ∈ Leptos.Gen.Elements.rows, r.1 ≠ tNoscript → macroEscapes r.1 = r.2.2 := by decide +kernel

/-! ## non-vacuity -/

/-- a template with hostile strings in every position, all attribute forms, a fragment, the component, an
inert subtree next to a dynamic one: the hypothesis of the main theorems holds … -/
def exTemplate : List Tmpl :=
  [.elem sDiv [.plain true ['i','d'] ['"','>','<'], .clsToggle ['o','n'] true, .cls false [' ','k',' ',' ','j',' '],
               .styleKV true ['l','e','f','t'] ['<','/','s','t','y','l','e','>'], .clsTuple ['t','u'] false,
               .style false ['c','o','l','o','r',':','r','e','d'], .flag ['h','i','d','d','e','n']]
     [.elem sP [.plain false ['t','i','t','l','e'] ['q','"','<','&','>'], .cls false ['a',' ','b']]
        [.text ['t','<','&','>'], .text ['u'], .elem ['b','r'] [] []],
      .block ['<','/','d','i','v','>','<','!','-','-'],
      .frag [.text ['&','a','m','p',';'], .elem ['x','-','f','o','o'] [.plain false ['f','o','o'] ['\'']] [.text ['c']]],
      .comp [.elem ['i'] [] [.elem ['b'] [.plain false ['d','a','t','a','-','k'] ['v']] [.text ['q']]]],
      .elem tTitle [] [.text ['T','<','/','t','i','t','l','e','>']],
      .elem tScript [.plain false ['s','r','c'] ['a','&','b']] []]]

example : wfTs false [[]] exTemplate = true := by decide

/-- … part of it is printed at macro time, part built at run time … -/
example : (seenKids true true exTemplate).any (fun s => match s with | .iroot _ => true | _ => false) = true := by
  decide

/-- … and the conclusion holds by evaluation as well (on a smaller instance: a dynamic attribute and block
around an inert `<p>` with two adjacent literals) -/
example :
    macroHtml [.elem sDiv [.plain true ['i','d'] ['"','>']] [.elem sP [.cls false ['a']] [.text ['t','<'], .text ['u']], .block ['x']]] =
      ['<','d','i','v',' ','i','d','=','"','&','q','u','o','t',';','&','g','t',';','"','>',
       '<','p',' ','c','l','a','s','s','=','"','a','"','>','t','&','l','t',';','u','<','/','p','>','x','<','/','d','i','v','>'] ∧
    normalize (parse (macroHtml [.elem sDiv [.plain true ['i','d'] ['"','>']]
        [.elem sP [.cls false ['a']] [.text ['t','<'], .text ['u']], .block ['x']]])) =
      some (denote [.elem sDiv [.plain true ['i','d'] ['"','>']]
        [.elem sP [.cls false ['a']] [.text ['t','<'], .text ['u']], .block ['x']]]) := by decide

/-- the hypotheses of `C18_inert_denotes` / `C18_paths_agree` -/
example : wfT false [[]] (.elem sP [.plain false ['t','i','t','l','e'] ['q','"','<','&','>'], .cls false ['a',' ','b']]
    [.text ['t','<','&','>'], .text ['u'], .elem ['b','r'] [] []]) = true ∧
    isInert (.elem sP [.plain false ['t','i','t','l','e'] ['q','"','<','&','>'], .cls false ['a',' ','b']]
    [.text ['t','<','&','>'], .text ['u'], .elem ['b','r'] [] []]) = true := by decide

/-- a context with a hole (`C18_static_parts_stable`): static content and a dynamic block in the same hole -/
example :
    wfTs false [[]] (plug [⟨.elem sP [.cls false ['c']], [.text ['a']], [.elem ['b'] [] [.text ['z']]]⟩, ⟨.elem sDiv [], [], []⟩]
      [.elem ['i'] [] [.text ['s']]]) = true ∧
    wfTs false [[]] (plug [⟨.elem sP [.cls false ['c']], [.text ['a']], [.elem ['b'] [] [.text ['z']]]⟩, ⟨.elem sDiv [], [], []⟩]
      [.block ['d']]) = true := by decide

end Leptos.Macro
