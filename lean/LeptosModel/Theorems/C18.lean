import LeptosModel.Proofs.Macro
import LeptosModel.Gen.Elements
/-!
# C18 — the `view!` macro renders what the template says

Model: Model/Macro.lean (`inertHtml` = the macro-time printer, `builderView`/`builderKids` = the builder
path as a tachys view, `macroHtml` = `to_html()` of the expansion the macro really produces, `denote` =
the document a template stands for, `normalize` = normal form of a parsed document).  `parse`, `toHtml`
and C06's structure theorem (`C06_structure_preserved`, used through its copy `structure_preserved` in
Proofs/Macro.lean, proved from the same `run_kids`) come from Model/Html, Proofs/Html.

The model is of /repo after fix-c18-1 (noscript joins the macro's no-escape list), fix-c18-3 (the inert
printer trims a class literal like tachys trims the class attribute) and fix-c18-4 (an empty literal is one
space on the inert path as well); the printer before those commits is `inertHtmlOld` / `macroHtmlOld`, with
the three regression witnesses at the end.

All theorems quantify over **all** templates of the modelled grammar (elements of any nesting depth,
every attribute form, text, `{block}`s, fragments, `<Wrap>`), with all strings unbounded — empty strings and
any white space included.  The hypothesis `wfTs [[]] ts` (Proofs/Macro.lean, decidable) says: the elements are
ones the parser subset of C06 knows and the tree builder simply inserts, attribute names are tokenizable and
distinct (what the macro itself demands), no string contains U+0000/U+000D (C06's classes), and raw-text
elements have no children, `<title>` one string (C06's `raw-text-child`; the remaining C18 class
`rawtext-marker`, refuted below by a kernel-checked witness replayed on the real macro, corpus/C18).
-/
set_option linter.unusedSimpArgs false
namespace Leptos.Macro
open Leptos.Html

/-! ## the two paths and what they denote -/

/-- **builder path**: the HTML tachys prints for what the builder path constructs parses, after
normalisation, to exactly the document the template denotes. -/
theorem C18_builder_denotes (ts : List Tmpl) (h : wfTs [[]] ts = true) :
    normalize (parse (toHtml (builderKids ts))) = some (denote ts) := by
  rw [builderKids_eq ts true, structure_preserved _ (wf_viewKids ts false true [[]] h)]
  have := struct_viewKids ts false true [[]] h .firstChild []
  simp only [List.append_nil, normList] at this
  simp [normalize, structureOf, this, denote]

/-- **the expansion the macro really produces** (builder elements with `InertElement` strings wherever
`is_inert_element` says so): same statement. -/
theorem C18_macro_denotes (ts : List Tmpl) (h : wfTs [[]] ts = true) :
    normalize (parse (macroHtml ts)) = some (denote ts) := by
  rw [macroHtml_eq ts h, structure_preserved _ (wf_viewKids ts true true [[]] h)]
  have := struct_viewKids ts true true [[]] h .firstChild []
  simp only [List.append_nil, normList] at this
  simp [normalize, structureOf, this, denote]

/-- **inert path**: the string the macro prints at compile time for an inert element parses, after
normalisation, to the document the element denotes. -/
theorem C18_inert_denotes (t : Tmpl) (h : wfT [[]] t = true) (hi : isInert t = true) :
    normalize (parse (inertHtml t)) = some (denote [t]) := by
  cases t with
  | elem tag attrs kids =>
    have hw : wfTs [[]] [.elem tag attrs kids] = true := by simp [wfTs, h]
    have hk := inertNode_of_isInert hi
    have e : inertHtml (.elem tag attrs kids) = toHtml (inertKidsView [.elem tag attrs kids]) := by
      have := inert_html _ [[]] hw hk
      simp only [inertKidsHtml, List.append_nil] at this
      simp [inertHtml, toHtml, this]
    rw [e, structure_preserved _ (inert_wf _ [[]] hw hk)]
    have := inert_struct _ [[]] hw hk []
    simp only [List.append_nil, normList] at this
    simp [normalize, structureOf, this, denote]
  | text s => simp [isInert] at hi
  | block s => simp [isInert] at hi
  | frag k => simp [isInert] at hi
  | comp k => simp [isInert] at hi
  | comment c => simp [isInert] at hi
  | doctype => simp [isInert] at hi
  | unit => simp [isInert] at hi
  | compA c a k => simp [isInert] at hi

/-- **both paths yield the same document** for every element the macro may print at compile time. -/
theorem C18_paths_agree (t : Tmpl) (h : wfT [[]] t = true) (hi : isInert t = true) :
    normalize (parse (inertHtml t)) = normalize (parse (toHtml (builderView t))) := by
  have hb := C18_builder_denotes [t] (by simp [wfTs, h])
  simp only [builderKids, List.append_nil] at hb
  rw [C18_inert_denotes t h hi, hb]

/-- the expansion with inert subtrees and the pure builder path are indistinguishable after
normalisation: switching a subtree between the two paths is invisible -/
theorem C18_macro_eq_builder (ts : List Tmpl) (h : wfTs [[]] ts = true) :
    normalize (parse (macroHtml ts)) = normalize (parse (toHtml (builderKids ts))) := by
  rw [C18_macro_denotes ts h, C18_builder_denotes ts h]

/-! ## the streaming entry points -/

mutual
theorem expHtmlAsync_eq : (e : Exp) → ∀ (ooo esc : Bool) (pos : Pos), expHtmlAsync ooo esc pos e = expHtml esc pos e
  | .text s, _, _, _ => by simp [expHtmlAsync, expHtml]
  | .inert h, _, _, _ => by simp [expHtmlAsync, expHtml]
  | .unit, _, _, _ => by simp [expHtmlAsync, expHtml]
  | .elem tag attrs kids, ooo, _, _ => by
    simp [expHtmlAsync, expHtml, expKidsHtmlAsync_eq kids ooo]
theorem expKidsHtmlAsync_eq : (es : List Exp) → ∀ (ooo esc : Bool) (pos : Pos),
    expKidsHtmlAsync ooo esc pos es = expKidsHtml esc pos es
  | [], _, _, _ => by simp [expKidsHtmlAsync, expKidsHtml]
  | e :: es, ooo, esc, pos => by
    simp [expKidsHtmlAsync, expKidsHtml, expHtmlAsync_eq e ooo, expKidsHtmlAsync_eq es ooo]
end

/-- **async emitter = sync emitter**: for every template (no hypothesis) `to_html_stream_in_order()` and
`to_html_stream_out_of_order()`, collected, are byte for byte `to_html()` -/
theorem C18_stream_eq_sync (ooo : Bool) (ts : List Tmpl) : macroHtmlStream ooo ts = macroHtml ts :=
  expKidsHtmlAsync_eq _ ooo true .firstChild

/-- so the streamed document denotes the template as well -/
theorem C18_stream_denotes (ooo : Bool) (ts : List Tmpl) (h : wfTs [[]] ts = true) :
    normalize (parse (macroHtmlStream ooo ts)) = some (denote ts) := by
  rw [C18_stream_eq_sync, C18_macro_denotes ts h]

/-! ## below a parent that does not escape its own text (`<noscript>`)

The escape flag is NOT inherited: an element below a non-escaping parent escapes its own strings exactly as
anywhere else, on the static path (decided per element name) and on the builder path (`E::ESCAPE_CHILDREN` of the
element itself).  Hence the content of such a parent, read as markup (a user agent without scripting), is the
document its children denote — on both paths. -/

/-- children that are elements (or comments): no string is a direct child of the raw-text parent -/
def allElemsT (ks : List Tmpl) : Bool :=
  ks.all (fun t => match t with | .elem _ _ _ => true | .comment _ => true | _ => false)

theorem kidsHtml_noText (ns : List Node) (h : ns.all (fun n => !isTextNode n) = true) (e : Bool) (pos : Pos) :
    kidsHtml e pos ns = kidsHtml true pos ns := by
  induction ns generalizing pos with
  | nil => simp [kidsHtml]
  | cons n r ih =>
    simp only [List.all_cons, Bool.and_eq_true] at h
    cases n with
    | text s => simp [isTextNode] at h
    | elem tag attrs kids => simp [kidsHtml, nodeHtml, ih h.2]

theorem expKidsHtml_noText (es : List Exp) (h : es.all (fun e => match e with | .text _ => false | .unit => false | _ => true) = true)
    (e : Bool) (pos : Pos) : expKidsHtml e pos es = expKidsHtml true pos es := by
  induction es generalizing pos with
  | nil => simp [expKidsHtml]
  | cons x r ih =>
    simp only [List.all_cons, Bool.and_eq_true] at h
    cases x with
    | text s => simp at h
    | inert hh => simp [expKidsHtml, expHtml, ih h.2]
    | unit => simp at h
    | elem tag attrs kids => simp [expKidsHtml, expHtml, ih h.2]

theorem inertKidsHtml_elems : (ks : List Tmpl) → allElemsT ks = true → ∀ e, inertKidsHtml e ks = inertKidsHtml true ks
  | [], _, _ => by simp [inertKidsHtml]
  | t :: ts, h, e => by
    simp only [allElemsT, List.all_cons, Bool.and_eq_true] at h
    have ih := inertKidsHtml_elems ts (by simpa [allElemsT] using h.2) e
    cases t with
    | elem tag attrs kids => simp [inertKidsHtml, inertNodeHtml, ih]
    | comment c => simp [inertKidsHtml, inertNodeHtml, ih]
    | text s => simp at h
    | block s => simp at h
    | frag k => simp at h
    | comp k => simp at h
    | doctype => simp at h
    | unit => simp at h
    | compA c a k => simp at h

theorem builderKids_noText : (ks : List Tmpl) → allElemsT ks = true →
    (builderKids ks).all (fun n => !isTextNode n) = true
  | [], _ => by simp [builderKids]
  | t :: ts, h => by
    simp only [allElemsT, List.all_cons, Bool.and_eq_true] at h
    have ih := builderKids_noText ts (by simpa [allElemsT] using h.2)
    cases t with
    | elem tag attrs kids =>
      simp only [builderKids, builderView, List.cons_append, List.nil_append, List.all_cons, isTextNode, Bool.not_false,
        Bool.true_and]
      exact ih
    | comment c => simpa [builderKids, builderView] using ih
    | text s => simp at h
    | block s => simp at h
    | frag k => simp at h
    | comp k => simp at h
    | doctype => simp at h
    | unit => simp at h
    | compA c a k => simp at h

theorem expandKids_noText (top : Bool) : (ks : List Tmpl) → allElemsT ks = true →
    (expandKids top ks).all (fun e => match e with | .text _ => false | .unit => false | _ => true) = true
  | [], _ => by simp [expandKids]
  | t :: ts, h => by
    simp only [allElemsT, List.all_cons, Bool.and_eq_true] at h
    have ih := expandKids_noText top ts (by simpa [allElemsT] using h.2)
    cases t with
    | elem tag attrs kids =>
      simp only [expandKids, expand]
      split <;> simp [ih]
    | comment c => simpa [expandKids, expand] using ih
    | text s => simp at h
    | block s => simp at h
    | frag k => simp at h
    | comp k => simp at h
    | doctype => simp at h
    | unit => simp at h
    | compA c a k => simp at h

/-- the real expansion of children of an element (`top = false`: they may be printed at macro time) denotes them -/
theorem macro_denotes_top (top : Bool) (ts : List Tmpl) (h : wfTs [[]] ts = true) :
    normalize (parse (expKidsHtml true .firstChild (expandKids top ts))) = some (denote ts) := by
  have e : expKidsHtml true .firstChild (expandKids top ts) = toHtml (viewKids true top ts) := by
    unfold toHtml
    exact (rel_viewKids ts top [[]] h).html .firstChild
  rw [e, structure_preserved _ (wf_viewKids ts true top [[]] h)]
  have := struct_viewKids ts true top [[]] h .firstChild []
  simp only [List.append_nil, normList] at this
  simp [normalize, structureOf, this, denote]

/-- **builder path below a raw-text parent**: what tachys writes for the children of a non-escaping element
(`escape = E::ESCAPE_CHILDREN = false` handed down) is what it writes for them anywhere, and denotes them -/
theorem C18_raw_parent_builder (tag : Str) (ks : List Tmpl) (hel : allElemsT ks = true) (h : wfTs [[]] ks = true) :
    kidsHtml (escapeChildren tag) .firstChild (builderKids ks) = toHtml (builderKids ks) ∧
    normalize (parse (kidsHtml (escapeChildren tag) .firstChild (builderKids ks))) = some (denote ks) := by
  have e := kidsHtml_noText _ (builderKids_noText ks hel) (escapeChildren tag) .firstChild
  refine ⟨e, ?_⟩
  rw [e]
  exact C18_builder_denotes ks h

/-- **static path below a raw-text parent**: the compile-time printer decides escaping per element name, so the
children of `<noscript>` are printed as anywhere else and denote the same document -/
theorem C18_raw_parent_static (tag : Str) (ks : List Tmpl) (hel : allElemsT ks = true) (h : wfTs [[]] ks = true)
    (hi : inertKids ks = true) :
    inertKidsHtml (macroEscapes tag) ks = inertKidsHtml true ks ∧
    normalize (parse (inertKidsHtml (macroEscapes tag) ks)) = some (denote ks) := by
  have e := inertKidsHtml_elems ks hel (macroEscapes tag)
  refine ⟨e, ?_⟩
  rw [e, inert_html ks [[]] h hi, show kidsHtml true .firstChild (inertKidsView ks) = toHtml (inertKidsView ks) from rfl,
    structure_preserved _ (inert_wf ks [[]] h hi)]
  have := inert_struct ks [[]] h hi []
  simp only [List.append_nil, normList] at this
  simp [normalize, structureOf, this, denote]

/-- **the real expansion below a raw-text parent**, sync and streamed; in particular static path = builder path
there (`C18_raw_parent_static`, `C18_raw_parent_builder` give the same document) -/
theorem C18_raw_parent_macro (tag : Str) (ooo : Bool) (ks : List Tmpl) (hel : allElemsT ks = true) (h : wfTs [[]] ks = true) :
    normalize (parse (expKidsHtml (escapeChildren tag) .firstChild (expandKids false ks))) = some (denote ks) ∧
    normalize (parse (expKidsHtmlAsync ooo (escapeChildren tag) .firstChild (expandKids false ks))) = some (denote ks) := by
  have e := expKidsHtml_noText _ (expandKids_noText false ks hel) (escapeChildren tag) .firstChild
  rw [expKidsHtmlAsync_eq, e]
  exact ⟨macro_denotes_top false ks h, macro_denotes_top false ks h⟩

/-! ## the escaping of static text depends on the element that contains it, not on what was printed before -/

/-- **siblings are printed independently** on the static path: what follows a closed sibling (a `<style>`,
`<script>`, `<textarea>`, `<noscript>` with its own, different escaping included) is printed with the flag of the
common parent -/
theorem C18_inert_siblings_independent (esc : Bool) (xs ys : List Tmpl) :
    inertKidsHtml esc (xs ++ ys) = inertKidsHtml esc xs ++ inertKidsHtml esc ys := by
  induction xs with
  | nil => simp [inertKidsHtml]
  | cons x xs ih => simp [inertKidsHtml, ih]

/-! ## adding a dynamic part leaves the static parts alone -/

/-- the denotation of a context around a hole, as a function of what the hole contributes -/
def shellDen (esc : Bool) (sh : Shell) (hole : Bool → List Tree → List Tree) (l r : List Tmpl) (acc : List Tree) :
    List Tree :=
  match sh with
  | .elem tag attrs =>
    .elem tag (denAttrs attrs)
      (if isVoid tag then [] else denKs (escapeChildren tag) l (hole (escapeChildren tag) (denKs (escapeChildren tag) r []))) :: acc
  | .frag => denKs esc l (hole esc (denKs esc r acc))
  | .comp => .elem sSection [] (denKs true l (hole true (denKs true r []))) :: acc

/-- `hole esc acc`: what the hole contributes in front of `acc` when its strings are escaped (`esc`) -/
def plugDen : List Frame → (Bool → List Tree → List Tree) → (Bool → List Tree → List Tree)
  | [], hole => hole
  | f :: fs, hole => plugDen fs (fun esc => shellDen esc f.shell hole f.left f.right)

theorem denKs_append (esc : Bool) (a b : List Tmpl) (acc : List Tree) :
    denKs esc (a ++ b) acc = denKs esc a (denKs esc b acc) := by
  induction a with
  | nil => simp [denKs]
  | cons t a ih => simp [denKs, ih]

theorem denKs_plug (fs : List Frame) : ∀ (x : List Tmpl) (esc : Bool) (acc : List Tree),
    denKs esc (plug fs x) acc = plugDen fs (fun e => denKs e x) esc acc := by
  induction fs with
  | nil => intro x esc acc; rfl
  | cons f fs ih =>
    intro x esc acc
    have e : (fun e => denKs e [f.shell.wrap (f.left ++ x ++ f.right)]) =
        (fun e => shellDen e f.shell (fun e => denKs e x) f.left f.right) := by
      funext e a
      cases hs : f.shell <;>
        simp [Shell.wrap, denKs, denK, shellDen, denKs_append]
    simp only [plug, plugDen, ih, e]

/-- **static parts are stable**: the document rendered for a template with a hole filled by `x` is the
context's own denotation — every sibling subtree at every level, every ancestor's attributes, computed
from the context alone — around what `x` denotes.  Whether `x` is static (and its ancestors therefore
possibly printed at macro time) or a dynamic `{block}` (which forces all its ancestors onto the builder
path) changes nothing outside the hole. -/
theorem C18_static_parts_stable (fs : List Frame) (x : List Tmpl) (h : wfTs [[]] (plug fs x) = true) :
    normalize (parse (macroHtml (plug fs x))) = some (plugDen fs (fun e => denKs e x) true []) := by
  rw [C18_macro_denotes _ h, denote, denKs_plug]

/-- the two-template form: replacing the subtree `x` by the dynamic block `{v}` -/
theorem C18_static_parts_stable_block (fs : List Frame) (x : List Tmpl) (v : Str)
    (h1 : wfTs [[]] (plug fs x) = true) (h2 : wfTs [[]] (plug fs [.block v]) = true) :
    normalize (parse (macroHtml (plug fs x))) = some (plugDen fs (fun e => denKs e x) true []) ∧
    normalize (parse (macroHtml (plug fs [.block v]))) = some (plugDen fs (fun e => consText (textDen e v)) true []) := by
  refine ⟨C18_static_parts_stable fs x h1, ?_⟩
  rw [C18_static_parts_stable fs _ h2]
  have : (fun e => denKs e [Tmpl.block v]) = (fun e => consText (textDen e v)) := by
    funext e a; simp [denKs, denK]
  rw [this]

/-! ## the forced-dynamic twin -/

theorem sortKey_dyn (a : TAttr) : sortKey (dynAttr a) = sortKey a := by cases a <;> rfl
theorem builderAttr_dyn (a : TAttr) : builderAttr (dynAttr a) = builderAttr a := by cases a <;> rfl

theorem filter_key_dyn (k : Nat) (attrs : List TAttr) :
    (attrs.map dynAttr).filter (fun a => sortKey a = k) = (attrs.filter (fun a => sortKey a = k)).map dynAttr := by
  induction attrs with
  | nil => rfl
  | cons a r ih =>
    simp only [List.map_cons, List.filter_cons, sortKey_dyn, ih]
    split <;> simp

theorem sortAttrs_dyn (attrs : List TAttr) : sortAttrs (attrs.map dynAttr) = (sortAttrs attrs).map dynAttr := by
  simp only [sortAttrs, List.map_append, filter_key_dyn]

theorem builderAttrs_dyn (attrs : List TAttr) : builderAttrs (attrs.map dynAttr) = builderAttrs attrs := by
  simp [builderAttrs, sortAttrs_dyn, List.map_map, Function.comp_def, builderAttr_dyn]

mutual
/-- replacing every literal by a `{…}` with the same value builds the same tachys view … -/
theorem C18_twin_same_view : (t : Tmpl) → builderView (dynamize t) = builderView t
  | .text s => by simp [dynamize, builderView]
  | .block s => by simp [dynamize, builderView]
  | .elem tag attrs kids => by simp [dynamize, builderView, builderAttrs_dyn, C18_twin_same_view_kids kids]
  | .frag kids => by simp [dynamize, builderView, C18_twin_same_view_kids kids]
  | .comp kids => by simp [dynamize, builderView, C18_twin_same_view_kids kids]
  | .comment _ => by simp [dynamize]
  | .doctype => by simp [dynamize]
  | .unit => by simp [dynamize]
  | .compA card attrs kids => by
    simp [dynamize, builderView, List.map_map, Function.comp_def, builderAttr_dyn, C18_twin_same_view_kids kids]
theorem C18_twin_same_view_kids : (ts : List Tmpl) → builderKids (dynKids ts) = builderKids ts
  | [] => by simp [dynKids, builderKids]
  | t :: ts => by simp [dynKids, builderKids, C18_twin_same_view t, C18_twin_same_view_kids ts]
end

theorem plainDen_dyn (attrs : List TAttr) : plainDen (attrs.map dynAttr) = plainDen attrs := by
  induction attrs with
  | nil => rfl
  | cons a r ih =>
    cases a with
    | boolDyn n b => cases b <;> simp [dynAttr, plainDen, ih]
    | _ => simp [dynAttr, plainDen, ih]

theorem classSrc_dyn (attrs : List TAttr) : classSrc (attrs.map dynAttr) = classSrc attrs := by
  induction attrs with
  | nil => rfl
  | cons a r ih => cases a <;> simp [dynAttr, classSrc, ih]

theorem styleSrc_dyn (attrs : List TAttr) : styleSrc (attrs.map dynAttr) = styleSrc attrs := by
  induction attrs with
  | nil => rfl
  | cons a r ih => cases a <;> simp [dynAttr, styleSrc, ih]

theorem denAttrs_dyn (attrs : List TAttr) : denAttrs (attrs.map dynAttr) = denAttrs attrs := by
  simp [denAttrs, plainDen_dyn, sortAttrs_dyn, classSrc_dyn, styleSrc_dyn]

theorem spreadDen_dyn (attrs : List TAttr) : spreadDen (attrs.map dynAttr) = spreadDen attrs := by
  simp [spreadDen, plainDen_dyn, classSrc_dyn, styleSrc_dyn]

theorem spreadDen_card_dyn (attrs : List TAttr) :
    spreadDen (TAttr.cls false sCard :: attrs.map dynAttr) = spreadDen (TAttr.cls false sCard :: attrs) := by
  simp [spreadDen, plainDen, classSrc, styleSrc, plainDen_dyn, classSrc_dyn, styleSrc_dyn]

mutual
/-- … and denotes the same document -/
theorem C18_twin_same_meaning : (t : Tmpl) → ∀ esc acc, denK esc (dynamize t) acc = denK esc t acc
  | .text s, _, _ => by simp [dynamize, denK]
  | .block s, _, _ => by simp [dynamize, denK]
  | .elem tag attrs kids, _, _ => by simp [dynamize, denK, denAttrs_dyn, C18_twin_same_meaning_kids kids]
  | .frag kids, _, _ => by simp [dynamize, denK, C18_twin_same_meaning_kids kids]
  | .comp kids, _, _ => by simp [dynamize, denK, C18_twin_same_meaning_kids kids]
  | .comment _, _, _ => by simp [dynamize]
  | .doctype, _, _ => by simp [dynamize]
  | .unit, _, _ => by simp [dynamize]
  | .compA card attrs kids, _, _ => by
    simp [dynamize, denK, spreadDen_dyn, spreadDen_card_dyn, C18_twin_same_meaning_kids kids]
theorem C18_twin_same_meaning_kids : (ts : List Tmpl) → ∀ esc acc, denKs esc (dynKids ts) acc = denKs esc ts acc
  | [], _, _ => by simp [dynKids, denKs]
  | t :: ts, esc, acc => by simp [dynKids, denKs, C18_twin_same_meaning t, C18_twin_same_meaning_kids ts]
end

/-! ## the full statements, and why they are still false of the code -/

/-- the full property: whatever the real expansion renders, if it is HTML at all (inside the parser
subset), it is the document the template denotes -/
def C18_macro_denotes_full : Prop :=
  ∀ (ts : List Tmpl) (a : List Tree), parse (macroHtml ts) = some a → normList a = denote ts

/-- the full property: both paths yield the same document for every inert element -/
def C18_paths_agree_full : Prop :=
  ∀ (t : Tmpl), isInert t = true → ∀ a b, parse (inertHtml t) = some a → parse (toHtml (builderView t)) = some b →
    normList a = normList b

def sDiv : Str := ['d','i','v']
def sP : Str := ['p']
def cNbsp : Char := Char.ofNat 160

/-- F-C18-2 (`rawtext-marker`, not repaired): between two string children tachys writes the marker `<!>`,
also inside `<title>` (RCDATA), where it is text: `<title>"T" {"u"}</title>` has the title `T<!>u`; the static
`<title>"T" "u"</title>` (inert path) has `Tu`. -/
theorem C18_rawtext_marker_witness :
    macroHtml [.elem sDiv [] [.elem tTitle [] [.text ['T'], .block ['u']]]] =
      ['<','d','i','v','>','<','t','i','t','l','e','>','T','<','!','>','u','<','/','t','i','t','l','e','>','<','/','d','i','v','>'] ∧
    normalize (parse (macroHtml [.elem sDiv [] [.elem tTitle [] [.text ['T'], .block ['u']]]])) =
      some [.elem sDiv [] [.elem tTitle [] [.text ['T','<','!','>','u']]]] ∧
    denote [.elem sDiv [] [.elem tTitle [] [.text ['T'], .block ['u']]]] =
      [.elem sDiv [] [.elem tTitle [] [.text ['T','u']]]] ∧
    normalize (parse (macroHtml [.elem sDiv [] [.elem tTitle [] [.text ['T'], .text ['u']]]])) =
      some [.elem sDiv [] [.elem tTitle [] [.text ['T','u']]]] ∧
    findingClass [.elem sDiv [] [.elem tTitle [] [.text ['T'], .block ['u']]]] = some 1 := by
  decide

theorem C18_paths_agree_full_false : ¬ C18_paths_agree_full := by
  intro h
  have hi : isInert (.elem tTitle [] [.text ['T'], .text ['u']]) = true := by decide
  have ha : parse (inertHtml (.elem tTitle [] [.text ['T'], .text ['u']])) = some [.elem tTitle [] [.text ['T','u']]] := by
    decide
  have hb : parse (toHtml (builderView (.elem tTitle [] [.text ['T'], .text ['u']]))) =
      some [.elem tTitle [] [.text ['T','<','!','>','u']]] := by decide
  have := h _ hi _ _ ha hb
  revert this
  decide

theorem C18_macro_denotes_full_false : ¬ C18_macro_denotes_full := by
  intro h
  have ha : parse (macroHtml [.elem sDiv [] [.elem tTitle [] [.text ['T'], .block ['u']]]]) =
      some [.elem sDiv [] [.elem tTitle [] [.text ['T','<','!','>','u']]]] := by decide
  have := h _ _ ha
  revert this
  decide

/-- **the remaining finding class is outside the hypothesis**: a well-formed template is not in the class the
driver attaches to failing verdicts -/
theorem C18_classes_excluded (ts : List Tmpl) (h : wfTs [[]] ts = true) : findingClass ts = none := by
  have hall := seen_ok_kids ts true true [[]] h
  have : (seenKids true true ts).any Seen.rawMarker = false := by
    cases hany : (seenKids true true ts).any Seen.rawMarker
    · rfl
    · obtain ⟨s, hs, hps⟩ := List.any_eq_true.mp hany
      have := List.all_eq_true.mp hall s hs
      rw [hps] at this
      cases this
  simp [findingClass, this]

/-! ## raw-text elements with one string child (outside C06's proved class: proved here directly) -/

theorem step_text_safe {f : Html.Frame} {fs : List Html.Frame} {c : Char}
    (h0 : c ≠ cNul) (hr : c ≠ cCr) (ha : c ≠ '&') (hl : c ≠ '<') :
    step ⟨.text, f :: fs⟩ c = some ⟨.text, { f with kidsRev := pushCharKids c f.kidsRev } :: fs⟩ := by
  cases hm : curMode (f :: fs) <;> simp [step, stepText, hm, h0, hr, ha, hl, emitChar]

theorem step_skip_safe {f : Html.Frame} {fs : List Html.Frame} {c : Char}
    (h0 : c ≠ cNul) (hr : c ≠ cCr) (ha : c ≠ '&') (hl : c ≠ '<') (hn : c ≠ cLf) :
    step ⟨.textSkipLf, f :: fs⟩ c = some ⟨.text, { f with kidsRev := pushCharKids c f.kidsRev } :: fs⟩ := by
  cases hm : curMode (f :: fs) <;> simp [step, stepText, hm, h0, hr, ha, hl, hn, emitChar]

theorem run_safe (s : Str) : ∀ (f : Html.Frame) (fs : List Html.Frame), titleInert s = true →
    run ⟨.text, f :: fs⟩ s = some ⟨.text, { f with kidsRev := pushStrKids s f.kidsRev } :: fs⟩ := by
  induction s with
  | nil => intro f fs _; simp [run, pushStrKids]
  | cons c cs ih =>
    intro f fs h
    simp only [titleInert, List.all_cons, Bool.and_eq_true, bne_iff_ne, ne_eq] at h
    obtain ⟨⟨⟨⟨h0, hr⟩, hl⟩, ha⟩, hcs⟩ := h
    simp only [run, step_text_safe h0 hr ha hl, pushStrKids]
    exact ih _ fs (by simpa [titleInert] using hcs)

theorem run_safe_skip (s : Str) (f : Html.Frame) (fs : List Html.Frame) (h : titleInert s = true) (hne : s ≠ [])
    (hlf : s.head? ≠ some cLf) :
    run ⟨.textSkipLf, f :: fs⟩ s = some ⟨.text, { f with kidsRev := pushStrKids s f.kidsRev } :: fs⟩ := by
  cases s with
  | nil => exact absurd rfl hne
  | cons c cs =>
    simp only [titleInert, List.all_cons, Bool.and_eq_true, bne_iff_ne, ne_eq] at h
    obtain ⟨⟨⟨⟨h0, hr⟩, hl⟩, ha⟩, hcs⟩ := h
    have hn : c ≠ cLf := by simpa using hlf
    simp only [run, step_skip_safe h0 hr ha hl hn, pushStrKids]
    exact run_safe cs _ fs (by simpa [titleInert] using hcs)

theorem sDiv_ne_textarea : sDiv ≠ tTextarea := by decide

theorem raw_html (tag s : Str) (htag : tag ∈ [tScript, tStyle]) (hne : s ≠ []) :
    macroHtml [.elem sDiv [] [.elem tag [] [.text s]]] =
      ('<' :: sDiv ++ '>' :: '<' :: tag ++ ['>']) ++ (s ++ ('<' :: '/' :: tag ++ '>' :: '<' :: '/' :: sDiv ++ ['>'])) ∧
    macroHtml [.elem sDiv [] [.elem tag [] [.block s]]] =
      ('<' :: sDiv ++ '>' :: '<' :: tag ++ ['>']) ++ (s ++ ('<' :: '/' :: tag ++ '>' :: '<' :: '/' :: sDiv ++ ['>'])) := by
  simp only [List.mem_cons, List.not_mem_nil, or_false] at htag
  rcases htag with rfl | rfl <;>
    simp [macroHtml, expandKids, expand, isInert, inertNode, inertKids, inertHtml, inertNodeHtml, inertKidsHtml, inertAttrs,
      expKidsHtml, expHtml, builderAttrs, sortAttrs, attrsHtml, plainPart, classBuf, styleBuf, textHtml, hne,
      elemBody_eq sDiv _ (Or.inl sDiv_ne_textarea),
      elemBody_eq tScript _ (Or.inl (show tScript ≠ tTextarea from by decide)),
      elemBody_eq tStyle _ (Or.inl (show tStyle ≠ tTextarea from by decide)),
      show tScript ≠ tTextarea from by decide, show tStyle ≠ tTextarea from by decide,
      show isSvgTag tScript = false from by decide, show isMathTag tScript = false from by decide,
      show isSvgTag tStyle = false from by decide, show isMathTag tStyle = false from by decide,
      show macroIsVoid tScript = false from by decide, show macroIsVoid tStyle = false from by decide,
      show macroIsVoid sDiv = false from by decide,
      show macroEscapes tScript = false from by decide, show macroEscapes tStyle = false from by decide,
      show isVoid tScript = false from by decide, show isVoid tStyle = false from by decide,
      show isVoid sDiv = false from by decide,
      show escapeChildren tScript = false from by decide, show escapeChildren tStyle = false from by decide,
      show escapeChildren sDiv = true from by decide]

theorem raw_parse (tag s : Str) (htag : tag ∈ [tScript, tStyle]) (h : titleInert s = true) (hne : s ≠ []) :
    parse (('<' :: sDiv ++ '>' :: '<' :: tag ++ ['>']) ++ (s ++ ('<' :: '/' :: tag ++ '>' :: '<' :: '/' :: sDiv ++ ['>']))) =
      some [.elem sDiv [] [.elem tag [] [.text s]]] := by
  have hpost : ('<' :: '/' :: tag ++ '>' :: '<' :: '/' :: sDiv ++ ['>']) =
      ('<' :: '/' :: tag ++ ['>']) ++ ('<' :: '/' :: sDiv ++ ['>']) := by simp
  have hk : pushStrKids s [] = [.text s] := pushStrKids_fresh s [] hne rfl
  have hdiv : tagCharsOK sDiv = true := by decide
  unfold parse initState
  rw [hpost, run_append ('<' :: sDiv ++ '>' :: '<' :: tag ++ ['>']) _]
  simp only [List.mem_cons, List.not_mem_nil, or_false] at htag
  rcases htag with rfl | rfl
  · have h1 : run ⟨.text, [rootFrame]⟩ ('<' :: sDiv ++ '>' :: '<' :: tScript ++ ['>']) =
        some ⟨.text, [⟨tScript, [], []⟩, ⟨sDiv, [], []⟩, rootFrame]⟩ := by rfl
    rw [h1, Option.bind_some, run_append s _, run_safe s _ _ h, Option.bind_some, hk,
      run_append ('<' :: '/' :: tScript ++ ['>']) _, run_rawEnd (tag := tScript) (by decide) .text (Or.inl rfl) _ _ _ rfl, Option.bind_some,
      run_endTag (by rfl) hdiv]
    simp [emitEnd, finish, rootFrame, sDiv]
  · have h1 : run ⟨.text, [rootFrame]⟩ ('<' :: sDiv ++ '>' :: '<' :: tStyle ++ ['>']) =
        some ⟨.text, [⟨tStyle, [], []⟩, ⟨sDiv, [], []⟩, rootFrame]⟩ := by rfl
    rw [h1, Option.bind_some, run_append s _, run_safe s _ _ h, Option.bind_some, hk,
      run_append ('<' :: '/' :: tStyle ++ ['>']) _, run_rawEnd (tag := tStyle) (by decide) .text (Or.inl rfl) _ _ _ rfl, Option.bind_some,
      run_endTag (by rfl) hdiv]
    simp [emitEnd, finish, rootFrame, sDiv]

theorem raw_denote (tag s : Str) (htag : tag ∈ [tScript, tStyle, tTextarea]) (hne : s ≠ []) :
    denote [.elem sDiv [] [.elem tag [] [.text s]]] = [.elem sDiv [] [.elem tag [] [.text s]]] ∧
    denote [.elem sDiv [] [.elem tag [] [.block s]]] = [.elem sDiv [] [.elem tag [] [.text s]]] ∧
    normList [.elem sDiv [] [.elem tag [] [.text s]]] = [.elem sDiv [] [.elem tag [] [.text s]]] := by
  have hd : denAttrs [] = [] := by decide
  have hn : normAttrs [] = [] := by decide
  simp only [List.mem_cons, List.not_mem_nil, or_false] at htag
  rcases htag with rfl | rfl | rfl <;>
    simp [denote, denKs, denK, hd, hn, textDen, consText, hne, normList, normNode, pushNorm,
      show isVoid tScript = false from by decide, show isVoid tStyle = false from by decide,
      show isVoid tTextarea = false from by decide, show isVoid sDiv = false from by decide,
      show escapeChildren tScript = false from by decide, show escapeChildren tStyle = false from by decide,
      show escapeChildren tTextarea = false from by decide, show escapeChildren sDiv = true from by decide]

/-- the statement: a `script` / `style` element with ONE string child free of `<`, `&`, NUL, CR renders that
string verbatim on both paths — static literal (inert path, unescaped by the macro's no-escape list) and
`{block}` (builder path, unescaped by tachys' `ESCAPE_CHILDREN = false`) — and reads back unchanged. -/
def C18_rawtext_single_stmt : Prop :=
  ∀ (tag s : Str), tag ∈ [tScript, tStyle] → titleInert s = true → s ≠ [] →
    normalize (parse (macroHtml [.elem sDiv [] [.elem tag [] [.text s]]])) =
      some (denote [.elem sDiv [] [.elem tag [] [.text s]]]) ∧
    normalize (parse (macroHtml [.elem sDiv [] [.elem tag [] [.block s]]])) =
      some (denote [.elem sDiv [] [.elem tag [] [.block s]]])

/-- formerly OPEN; SVG elements (foreign content, outside `parse`'s subset) and raw-text elements with
attributes / several children remain covered by the correspondence run only -/
theorem C18_rawtext_single : C18_rawtext_single_stmt := by
  intro tag s htag h hne
  obtain ⟨e1, e2⟩ := raw_html tag s htag hne
  have htag3 : tag ∈ [tScript, tStyle, tTextarea] := by
    simp only [List.mem_cons, List.not_mem_nil, or_false] at htag ⊢
    rcases htag with h | h <;> simp [h]
  obtain ⟨d1, d2, n⟩ := raw_denote tag s htag3 hne
  have p := raw_parse tag s htag h hne
  rw [e1, e2, p, d1, d2]
  simp [normalize, n]

example : titleInert ['i','f',' ','(','a',' ','>',' ','b',')',' ','{','}','"'] = true := by decide

/-! ## `<textarea>` with one string child: escaped on both paths (tachys 7006223 / 01b809d, macro fix-c18-5) -/

theorem textarea_html (s : Str) (hne : s ≠ []) :
    macroHtml [.elem sDiv [] [.elem tTextarea [] [.text s]]] =
      ('<' :: sDiv ++ '>' :: '<' :: tTextarea ++ ['>']) ++
        (textareaBody true true s ++ ('<' :: '/' :: tTextarea ++ '>' :: '<' :: '/' :: sDiv ++ ['>'])) ∧
    macroHtml [.elem sDiv [] [.elem tTextarea [] [.block s]]] =
      ('<' :: sDiv ++ '>' :: '<' :: tTextarea ++ ['>']) ++
        (textareaBody true true s ++ ('<' :: '/' :: tTextarea ++ '>' :: '<' :: '/' :: sDiv ++ ['>'])) := by
  have e : elemBody tTextarea s = textareaBody true true s := by
    simp [elemBody, textareaEscaped, textareaLfGuard]
  simp [macroHtml, expandKids, expand, isInert, inertNode, inertKids, inertHtml, inertNodeHtml, inertKidsHtml, inertAttrs,
    expKidsHtml, expHtml, builderAttrs, sortAttrs, attrsHtml, plainPart, classBuf, styleBuf, textHtml, hne, allLits, litConcat, e,
    elemBody_eq sDiv _ (Or.inl sDiv_ne_textarea),
    show isSvgTag tTextarea = false from by decide, show isMathTag tTextarea = false from by decide,
    show macroIsVoid tTextarea = false from by decide, show macroIsVoid sDiv = false from by decide,
    show isVoid tTextarea = false from by decide, show isVoid sDiv = false from by decide,
    show escapeChildren tTextarea = false from by decide, show escapeChildren sDiv = true from by decide]

theorem run_skip_ne {st : List Html.Frame} {x : Char} {xs : Str} (hx : x ≠ cLf) :
    run ⟨.textSkipLf, st⟩ (x :: xs) = run ⟨.text, st⟩ (x :: xs) := by
  simp [run, step, hx]

theorem run_skip_lf {st : List Html.Frame} {xs : Str} :
    run ⟨.textSkipLf, st⟩ (cLf :: xs) = run ⟨.text, st⟩ xs := by
  simp [run, step, show cLf ≠ cCr from by decide]

theorem escapeText_head (c : Char) (cs : Str) (hc : c ≠ cLf) :
    ∃ x xs, escapeText (c :: cs) = x :: xs ∧ x ≠ cLf := by
  by_cases h1 : c = '&'
  · subst h1
    exact ⟨'&', ['a','m','p',';'] ++ escapeText cs, by simp [escapeText, escapeWith, entityOf, textTable, assoc], by decide⟩
  by_cases h2 : c = '<'
  · subst h2
    exact ⟨'&', ['l','t',';'] ++ escapeText cs, by simp [escapeText, escapeWith, entityOf, textTable, assoc], by decide⟩
  by_cases h3 : c = '>'
  · subst h3
    exact ⟨'&', ['g','t',';'] ++ escapeText cs, by simp [escapeText, escapeWith, entityOf, textTable, assoc], by decide⟩
  · exact ⟨c, escapeText cs, by simp [escapeText, escapeWith, entityOf, textTable, assoc, h1, h2, h3], hc⟩

/-- the parser, positioned directly after `<textarea>`, reads the repaired body back as exactly `s` -/
theorem run_textareaBody (s : Str) (hs : clean s = true) (hne : s ≠ []) (f : Html.Frame) (fs : List Html.Frame)
    (hm : modeOfTag f.tag = .rcdata) :
    run ⟨.textSkipLf, f :: fs⟩ (textareaBody true true s) =
      some ⟨.text, { f with kidsRev := pushStrKids s f.kidsRev } :: fs⟩ := by
  have hesc := run_escapeText s f fs (Or.inr hm) hs
  cases s with
  | nil => exact absurd rfl hne
  | cons c cs =>
    by_cases hc : c = cLf
    · subst hc
      have : textareaBody true true (cLf :: cs) = cLf :: escapeText (cLf :: cs) := by
        simp [textareaBody, show cLf = cLf' from rfl]
      rw [this, run_skip_lf, hesc]
    · have : textareaBody true true (c :: cs) = escapeText (c :: cs) := by
        have : ¬ (c = cLf') := hc
        simp [textareaBody, this]
      obtain ⟨x, xs, hx, hne⟩ := escapeText_head c cs hc
      rw [this, hx, run_skip_ne hne, ← hx, hesc]

theorem textarea_parse (s : Str) (hs : clean s = true) (hne : s ≠ []) :
    parse (('<' :: sDiv ++ '>' :: '<' :: tTextarea ++ ['>']) ++
        (textareaBody true true s ++ ('<' :: '/' :: tTextarea ++ '>' :: '<' :: '/' :: sDiv ++ ['>']))) =
      some [.elem sDiv [] [.elem tTextarea [] [.text s]]] := by
  have hpost : ('<' :: '/' :: tTextarea ++ '>' :: '<' :: '/' :: sDiv ++ ['>']) =
      ('<' :: '/' :: tTextarea ++ ['>']) ++ ('<' :: '/' :: sDiv ++ ['>']) := by simp
  have hk : pushStrKids s [] = [.text s] := pushStrKids_fresh s [] hne rfl
  have hdiv : tagCharsOK sDiv = true := by decide
  have h1 : run ⟨.text, [rootFrame]⟩ ('<' :: sDiv ++ '>' :: '<' :: tTextarea ++ ['>']) =
      some ⟨.textSkipLf, [⟨tTextarea, [], []⟩, ⟨sDiv, [], []⟩, rootFrame]⟩ := by rfl
  unfold parse initState
  rw [hpost, run_append ('<' :: sDiv ++ '>' :: '<' :: tTextarea ++ ['>']) _, h1, Option.bind_some,
    run_append (textareaBody true true s) _, run_textareaBody s hs hne _ _ (by decide), Option.bind_some, hk,
    run_append ('<' :: '/' :: tTextarea ++ ['>']) _,
    run_rawEnd (tag := tTextarea) (by decide) .text (Or.inl rfl) _ _ _ rfl, Option.bind_some, run_endTag (by rfl) hdiv]
  simp [emitEnd, finish, rootFrame, sDiv]

/-- **`<textarea>` text**: for EVERY string without NUL/CR — `<`, `&`, `</textarea>`, a leading line feed
included — the static literal (inert path) and the `{block}` (builder path) render the same bytes, and the
textarea's value reads back as exactly that string. -/
theorem C18_textarea_single (s : Str) (hs : clean s = true) (hne : s ≠ []) :
    macroHtml [.elem sDiv [] [.elem tTextarea [] [.text s]]] = macroHtml [.elem sDiv [] [.elem tTextarea [] [.block s]]] ∧
    normalize (parse (macroHtml [.elem sDiv [] [.elem tTextarea [] [.text s]]])) =
      some (denote [.elem sDiv [] [.elem tTextarea [] [.text s]]]) ∧
    normalize (parse (macroHtml [.elem sDiv [] [.elem tTextarea [] [.block s]]])) =
      some (denote [.elem sDiv [] [.elem tTextarea [] [.block s]]]) := by
  obtain ⟨e1, e2⟩ := textarea_html s hne
  obtain ⟨d1, d2, n⟩ := raw_denote tTextarea s (by simp) hne
  have p := textarea_parse s hs hne
  refine ⟨by rw [e1, e2], ?_, ?_⟩
  · rw [e1, p, d1]; simp [normalize, n]
  · rw [e2, p, d2]; simp [normalize, n]

/-! ## regression witnesses: the compile-time printer before fix-c18-1, -3, -4 (`inertHtmlOld`) -/

/-- F-C18-1 (`noscript-inert`, repaired by fix-c18-1): the old printer escaped the text of `<noscript>`
(`a&lt;b`, which a parser with scripting enabled reads literally) while the builder path and tachys do not; the
repaired printer writes `a<b` like the builder path. -/
theorem C18_noscript_inert_regression :
    isInert (.elem tNoscript [] [.text ['a','<','b']]) = true ∧
    normalize (parse (inertHtmlOld (.elem tNoscript [] [.text ['a','<','b']]))) =
      some [.elem tNoscript [] [.text ['a','&','l','t',';','b']]] ∧
    normalize (parse (toHtml (builderView (.elem tNoscript [] [.text ['a','<','b']])))) =
      some [.elem tNoscript [] [.text ['a','<','b']]] ∧
    normalize (parse (inertHtml (.elem tNoscript [] [.text ['a','<','b']]))) =
      some (denote [.elem tNoscript [] [.text ['a','<','b']]]) ∧
    normalize (parse (macroHtmlOld [.elem sDiv [] [.elem tNoscript [] [.text ['a','<','b']]]])) =
      some [.elem sDiv [] [.elem tNoscript [] [.text ['a','&','l','t',';','b']]]] ∧
    normalize (parse (macroHtml [.elem sDiv [] [.elem tNoscript [] [.text ['a','<','b']]]])) =
      some (denote [.elem sDiv [] [.elem tNoscript [] [.text ['a','<','b']]]]) ∧
    findingClassOld [.elem sDiv [] [.elem tNoscript [] [.text ['a','<','b']]]] = some 0 := by
  decide

/-- F-C18-3 (`class-unicode-ws`, repaired by fix-c18-3): the old printer wrote `class="\u{a0}x"` untrimmed
(class token `U+00A0 x`) while tachys trims the class attribute (`x`); the repaired printer trims the literal
the same way. -/
theorem C18_class_unicode_ws_regression :
    isInert (.elem sP [.cls false [cNbsp, 'x']] [.text ['t']]) = true ∧
    normalize (parse (inertHtmlOld (.elem sP [.cls false [cNbsp, 'x']] [.text ['t']]))) =
      some [.elem sP [(sClass, [cNbsp, 'x'])] [.text ['t']]] ∧
    normalize (parse (toHtml (builderView (.elem sP [.cls false [cNbsp, 'x']] [.text ['t']])))) =
      some [.elem sP [(sClass, ['x'])] [.text ['t']]] ∧
    normalize (parse (inertHtml (.elem sP [.cls false [cNbsp, 'x']] [.text ['t']]))) =
      some [.elem sP [(sClass, ['x'])] [.text ['t']]] ∧
    denote [.elem sP [.cls false [cNbsp, 'x']] [.text ['t']]] = [.elem sP [(sClass, ['x'])] [.text ['t']]] ∧
    findingClassOld [.elem sP [.cls false [cNbsp, 'x']] [.text ['t']]] = some 2 := by
  decide

/-- F-C18-4 (`empty-text`, repaired by fix-c18-4): the old printer wrote nothing for an empty literal
(`<p></p>`) while tachys writes one space (`<p> </p>`); the repaired printer writes the space too. -/
theorem C18_empty_text_regression :
    isInert (.elem sP [] [.text []]) = true ∧
    normalize (parse (inertHtmlOld (.elem sP [] [.text []]))) = some [.elem sP [] []] ∧
    normalize (parse (toHtml (builderView (.elem sP [] [.text []])))) = some [.elem sP [] [.text [' ']]] ∧
    normalize (parse (inertHtml (.elem sP [] [.text []]))) = some [.elem sP [] [.text [' ']]] ∧
    denote [.elem sP [] [.text []]] = [.elem sP [] [.text [' ']]] ∧
    findingClassOld [.elem sP [] [.text []]] = some 3 := by
  decide

/-- F-C18-5 (`textarea-static`, repaired by fix-c18-5): since tachys escapes the text of `<textarea>` (7006223),
the builder path renders the literal `&lt;` as `&amp;lt;` (value `&lt;`, what the template says) while the old
compile-time printer still wrote it raw (value `<`); the repaired printer escapes it like the builder path. -/
theorem C18_textarea_static_regression :
    isInert (.elem tTextarea [] [.text ['&','l','t',';']]) = true ∧
    normalize (parse (inertHtmlOld5 (.elem tTextarea [] [.text ['&','l','t',';']]))) =
      some [.elem tTextarea [] [.text ['<']]] ∧
    normalize (parse (macroHtml [.elem tTextarea [] [.text ['&','l','t',';']]])) =
      some [.elem tTextarea [] [.text ['&','l','t',';']]] ∧
    normalize (parse (inertHtml (.elem tTextarea [] [.text ['&','l','t',';']]))) =
      some [.elem tTextarea [] [.text ['&','l','t',';']]] ∧
    denote [.elem tTextarea [] [.text ['&','l','t',';']]] = [.elem tTextarea [] [.text ['&','l','t',';']]] ∧
    -- a leading line feed: dropped by the parser on the old static path, kept (doubled) on both paths now
    normalize (parse (inertHtmlOld5 (.elem tTextarea [] [.text [cLf, 'x']]))) = some [.elem tTextarea [] [.text ['x']]] ∧
    normalize (parse (inertHtml (.elem tTextarea [] [.text [cLf, 'x']]))) = some [.elem tTextarea [] [.text [cLf, 'x']]] := by
  decide

/-- the three old disagreements refute the old versions of `C18_paths_agree` -/
theorem C18_paths_agree_old_false :
    ¬ (∀ (t : Tmpl), wfT [[]] t = true → isInert t = true →
        normalize (parse (inertHtmlOld t)) = normalize (parse (toHtml (builderView t)))) := by
  intro h
  have := h (.elem sP [] [.text []]) (by decide) (by decide)
  rw [C18_empty_text_regression.2.1, C18_empty_text_regression.2.2.1] at this
  revert this
  decide

/-! ## the macro's hard-coded element lists against the runtime table (regenerated from source) -/

/-- the model's lists are the ones in leptos_macro/src/view/mod.rs -/
theorem C18_table_lists :
    Leptos.Gen.Elements.macroSelfClosing = macroVoid ∧ Leptos.Gen.Elements.macroNoEscape = macroNoEscape := by
  decide

/-- for every element tachys has, the macro's `is_self_closing` is tachys' `SELF_CLOSING` -/
theorem C18_table_void : ∀ r ∈ Leptos.Gen.Elements.rows, macroIsVoid r.1 = r.2.1 := by decide +kernel

/-- full: every tag the macro treats as void is a (void) tachys element -/
def C18_table_void_full : Prop :=
  ∀ t ∈ Leptos.Gen.Elements.macroSelfClosing, (t, true, true) ∈ Leptos.Gen.Elements.rows

/-- `param` is void for the macro and does not exist in tachys: `<param>` compiles only while its subtree is
inert (`<div><param name="a"/></div>`); any dynamic attribute makes the builder path call the missing
`html::element::param()`.  No accepted template renders differently, so this is not a finding class. -/
theorem C18_table_void_full_false : ¬ C18_table_void_full := by
  intro h
  have := h sParam (by decide)
  revert this
  decide +kernel

theorem C18_table_void_partial :
    ∀ t ∈ Leptos.Gen.Elements.macroSelfClosing, t ≠ sParam → (t, true, true) ∈ Leptos.Gen.Elements.rows := by
  decide +kernel

/-- the macro escapes the text children of exactly the elements tachys escapes (after fix-c18-1) -/
theorem C18_table_noescape : ∀ r ∈ Leptos.Gen.Elements.rows, macroEscapes r.1 = r.2.2 := by decide +kernel

/-- before fix-c18-1 the lists differed in the row `noscript` -/
theorem C18_table_noescape_old_false : ¬ (∀ r ∈ Leptos.Gen.Elements.rows, macroEscapesOld r.1 = r.2.2) := by
  intro h
  have := h (tNoscript, false, false) (by decide +kernel)
  revert this
  decide

/-! ## non-vacuity -/

/-- a template with hostile strings in every position, all attribute forms, a fragment, the component, an
inert subtree next to a dynamic one: the hypothesis of the main theorems holds … -/
def exTemplate : List Tmpl :=
  [.elem sDiv [.plain true ['i','d'] ['"','>','<'], .clsToggle ['o','n'] true, .cls false [' ','k',' ',' ','j',' '],
               .styleKV true ['l','e','f','t'] ['<','/','s','t','y','l','e','>'], .clsTuple ['t','u'] false,
               .style false ['c','o','l','o','r',':','r','e','d'], .flag ['h','i','d','d','e','n']]
     [.elem sP [.plain false ['t','i','t','l','e'] ['q','"','<','&','>'], .cls false ['a',' ','b']]
        [.text ['t','<','&','>'], .text ['u'], .elem ['b','r'] [] []],
      .block ['<','/','d','i','v','>','<','!','-','-'],
      .frag [.text ['&','a','m','p',';'], .elem ['x','-','f','o','o'] [.plain false ['f','o','o'] ['\'']] [.text ['c']]],
      .comp [.elem ['i'] [] [.elem ['b'] [.plain false ['d','a','t','a','-','k'] ['v']] [.text ['q']]]],
      .elem tTitle [] [.text ['T','<','/','t','i','t','l','e','>']],
      .elem tScript [.plain false ['s','r','c'] ['a','&','b']] []]]

example : wfTs [[]] exTemplate = true := by decide

/-- empty strings and Unicode white space in class values are inside the hypothesis now -/
example : wfTs [[]] [.elem sDiv [.cls true [cNbsp, 'x', ' ']] [.text [], .block [], .elem sP [.cls false [' ', cNbsp]] [.text []]]] = true := by
  decide

/-- … part of it is printed at macro time, part built at run time … -/
example : (seenKids true true exTemplate).any (fun s => match s with | .iroot _ => true | _ => false) = true := by
  decide

/-- … and the conclusion holds by evaluation as well (on a smaller instance: a dynamic attribute and block
around an inert `<p>` with two adjacent literals) -/
example :
    macroHtml [.elem sDiv [.plain true ['i','d'] ['"','>']] [.elem sP [.cls false ['a']] [.text ['t','<'], .text ['u']], .block ['x']]] =
      ['<','d','i','v',' ','i','d','=','"','&','q','u','o','t',';','&','g','t',';','"','>',
       '<','p',' ','c','l','a','s','s','=','"','a','"','>','t','&','l','t',';','u','<','/','p','>','x','<','/','d','i','v','>'] ∧
    normalize (parse (macroHtml [.elem sDiv [.plain true ['i','d'] ['"','>']]
        [.elem sP [.cls false ['a']] [.text ['t','<'], .text ['u']], .block ['x']]])) =
      some (denote [.elem sDiv [.plain true ['i','d'] ['"','>']]
        [.elem sP [.cls false ['a']] [.text ['t','<'], .text ['u']], .block ['x']]]) := by decide

/-- the hypotheses of `C18_inert_denotes` / `C18_paths_agree` -/
example : wfT [[]] (.elem sP [.plain false ['t','i','t','l','e'] ['q','"','<','&','>'], .cls false ['a',' ','b']]
    [.text ['t','<','&','>'], .text ['u'], .elem ['b','r'] [] []]) = true ∧
    isInert (.elem sP [.plain false ['t','i','t','l','e'] ['q','"','<','&','>'], .cls false ['a',' ','b']]
    [.text ['t','<','&','>'], .text ['u'], .elem ['b','r'] [] []]) = true := by decide

/-- children of `<noscript>` with markup-significant text (`C18_raw_parent_*`): hypotheses hold, and the bytes
are escaped although the parent hands down `escape = false` -/
example :
    allElemsT [.elem sP [] [.text ['1',' ','<',' ','2',' ','&',' ','3']]] = true ∧
    wfTs [[]] [.elem sP [] [.text ['1',' ','<',' ','2',' ','&',' ','3']]] = true ∧
    inertKids [.elem sP [] [.text ['1',' ','<',' ','2',' ','&',' ','3']]] = true ∧
    macroHtml [.elem sDiv [] [.elem tNoscript [] [.elem sP [] [.text ['1','<','2']]]]] =
      ['<','d','i','v','>','<','n','o','s','c','r','i','p','t','>','<','p','>','1','&','l','t',';','2','<','/','p','>',
       '<','/','n','o','s','c','r','i','p','t','>','<','/','d','i','v','>'] ∧
    macroHtml [.elem sDiv [] [.elem tNoscript [] [.elem sP [] [.text ['1','<','2'], .block ['x']]]]] =
      ['<','d','i','v','>','<','n','o','s','c','r','i','p','t','>','<','p','>','1','&','l','t',';','2','<','!','>','x','<','/','p','>',
       '<','/','n','o','s','c','r','i','p','t','>','<','/','d','i','v','>'] := by decide

/-- white-space-only and NBSP text is inside the hypothesis (the theorems are about ALL strings), and renders
verbatim on the static path (`<p>` inert) and on the builder path (its forced-dynamic twin) alike -/
example :
    wfTs [[]] [.elem sDiv [] [.elem sP [.plain false ['i','d'] ['s']] [.text [' ',' '], .elem ['b'] [] [.text [cNbsp]]]]] = true ∧
    macroHtml [.elem sDiv [] [.elem sP [.plain false ['i','d'] ['s']] [.text [' ',' '], .elem ['b'] [] [.text [cNbsp]]]]] =
      ['<','d','i','v','>','<','p',' ','i','d','=','"','s','"','>',' ',' ','<','b','>',cNbsp,'<','/','b','>','<','/','p','>','<','/','d','i','v','>'] ∧
    macroHtml [.elem sDiv [] [.elem sP [.plain true ['i','d'] ['s']] [.block [' ',' '], .elem ['b'] [] [.block [cNbsp]]]]] =
      ['<','d','i','v','>','<','p',' ','i','d','=','"','s','"','>',' ',' ','<','b','>',cNbsp,'<','/','b','>','<','/','p','>','<','/','d','i','v','>'] := by
  decide

/-- `C18_inert_siblings_independent` in particular: static text after a closed raw-text sibling is escaped (evaluated: `<style>` with content, then
text with `<`, `&`; the same bytes as with a dynamic attribute on the parent, i.e. on the builder path) -/
example :
    macroHtml [.elem sDiv [] [.elem sP [.plain false ['i','d'] ['s']] [.elem tStyle [] [.text ['p','{','}']], .text ['1','<','2','&']]]] =
      ['<','d','i','v','>','<','p',' ','i','d','=','"','s','"','>','<','s','t','y','l','e','>','p','{','}','<','/','s','t','y','l','e','>',
       '1','&','l','t',';','2','&','a','m','p',';','<','/','p','>','<','/','d','i','v','>'] ∧
    macroHtml [.elem sDiv [] [.elem sP [.plain true ['i','d'] ['s']] [.elem tStyle [] [.text ['p','{','}']], .text ['1','<','2','&']]]] =
      macroHtml [.elem sDiv [] [.elem sP [.plain false ['i','d'] ['s']] [.elem tStyle [] [.text ['p','{','}']], .text ['1','<','2','&']]]] := by
  decide

/-! ### blocks of unit type and components with spread attributes (outside `wfT`: C06's `Node` has neither a
unit view nor a component; covered by the correspondence run, by the facts below and by evaluation) -/

/-- a block of unit type (`{()}`, `{}`, a statement-only block, `{None::<String>}`, an empty `Vec`) contributes
nothing to the document the template denotes, wherever it stands -/
theorem C18_unit_denotes_nothing (esc : Bool) (acc : List Tree) : denK esc .unit acc = acc := by
  simp [denK]

/-- … and it never removes its siblings: first, middle and last position among text and element siblings, on a
hole-free and on a dynamic parent — the rendered document is what the template denotes -/
example :
    macroHtml [.elem sDiv [] [.elem sP [.plain false ['i','d'] ['s']] [.text ['a',' '], .unit, .elem ['b'] [] [.text ['x']], .text [' ','z']]]] =
      ['<','d','i','v','>','<','p',' ','i','d','=','"','s','"','>','a',' ','<','!','>','<','b','>','x','<','/','b','>',' ','z','<','/','p','>','<','/','d','i','v','>'] ∧
    normalize (parse (macroHtml [.elem sDiv [] [.elem sP [.plain false ['i','d'] ['s']] [.text ['a',' '], .unit, .elem ['b'] [] [.text ['x']], .text [' ','z']]]])) =
      some (denote [.elem sDiv [] [.elem sP [.plain false ['i','d'] ['s']] [.text ['a',' '], .unit, .elem ['b'] [] [.text ['x']], .text [' ','z']]]]) ∧
    normalize (parse (macroHtml [.elem sP [.plain true ['i','d'] ['s']] [.unit, .text ['t'], .unit]])) =
      some (denote [.elem sP [.plain true ['i','d'] ['s']] [.unit, .text ['t'], .unit]]) := by
  decide

theorem plain_mem_plainDen (attrs : List TAttr) (d : Bool) (n v : Str) (h : TAttr.plain d n v ∈ attrs) :
    (n, v) ∈ plainDen attrs := by
  induction attrs with
  | nil => simp at h
  | cons a r ih =>
    rcases List.mem_cons.mp h with rfl | h
    · simp [plainDen]
    · have := ih h
      cases a with
      | boolDyn m b => cases b <;> simp [plainDen, this]
      | _ => simp [plainDen, this]

/-- **spread attribute names**: every `attr:NAME="v"` / `attr:NAME={v}` on `<Wrap>` reaches the component's root
element under exactly the name written — one word, dashed, several dashes, `aria-*`, `data-*`, or a name whose first
segment is itself a typed attribute function — with exactly its value -/
theorem C18_spread_names (attrs : List TAttr) (kids : List Tmpl) (d : Bool) (n v : Str)
    (h : TAttr.plain d n v ∈ attrs) (acc : List Tree) :
    ∃ as ks, denK true (.compA false attrs kids) acc = .elem sSection as ks :: acc ∧ (n, v) ∈ as := by
  refine ⟨spreadDen attrs, denKs true kids [], by simp [denK], ?_⟩
  simp only [spreadDen, List.mem_append]
  exact Or.inl (Or.inl (plain_mem_plainDen attrs d n v h))

/-- evaluated: `<Wrap attr:data-kind="i" class:on={true} attr:accept-charset="u">"c"</Wrap>` and the same on `<Card>`
(own `role` / `class` first) -/
example :
    macroHtml [.compA false [.plain false ['d','a','t','a','-','k','i','n','d'] ['i'], .clsToggle ['o','n'] true,
                 .plain false ['a','c','c','e','p','t','-','c','h','a','r','s','e','t'] ['u']] [.text ['c']]] =
      ['<','s','e','c','t','i','o','n',' ','d','a','t','a','-','k','i','n','d','=','"','i','"',' ',
       'a','c','c','e','p','t','-','c','h','a','r','s','e','t','=','"','u','"',' ','c','l','a','s','s','=','"','o','n','"','>','c',
       '<','/','s','e','c','t','i','o','n','>'] ∧
    normalize (parse (macroHtml [.compA true [.plain false ['d','a','t','a','-','k'] ['i'], .cls false ['k']] [.text ['c']]])) =
      some (denote [.compA true [.plain false ['d','a','t','a','-','k'] ['i'], .cls false ['k']] [.text ['c']]]) := by
  decide

/-- a context with a hole (`C18_static_parts_stable`): static content and a dynamic block in the same hole -/
example :
    wfTs [[]] (plug [⟨.elem sP [.cls false ['c']], [.text ['a']], [.elem ['b'] [] [.text ['z']]]⟩, ⟨.elem sDiv [], [], []⟩]
      [.elem ['i'] [] [.text ['s']]]) = true ∧
    wfTs [[]] (plug [⟨.elem sP [.cls false ['c']], [.text ['a']], [.elem ['b'] [] [.text ['z']]]⟩, ⟨.elem sDiv [], [], []⟩]
      [.block ['d']]) = true := by decide

end Leptos.Macro
