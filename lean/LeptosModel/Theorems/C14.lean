import LeptosModel.Model.Router
/-!
# C14 — the router matches exactly the paths its route table declares

Property theorems about `Model/Router`.  `k : Ver`: `.cur` is the code as it is (after the repairs
fix-c14-1..4), `.old` the code before them (regression witnesses only), `.aligned` the segment-aligned
variant that only serves to state the decidable input class `SegmentAligned`.

* `C14_partition` (+ `_nested`, `C14_nested_complete`): matched ++ remaining = path — full, every segment
  kind, arbitrarily nested tuples, all three versions; nested routes under `hasOptParent = false`
  (witness `C14_partition_nested_fallback_witness` shows the hypothesis is needed).
* `C14_params_are_segments` (+ `_opt`, `_noslash`, `C14_segHead_is_first_token`): full.
* `C14_static_is_whole_segment` (fix-c14-1): a static segment matches iff the first path segment *is* its text.
* `C14_expand_optionals`: the worklist = the recursive spec, 2^k entries, no optional left — full.
* `C14_match_iff_flat_full`: the full statement; still refuted (`C14_match_iff_flat_full_false`, by the
  optional-parent witness F-C14-5); one witness per remaining known-finding class (F-C14-2/5/6/7/9/10).
* regression witnesses for the repaired findings F-C14-1/3/4/8: what `.old` did, what `.cur` does, and
  that the oracle now accepts (`Holds`).
* `C14_match_iff_flat_partial` (+ `_holds`): proved for single leaf routes whose segments are plain
  statics and params (`SimpleN`) and for EVERY request path — the hypothesis `SegmentAligned`, needed for
  the code before fix-c14-1/2, is gone.  Route: `pass_simple` (one pass of the tuple loop = the segment-wise
  matcher `simpleMatch`), `leaf_simple`, `patternTokens_simple` (the `to_axum_path` pattern of such a route is
  one token per segment), `simple_eq_lenient` (`simpleMatch` = token matcher with the trailing-slash
  tolerance).  `C14_match_iff_flat_partial_general` is the statement over arbitrary optional-free route trees
  — OPEN (checked by the correspondence run on every generated case, not proved).
* `C14_build_then_match`: full for `SimpleF` segment lists.
-/
namespace Leptos.Router

/-! ## bytes and slices -/


theorem utf8Size_pos' (c : Char) : 0 < c.utf8Size := Char.utf8Size_pos c

theorem bytes_append (a b : Path) : bytes (a ++ b) = bytes a + bytes b := by
  induction a with
  | nil => simp [bytes]
  | cons c cs ih => simp [bytes, ih]; omega

/-- `split_at` returns the two halves of the string -/
theorem splitBytes_append : ∀ (p : Path) (n : Nat) (a b : Path), splitBytes p n = some (a, b) → a ++ b = p := by
  intro p
  induction p with
  | nil =>
    intro n a b h
    cases n with
    | zero => simp [splitBytes] at h; obtain ⟨rfl, rfl⟩ := h; rfl
    | succ n => simp [splitBytes] at h
  | cons c cs ih =>
    intro n a b h
    cases n with
    | zero => simp [splitBytes] at h; obtain ⟨rfl, rfl⟩ := h; rfl
    | succ n =>
      simp only [splitBytes] at h
      split at h
      · split at h
        · next a' b' heq =>
          simp at h; obtain ⟨rfl, rfl⟩ := h
          simp [ih _ _ _ heq]
        · simp at h
      · simp at h

theorem splitBytes_len : ∀ (p : Path) (n : Nat) (a b : Path), splitBytes p n = some (a, b) → bytes a = n := by
  intro p
  induction p with
  | nil =>
    intro n a b h
    cases n with
    | zero => simp [splitBytes] at h; obtain ⟨rfl, rfl⟩ := h; rfl
    | succ n => simp [splitBytes] at h
  | cons c cs ih =>
    intro n a b h
    cases n with
    | zero => simp [splitBytes] at h; obtain ⟨rfl, rfl⟩ := h; rfl
    | succ n =>
      simp only [splitBytes] at h
      split at h
      · next hle =>
        split at h
        · next a' b' heq =>
          simp at h; obtain ⟨rfl, rfl⟩ := h
          have := ih _ _ _ heq
          simp [bytes, this]; omega
        · simp at h
      · simp at h

/-- splitting at the byte length of a prefix succeeds and returns that prefix -/
theorem splitBytes_bytes (a b : Path) : splitBytes (a ++ b) (bytes a) = some (a, b) := by
  induction a with
  | nil => cases b <;> simp [bytes, splitBytes]
  | cons c cs ih =>
    have hp := Char.utf8Size_pos c
    obtain ⟨m, hm⟩ : ∃ m, bytes (c :: cs) = m + 1 := ⟨c.utf8Size + bytes cs - 1, by simp [bytes]; omega⟩
    rw [hm]
    simp only [List.cons_append, splitBytes]
    have h1 : c.utf8Size ≤ m + 1 := by simp [bytes] at hm; omega
    have h2 : m + 1 - c.utf8Size = bytes cs := by simp [bytes] at hm; omega
    simp [h1, h2, ih]


/-! ## partition: segments and tuples -/


theorem staticTest_partition (fx : Bool) (s path : Path) (m : PM) (h : staticTest fx s path = .some m) :
    m.matched ++ m.remaining = path := by
  unfold staticTest at h
  simp only at h
  split at h
  · simp at h
  · split at h
    · simp at h
    · next a b heq =>
      split at h
      · simp at h; subst h; exact splitBytes_append _ _ _ _ heq
      · simp at h

theorem paramTest_partition (fx : Bool) (n path : Path) (m : PM) (h : paramTest fx n path = .some m) :
    m.matched ++ m.remaining = path := by
  unfold paramTest at h
  simp only at h
  split at h
  · simp at h
  · split at h
    · next a b v heq _ => simp at h; subst h; exact splitBytes_append _ _ _ _ heq
    · simp at h

theorem optTest_partition (fx : Bool) (n path : Path) (m : PM) (h : optTest fx n path = .some m) :
    m.matched ++ m.remaining = path := by
  unfold optTest at h
  simp only at h
  generalize (if (paramScan fx path).fst = 1 ∧ startsSlash path = true then 0 else (paramScan fx path).fst) = ml at h
  split at h
  · simp at h
  · next a b heq =>
    split at h
    · split at h
      · simp at h; subst h; exact splitBytes_append _ _ _ _ heq
      · simp at h
    · simp at h; subst h; exact splitBytes_append _ _ _ _ heq

theorem splatTest_partition (fx : Bool) (n path : Path) (m : PM) (h : splatTest fx n path = .some m) :
    m.matched ++ m.remaining = path := by
  unfold splatTest at h
  simp only at h
  split at h
  · next a b v heq _ => simp at h; subst h; exact splitBytes_append _ _ _ _ heq
  · simp at h

theorem backoff_done (f : Nat → Pass) : ∀ n r ml p, backoff f n = .done r ml p → ∃ i, f i = .done r ml p := by
  intro n
  induction n with
  | zero => intro r ml p h; exact ⟨0, h⟩
  | succ n ih =>
    intro r ml p h
    simp only [backoff] at h
    split at h
    · exact ih _ _ _ h
    · exact ⟨n + 1, h⟩

mutual
theorem test_partition (k : Ver) : ∀ (s : Seg) (path : Path) (m : PM), s.test k path = .some m →
    m.matched ++ m.remaining = path
  | .st s, path, m, h => by
    simp only [Seg.test] at h; split at h
    · exact staticTest_partition _ _ _ _ h
    · simp at h
  | .param n, path, m, h => by
    simp only [Seg.test] at h; split at h
    · exact paramTest_partition _ _ _ _ h
    · simp at h
  | .opt n, path, m, h => by
    simp only [Seg.test] at h; split at h
    · exact optTest_partition _ _ _ _ h
    · simp at h
  | .splat n, path, m, h => by
    simp only [Seg.test] at h; split at h
    · exact splatTest_partition _ _ _ _ h
    · simp at h
  | .tup [], path, m, h => by
    simp only [Seg.test] at h; simp at h; subst h; rfl
  | .tup [a], path, m, h => by
    simp only [Seg.test] at h
    split at h
    · next m' hm' =>
      split at h
      · next pre post hs =>
        simp at h; subst h
        have ih := test_partition k a path m' hm'
        have h1 := splitBytes_bytes m'.matched m'.remaining
        rw [ih] at h1
        rw [hs] at h1
        simp at h1
        simp [h1.1, ih]
      · simp at h
    · simp at h
    · simp at h
  | .tup (a :: b :: l), path, m, h => by
    simp only [Seg.test] at h
    split at h
    · next r ml p hb =>
      obtain ⟨inc, hinc⟩ := backoff_done _ _ _ _ _ hb
      obtain ⟨c, hc1, hc2⟩ := pass_inv k (a :: b :: l) true inc 0 path 0 [] path [] r ml p (by simp) (by simp [bytes]) hinc
      split at h
      · next pre post hs =>
        simp at h; subst h
        have h1 := splitBytes_bytes c r
        rw [hc1, hc2, hs] at h1
        simp at h1
        simp [h1.1, hc1]
      · simp at h
    · simp at h
    · simp at h
theorem pass_inv (k : Ver) : ∀ (l : List Seg) (first : Bool) (inc nth : Nat) (r0 : Path) (ml0 : Nat) (p0 : Params)
    (path c0 r : Path) (ml : Nat) (p : Params),
    c0 ++ r0 = path → bytes c0 = ml0 → passFields k l first inc nth r0 ml0 p0 = .done r ml p →
    ∃ c, c ++ r = path ∧ bytes c = ml
  | [], first, inc, nth, r0, ml0, p0, path, c0, r, ml, p, h1, h2, h => by
    simp only [passFields] at h
    simp at h
    obtain ⟨rfl, rfl, rfl⟩ := h
    exact ⟨c0, h1, h2⟩
  | ty :: tys, first, inc, nth, r0, ml0, p0, path, c0, r, ml, p, h1, h2, h => by
    simp only [passFields] at h
    generalize (if ty.optional = true then nth + 1 else nth) = nth' at h
    split at h
    · cases hm : ty.test k r0 with
      | panic => rw [hm] at h; simp at h
      | none => rw [hm] at h; simp only at h; repeat' split at h
                all_goals simp at h
      | some m =>
        rw [hm] at h; simp only at h
        have hp := test_partition k ty r0 m hm
        refine pass_inv k tys false inc _ m.remaining _ _ path (c0 ++ m.matched) r ml p ?_ ?_ h
        · rw [List.append_assoc, hp, h1]
        · rw [bytes_append, h2]
    · exact pass_inv k tys false inc _ r0 ml0 p0 path c0 r ml p h1 h2 h
end


/-! ## partition: nested routes -/


/-- the matched strings of all nesting levels, concatenated -/
def chainCat (m : NMatch) : Path := (m.chain.map (·.2)).flatten

theorem finish_some (pos : Nat) (matched : Path) (params : Params) (inner : Option NMatch) (remaining : Path)
    (m : NMatch) (rem : Path) (h : finish pos matched params inner remaining = .some m rem) :
    rem = remaining ∧ complete rem = true ∧
      chainCat m = matched ++ (match inner with | some i => chainCat i | none => []) := by
  unfold finish at h
  split at h
  · next hc =>
    split at h
    · simp at h; obtain ⟨rfl, rfl⟩ := h; simp [chainCat, hc]
    · simp at h; obtain ⟨rfl, rfl⟩ := h; simp [chainCat, hc]
  · simp at h

mutual
theorem nested_partition (k : Ver) : ∀ (r : Route) (pos : Nat) (path : Path) (m : NMatch) (rem : Path),
    r.hasOptParent = false → matchNested k r pos path = .some m rem → chainCat m ++ rem = path
  | .mk segs children, pos, path, m, rem, hno, h => by
    simp only [Route.hasOptParent, Bool.or_eq_false_iff, Bool.and_eq_false_iff] at hno
    simp only [matchNested] at h
    cases hs : segs.test k path with
    | panic => rw [hs] at h; simp at h
    | none => rw [hs] at h; simp at h
    | some pm =>
      rw [hs] at h; simp only at h
      have hp := test_partition k segs path pm hs
      split at h
      · obtain ⟨rfl, _, hc⟩ := finish_some _ _ _ _ _ _ _ h
        simp [hc, hp]
      · next hne =>
        cases hc : matchChildren k children 0 pm.remaining with
        | panic => rw [hc] at h; simp at h
        | some inner rem' =>
          rw [hc] at h; simp only at h
          obtain ⟨rfl, _, hcc⟩ := finish_some _ _ _ _ _ _ _ h
          have ih := children_partition k children 0 pm.remaining inner rem hno.2 hc
          simp only at hcc
          rw [hcc, List.append_assoc, ih, hp]
        | none =>
          rw [hc] at h; simp only at h
          have hopt : segs.optional = false := by
            rcases hno.1 with h1 | h1
            · simp [hne] at h1
            · exact h1
          simp [hopt] at h
theorem children_partition (k : Ver) : ∀ (cs : List Route) (i : Nat) (path : Path) (m : NMatch) (rem : Path),
    anyOptParent cs = false → matchChildren k cs i path = .some m rem → chainCat m ++ rem = path
  | [], i, path, m, rem, hno, h => by simp [matchChildren] at h
  | c :: cs, i, path, m, rem, hno, h => by
    simp only [anyOptParent, Bool.or_eq_false_iff] at hno
    simp only [matchChildren] at h
    cases hc : matchNested k c i path with
    | panic => rw [hc] at h; simp at h
    | some m' rem' =>
      rw [hc] at h; simp at h; obtain ⟨rfl, rfl⟩ := h
      exact nested_partition k c i path _ _ hno.1 hc
    | none =>
      rw [hc] at h; simp only at h
      exact children_partition k cs (i + 1) path m rem hno.2 h
end

theorem stripPrefix_append (s rest : Path) : stripPrefix s (s ++ rest) = some rest := by
  induction s with
  | nil => cases rest <;> simp [stripPrefix]
  | cons c s ih => simp [stripPrefix, ih]

theorem stripPrefix_some (s : Path) : ∀ t rest, stripPrefix s t = some rest → t = s ++ rest := by
  induction s with
  | nil => intro t rest h; cases t <;> simp [stripPrefix] at h <;> simp [h]
  | cons c s ih =>
    intro t rest h
    cases t with
    | nil => simp [stripPrefix] at h
    | cons d t =>
      simp only [stripPrefix] at h
      split at h
      · next hcd => subst hcd; simp [ih t rest h]
      · simp at h

/-! ## params are segments -/

theorem slash_size : ('/' : Char).utf8Size = 1 := by decide

/-- the first `/`-separated segment of a string, and what follows it -/
def segHead (p : Path) : Path := p.takeWhile (· ≠ '/')
def segTail (p : Path) : Path := p.dropWhile (· ≠ '/')

theorem segHead_append_segTail (p : Path) : segHead p ++ segTail p = p := by
  simp [segHead, segTail, List.takeWhile_append_dropWhile]

theorem scanSeg_eq (p : Path) : scanSeg p = bytes (segHead p) := by
  induction p with
  | nil => simp [scanSeg, segHead, bytes]
  | cons c cs ih =>
    by_cases hc : c = '/'
    · simp [scanSeg, segHead, hc, bytes]
    · simp [scanSeg, segHead, hc, bytes]; simpa [segHead] using ih

theorem bytes_eq_zero {p : Path} (h : bytes p = 0) : p = [] := by
  cases p with
  | nil => rfl
  | cons c cs => have := Char.utf8Size_pos c; simp [bytes] at h; omega

theorem splitSlash_head (p : Path) : (splitSlash p).head? = some (segHead p) := by
  induction p with
  | nil => simp [splitSlash, segHead]
  | cons c cs ih =>
    simp only [splitSlash]
    cases hs : splitSlash cs with
    | nil => simp [hs] at ih
    | cons h t =>
      simp [hs] at ih
      by_cases hc : c = '/'
      · simp [hc, segHead]
      · simp [hc, segHead, ih]

/-- complete description of `ParamSegment::test` on a path that starts with `/` (old and new code) -/
theorem paramTest_slash (fx : Bool) (n p : Path) :
    paramTest fx n ('/' :: p) =
      if segHead p = [] then .none else .some ⟨'/' :: segHead p, segTail p, [(n, segHead p)]⟩ := by
  have hb : bytes ('/' :: segHead p) = 1 + scanSeg p := by
    simp [bytes, scanSeg_eq]; decide
  have h1 : splitBytes ('/' :: p) (1 + scanSeg p) = some ('/' :: segHead p, segTail p) := by
    have := splitBytes_bytes ('/' :: segHead p) (segTail p)
    rw [hb] at this
    simpa [segHead_append_segTail] using this
  have h2 : sliceBytes ('/' :: p) 1 (scanSeg p + 1) = some (segHead p) := by
    unfold sliceBytes
    have h3 : splitBytes ('/' :: p) 1 = some (['/'], p) := by
      have := splitBytes_bytes ['/'] p
      simpa [bytes, slash_size] using this
    have h4 : splitBytes p (scanSeg p) = some (segHead p, segTail p) := by
      have := splitBytes_bytes (segHead p) (segTail p)
      rw [segHead_append_segTail, ← scanSeg_eq] at this
      exact this
    simp [h3, h4]
  unfold paramTest
  simp only [paramScan, if_true, startsSlash]
  by_cases he : segHead p = []
  · have : scanSeg p = 0 := by simp [scanSeg_eq, he, bytes]
    simp [he, this]
  · have : scanSeg p ≠ 0 := by
      intro h0; rw [scanSeg_eq] at h0; exact he (bytes_eq_zero h0)
    simp [he, h1, h2]
    omega

/-- complete description of `OptionalParamSegment::test` on a path that starts with `/` -/
theorem optTest_slash (fx : Bool) (n p : Path) :
    optTest fx n ('/' :: p) =
      if segHead p = [] then .some ⟨[], '/' :: p, []⟩
      else .some ⟨'/' :: segHead p, segTail p, [(n, segHead p)]⟩ := by
  have hb : bytes ('/' :: segHead p) = 1 + scanSeg p := by
    simp [bytes, scanSeg_eq]; decide
  have h1 : splitBytes ('/' :: p) (1 + scanSeg p) = some ('/' :: segHead p, segTail p) := by
    have := splitBytes_bytes ('/' :: segHead p) (segTail p)
    rw [hb] at this
    simpa [segHead_append_segTail] using this
  have h2 : sliceBytes ('/' :: p) 1 (scanSeg p + 1) = some (segHead p) := by
    unfold sliceBytes
    have h3 : splitBytes ('/' :: p) 1 = some (['/'], p) := by
      have := splitBytes_bytes ['/'] p
      simpa [bytes, slash_size] using this
    have h4 : splitBytes p (scanSeg p) = some (segHead p, segTail p) := by
      have := splitBytes_bytes (segHead p) (segTail p)
      rw [segHead_append_segTail, ← scanSeg_eq] at this
      exact this
    simp [h3, h4]
  unfold optTest
  simp only [paramScan, if_true, startsSlash]
  by_cases he : segHead p = []
  · have : scanSeg p = 0 := by simp [scanSeg_eq, he, bytes]
    simp [he, this, splitBytes]
  · have h0 : scanSeg p ≠ 0 := by
      intro h0; rw [scanSeg_eq] at h0; exact he (bytes_eq_zero h0)
    simp [he, h0, h1, h2]

/-- fix-c14-2: a param segment on a path *without* a leading slash takes the first segment whole
(it used to drop the first character, and could slice inside a multi-byte character) -/
theorem paramTest_noslash (n p : Path) (hp : startsSlash p = false) (hne : segHead p ≠ []) :
    paramTest true n p = .some ⟨segHead p, segTail p, [(n, segHead p)]⟩ := by
  cases p with
  | nil => simp [segHead] at hne
  | cons c t =>
    have hc : c ≠ '/' := by simpa [startsSlash] using hp
    have h4 : splitBytes (c :: t) (scanSeg (c :: t)) = some (segHead (c :: t), segTail (c :: t)) := by
      have := splitBytes_bytes (segHead (c :: t)) (segTail (c :: t))
      rw [segHead_append_segTail, ← scanSeg_eq] at this
      exact this
    have h0 : scanSeg (c :: t) ≠ 0 := by
      intro h0; rw [scanSeg_eq] at h0; exact hne (bytes_eq_zero h0)
    unfold paramTest
    simp only [paramScan, hc, if_false, if_true]
    simp [h0, startsSlash, hc, sliceBytes, splitBytes, h4]

theorem segTail_aligned (t : Path) : segTail t = [] ∨ startsSlash (segTail t) = true := by
  induction t with
  | nil => left; rfl
  | cons c t ih =>
    by_cases hc : c = '/'
    · right; simp [segTail, hc, startsSlash]
    · simpa [segTail, hc] using ih

theorem segHead_append (v rest : Path) (hv : '/' ∉ v) (hr : rest = [] ∨ startsSlash rest = true) :
    segHead (v ++ rest) = v ∧ segTail (v ++ rest) = rest := by
  induction v with
  | nil =>
    rcases hr with rfl | hr
    · simp [segHead, segTail]
    · cases rest with
      | nil => simp [segHead, segTail]
      | cons c r => simp [startsSlash] at hr; subst hr; simp [segHead, segTail]
  | cons c v ih =>
    have hc : c ≠ '/' := by intro h; apply hv; simp [h]
    have hv' : '/' ∉ v := by intro h; apply hv; simp [h]
    have := ih hv'
    simp [segHead, segTail, hc] at this ⊢
    exact this

theorem segHead_eq_iff (s t : Path) (hs : '/' ∉ s) :
    segHead t = s ↔ ∃ rest, t = s ++ rest ∧ (rest = [] ∨ startsSlash rest = true) ∧ segTail t = rest := by
  constructor
  · intro h
    refine ⟨segTail t, ?_, ?_, rfl⟩
    · rw [← h]; exact (segHead_append_segTail t).symm
    · exact segTail_aligned t
  · rintro ⟨rest, rfl, hr, _⟩
    exact (segHead_append s rest hs hr).1

/-! ## static segments -/

/-- a static text as `path!` produces it: non-empty, no `/` -/
def Plain (s : Path) : Prop := s ≠ [] ∧ '/' ∉ s
instance (s : Path) : Decidable (Plain s) := by unfold Plain; exact inferInstance

/-- `rest` begins at a segment boundary -/
def Aligned (rest : Path) : Prop := rest = [] ∨ startsSlash rest = true
instance (r : Path) : Decidable (Aligned r) := by unfold Aligned; exact inferInstance

/-- the loop accepts when the segment's text is a prefix of what is left and — only with
`strict` (fix-c14-1) — the prefix ends at a segment boundary.  Without `strict` it does not look at the
character after the prefix: that was F-C14-1. -/
theorem staticLoop_prefix (strict : Bool) (s rest : Path) (hs : '/' ∉ s) (hm : Bool) (ml : Nat) :
    staticLoop strict s (s ++ rest) hm ml =
      if strict = true ∧ ¬ Aligned rest then none else some (hm || !s.isEmpty, ml + bytes s) := by
  induction s generalizing hm ml with
  | nil =>
    cases rest with
    | nil => simp [staticLoop, bytes, Aligned]
    | cons c r =>
      by_cases hc : c = '/'
      · simp [staticLoop, bytes, Aligned, startsSlash, hc]
      · simp [staticLoop, bytes, Aligned, startsSlash, hc]
  | cons n s ih =>
    have hn : n ≠ '/' := by intro h; apply hs; simp [h]
    have hs' : '/' ∉ s := by intro h; apply hs; simp [h]
    simp only [List.cons_append, staticLoop, hn, if_false, if_true]
    rw [ih hs']
    split <;> simp [bytes] <;> omega

theorem staticLoop_some (strict : Bool) (s : Path) : ∀ (t : Path) (hm : Bool) (ml : Nat) (r : Bool × Nat),
    staticLoop strict s t hm ml = some r → ∃ rest, t = s ++ rest ∧ '/' ∉ s := by
  induction s with
  | nil => intro t hm ml r _; exact ⟨t, rfl, by simp⟩
  | cons n s ih =>
    intro t hm ml r h
    cases t with
    | nil => simp [staticLoop] at h
    | cons c t =>
      simp only [staticLoop] at h
      split at h
      · simp at h
      · next hc =>
        split at h
        · next hcn =>
          obtain ⟨rest, h1, h2⟩ := ih _ _ _ _ h
          subst hcn
          refine ⟨rest, by simp [h1], ?_⟩
          intro hmem
          simp at hmem
          rcases hmem with h3 | h3
          · exact hc h3.symm
          · exact h2 h3
        · simp at h

theorem plain_facts {s : Path} (hs : Plain s) :
    s.head? ≠ some '/' ∧ s.isEmpty = false ∧ (s == ['/']) = false := by
  obtain ⟨hne, hns⟩ := hs
  refine ⟨?_, ?_, ?_⟩
  · cases s with
    | nil => simp
    | cons c s => simp; intro h; apply hns; simp [h]
  · cases s <;> simp at hne ⊢
  · cases s with
    | nil => simp
    | cons c s =>
      have : c ≠ '/' := by intro h; apply hns; simp [h]
      cases s <;> simp [this]

/-- `StaticSegment(s).test("/" ++ s ++ rest)`: before fix-c14-1 (`fx = false`) a match for every
`rest`; now only when `rest` starts a new segment -/
theorem staticTest_slash (fx : Bool) (s rest : Path) (hs : Plain s) :
    staticTest fx s ('/' :: s ++ rest) =
      if fx = true ∧ ¬ Aligned rest then .none else .some ⟨'/' :: s, rest, []⟩ := by
  obtain ⟨hh, he, hs2⟩ := plain_facts hs
  have h3 := splitBytes_bytes ('/' :: s) rest
  simp only [bytes, slash_size, List.cons_append] at h3
  unfold staticTest
  simp only [he, hs2, hh, List.cons_append, if_true, Bool.or_self, Bool.not_false, Bool.and_true,
    Bool.false_eq_true, or_self, if_false]
  rw [staticLoop_prefix fx s rest hs.2]
  by_cases hc : fx = true ∧ ¬ Aligned rest
  · simp [hc]
  · simp [hc, h3, he]

/-- and only then (for a path that starts with `/`) -/
theorem staticTest_slash_cases (fx : Bool) (s t : Path) (hs : Plain s) :
    staticTest fx s ('/' :: t) =
      match stripPrefix s t with
      | some rest => if fx = true ∧ ¬ Aligned rest then .none else .some ⟨'/' :: s, rest, []⟩
      | none => .none := by
  cases hp : stripPrefix s t with
  | some rest =>
    have := stripPrefix_some s t rest hp
    subst this
    simpa using staticTest_slash fx s rest hs
  | none =>
    simp only
    obtain ⟨hh, he, hs2⟩ := plain_facts hs
    cases hl : staticLoop (fx && true) s t false 1 with
    | none =>
      unfold staticTest
      simp [he, hh, hs2]
      simp at hl
      simp [hl]
    | some r =>
      obtain ⟨rest, h1, _⟩ := staticLoop_some _ s t _ _ _ hl
      subst h1
      simp [stripPrefix_append] at hp

theorem staticTest_nil (fx : Bool) (s : Path) (hs : Plain s) : staticTest fx s [] = .none := by
  obtain ⟨hne, hns⟩ := hs
  cases s with
  | nil => simp at hne
  | cons c s =>
    unfold staticTest
    cases s <;> simp [staticLoop]

/-! ## expand_optionals -/


theorem firstOpt_none {l : List FSeg} (h : firstOpt l = none) : countOptF l = 0 ∧ expandSpec l = [l] := by
  induction l with
  | nil => simp [countOptF, expandSpec]
  | cons s rest ih =>
    cases s with
    | opt n => simp [firstOpt] at h
    | st t =>
      simp only [firstOpt] at h
      cases hr : firstOpt rest with
      | some x => obtain ⟨a, n, b⟩ := x; simp [hr] at h
      | none => have := ih hr; simp [countOptF, FSeg.isOpt, expandSpec, this]
    | param t =>
      simp only [firstOpt] at h
      cases hr : firstOpt rest with
      | some x => obtain ⟨a, n, b⟩ := x; simp [hr] at h
      | none => have := ih hr; simp [countOptF, FSeg.isOpt, expandSpec, this]
    | splat t =>
      simp only [firstOpt] at h
      cases hr : firstOpt rest with
      | some x => obtain ⟨a, n, b⟩ := x; simp [hr] at h
      | none => have := ih hr; simp [countOptF, FSeg.isOpt, expandSpec, this]

theorem firstOpt_some {l a b : List FSeg} {n : List Char} (h : firstOpt l = some (a, n, b)) :
    countOptF l = countOptF b + 1 ∧ countOptF (a ++ .param n :: b) = countOptF b ∧ countOptF (a ++ b) = countOptF b ∧
    expandSpec l = expandSpec (a ++ .param n :: b) ++ expandSpec (a ++ b) := by
  induction l generalizing a with
  | nil => simp [firstOpt] at h
  | cons s rest ih =>
    cases s with
    | opt m =>
      simp [firstOpt] at h
      obtain ⟨rfl, rfl, rfl⟩ := h
      simp [countOptF, FSeg.isOpt, expandSpec]; omega
    | st t =>
      simp only [firstOpt] at h
      cases hr : firstOpt rest with
      | none => simp [hr] at h
      | some x =>
        obtain ⟨a', n', b'⟩ := x
        simp [hr] at h
        obtain ⟨rfl, rfl, rfl⟩ := h
        have := ih hr
        simp [countOptF, FSeg.isOpt, expandSpec, this]
    | param t =>
      simp only [firstOpt] at h
      cases hr : firstOpt rest with
      | none => simp [hr] at h
      | some x =>
        obtain ⟨a', n', b'⟩ := x
        simp [hr] at h
        obtain ⟨rfl, rfl, rfl⟩ := h
        have := ih hr
        simp [countOptF, FSeg.isOpt, expandSpec, this]
    | splat t =>
      simp only [firstOpt] at h
      cases hr : firstOpt rest with
      | none => simp [hr] at h
      | some x =>
        obtain ⟨a', n', b'⟩ := x
        simp [hr] at h
        obtain ⟨rfl, rfl, rfl⟩ := h
        have := ih hr
        simp [countOptF, FSeg.isOpt, expandSpec, this]

/-- number of `pop`s the worklist needs for one entry -/
def pops (l : List FSeg) : Nat := 2 ^ (countOptF l + 1) - 1

def popsAll : List (List FSeg) → Nat
  | [] => 0
  | l :: ls => pops l + popsAll ls

theorem pops_pos (l : List FSeg) : 0 < pops l := by
  unfold pops
  have : 2 ≤ 2 ^ (countOptF l + 1) := by
    calc 2 = 2 ^ 1 := rfl
      _ ≤ 2 ^ (countOptF l + 1) := Nat.pow_le_pow_right (by decide) (by omega)
  omega

/-- the worklist computes the recursive specification, given enough fuel -/
theorem expandLoop_eq : ∀ (fuel : Nat) (stack checked : List (List FSeg)), popsAll stack ≤ fuel →
    expandLoop fuel stack checked = checked ++ stack.flatMap expandSpec := by
  intro fuel
  induction fuel with
  | zero =>
    intro stack checked h
    cases stack with
    | nil => simp [expandLoop]
    | cons t s => have := pops_pos t; simp [popsAll] at h; omega
  | succ f ih =>
    intro stack checked h
    cases stack with
    | nil => simp [expandLoop]
    | cons top stack =>
      simp only [expandLoop]
      cases ho : firstOpt top with
      | none =>
        obtain ⟨h0, hs⟩ := firstOpt_none ho
        have hp : pops top = 1 := by simp [pops, h0]
        simp only
        rw [ih stack (checked ++ [top]) (by simp [popsAll, hp] at h; omega)]
        simp [hs]
      | some x =>
        obtain ⟨a, n, b⟩ := x
        obtain ⟨h1, h2, h3, hs⟩ := firstOpt_some ho
        simp only
        have hpow : 2 ^ (countOptF b + 1 + 1) = 2 * 2 ^ (countOptF b + 1) := by
          rw [Nat.pow_succ]; omega
        have hge : 1 ≤ 2 ^ (countOptF b + 1) := Nat.one_le_two_pow
        rw [ih _ checked (by
          simp only [popsAll, pops, h1, h2, h3] at h ⊢
          omega)]
        simp [hs]

theorem expandSpec_length (l : List FSeg) : (expandSpec l).length = 2 ^ countOptF l := by
  induction l with
  | nil => simp [expandSpec, countOptF]
  | cons s rest ih =>
    cases s with
    | opt n =>
      have : 2 ^ (1 + countOptF rest) = 2 * 2 ^ countOptF rest := by rw [Nat.add_comm, Nat.pow_succ]; omega
      simp [expandSpec, countOptF, FSeg.isOpt, ih, this]; omega
    | st t => simp [expandSpec, countOptF, FSeg.isOpt, ih]
    | param t => simp [expandSpec, countOptF, FSeg.isOpt, ih]
    | splat t => simp [expandSpec, countOptF, FSeg.isOpt, ih]

theorem expandSpec_noOpt (l : List FSeg) : ∀ r ∈ expandSpec l, ∀ s ∈ r, s.isOpt = false := by
  induction l with
  | nil => simp [expandSpec]
  | cons s rest ih =>
    intro r hr x hx
    cases s with
    | opt n =>
      simp only [expandSpec, List.mem_append, List.mem_map] at hr
      rcases hr with ⟨r', hr', rfl⟩ | hr
      · simp at hx
        rcases hx with rfl | hx
        · rfl
        · exact ih r' hr' x hx
      · exact ih r hr x hx
    | st t =>
      simp only [expandSpec, List.mem_map] at hr
      obtain ⟨r', hr', rfl⟩ := hr
      simp at hx
      rcases hx with rfl | hx
      · rfl
      · exact ih r' hr' x hx
    | param t =>
      simp only [expandSpec, List.mem_map] at hr
      obtain ⟨r', hr', rfl⟩ := hr
      simp at hx
      rcases hx with rfl | hx
      · rfl
      · exact ih r' hr' x hx
    | splat t =>
      simp only [expandSpec, List.mem_map] at hr
      obtain ⟨r', hr', rfl⟩ := hr
      simp at hx
      rcases hx with rfl | hx
      · rfl
      · exact ih r' hr' x hx

theorem expandOptionals_eq_spec (l : List FSeg) : expandOptionals l = expandSpec l := by
  unfold expandOptionals
  rw [expandLoop_eq _ _ _ (by simp [popsAll, pops])]
  simp


/-! ## build then match -/


def toSeg : FSeg → Seg
  | .st s => .st s
  | .param n => .param n
  | .opt n => .opt n
  | .splat n => .splat n

/-- a registered segment of the simple sub-class: plain static text or a param -/
def SimpleF : FSeg → Prop
  | .st s => Plain s
  | .param _ => True
  | _ => False

instance : DecidablePred SimpleF := fun f => by cases f <;> unfold SimpleF <;> exact inferInstance

/-- a parameter value as it occurs in a path: non-empty, no `/` -/
def GoodVal (v : Path) : Prop := v ≠ [] ∧ '/' ∉ v
instance (v : Path) : Decidable (GoodVal v) := by unfold GoodVal; exact inferInstance

def paramNames : List FSeg → List (List Char)
  | [] => []
  | .param n :: r => n :: paramNames r
  | .splat n :: r => n :: paramNames r
  | _ :: r => paramNames r

theorem plain_not_startsSlash {s : Path} (h : '/' ∉ s) : startsSlash s = false := by
  cases s with
  | nil => rfl
  | cons c s => simp [startsSlash]; intro hc; apply h; simp [hc]

theorem toSeg_optional {f : FSeg} (h : SimpleF f) : (toSeg f).optional = false := by
  cases f <;> simp [SimpleF] at h <;> simp [toSeg, Seg.optional]

theorem build_starts : ∀ (fs : List FSeg) (vals : List Path) (path : Path), (∀ f ∈ fs, SimpleF f) →
    (∀ v ∈ vals, GoodVal v) → buildPath fs vals = some path → path = [] ∨ startsSlash path = true := by
  intro fs
  cases fs with
  | nil => intro vals path _ _ h; simp [buildPath] at h; exact Or.inl h
  | cons f fs =>
    intro vals path hs hv h
    have hf := hs f (by simp)
    cases f with
    | st s =>
      obtain ⟨hne, hns⟩ : Plain s := hf
      simp only [buildPath] at h
      cases hb : buildPath fs vals with
      | none => simp [hb] at h
      | some p' =>
        have he : s.isEmpty = false := by cases s <;> simp at hne ⊢
        simp [hb, plain_not_startsSlash hns, he] at h
        subst h; right; simp [startsSlash]
    | param n =>
      cases vals with
      | nil => simp [buildPath] at h
      | cons v vals =>
        obtain ⟨_, hvs⟩ := hv v (by simp)
        simp only [buildPath] at h
        cases hb : buildPath fs vals with
        | none => simp [hb] at h
        | some p' =>
          simp [hb, plain_not_startsSlash hvs] at h
          subst h; right; simp [startsSlash]
    | opt n => simp [SimpleF] at hf
    | splat n => simp [SimpleF] at hf

/-- one pass of the tuple loop over a built path consumes it completely and yields the values -/
theorem pass_build (k : Ver) : ∀ (fs : List FSeg) (vals : List Path) (path : Path), (∀ f ∈ fs, SimpleF f) →
    (∀ v ∈ vals, GoodVal v) → buildPath fs vals = some path → vals.length = (paramNames fs).length →
    ∀ (first : Bool) (nth ml : Nat) (p : Params),
      passFields k (fs.map toSeg) first 0 nth path ml p = .done [] (ml + bytes path) (p ++ (paramNames fs).zip vals) := by
  intro fs
  induction fs with
  | nil =>
    intro vals path _ _ h hl first nth ml p
    simp [buildPath] at h; subst h
    simp [passFields, bytes, paramNames]
  | cons f fs ih =>
    intro vals path hs hv h hl first nth ml p
    have hf := hs f (by simp)
    have hs' : ∀ f ∈ fs, SimpleF f := fun x hx => hs x (by simp [hx])
    cases f with
    | st s =>
      have hpl : Plain s := hf
      obtain ⟨hne, hns⟩ := hpl
      simp only [buildPath] at h
      cases hb : buildPath fs vals with
      | none => simp [hb] at h
      | some p' =>
        have he : s.isEmpty = false := by cases s <;> simp at hne ⊢
        simp [hb, plain_not_startsSlash hns, he] at h
        subst h
        have hal : Aligned p' := build_starts fs vals p' hs' hv hb
        have hst := staticTest_slash k.fixed s p' ⟨hne, hns⟩
        simp only [List.cons_append, hal, not_true_eq_false, and_false, if_false] at hst
        simp only [List.map_cons, toSeg, passFields, Seg.optional, Bool.false_eq_true, if_false, Bool.not_false,
          Bool.true_or, if_true, Seg.test, startOk, startsSlash, decide_true, Bool.or_true, hst]
        rw [ih vals p' hs' hv hb (by simpa [paramNames] using hl)]
        simp [bytes, bytes_append, slash_size, paramNames]; omega
    | param n =>
      cases vals with
      | nil => simp [buildPath] at h
      | cons v vals =>
        obtain ⟨hvne, hvs⟩ := hv v (by simp)
        have hv' : ∀ x ∈ vals, GoodVal x := fun x hx => hv x (by simp [hx])
        simp only [buildPath] at h
        cases hb : buildPath fs vals with
        | none => simp [hb] at h
        | some p' =>
          simp [hb, plain_not_startsSlash hvs] at h
          subst h
          obtain ⟨h1, h2⟩ := segHead_append v p' hvs (build_starts fs vals p' hs' hv' hb)
          have hpt := paramTest_slash k.fixed n (v ++ p')
          simp only [h1, h2, hvne, if_false] at hpt
          simp only [List.map_cons, toSeg, passFields, Seg.optional, Bool.false_eq_true, if_false, Bool.not_false,
            Bool.true_or, if_true, Seg.test, startOk, startsSlash, decide_true, Bool.or_true, hpt]
          rw [ih vals p' hs' hv' hb (by simpa [paramNames] using hl)]
          simp [bytes, bytes_append, slash_size, paramNames]; omega
    | opt n => simp [SimpleF] at hf
    | splat n => simp [SimpleF] at hf


theorem countOpt_simple (fs : List FSeg) (hs : ∀ f ∈ fs, SimpleF f) : countOpt (fs.map toSeg) = 0 := by
  induction fs with
  | nil => rfl
  | cons f fs ih =>
    have := toSeg_optional (hs f (by simp))
    simp [countOpt, this, ih (fun x hx => hs x (by simp [hx]))]

/-- the whole tuple test on a built path -/
theorem tup_build (k : Ver) (fs : List FSeg) (vals : List Path) (path : Path) (hs : ∀ f ∈ fs, SimpleF f)
    (hv : ∀ v ∈ vals, GoodVal v) (hb : buildPath fs vals = some path) (hl : vals.length = (paramNames fs).length) :
    (Seg.tup (fs.map toSeg)).test k path = .some ⟨path, [], (paramNames fs).zip vals⟩ := by
  have hp := pass_build k fs vals path hs hv hb hl true 0 0 []
  match fs, hs, hb, hl, hp with
  | [], _, hb, _, _ =>
    simp [buildPath] at hb; subst hb
    simp [Seg.test, paramNames]
  | [f], hs, hb, hl, hp =>
    have ho := toSeg_optional (hs f (by simp))
    simp only [List.map_cons, List.map_nil, passFields, ho, Bool.not_false, Bool.true_or, if_true,
      Bool.false_eq_true, if_false] at hp
    simp only [List.map_cons, List.map_nil, Seg.test]
    cases ht : (toSeg f).test k path with
    | panic => simp [ht] at hp
    | none => simp [ht] at hp
    | some m =>
      simp [ht] at hp
      obtain ⟨h1, h2, h3⟩ := hp
      have hpart := test_partition k _ _ _ ht
      rw [h1, List.append_nil] at hpart
      have := splitBytes_bytes path []
      simp only [List.append_nil] at this
      simp [hpart, this, h1, h3]
  | f :: g :: fs, hs, hb, hl, hp =>
    have hc := countOpt_simple (f :: g :: fs) hs
    simp only [List.map_cons] at hc hp
    simp only [List.map_cons, Seg.test, hc, backoff, hp]
    have := splitBytes_bytes path []
    simp only [List.append_nil, Nat.zero_add] at this ⊢
    simp [this]

/-- the route table of a single leaf route with the given registered segments -/
def leafDefs (fs : List FSeg) : Defs := ⟨none, [.mk (.tup (fs.map toSeg)) []]⟩

theorem C14_build_then_match (fs : List FSeg) (vals : List Path) (path : Path) (hs : ∀ f ∈ fs, SimpleF f)
    (hv : ∀ v ∈ vals, GoodVal v) (hb : buildPath fs vals = some path) (hl : vals.length = (paramNames fs).length) :
    matchRoute .cur (leafDefs fs) path = .some ⟨[(0, path)], (paramNames fs).zip vals⟩ := by
  have ht := tup_build .cur fs vals path hs hv hb hl
  simp [matchRoute, leafDefs, stripBase, matchChildren, matchNested, ht, finish, complete]


/-! ## property theorems -/

/-- **partition** — every segment kind and every (nested) tuple of segments: a successful `test`
splits the path into `matched ++ remaining` (the code as it is, the old code, the aligned variant). -/
theorem C14_partition (k : Ver) (s : Seg) (path : Path) (m : PM) (h : s.test k path = .some m) :
    m.matched ++ m.remaining = path := test_partition k s path m h

/-- **partition, nested routes**: without an optional param in a parent route the matched strings
of all nesting levels concatenate to the consumed prefix. -/
theorem C14_partition_nested (k : Ver) (r : Route) (pos : Nat) (path : Path) (m : NMatch) (rem : Path)
    (hno : r.hasOptParent = false) (h : matchNested k r pos path = .some m rem) :
    chainCat m ++ rem = path := nested_partition k r pos path m rem hno h

/-- … and the remaining is one of the two the router accepts -/
theorem C14_nested_complete (k : Ver) (d : Defs) (path : Path) (m : NMatch)
    (h : matchRoute k d path = .some m) : ∃ p rem, stripBase k d.base path = some p ∧
      matchChildren k d.tops 0 p = .some m rem ∧ complete rem = true := by
  unfold matchRoute at h
  cases hb : stripBase k d.base path with
  | none => simp [hb] at h
  | some p =>
    simp only [hb] at h
    cases hc : matchChildren k d.tops 0 p with
    | panic => simp [hc] at h
    | none => simp [hc] at h
    | some m' rem =>
      simp only [hc] at h
      split at h
      · next hcomp => simp at h; subst h; exact ⟨p, rem, rfl, hc, hcomp⟩
      · simp at h

def optParentDefs : Defs := ⟨none, [.mk (.opt ['a']) [.mk (.st ['b']) []]]⟩

/-- the hypothesis of `C14_partition_nested` is needed: with an optional parent the fallback
re-matches the children against the whole path, and the parent keeps its first `matched`:
for `/:a?` → `/b` and `/b` the two levels report `"/b"` and `"/b"`. -/
theorem C14_partition_nested_fallback_witness :
    matchRoute .cur optParentDefs ['/', 'b'] = .some ⟨[(0, ['/', 'b']), (0, ['/', 'b'])], []⟩ := by decide

/-- **params are segments** — `ParamSegment` on a path that starts with `/`: it matches iff the first
`/`-separated segment is non-empty, and then value = that segment, matched = `/` ++ segment. -/
theorem C14_params_are_segments (n p : Path) :
    paramTest true n ('/' :: p) =
      if segHead p = [] then .none else .some ⟨'/' :: segHead p, segTail p, [(n, segHead p)]⟩ :=
  paramTest_slash true n p

theorem C14_params_are_segments_opt (n p : Path) :
    optTest true n ('/' :: p) =
      if segHead p = [] then .some ⟨[], '/' :: p, []⟩
      else .some ⟨'/' :: segHead p, segTail p, [(n, segHead p)]⟩ := optTest_slash true n p

/-- … and (since fix-c14-2) also on a path without a leading slash, e.g. below a `"/"` parent -/
theorem C14_params_are_segments_noslash (n p : Path) (hp : startsSlash p = false) (hne : segHead p ≠ []) :
    paramTest true n p = .some ⟨segHead p, segTail p, [(n, segHead p)]⟩ := paramTest_noslash n p hp hne

/-- `segHead` is the first token of the `/`-split the flat matcher uses -/
theorem C14_segHead_is_first_token (p : Path) : (splitSlash p).head? = some (segHead p) := splitSlash_head p

/-- **static segments end at a segment boundary** (fix-c14-1; for the `path!` kind of text):
`StaticSegment(s)` on `/…` matches iff the first segment of the path *is* `s`. -/
theorem C14_static_is_whole_segment (s t : Path) (hs : Plain s) :
    staticTest true s ('/' :: t) =
      if segHead t = s then .some ⟨'/' :: s, segTail t, []⟩ else .none := by
  rw [staticTest_slash_cases true s t hs]
  cases hp : stripPrefix s t with
  | none =>
    have : segHead t ≠ s := by
      intro h
      obtain ⟨rest, h1, _, _⟩ := (segHead_eq_iff s t hs.2).1 h
      subst h1; simp [stripPrefix_append] at hp
    simp [this]
  | some rest =>
    have ht := stripPrefix_some s t rest hp
    subst ht
    by_cases hal : Aligned rest
    · obtain ⟨h1, h2⟩ := segHead_append s rest hs.2 hal
      simp [hal, h1, h2]
    · have : segHead (s ++ rest) ≠ s := by
        intro h
        obtain ⟨rest', h3, h4, _⟩ := (segHead_eq_iff s _ hs.2).1 h
        have : rest' = rest := by simpa using h3.symm
        subst this
        exact hal h4
      simp [hal, this]

/-- **expand_optionals** — the worklist (with its fuel) computes the recursive specification:
exactly `2^k` routes for `k` optionals, in the order param-variant first, none with an optional left. -/
theorem C14_expand_optionals (l : List FSeg) :
    expandOptionals l = expandSpec l ∧ (expandOptionals l).length = 2 ^ countOptF l ∧
      ∀ r ∈ expandOptionals l, ∀ s ∈ r, s.isOpt = false := by
  rw [expandOptionals_eq_spec]
  exact ⟨rfl, expandSpec_length l, expandSpec_noOpt l⟩

/-! ### well-formed route definitions (decidable; what the generator produces) -/

def plainStatics : List FSeg → Bool
  | [] => true
  | .st s :: r => decide (Plain s) && plainStatics r
  | _ :: r => plainStatics r

/-- a wildcard only as the last segment -/
def splatLast : List FSeg → Bool
  | [] => true
  | [_] => true
  | .splat _ :: _ :: _ => false
  | _ :: r => splatLast r

def noSplat : List FSeg → Bool
  | [] => true
  | .splat _ :: _ => false
  | _ :: r => noSplat r

mutual
def Route.wf : Route → Bool
  | .mk segs children =>
    (segs.gen == [.st []] || segs.gen == [.st ['/']] || plainStatics segs.gen) &&
    (if children.isEmpty then splatLast segs.gen else noSplat segs.gen) && wfList children
def wfList : List Route → Bool
  | [] => true
  | c :: cs => c.wf && wfList cs
end

def baseOk : Option Path → Bool
  | none => true
  | some [] => true
  | some (c :: s) => c = '/' && decide (Plain s)

/-- `WellFormed`: `SplatLast`, `PlainStatics` (or a whole route `""` / `"/"`), base `""` or `/x` -/
def Defs.wf (d : Defs) : Bool := baseOk d.base && wfList d.tops && !d.tops.isEmpty

/-- the property on one input: the oracle `judge` accepts what the router does -/
def Holds (d : Defs) (path : Path) : Prop := judge d path (matchRoute .cur d path) = none

instance (d : Defs) (path : Path) : Decidable (Holds d path) := by unfold Holds; exact inferInstance

/-- the same for the router before the repairs (regression witnesses) -/
def HoldsOld (d : Defs) (path : Path) : Prop := judge d path (matchRoute .old d path) = none

instance (d : Defs) (path : Path) : Decidable (HoldsOld d path) := by unfold HoldsOld; exact inferInstance

/-- **match ⇔ flat, full statement**: for every well-formed route table and every request path
(starting with `/`): a registered flat route accepts the path ⇒ the router matches; the router matches
⇒ a registered flat route *of the winning definition* accepts the path (one trailing `/` tolerated) with
the same parameter values, and no earlier definition has a registered route accepting the path; the
router does not panic.  (`judge` spells this out.) -/
def C14_match_iff_flat_full : Prop :=
  ∀ (d : Defs) (path : Path), d.wf = true → startsSlash path = true → Holds d path

/-- reading of `Holds` for the two non-panic outcomes -/
theorem C14_holds_none (d : Defs) (path : Path) (hm : matchRoute .cur d path = .none) (h : Holds d path) :
    firstStrict (expandedPerDef d) path 0 = none := by
  unfold Holds at h; rw [hm] at h; simp only [judge] at h
  cases hf : firstStrict (expandedPerDef d) path 0 with
  | none => rfl
  | some i => simp [hf] at h

theorem C14_holds_not_panic (d : Defs) (path : Path) (h : Holds d path) : matchRoute .cur d path ≠ .panic := by
  intro hp; unfold Holds at h; rw [hp] at h; simp [judge] at h

/-! ### refutation witnesses of the full statement on the code as it is (design-level findings that
stay known; each replayed on the real router: corpus/C14/witnesses.ops) -/

def optParent : Defs := ⟨none, [.mk (.tup [.st ['a'], .opt ['r']]) [.mk (.st ['b']) []]]⟩

/-- F-C14-5: an optional param in a parent route: `/a/b` is registered (`[a, b]`) and never matched -/
theorem C14_optional_parent_witness :
    matchRoute .cur optParent ['/', 'a', '/', 'b'] = .none ∧
    flatMatchStrict [.st ['a'], .st ['b']] ['/', 'a', '/', 'b'] = some [] ∧
    (expandedPerDef optParent) = [[[.st ['a'], .param ['r'], .st ['b']], [.st ['a'], .st ['b']]]] ∧
    judge optParent ['/', 'a', '/', 'b'] .none = some .flatOnly ∧
    classify optParent ['/', 'a', '/', 'b'] .flatOnly = .optionalParent ∧ optParent.wf = true := by decide

theorem C14_match_iff_flat_full_false : ¬ C14_match_iff_flat_full := by
  intro h
  have := h optParent ['/', 'a', '/', 'b'] (by decide) (by decide)
  revert this; decide

def slashParent : Defs := ⟨none, [.mk (.st ['/']) [.mk (.st ['a']) []]]⟩
def slashParam : Defs := ⟨none, [.mk (.st ['/']) [.mk (.param ['i', 'd']) []]]⟩

/-- F-C14-2: parent `"/"` with a child: the router matches `/a` (and `//a`), the registered pattern
is `//a`; since fix-c14-2 the same holds for a param child (`/aé` gives `id = "aé"`, it used to panic) -/
theorem C14_slash_parent_witness :
    matchRoute .cur slashParent ['/', 'a'] = .some ⟨[(0, ['/']), (0, ['a'])], []⟩ ∧
    patternTokens [.st ['/'], .st ['a']] = some [.lit [], .lit ['a']] ∧
    judge slashParent ['/', 'a'] (matchRoute .cur slashParent ['/', 'a']) = some .routerOnly ∧
    Holds slashParent ['/', '/', 'a'] ∧
    classify slashParent ['/', 'a'] .routerOnly = .slashParent ∧ slashParent.wf = true ∧
    matchRoute .cur slashParam ['/', 'a', 'é'] = .some ⟨[(0, ['/']), (0, ['a', 'é'])], [(['i', 'd'], ['a', 'é'])]⟩ ∧
    classify slashParam ['/', 'a', 'é'] .routerOnly = .slashParent := by decide

def optOrder : Defs := ⟨none, [.mk (.tup [.opt ['a'], .st ['b'], .opt ['c']]) []]⟩

/-- F-C14-6: two optionals in one tuple: `/b/x` is registered (`[b, :c]`) and never matched -/
theorem C14_optional_backoff_order_witness :
    matchRoute .cur optOrder ['/', 'b', '/', 'x'] = .none ∧
    flatMatchStrict [.st ['b'], .param ['c']] ['/', 'b', '/', 'x'] = some [(['c'], ['x'])] ∧
    judge optOrder ['/', 'b', '/', 'x'] .none = some .flatOnly ∧
    classify optOrder ['/', 'b', '/', 'x'] .flatOnly = .optionalBackoffOrder ∧ optOrder.wf = true := by decide

def optParams : Defs := ⟨none, [.mk (.opt ['a']) [.mk (.st ['b']) [.mk (.st ['c']) []]]]⟩

/-- F-C14-7: the optional fallback re-parses the parent's params on the wrong string: `/b/c` yields `a = "b"` -/
theorem C14_optional_fallback_params_witness :
    matchRoute .cur optParams ['/', 'b', '/', 'c'] =
      .some ⟨[(0, ['/', 'b']), (0, ['/', 'b']), (0, ['/', 'c'])], [(['a'], ['b'])]⟩ ∧
    judge optParams ['/', 'b', '/', 'c'] (matchRoute .cur optParams ['/', 'b', '/', 'c']) = some .params ∧
    classify optParams ['/', 'b', '/', 'c'] .params = .optionalFallbackParams ∧ optParams.wf = true := by decide

def optOver : Defs :=
  ⟨none, [.mk (.tup [.param ['p'], .opt ['o']]) [.mk (.st ['x']) [.mk (.opt ['q']) []]]]⟩

/-- F-C14-9: the optional fallback with a mandatory param in the parent consumes the path twice: `/x/a` -/
theorem C14_optional_fallback_overmatch_witness :
    matchRoute .cur optOver ['/', 'x', '/', 'a'] =
      .some ⟨[(0, ['/', 'x', '/', 'a']), (0, ['/', 'x']), (0, ['/', 'a'])],
        [(['p'], ['x']), (['o'], ['a']), (['q'], ['a'])]⟩ ∧
    judge optOver ['/', 'x', '/', 'a'] (matchRoute .cur optOver ['/', 'x', '/', 'a']) = some .routerOnly ∧
    classify optOver ['/', 'x', '/', 'a'] .routerOnly = .optionalFallbackOvermatch ∧ optOver.wf = true := by decide

def optInner : Defs :=
  ⟨none, [.mk (.tup [.tup [.opt ['a'], .st ['b']], .st ['c'], .st ['b']]) []]⟩

/-- F-C14-10: an inner tuple with an optional is skipped as a whole by the outer back-off: `/c/b`
matches `((:a?, b), c, b)` although the registered routes are `[:a, b, c, b]` and `[b, c, b]` -/
theorem C14_nested_optional_tuple_witness :
    matchRoute .cur optInner ['/', 'c', '/', 'b'] = .some ⟨[(0, ['/', 'c', '/', 'b'])], []⟩ ∧
    judge optInner ['/', 'c', '/', 'b'] (matchRoute .cur optInner ['/', 'c', '/', 'b']) = some .routerOnly ∧
    classify optInner ['/', 'c', '/', 'b'] .routerOnly = .nestedOptionalTuple ∧ optInner.wf = true := by decide

/-! ### regression witnesses: what the router did before the repairs (`.old`) and does now (`.cur`) -/

def fooBar : Defs := ⟨none, [.mk (.st ['f', 'o', 'o']) [.mk (.st ['b', 'a', 'r']) []]]⟩
def pFoobar : Path := ['/', 'f', 'o', 'o', 'b', 'a', 'r']

/-- F-C14-1 (repaired by fix-c14-1): `/foobar` used to be matched by `/foo` → `/bar`, while the table
has the single route `[foo, bar]`, which does not accept it; now it is not matched -/
theorem C14_static_prefix_witness :
    matchRoute .old fooBar pFoobar = .some ⟨[(0, ['/', 'f', 'o', 'o']), (0, ['b', 'a', 'r'])], []⟩ ∧
    flatRoutes fooBar = [[.st ['f', 'o', 'o'], .st ['b', 'a', 'r']]] ∧
    flatMatch [.st ['f', 'o', 'o'], .st ['b', 'a', 'r']] pFoobar = none ∧
    judge fooBar pFoobar (matchRoute .old fooBar pFoobar) = some .routerOnly ∧
    matchRoute .cur fooBar pFoobar = .none ∧ Holds fooBar pFoobar ∧ fooBar.wf = true := by decide

/-- the same through a tuple -/
theorem C14_static_prefix_tuple_witness :
    (Seg.tup [.st ['f', 'o', 'o'], .st ['b', 'a', 'r']]).test .old pFoobar = .some ⟨pFoobar, [], []⟩ ∧
    (Seg.tup [.st ['f', 'o', 'o'], .st ['b', 'a', 'r']]).test .cur pFoobar = .none := by decide

def staticParam : Defs := ⟨none, [.mk (.tup [.st ['a'], .param ['i', 'd']]) []]⟩

/-- F-C14-3 (repaired by fix-c14-1 and fix-c14-2): a param segment tested in the middle of a path
segment used to slice inside a multi-byte character: `/aéa` with `(a, :id)`, `/aé` with `"/"` → `:id`,
`ParamSegment::test("éa")`; none of them panics any more -/
theorem C14_unaligned_panic_witness :
    matchRoute .old staticParam ['/', 'a', 'é', 'a'] = .panic ∧
    matchRoute .old slashParam ['/', 'a', 'é'] = .panic ∧
    paramTest false ['i', 'd'] ['é', 'a'] = .panic ∧
    paramTest false ['i', 'd'] ['f', 'o', 'o'] = .some ⟨['f', 'o'], ['o'], [(['i', 'd'], ['f', 'o'])]⟩ ∧
    matchRoute .cur staticParam ['/', 'a', 'é', 'a'] = .none ∧ Holds staticParam ['/', 'a', 'é', 'a'] ∧
    matchRoute .cur slashParam ['/', 'a', 'é'] ≠ .panic ∧
    paramTest true ['i', 'd'] ['é', 'a'] = .some ⟨['é', 'a'], [], [(['i', 'd'], ['é', 'a'])]⟩ ∧
    paramTest true ['i', 'd'] ['f', 'o', 'o'] = .some ⟨['f', 'o', 'o'], [], [(['i', 'd'], ['f', 'o', 'o'])]⟩ := by
  decide

def baseAB : Defs := ⟨some ['/', 'a'], [.mk (.st ['b']) []]⟩

/-- F-C14-4 (repaired by fix-c14-3): with a base starting with `/` all leading slashes of the path
were trimmed (`//a/b` matched) and the base could end inside a segment (`/ab` matched) -/
theorem C14_base_slashes_witness :
    matchRoute .old baseAB ['/', '/', 'a', '/', 'b'] = .some ⟨[(0, ['/', 'b'])], []⟩ ∧
    judge baseAB ['/', '/', 'a', '/', 'b'] (matchRoute .old baseAB ['/', '/', 'a', '/', 'b']) = some .routerOnly ∧
    matchRoute .old baseAB ['/', 'a', 'b'] = .some ⟨[(0, ['b'])], []⟩ ∧
    matchRoute .cur baseAB ['/', '/', 'a', '/', 'b'] = .none ∧ Holds baseAB ['/', '/', 'a', '/', 'b'] ∧
    matchRoute .cur baseAB ['/', 'a', 'b'] = .none ∧ Holds baseAB ['/', 'a', 'b'] ∧
    matchRoute .cur baseAB ['/', 'a', '/', 'b'] = .some ⟨[(0, ['/', 'b'])], []⟩ ∧ baseAB.wf = true := by decide

def optUnwrap : Defs := ⟨none, [.mk (.tup [.st ['a'], .opt ['r']]) [.mk (.st ['a']) []]]⟩

/-- F-C14-8 (repaired by fix-c14-4): the optional fallback unwrapped `None`: `/a` panicked for
`/a/:r?` → `/a` (ASCII only, well-formed); now it is a non-match, as the table says -/
theorem C14_optional_fallback_unwrap_witness :
    matchRoute .old optUnwrap ['/', 'a'] = .panic ∧
    matchRoute .cur optUnwrap ['/', 'a'] = .none ∧ Holds optUnwrap ['/', 'a'] ∧ optUnwrap.wf = true := by decide

/-! ### the partial theorem -/

mutual
def Route.noOptional : Route → Bool
  | .mk segs children => !segs.optional && noOptionalList children
def noOptionalList : List Route → Bool
  | [] => true
  | c :: cs => c.noOptional && noOptionalList cs
end

/-- **match ⇔ flat, general partial statement — OPEN** (not proved).  Every divergence found on the
real router lies outside it (`¬SegmentAligned` — after the repairs only a `"/"` segment followed by
more, F-C14-2 — or an optional param somewhere); the correspondence run evaluates `Holds` on every
generated case and reports any failure outside the listed classes. -/
def C14_match_iff_flat_partial_general : Prop :=
  ∀ (d : Defs) (path : Path), d.wf = true → startsSlash path = true → noOptionalList d.tops = true →
    SegmentAligned d path → Holds d path

/-! ## the partial theorem, proved for the simple sub-class -/

/-- segment-wise matcher for the simple sub-class, on characters: every segment consumes `/` + one
whole `/`-separated token; at the end nothing or a single `/` may be left -/
def simpleMatch : List FSeg → Path → Option Params
  | [], r => if complete r then some [] else none
  | _ :: _, [] => none
  | f :: fs, c :: t =>
    if c = '/' then
      match f with
      | .st s => if segHead t = s then simpleMatch fs (segTail t) else none
      | .param n => if segHead t = [] then none else (simpleMatch fs (segTail t)).map ((n, segHead t) :: ·)
      | _ => none
    else none

/-- what a pass of the tuple loop amounts to for a leaf route -/
def passOut : Pass → Out Params
  | .done r _ p => if complete r then .some p else .none
  | .panic => .panic
  | _ => .none

def liftP (p : Params) : Option Params → Out Params
  | some q => .some (p ++ q)
  | none => .none

theorem paramTest_nil (fx : Bool) (n : Path) : paramTest fx n [] = .none := by
  simp [paramTest, paramScan]

/-- **core of the partial theorem**: one pass of the tuple loop of the repaired code (`k.fixed`) over
simple segments, started at a segment boundary, is the segment-wise matcher -/
theorem pass_simple (k : Ver) (hk : k.fixed = true) : ∀ (fs : List FSeg), (∀ f ∈ fs, SimpleF f) →
    ∀ (first : Bool) (nth : Nat) (r : Path) (ml : Nat) (p : Params), Aligned r →
      passOut (passFields k (fs.map toSeg) first 0 nth r ml p) = liftP p (simpleMatch fs r) := by
  intro fs
  induction fs with
  | nil =>
    intro _ first nth r ml p _
    simp only [List.map_nil, passFields, passOut, simpleMatch]
    split <;> simp [liftP]
  | cons f fs ih =>
    intro hs first nth r ml p hr
    have hf := hs f (by simp)
    have hs' : ∀ f ∈ fs, SimpleF f := fun x hx => hs x (by simp [hx])
    cases r with
    | nil =>
      cases f with
      | st s =>
        simp [passFields, toSeg, Seg.optional, Seg.test, startOk, staticTest_nil _ s hf, simpleMatch, liftP]
        cases first <;> simp [passOut]
      | param n =>
        simp [passFields, toSeg, Seg.optional, Seg.test, startOk, paramTest_nil, simpleMatch, liftP]
        cases first <;> simp [passOut]
      | opt n => simp [SimpleF] at hf
      | splat n => simp [SimpleF] at hf
    | cons c t =>
      have hc : c = '/' := by
        rcases hr with h | h
        · simp at h
        · simpa [startsSlash] using h
      subst hc
      cases f with
      | st s =>
        have hpl : Plain s := hf
        have hst := C14_static_is_whole_segment s t hpl
        simp only [List.map_cons, toSeg, passFields, Seg.optional, Bool.false_eq_true, if_false, Bool.not_false,
          Bool.true_or, if_true, Seg.test, startOk, startsSlash, decide_true, Bool.or_true, hk, hst, simpleMatch]
        by_cases he : segHead t = s
        · simp only [he, if_true, List.append_nil]
          rw [ih hs' _ _ _ _ _ (segTail_aligned t)]
        · simp [he, liftP]
          cases first <;> simp [passOut]
      | param n =>
        simp only [List.map_cons, toSeg, passFields, Seg.optional, Bool.false_eq_true, if_false, Bool.not_false,
          Bool.true_or, if_true, Seg.test, startOk, startsSlash, decide_true, Bool.or_true,
          paramTest_slash, simpleMatch]
        by_cases he : segHead t = []
        · simp [he, liftP]
          cases first <;> simp [passOut]
        · simp only [he, if_false]
          rw [ih hs' _ _ _ _ _ (segTail_aligned t)]
          cases simpleMatch fs (segTail t) <;> simp [liftP]
      | opt n => simp [SimpleF] at hf
      | splat n => simp [SimpleF] at hf

/-- the tuple test of an optional-free, non-empty segment list is one pass with `include_optionals = 0` -/
theorem tup_pass (k : Ver) (fs : List FSeg) (hs : ∀ f ∈ fs, SimpleF f) (hne : fs ≠ []) (path : Path) :
    (Seg.tup (fs.map toSeg)).test k path =
      match passFields k (fs.map toSeg) true 0 0 path 0 [] with
      | .done r ml p =>
        (match splitBytes path ml with
         | some (pre, _) => .some ⟨pre, r, p⟩
         | none => .panic)
      | .panic => .panic
      | _ => .none := by
  match fs, hs, hne with
  | [f], hs, _ =>
    have ho := toSeg_optional (hs f (by simp))
    simp only [List.map_cons, List.map_nil, Seg.test, passFields, ho, Bool.not_false, Bool.true_or, if_true,
      Bool.false_eq_true, if_false]
    cases (toSeg f).test k path <;> simp
    cases splitBytes path (bytes _) <;> rfl
  | f :: g :: fs, hs, _ =>
    have hc := countOpt_simple (f :: g :: fs) hs
    simp only [List.map_cons] at hc
    simp only [List.map_cons, Seg.test, hc, backoff]
    cases passFields k (toSeg f :: toSeg g :: List.map toSeg fs) true 0 0 path 0 [] <;> rfl

/-- **router ≡ segment-wise matcher** on the simple sub-class (aligned variant): never a panic; a match
exactly when `simpleMatch` accepts, with the same params, as definition 0 -/
theorem leaf_simple (k : Ver) (hk : k.fixed = true) (fs : List FSeg) (hs : ∀ f ∈ fs, SimpleF f) (hne : fs ≠ [])
    (path : Path) (hp : startsSlash path = true) :
    ∃ mt, matchRoute k (leafDefs fs) path =
      match simpleMatch fs path with
      | some q => .some ⟨[(0, mt)], q⟩
      | none => .none := by
  have hps := pass_simple k hk fs hs true 0 path 0 [] (Or.inr hp)
  have htp := tup_pass k fs hs hne path
  cases hpf : passFields k (fs.map toSeg) true 0 0 path 0 [] with
  | done r ml p =>
    obtain ⟨c, hc1, hc2⟩ := pass_inv k (fs.map toSeg) true 0 0 path 0 [] path [] r ml p (by simp) (by simp [bytes]) hpf
    have hsp : splitBytes path ml = some (c, r) := by
      have := splitBytes_bytes c r
      rw [hc1, hc2] at this; exact this
    rw [hpf] at htp hps
    simp only [hsp] at htp
    simp only [passOut] at hps
    refine ⟨c, ?_⟩
    by_cases hcomp : complete r = true
    · simp only [hcomp, if_true] at hps
      cases hsm : simpleMatch fs path with
      | none => simp [hsm, liftP] at hps
      | some q =>
        simp [hsm, liftP] at hps
        subst hps
        simp [matchRoute, leafDefs, stripBase, matchChildren, matchNested, htp, finish, hcomp]
    · simp only [hcomp] at hps
      cases hsm : simpleMatch fs path with
      | some q => simp [hsm, liftP] at hps
      | none => simp [matchRoute, leafDefs, stripBase, matchChildren, matchNested, htp, finish, hcomp]
  | panic =>
    rw [hpf] at hps
    cases hsm : simpleMatch fs path <;> simp [hsm, liftP, passOut] at hps
  | fail =>
    rw [hpf] at htp hps
    cases hsm : simpleMatch fs path with
    | some q => simp [hsm, liftP, passOut] at hps
    | none => exact ⟨[], by simp [matchRoute, leafDefs, stripBase, matchChildren, matchNested, htp]⟩
  | retry =>
    rw [hpf] at htp hps
    cases hsm : simpleMatch fs path with
    | some q => simp [hsm, liftP, passOut] at hps
    | none => exact ⟨[], by simp [matchRoute, leafDefs, stripBase, matchChildren, matchNested, htp]⟩





/-! ### the registered pattern of a simple route -/

def tokOf : FSeg → Tok
  | .st s => .lit s
  | .param n => .par n
  | .opt _ => .bad
  | .splat n => .spl n

/-- simple segment with a usable parameter name (non-empty, no `/`) -/
def SimpleN : FSeg → Prop
  | .st s => Plain s
  | .param n => Plain n
  | _ => False

instance : DecidablePred SimpleN := fun f => by cases f <;> unfold SimpleN <;> exact inferInstance

theorem SimpleN.simple {f : FSeg} (h : SimpleN f) : SimpleF f := by
  cases f <;> simp [SimpleN] at h <;> simp [SimpleF, h]

def bodyP : FSeg → List PChar
  | .st s => s.map PChar.lit
  | .param n => [PChar.par n]
  | .splat n => [PChar.spl n]
  | .opt _ => []

theorem joinAxum_cons (f : FSeg) (fs : List FSeg) (h : SimpleN f) :
    joinAxum (f :: fs) = PChar.lit '/' :: (bodyP f ++ joinAxum fs) := by
  cases f with
  | st s =>
    obtain ⟨hne, hns⟩ : Plain s := h
    have he : s.isEmpty = false := by cases s <;> simp at hne ⊢
    simp [joinAxum, FSeg.raw, he, plain_not_startsSlash hns, bodyP]
  | param n =>
    obtain ⟨hne, hns⟩ : Plain n := h
    have he : n.isEmpty = false := by cases n <;> simp at hne ⊢
    simp [joinAxum, FSeg.raw, he, plain_not_startsSlash hns, bodyP]
  | opt n => simp [SimpleN] at h
  | splat n => simp [SimpleN] at h

theorem splitP_ne (l : List PChar) : splitP l ≠ [] := by
  cases l with
  | nil => simp [splitP]
  | cons c cs =>
    simp only [splitP]
    cases splitP cs with
    | nil => simp
    | cons h t => by_cases hc : c = PChar.lit '/' <;> simp [hc]

theorem splitP_free (l : List PChar) (h : PChar.lit '/' ∉ l) : splitP l = [l] := by
  induction l with
  | nil => simp [splitP]
  | cons c cs ih =>
    have hc : c ≠ PChar.lit '/' := by intro e; apply h; simp [e]
    have hcs : PChar.lit '/' ∉ cs := by intro e; apply h; simp [e]
    simp [splitP, ih hcs, hc]

theorem splitP_append_sep (l r : List PChar) (h : PChar.lit '/' ∉ l) :
    splitP (l ++ PChar.lit '/' :: r) = l :: splitP r := by
  induction l with
  | nil =>
    simp only [List.nil_append, splitP]
    cases hs : splitP r with
    | nil => exact absurd hs (splitP_ne r)
    | cons a b => simp
  | cons c cs ih =>
    have hc : c ≠ PChar.lit '/' := by intro e; apply h; simp [e]
    have hcs : PChar.lit '/' ∉ cs := by intro e; apply h; simp [e]
    simp [splitP, ih hcs, hc]

theorem bodyP_free (f : FSeg) (h : SimpleN f) : PChar.lit '/' ∉ bodyP f := by
  cases f with
  | st s =>
    obtain ⟨_, hns⟩ : Plain s := h
    simp [bodyP]; exact hns
  | param n => simp [bodyP]
  | opt n => simp [SimpleN] at h
  | splat n => simp [SimpleN] at h

theorem litsOf_map (s : Path) : litsOf (s.map PChar.lit) = some s := by
  induction s with
  | nil => rfl
  | cons c s ih => simp [litsOf, ih]

theorem toTok_body (f : FSeg) (h : SimpleN f) : toTok (bodyP f) = tokOf f := by
  cases f with
  | st s =>
    obtain ⟨hne, _⟩ : Plain s := h
    cases s with
    | nil => simp at hne
    | cons c r =>
      cases r with
      | nil => simp [bodyP, toTok, litsOf, tokOf]
      | cons d r => simp [bodyP, toTok, litsOf, litsOf_map, tokOf]
  | param n => simp [bodyP, toTok, tokOf]
  | opt n => simp [SimpleN] at h
  | splat n => simp [SimpleN] at h

theorem splitP_join (f : FSeg) (fs : List FSeg) (hf : SimpleN f) (hs : ∀ g ∈ fs, SimpleN g) :
    splitP (bodyP f ++ joinAxum fs) = (f :: fs).map bodyP := by
  induction fs generalizing f with
  | nil => simp [joinAxum, splitP_free _ (bodyP_free f hf)]
  | cons g fs ih =>
    rw [joinAxum_cons g fs (hs g (by simp)), splitP_append_sep _ _ (bodyP_free f hf),
      ih g (hs g (by simp)) (fun x hx => hs x (by simp [hx]))]
    simp

/-- the registered pattern of a simple route is its segments, one token each -/
theorem patternTokens_simple (fs : List FSeg) (hs : ∀ g ∈ fs, SimpleN g) (hne : fs ≠ []) :
    patternTokens fs = some (fs.map tokOf) := by
  cases fs with
  | nil => simp at hne
  | cons f fs =>
    have hf := hs f (by simp)
    have hs' : ∀ g ∈ fs, SimpleN g := fun x hx => hs x (by simp [hx])
    unfold patternTokens
    rw [joinAxum_cons f fs hf]
    simp only [if_true]
    rw [splitP_join f fs hf hs']
    congr 1
    simp only [List.map_map]
    apply List.map_congr_left
    intro g hg
    exact toTok_body g (hs g hg)







/-! ### segment-wise matcher = token matcher -/

def orE {α : Type} : Option α → Option α → Option α
  | some a, _ => some a
  | none, b => b

def checkTok (f : FSeg) (h : Path) (X : Option Params) : Option Params :=
  match f with
  | .st s => if s = h then X else none
  | .param n => if h.isEmpty then none else X.map ((n, h) :: ·)
  | _ => none

theorem check_none (f : FSeg) (h : Path) : checkTok f h none = none := by
  cases f <;> simp [checkTok]

theorem check_orE (f : FSeg) (h : Path) (A B : Option Params) :
    checkTok f h (orE A B) = orE (checkTok f h A) (checkTok f h B) := by
  cases f with
  | st s => by_cases e : s = h <;> simp [checkTok, e, orE]
  | param n => cases hh : h.isEmpty <;> cases A <;> simp [checkTok, hh, orE]
  | opt n => simp [checkTok, orE]
  | splat n => simp [checkTok, orE]

theorem sm_cons (f : FSeg) (fs : List FSeg) (t : Path) (hf : SimpleN f) :
    simpleMatch (f :: fs) ('/' :: t) = checkTok f (segHead t) (simpleMatch fs (segTail t)) := by
  cases f with
  | st s => simp [simpleMatch, checkTok, eq_comm]
  | param n =>
    simp only [simpleMatch, checkTok, if_true]
    cases hh : segHead t <;> simp
  | opt n => simp [SimpleN] at hf
  | splat n => simp [SimpleN] at hf

theorem tm_cons (f : FSeg) (toks : List Tok) (h : Path) (ts : List Path) (hf : SimpleN f) :
    tokMatch (tokOf f :: toks) (h :: ts) = checkTok f h (tokMatch toks ts) := by
  cases f with
  | st s => simp [tokOf, tokMatch, checkTok]
  | param n => simp [tokOf, tokMatch, checkTok]
  | opt n => simp [SimpleN] at hf
  | splat n => simp [SimpleN] at hf

theorem tm_cons_nil (f : FSeg) (toks : List Tok) (hf : SimpleN f) : tokMatch (tokOf f :: toks) [] = none := by
  cases f with
  | st s => simp [tokOf, tokMatch]
  | param n => simp [tokOf, tokMatch]
  | opt n => simp [SimpleN] at hf
  | splat n => simp [SimpleN] at hf

theorem tm_nil (ts : List Path) : tokMatch [] ts = if ts = [] then some [] else none := by
  cases ts <;> simp [tokMatch]

theorem splitSlash_ne (l : Path) : splitSlash l ≠ [] := by
  cases l with
  | nil => simp [splitSlash]
  | cons c cs =>
    simp only [splitSlash]
    cases splitSlash cs with
    | nil => simp
    | cons h t => by_cases hc : c = '/' <;> simp [hc]

theorem splitSlash_unfold (t : Path) :
    splitSlash t = match segTail t with
      | [] => [segHead t]
      | _ :: r => segHead t :: splitSlash r := by
  induction t with
  | nil => simp [splitSlash, segHead, segTail]
  | cons c t ih =>
    by_cases hc : c = '/'
    · subst hc
      simp only [splitSlash, segHead, segTail]
      cases hs : splitSlash t with
      | nil => exact absurd hs (splitSlash_ne t)
      | cons a b => simp [hs]
    · simp only [splitSlash]
      cases hs : splitSlash t with
      | nil => exact absurd hs (splitSlash_ne t)
      | cons a b =>
        rw [hs] at ih
        have h1 : segHead (c :: t) = c :: segHead t := by simp [segHead, hc]
        have h2 : segTail (c :: t) = segTail t := by simp [segTail, hc]
        rw [h1, h2]
        cases hst : segTail t with
        | nil => rw [hst] at ih; simp at ih; simp [hc, ih]
        | cons d r => rw [hst] at ih; simp at ih; simp [hc, ih]

theorem endsSlash_cons (c : Char) (t : Path) : endsSlash (c :: t) = if t.isEmpty then decide (c = '/') else endsSlash t := by
  cases t <;> simp [endsSlash]

theorem endsSlash_of_segTail_nil (t : Path) (h : segTail t = []) : endsSlash t = false := by
  induction t with
  | nil => rfl
  | cons c t ih =>
    by_cases hc : c = '/'
    · simp [segTail, hc] at h
    · have h2 : segTail t = [] := by simpa [segTail, hc] using h
      rw [endsSlash_cons]
      cases t with
      | nil => simp [hc]
      | cons d t => simp; exact ih h2

theorem endsSlash_of_segTail_cons (t : Path) (c : Char) (r : Path) (h : segTail t = c :: r) :
    endsSlash t = (r.isEmpty || endsSlash r) := by
  induction t with
  | nil => simp [segTail] at h
  | cons d t ih =>
    by_cases hd : d = '/'
    · subst hd
      simp [segTail] at h
      obtain ⟨_, rfl⟩ := h
      rw [endsSlash_cons]
      cases t <;> simp
    · have h2 : segTail t = c :: r := by simpa [segTail, hd] using h
      rw [endsSlash_cons]
      cases t with
      | nil => simp [segTail] at h2
      | cons e t => simp; exact ih h2

theorem dropLast_ne_of_endsSlash (r : Path) (h : endsSlash r = true) : (splitSlash r).dropLast ≠ [] := by
  cases hst : segTail r with
  | nil => rw [endsSlash_of_segTail_nil r hst] at h; simp at h
  | cons c r' =>
    rw [splitSlash_unfold, hst]
    simp only
    rw [List.dropLast_cons_of_ne_nil (splitSlash_ne r')]
    simp

theorem complete_slash (r : Path) : complete ('/' :: r) = r.isEmpty := by
  cases r <;> simp [complete]

/-- strict match, or the same without the last token when the path ends in `/` (the shape of `flatMatch`) -/
def lenient (toks : List Tok) (t : Path) : Option Params :=
  orE (tokMatch toks (splitSlash t))
    (if t.isEmpty = false ∧ endsSlash t = true then tokMatch toks (splitSlash t).dropLast else none)

theorem simple_eq_lenient : ∀ (fs : List FSeg), (∀ g ∈ fs, SimpleN g) → fs ≠ [] → ∀ t : Path,
    simpleMatch fs ('/' :: t) = lenient (fs.map tokOf) t := by
  intro fs
  induction fs with
  | nil => intro _ h; exact absurd rfl h
  | cons f fs ih =>
    intro hs _ t
    have hf := hs f (by simp)
    have hs' : ∀ g ∈ fs, SimpleN g := fun x hx => hs x (by simp [hx])
    rw [sm_cons f fs t hf]
    unfold lenient
    rw [splitSlash_unfold t]
    cases hst : segTail t with
    | nil =>
      simp only [endsSlash_of_segTail_nil t hst, Bool.false_eq_true, and_false, if_false, List.map_cons]
      rw [tm_cons f _ _ _ hf]
      cases fs with
      | nil => simp [simpleMatch, complete, tokMatch, orE]; cases checkTok f (segHead t) (some []) <;> rfl
      | cons g fs' =>
        simp only [List.map_cons]
        rw [tm_cons_nil g _ (hs' g (by simp))]
        simp [simpleMatch, check_none, orE]
    | cons c r =>
      have hc : c = '/' := by
        have := segTail_aligned t
        rw [hst] at this
        simpa [startsSlash] using this
      subst hc
      have htne : t.isEmpty = false := by
        cases t with
        | nil => simp [segTail] at hst
        | cons _ _ => rfl
      simp only [htne, endsSlash_of_segTail_cons t '/' r hst, true_and, List.map_cons,
        List.dropLast_cons_of_ne_nil (splitSlash_ne r)]
      rw [tm_cons f _ _ _ hf, tm_cons f _ _ _ hf]
      cases fs with
      | nil =>
        simp only [List.map_nil, simpleMatch, complete_slash, tm_nil]
        have hne := splitSlash_ne r
        simp only [hne, if_false, check_none]
        cases r with
        | nil => simp [splitSlash, orE]
        | cons d r' =>
          simp only [List.isEmpty_cons, Bool.false_or, Bool.false_eq_true, if_false, check_none]
          cases he : endsSlash (d :: r') with
          | false => simp [orE]
          | true =>
            have := dropLast_ne_of_endsSlash (d :: r') he
            simp [this, check_none, orE]
      | cons g fs' =>
        rw [ih hs' (by simp) r]
        unfold lenient
        rw [check_orE]
        congr 1
        cases r with
        | nil =>
          simp only [List.isEmpty_nil, Bool.true_or, if_true, splitSlash, List.dropLast_singleton, List.map_cons]
          rw [tm_cons_nil g _ (hs' g (by simp))]
          simp [check_none]
        | cons d r' =>
          simp only [List.isEmpty_cons, Bool.false_or, true_and]
          cases endsSlash (d :: r') <;> simp [check_none]









theorem flatMatch_lenient (fs : List FSeg) (hs : ∀ g ∈ fs, SimpleN g) (hne : fs ≠ []) (t : Path) :
    flatMatch fs ('/' :: t) = lenient (fs.map tokOf) t := by
  unfold flatMatch flatMatchStrict flatMatchTrim lenient
  rw [patternTokens_simple fs hs hne]
  simp only [if_true, true_and]
  cases tokMatch (fs.map tokOf) (splitSlash t) with
  | some p => simp [orE]
  | none =>
    simp only [orE]
    cases t.isEmpty <;> cases endsSlash t <;> simp

theorem gen_toSeg (fs : List FSeg) : genSegs (fs.map toSeg) = fs := by
  induction fs with
  | nil => rfl
  | cons f fs ih => cases f <;> simp [genSegs, toSeg, Seg.gen, ih]

theorem simple_noOpt (fs : List FSeg) (hs : ∀ g ∈ fs, SimpleN g) : firstOpt fs = none := by
  induction fs with
  | nil => rfl
  | cons f fs ih =>
    have hf := hs f (by simp)
    have := ih (fun x hx => hs x (by simp [hx]))
    cases f <;> simp [SimpleN] at hf <;> simp [firstOpt, this]

theorem expandedPerDef_leaf (fs : List FSeg) (hs : ∀ g ∈ fs, SimpleN g) :
    expandedPerDef (leafDefs fs) = [[fs]] := by
  have h1 := (firstOpt_none (simple_noOpt fs hs)).2
  simp [expandedPerDef, leafDefs, Route.gen, Seg.gen, gen_toSeg, withBase, expandOptionals_eq_spec, h1]

/-- **match ⇔ flat, partial (proved) — now without `SegmentAligned`**: for single leaf routes whose
segments are plain statics and params and for *every* request path, the router (after fix-c14-1/2) does
not panic, matches exactly when the registered flat route accepts the path (one trailing `/`
tolerated), and yields the params the flat route yields.  (For the code before fix-c14-1 this needed the
hypothesis `SegmentAligned`; `C14_static_prefix_witness` and `C14_unaligned_panic_witness` are the inputs
that violated it.) -/
theorem C14_match_iff_flat_partial (fs : List FSeg) (hs : ∀ g ∈ fs, SimpleN g) (hne : fs ≠ []) (path : Path)
    (hp : startsSlash path = true) :
    ∃ mt, matchRoute .cur (leafDefs fs) path =
      match flatMatch fs path with
      | some q => .some ⟨[(0, mt)], q⟩
      | none => .none := by
  obtain ⟨mt, hmt⟩ := leaf_simple .cur rfl fs (fun f hf => (hs f hf).simple) hne path hp
  refine ⟨mt, ?_⟩
  rw [hmt]
  cases path with
  | nil => simp [startsSlash] at hp
  | cons c t =>
    simp [startsSlash] at hp
    subst hp
    rw [flatMatch_lenient fs hs hne t, simple_eq_lenient fs hs hne t]

/-- … hence the property's oracle accepts (`Holds`, the body of the full statement) -/
theorem C14_match_iff_flat_partial_holds (fs : List FSeg) (hs : ∀ g ∈ fs, SimpleN g) (hne : fs ≠ []) (path : Path)
    (hp : startsSlash path = true) : Holds (leafDefs fs) path := by
  obtain ⟨mt, hmt⟩ := C14_match_iff_flat_partial fs hs hne path hp
  unfold Holds
  rw [hmt]
  unfold judge
  simp only [expandedPerDef_leaf fs hs, firstStrict, anyStrict, List.any_cons, List.any_nil, Bool.or_false]
  unfold flatMatch at *
  cases hst : flatMatchStrict fs path with
  | some q =>
    simp [hst, lenientParams]
  | none =>
    simp only
    cases htr : flatMatchTrim fs path with
    | some q => simp [lenientParams, hst, htr]
    | none => simp

/-- the aligned variant agrees on this fragment as well (so `SegmentAligned` is no restriction here:
both sides accept exactly the paths `flatMatch` accepts, with its params) -/
theorem C14_simple_aligned_agrees (fs : List FSeg) (hs : ∀ g ∈ fs, SimpleN g) (hne : fs ≠ []) (path : Path)
    (hp : startsSlash path = true) :
    ∃ mt, matchRoute .aligned (leafDefs fs) path =
      match flatMatch fs path with
      | some q => .some ⟨[(0, mt)], q⟩
      | none => .none := by
  obtain ⟨mt, hmt⟩ := leaf_simple .aligned rfl fs (fun f hf => (hs f hf).simple) hne path hp
  refine ⟨mt, ?_⟩
  rw [hmt]
  cases path with
  | nil => simp [startsSlash] at hp
  | cons c t =>
    simp [startsSlash] at hp
    subst hp
    rw [flatMatch_lenient fs hs hne t, simple_eq_lenient fs hs hne t]

/-! ## non-vacuity: every hypothesis above is satisfiable (and the conclusions are not trivially empty) -/

-- C14_partition: a nested tuple with an optional that is backed off
example : (Seg.tup [.tup [], .opt ['a'], .tup [.st ['b']]]).test .cur ['/', 'b', '/'] = .some ⟨['/', 'b'], ['/'], []⟩ := by
  decide

-- C14_partition_nested: `hasOptParent = false` on a nested route that matches
example : (Route.mk (.st ['a']) [.mk (.param ['i']) []]).hasOptParent = false ∧
    matchNested .cur (.mk (.st ['a']) [.mk (.param ['i']) []]) 0 ['/', 'a', '/', 'x'] =
      .some ⟨[(0, ['/', 'a']), (0, ['/', 'x'])], [(['i'], ['x'])]⟩ [] := by decide

-- C14_params_are_segments: both branches occur
example : segHead ['x', 'y', '/', 'z'] = ['x', 'y'] ∧ segHead ['/', 'z'] = [] := by decide

-- C14_match_iff_flat_full / _partial_general: a well-formed table, a request path, aligned, no optionals
example : fooBar.wf = true ∧ startsSlash ['/', 'f', 'o', 'o', '/', 'b', 'a', 'r'] = true ∧
    noOptionalList fooBar.tops = true ∧ SegmentAligned fooBar ['/', 'f', 'o', 'o', '/', 'b', 'a', 'r'] ∧
    Holds fooBar ['/', 'f', 'o', 'o', '/', 'b', 'a', 'r'] := by decide

-- … and `SegmentAligned` is a real restriction: it fails on the F-C14-2 input
example : ¬ SegmentAligned slashParent ['/', 'a'] := by decide

-- C14_match_iff_flat_partial: hypotheses satisfiable, with a match and with a non-match
example : (∀ g ∈ [FSeg.st ['a'], FSeg.param ['i', 'd']], SimpleN g) ∧
    flatMatch [.st ['a'], .param ['i', 'd']] ['/', 'a', '/', 'x', '/'] = some [(['i', 'd'], ['x'])] ∧
    flatMatch [.st ['a'], .param ['i', 'd']] ['/', 'a', '/', '/', 'x'] = none := by decide

-- … including the inputs that used to be outside: `/aéa` (panicked) and `/ax` (prefix match)
example : matchRoute .cur (leafDefs [.st ['a'], .param ['i', 'd']]) ['/', 'a', 'é', 'a'] = .none ∧
    matchRoute .cur (leafDefs [.st ['a'], .st ['x']]) ['/', 'a', 'x'] = .none ∧
    matchRoute .old (leafDefs [.st ['a'], .st ['x']]) ['/', 'a', 'x'] = .some ⟨[(0, ['/', 'a', 'x'])], []⟩ := by decide

-- C14_build_then_match: hypotheses satisfiable
example : (∀ f ∈ [FSeg.st ['a'], FSeg.param ['i', 'd'], FSeg.st ['é']], SimpleF f) ∧
    (∀ v ∈ [['x', '%']], GoodVal v) ∧
    buildPath [.st ['a'], .param ['i', 'd'], .st ['é']] [['x', '%']] = some ['/', 'a', '/', 'x', '%', '/', 'é'] := by
  decide

-- C14_expand_optionals on a route with two optionals: the order of the real worklist
example : expandOptionals [.opt ['a'], .opt ['b'], .st ['c']] =
    [[.param ['a'], .param ['b'], .st ['c']], [.param ['a'], .st ['c']], [.param ['b'], .st ['c']], [.st ['c']]] := by
  decide

end Leptos.Router
